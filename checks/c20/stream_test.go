package c20

import (
	"context"
	"fmt"
	"math/rand/v2"
	"os"
	"path/filepath"
	"sort"
	"strings"
	"sync"
	"sync/atomic"
	"testing"
	"time"

	"verif/internal/credx"
	"verif/internal/ev"
)

// Requests that arrive exactly as a save STARTS (round 6, gap 1, real-time part): the saving phase
// is made long (20 000-user store on a disk-backed directory: snapshot + encode + write + fsync
// take tens of milliseconds) and the saves are shutdown saves, which need no cool-down: one
// acknowledged change puts the saver into its cool-down; 2-4 senders then stream add / update /
// delete requests back to back (own names and keys each), optionally with a goroutine that keeps
// POSTing reload-users on the file nobody touched; after a few milliseconds the context is
// cancelled WHILE the streams run: the saver leaves the cool-down and starts saving at once (and
// starts one more save right behind it if a request queued a job in the meantime). The streams run
// on until 5-150 ms after the first replacement of the store file, then Stop.
//
// Oracle. Every call and Stop must return within realHangBound. Requests acknowledged before
// cancel must be in the file; requests sent after cancel may or may not be (the property is
// about changes acknowledged before shutdown begins), but the file is one snapshot: for every
// sender its part of the file must equal its model after a prefix of its requests that is at
// least as long as what it had been acknowledged when cancel was called; nothing else may differ
// from the initial store plus the first change. A fresh server must start on the file.

var recStream = ev.New("C20", "request-streams-during-shutdown-saves",
	"real time, disk-backed directory, store of N users (default 20 000): one acknowledged change (saver cooling down); 2-4 senders stream add/update/delete "+
		"back to back, in 2 of 3 trials with a goroutine POSTing reload-users on the untouched file; cancel 1-25 ms later (and once every sender has an acknowledged request) with the streams running: the shutdown save "+
		"starts at once (and a further one right behind it if a job was queued meanwhile); the streams run on until 5-150 ms after the first replacement of the store file; Stop. Bounds: every call and Stop return within 45 s "+
		"(SIG save-or-api-call-did-not-return). After Stop the file is one complete document; for each sender its names hold the sender's model after a prefix of its requests "+
		"not shorter than what was acknowledged before cancel; all other users unchanged; a fresh server starts on it and accepts sampled keys. One evaluation = one trial. "+
		"Non-trivial: at least one request was acknowledged before cancel and during at least one API call the store file was replaced (the call overlapped the save)").
	Require("api-call-overlapped-a-save", "shutdown-save-completed-with-the-streams-running", "requests-acknowledged-before-cancel", "reloads-alongside")

type streamResult struct {
	violation   string
	saves       int
	ackedBefore int
	total       int
	duringSave  int // calls during which the store file was replaced
}

func streamTrial(kl int, stores credx.Mode, n int, dir string, nsend int, preDelay, tail time.Duration, reload, restart bool, seed uint64) (res streamResult) {
	const kind = "stream-during-shutdown-saves"
	desc := map[string]any{"key_len": kl, "stores": stores, "users": n, "senders": nsend, "cancel_after_ns": preDelay, "reload": reload, "seed": seed}
	var prog progress
	path := filepath.Join(dir, "upsks.json")
	prev := bigUsers(n)
	if err := os.WriteFile(path, credx.EncodeStore(users(kl, prev), true), 0o644); err != nil {
		return streamResult{violation: "HARNESS " + err.Error()}
	}
	rig, err := credx.NewRig(path, kl, stores, nil)
	if err != nil {
		return streamResult{violation: "HARNESS start: " + err.Error()}
	}
	ctx, cancel := context.WithCancel(context.Background())
	defer cancel()
	rig.Start(ctx)
	if code := doOp(rig, kl, opSpec{"add", "alice", 1}); !is2xx(code) {
		cancel()
		rig.Stop()
		return streamResult{violation: fmt.Sprintf("HARNESS add -> %d", code)}
	}

	type sender struct {
		ops    []opSpec     // requests in the order sent (appended before the call)
		acked  atomic.Int64 // how many of them have returned 2xx
		failed string
	}
	senders := make([]*sender, nsend)
	var stop atomic.Bool
	var during atomic.Int64
	var wg sync.WaitGroup
	for g := range senders {
		s := &sender{}
		senders[g] = s
		wg.Go(func() {
			rng := rand.New(rand.NewPCG(seed, uint64(g)+1))
			state := map[string]int{}
			nextKey := 100000 * (g + 1)
			for !stop.Load() {
				name := fmt.Sprintf("s%d-%c", g, 'a'+rng.IntN(4))
				var op opSpec
				if _, ok := state[name]; !ok {
					nextKey++
					op = opSpec{"add", name, nextKey}
				} else if rng.IntN(3) == 0 {
					op = opSpec{"delete", name, 0}
				} else {
					nextKey++
					op = opSpec{"update", name, nextKey}
				}
				s.ops = append(s.ops, op)
				prog.Set("%s(%s) by sender %d (its request #%d)", op.Op, op.Name, g, len(s.ops))
				id := inodeOf(path)
				code := doOp(rig, kl, op)
				if inodeOf(path) != id {
					during.Add(1)
				}
				if !is2xx(code) {
					s.failed = fmt.Sprintf("%s(%s), request #%d of sender %d, is valid against what the sender was acknowledged so far but was answered %d", op.Op, op.Name, len(s.ops), g, code)
					return
				}
				state = applyModel(state, op)
				s.acked.Add(1)
			}
		})
	}
	var reloadBad atomic.Int64
	if reload {
		wg.Go(func() {
			for !stop.Load() {
				if code, _ := rig.Reload(); !is2xx(code) {
					reloadBad.Add(1)
				}
				time.Sleep(200 * time.Microsecond)
			}
		})
	}
	time.Sleep(preDelay)
	// on a busy machine the first requests may take longer than that: every sender has at least one
	// request acknowledged before shutdown begins (bounded wait; a stuck request shows below)
	for wait := time.Now().Add(10 * time.Second); time.Now().Before(wait); time.Sleep(200 * time.Microsecond) {
		all := true
		for _, s := range senders {
			all = all && s.acked.Load() > 0
		}
		if all {
			break
		}
	}
	lower := make([]int, nsend)
	for g, s := range senders {
		lower[g] = int(s.acked.Load())
		res.ackedBefore += lower[g]
	}
	before := inodeOf(path)
	cancel() // shutdown begins; lower[g] requests of sender g were acknowledged before
	// keep the streams running until the shutdown save has replaced the file (the saver may start a
	// further save if a job was queued meanwhile), and a little longer
	deadline := time.Now().Add(30 * time.Second)
	for last := before; time.Now().Before(deadline); time.Sleep(300 * time.Microsecond) {
		if id := inodeOf(path); id != last {
			res.saves++
			last = id
			if res.saves == 1 {
				deadline = time.Now().Add(tail)
			}
		}
	}
	stop.Store(true)
	waitGuarded(kind, desc, realHangBound, &prog, "request streams after cancel", &wg)
	guarded(kind, desc, realHangBound, &prog, "Stop after cancel", rig.Stop)
	res.duringSave = int(during.Load())

	for _, s := range senders {
		res.total += len(s.ops)
		if s.failed != "" {
			res.violation = fmt.Sprintf("SIG=C20/%s %d-user store, %d senders streaming (reloads of the untouched file alongside: %v), cancel after %v: %s",
				sigLostMidStream(reload), n, nsend, reload, preDelay, s.failed)
			return
		}
	}
	content, err := os.ReadFile(path)
	if err != nil {
		res.violation = "SIG=C20/store-not-loadable-after-stop " + err.Error()
		return
	}
	got, complete, derr := credx.DecodeStore(content, kl)
	if derr != nil || !complete {
		res.violation = fmt.Sprintf("SIG=C20/store-not-loadable-after-stop %d-byte store does not decode after Stop: %v", len(content), derr)
		return
	}
	// everything that no sender owns: the initial users plus alice
	base := users(kl, applyModel(prev, opSpec{"add", "alice", 1}))
	rest := map[string][]byte{}
	parts := make([]map[string][]byte, nsend)
	for g := range parts {
		parts[g] = map[string][]byte{}
	}
	for name, k := range got {
		var g int
		var c rune
		if _, err := fmt.Sscanf(name, "s%d-%c", &g, &c); err == nil && g >= 0 && g < nsend && strings.HasPrefix(name, fmt.Sprintf("s%d-", g)) {
			parts[g][name] = k
		} else {
			rest[name] = k
		}
	}
	how := fmt.Sprintf("%d-user store; add(alice) acknowledged; %d senders streaming requests back to back (reloads of the untouched file alongside: %v); cancel %v later with the streams running; "+
		"%d replacements of the store file seen before the streams were stopped; Stop returned", n, nsend, reload, preDelay, res.saves)
	if !credx.SameUsers(rest, base) {
		res.violation = fmt.Sprintf("SIG=C20/%s %s; apart from the senders' names the store differs from the initial users + alice: %s", sigNotSaved, how, diffSets(rest, base))
		return
	}
	probe := [][]byte{credx.Key(kl, 1), credx.Key(kl, 1000), credx.Key(kl, 1000+n-1), credx.Key(kl, 7)}
	for g, s := range senders {
		state := map[string]int{}
		match, shortMatch := -1, -1
		for l := 0; l <= len(s.ops); l++ {
			if l > 0 {
				state = applyModel(state, s.ops[l-1])
			}
			if credx.SameUsers(parts[g], users(kl, state)) {
				if l >= lower[g] {
					match = l
					break
				}
				shortMatch = l
			}
		}
		for _, op := range s.ops {
			if op.Op != "delete" && len(probe) < 40 {
				probe = append(probe, credx.Key(kl, op.Key))
			}
		}
		if match >= 0 {
			continue
		}
		if shortMatch >= 0 {
			res.violation = fmt.Sprintf("SIG=C20/%s %s; sender %d had been acknowledged %d requests when cancel was called (%d sent in all), but its users on disk %s are its state after only %d requests",
				sigNotSaved, how, g, lower[g], len(s.ops), showSet(parts[g], kl), shortMatch)
		} else {
			res.violation = fmt.Sprintf("SIG=C20/store-holds-a-state-that-never-existed %s; the users of sender %d on disk %s equal its state after none of its %d requests (acknowledged before cancel: %d)",
				how, g, showSet(parts[g], kl), len(s.ops), lower[g])
		}
		return
	}
	if !restart {
		return // a fresh server on 20 000 users costs as much as the trial; the first trials do it
	}
	if d := restartCheck(content, kl, stores, got, probe, dir); d != "" {
		res.violation = fmt.Sprintf("SIG=C20/restart-does-not-accept-the-persisted-users %s; %s", how, d)
	}
	return
}

func TestStreamsDuringShutdownSaves(t *testing.T) {
	reps := envInt("VERIF_C20_STREAMREPS", 6)
	n := envInt("VERIF_C20_BIGSTORE", 20000)
	par := envInt("VERIF_C20_BIGPAR", 3)
	root := os.Getenv("VERIF_WORK") // deliberately disk-backed: the slower the save, the longer the phase
	if root == "" {
		root = os.TempDir()
	}
	base, err := os.MkdirTemp(root, "verif-c20-stream-")
	if err != nil {
		t.Fatal(err)
	}
	defer os.RemoveAll(base)
	sem := make(chan struct{}, par)
	var mu sync.Mutex
	var wg sync.WaitGroup
	var violations, harness []string
	for i := 0; i < reps; i++ {
		dir := filepath.Join(base, fmt.Sprint(i))
		os.MkdirAll(dir, 0o755)
		kl := []int{16, 32}[i%2]
		stores := []credx.Mode{credx.TCPOnly, credx.Both, credx.UDPOnly}[(i+seedInt())%3]
		nsend := 2 + (i+seedInt())%3
		pre := []time.Duration{time.Millisecond, 5 * time.Millisecond, 25 * time.Millisecond, 2 * time.Millisecond}[(i+seedInt())%4]
		reload := i%3 != 2
		tail := []time.Duration{5 * time.Millisecond, 40 * time.Millisecond, 150 * time.Millisecond}[(i/2)%3]
		wg.Go(func() {
			sem <- struct{}{}
			defer func() { <-sem }()
			r := streamTrial(kl, stores, n, dir, nsend, pre, tail, reload, i < 2, uint64(seedInt())*1000+uint64(i))
			os.RemoveAll(dir)
			mu.Lock()
			defer mu.Unlock()
			switch {
			case strings.HasPrefix(r.violation, "HARNESS"):
				harness = append(harness, r.violation)
			case r.violation != "":
				if strings.Contains(r.violation, "SIG=C20/"+sigNotSaved) && isKnown(sigNotSaved) {
					recStream.KnownHit(listedSig(sigNotSaved))
					return
				}
				violations = append(violations, r.violation)
			default:
				labels := []string{fmt.Sprintf("keylen/%d", kl), "stores/" + stores.String(), fmt.Sprintf("senders/%d", nsend), fmt.Sprintf("cancel-after/%v", pre), fmt.Sprintf("saves/%d", r.saves)}
				if r.saves >= 1 {
					labels = append(labels, "shutdown-save-completed-with-the-streams-running")
				}
				if r.saves >= 2 {
					labels = append(labels, "two-or-more-saves-with-the-streams-running")
				}
				if r.ackedBefore > 0 {
					labels = append(labels, "requests-acknowledged-before-cancel")
				}
				if reload {
					labels = append(labels, "reloads-alongside")
				}
				if r.duringSave > 0 {
					labels = append(labels, "api-call-overlapped-a-save")
				}
				recStream.Case(fmt.Sprintf("%d/%v/%d/%v/%v/%v", kl, stores, nsend, pre, tail, reload), r.duringSave > 0 && r.ackedBefore > 0, labels...)
				recStream.Label("requests", int64(r.total))
				recStream.Label("requests-acknowledged-before-cancel-total", int64(r.ackedBefore))
				recStream.Label("api-calls-overlapping-a-save", int64(r.duringSave))
			}
		})
	}
	wg.Wait()
	sort.Strings(violations)
	for i, v := range violations {
		if i < 3 {
			t.Errorf("%s", v)
		}
	}
	if len(violations) > 0 {
		t.Errorf("%d of %d trials failed", len(violations), reps)
	}
	for i, h := range harness {
		if i < 3 {
			t.Logf("not judged: %s", h)
		}
	}
}
