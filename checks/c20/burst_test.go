package c20

import (
	"context"
	"encoding/json"
	"fmt"
	"os"
	"path/filepath"
	"sort"
	"strings"
	"testing"
	"testing/synctest"
	"time"

	"pgregory.net/rapid"

	"verif/internal/credx"
	"verif/internal/ev"
)

// Several changes inside ONE debounce window (round 6, gap 2). After at least one earlier
// automatic save, a window holds 1-4 "moves", each a short sequence of acknowledged requests:
//
//	rename-same-key   delete(X); add(Y, the key X had)        rename = delete + add
//	rename-new-key    delete(X); add(Y, fresh key)
//	update-delete     update(X, fresh key); delete(X)
//	delete-readd      delete(X); add(X, fresh key)            same name, another key
//	delete-readd-same delete(X); add(X, the key X had)
//	add-delete        add(Y); delete(Y)                       nothing remains
//	add-update        add(Y); update(Y, fresh key)
//	swap              delete(X); delete(Z); add(X, key of Z); add(Z, key of X)
//	add / update / delete (single requests)
//
// with gaps of 0 / 1 ns / 1 ms / 300 ms between requests (a window stays well inside 5 s); then
// the window's save: the automatic one (6 s without requests) or, for the last window, a graceful
// shutdown inside the cool-down. After every automatic save the file must hold the previous
// on-disk set or a set that was acknowledged since (never anything else: no user written back
// after its deletion was the last word, no mixture); when Stop returns it must hold the acknowledged set, and a fresh server on it must
// accept exactly the acknowledged users' keys and refuse every key that was deleted or replaced.

type burstWindow struct {
	Moves []string `json:"moves"`
	Ops   []opSpec `json:"ops"`
	Gaps  []int64  `json:"gaps_ns"` // after each request
	Via   string   `json:"via"`     // "debounce" or (last window only) "shutdown"
}

type burstPlan struct {
	KeyLen  int            `json:"key_len"`
	Stores  credx.Mode     `json:"stores"`
	Prev    map[string]int `json:"prev"`
	Warm    bool           `json:"warm"` // one change and its automatic save before the first window
	Windows []burstWindow  `json:"windows"`
}

func (p burstPlan) String() string { b, _ := json.Marshal(p); return string(b) }

var burstMoves = []string{"rename-same-key", "rename-new-key", "update-delete", "delete-readd", "delete-readd-same", "add-delete", "add-update", "swap", "add", "update", "delete"}
var burstGaps = []int64{0, 0, 0, 1, int64(time.Millisecond), int64(300 * time.Millisecond)}

func drawBurstPlan(rt *rapid.T) burstPlan {
	p := burstPlan{
		KeyLen: rapid.SampledFrom([]int{16, 32}).Draw(rt, "kl"),
		Stores: rapid.SampledFrom([]credx.Mode{credx.TCPOnly, credx.UDPOnly, credx.Both}).Draw(rt, "stores"),
		Prev:   map[string]int{},
		Warm:   rapid.IntRange(0, 4).Draw(rt, "warm") != 0,
	}
	nu := rapid.IntRange(0, 4).Draw(rt, "users")
	for i := 0; i < nu; i++ {
		p.Prev[names[i]] = i
	}
	state := applyModel(p.Prev, opSpec{})
	if p.Warm {
		state["warmup"] = 19
	}
	nextKey, nextName := 20, 0
	fresh := func() string { nextName++; return fmt.Sprintf("n%d", nextName) }
	key := func() int { nextKey++; return nextKey }
	existing := func(label string, not string) (string, bool) {
		var ns []string
		for n := range state {
			if n != not {
				ns = append(ns, n)
			}
		}
		if len(ns) == 0 {
			return "", false
		}
		sort.Strings(ns)
		return rapid.SampledFrom(ns).Draw(rt, label), true
	}
	nw := rapid.IntRange(1, 3).Draw(rt, "windows")
	for w := 0; w < nw; w++ {
		win := burstWindow{Via: "debounce"}
		if w == nw-1 && rapid.Bool().Draw(rt, "shutdown") {
			win.Via = "shutdown"
		}
		nm := rapid.IntRange(1, 4).Draw(rt, "moves")
		for m := 0; m < nm; m++ {
			mv := rapid.SampledFrom(burstMoves).Draw(rt, "move")
			x, okx := existing("x", "")
			var ops []opSpec
			switch {
			case mv == "add" || mv == "add-delete" || mv == "add-update" || !okx:
				y := fresh()
				ops = []opSpec{{"add", y, key()}}
				switch mv {
				case "add-delete":
					ops = append(ops, opSpec{"delete", y, 0})
				case "add-update":
					ops = append(ops, opSpec{"update", y, key()})
				default:
					mv = "add"
				}
			case mv == "rename-same-key":
				ops = []opSpec{{"delete", x, 0}, {"add", fresh(), state[x]}}
			case mv == "rename-new-key":
				ops = []opSpec{{"delete", x, 0}, {"add", fresh(), key()}}
			case mv == "update-delete":
				ops = []opSpec{{"update", x, key()}, {"delete", x, 0}}
			case mv == "delete-readd":
				ops = []opSpec{{"delete", x, 0}, {"add", x, key()}}
			case mv == "delete-readd-same":
				ops = []opSpec{{"delete", x, 0}, {"add", x, state[x]}}
			case mv == "swap":
				z, okz := existing("z", x)
				if !okz {
					mv = "update"
					ops = []opSpec{{"update", x, key()}}
					break
				}
				ops = []opSpec{{"delete", x, 0}, {"delete", z, 0}, {"add", x, state[z]}, {"add", z, state[x]}}
			case mv == "update":
				ops = []opSpec{{"update", x, key()}}
			case mv == "delete":
				ops = []opSpec{{"delete", x, 0}}
			}
			win.Moves = append(win.Moves, mv)
			for _, op := range ops {
				state = applyModel(state, op)
				win.Ops = append(win.Ops, op)
				win.Gaps = append(win.Gaps, rapid.SampledFrom(burstGaps).Draw(rt, "gap"))
			}
		}
		p.Windows = append(p.Windows, win)
	}
	return p
}

type burstResult struct {
	violation string
	savedAuto int // windows whose automatic save put the acknowledged set on disk
}

func runBurstPlan(t *testing.T, p burstPlan, dir string) (res burstResult) {
	const kind = "burst-in-one-window"
	kl := p.KeyLen
	path := filepath.Join(dir, "upsks.json")
	if err := os.WriteFile(path, credx.EncodeStore(users(kl, p.Prev), true), 0o644); err != nil {
		return burstResult{violation: "HARNESS " + err.Error()}
	}
	state := applyModel(p.Prev, opSpec{})
	usedKeys := map[int]bool{}
	for _, k := range p.Prev {
		usedKeys[k] = true
	}
	var prog progress
	var history []string
	var atStop []byte
	var sinceCheck []map[string]int // acknowledged states since the file was last judged
	violation := ""
	disarm := realWatchdog(kind, p, &prog)
	synctest.Test(t, func(t *testing.T) {
		rig, err := credx.NewRig(path, kl, p.Stores, nil)
		if err != nil {
			violation = "HARNESS start: " + err.Error()
			return
		}
		ctx, cancel := context.WithCancel(context.Background())
		rig.Start(ctx)
		stopped := false
		stop := func() {
			if !stopped {
				stopped = true
				cancel()
				guarded(kind, p, fakeHangBound, &prog, "Stop after cancel", func() { rig.Stop(); atStop, _ = os.ReadFile(path) })
			}
		}
		defer stop()
		synctest.Wait()
		request := func(op opSpec) bool {
			code := 0
			guarded(kind, p, fakeHangBound, &prog, fmt.Sprintf("%s(%s)", op.Op, op.Name), func() { code = doOp(rig, kl, op) })
			if !is2xx(code) {
				violation = fmt.Sprintf("SIG=C20/acknowledged-change-lost-before-its-save %s(%s) is valid against the acknowledged set %s but was answered %d; history: %s",
					op.Op, op.Name, credx.Show(users(kl, state), kl), code, strings.Join(history, "; "))
				return false
			}
			state = applyModel(state, op)
			sinceCheck = append(sinceCheck, state)
			if op.Op != "delete" {
				usedKeys[op.Key] = true
			}
			history = append(history, fmt.Sprintf("%s(%s%s)", op.Op, op.Name, map[bool]string{true: "", false: fmt.Sprintf(",k%d", op.Key)}[op.Op == "delete"]))
			return true
		}
		onDisk := users(kl, p.Prev)
		// After an automatic save the file holds the previous on-disk set or the set acknowledged when
		// the save took its snapshot. With the 5 s cool-down that is the final set of the window; an
		// implementation that saves more often may have stopped at an earlier acknowledged state of
		// the window, which is accepted here (and judged when Stop returns).
		judgeAuto := func(when string) bool {
			defer func() { sinceCheck = nil }()
			b, _ := os.ReadFile(path)
			got, complete, derr := credx.DecodeStore(b, kl)
			want := users(kl, state)
			switch {
			case derr != nil || !complete:
				violation = fmt.Sprintf("SIG=C20/store-not-loadable-after-save %s the store file %q does not decode: %v; history: %s", when, clip(b, 200), derr, strings.Join(history, "; "))
				return false
			case credx.SameUsers(got, want):
				res.savedAuto++
				onDisk = got
				return true
			case credx.SameUsers(got, onDisk):
				return true
			}
			for _, st := range sinceCheck {
				if credx.SameUsers(got, users(kl, st)) {
					onDisk = got
					return true
				}
			}
			violation = fmt.Sprintf("SIG=C20/saved-set-is-neither-previous-nor-acknowledged start on %s; %s; %s the store file holds %s, which is neither what was on disk before (%s) nor the acknowledged set %s nor any set acknowledged in between: %s",
				credx.Show(users(kl, p.Prev), kl), strings.Join(history, "; "), when, credx.Show(got, kl), credx.Show(onDisk, kl), credx.Show(want, kl), diffSets(got, want))
			return false
		}
		if p.Warm {
			if !request(opSpec{"add", "warmup", 19}) {
				return
			}
			time.Sleep(6 * time.Second)
			synctest.Wait()
			history = append(history, "6 s (automatic save)")
			if !judgeAuto("after the first automatic save") {
				return
			}
		}
		for w, win := range p.Windows {
			history = append(history, fmt.Sprintf("[window %d: %s]", w+1, strings.Join(win.Moves, "+")))
			for i, op := range win.Ops {
				if !request(op) {
					return
				}
				if g := win.Gaps[i]; g > 0 {
					time.Sleep(time.Duration(g))
					history = append(history, "+"+time.Duration(g).String())
				}
			}
			if win.Via == "debounce" {
				time.Sleep(6 * time.Second)
				synctest.Wait()
				history = append(history, "6 s (automatic save)")
				if !judgeAuto(fmt.Sprintf("6 s after window %d", w+1)) {
					return
				}
			}
		}
		history = append(history, "cancel; Stop")
		stop()
	})
	disarm()
	if violation != "" {
		return burstResult{violation: violation, savedAuto: res.savedAuto}
	}
	want := users(kl, state)
	got, complete, derr := credx.DecodeStore(atStop, kl)
	if derr != nil || !complete {
		res.violation = fmt.Sprintf("SIG=C20/store-not-loadable-after-stop when Stop returned the store file %q does not decode: %v; history: %s", clip(atStop, 200), derr, strings.Join(history, "; "))
		return
	}
	if !credx.SameUsers(got, want) {
		res.violation = fmt.Sprintf("SIG=C20/%s start on %s; %s; when Stop returned the store file held %s, the acknowledged set is %s: %s",
			sigNotSaved, credx.Show(users(kl, p.Prev), kl), strings.Join(history, "; "), credx.Show(got, kl), credx.Show(want, kl), diffSets(got, want))
		return
	}
	var probe [][]byte
	for k := range usedKeys {
		probe = append(probe, credx.Key(kl, k))
	}
	probe = append(probe, credx.Key(kl, 7))
	if d := restartCheck(atStop, kl, p.Stores, want, probe, dir); d != "" {
		res.violation = fmt.Sprintf("SIG=C20/restart-does-not-accept-the-persisted-users start on %s; %s: %s", credx.Show(users(kl, p.Prev), kl), strings.Join(history, "; "), d)
	}
	return
}

var recBurst = ev.New("C20", "bursts-in-one-debounce-window",
	"rapid, fake clock: store of 0-4 users; in 4 of 5 plans one change and its automatic save first; then 1-3 windows of 1-4 moves (rename keeping the key, rename "+
		"with a new key, update-then-delete, delete-then-re-add with another / the same key, add-then-delete, add-then-update, key swap of two users, single "+
		"add/update/delete) with gaps 0 / 1 ns / 1 ms / 300 ms, each window followed by its automatic save (6 s) or, the last one, by a graceful shutdown inside the "+
		"cool-down. After each automatic save the file must hold the previous on-disk set or a set acknowledged since (with the 5 s cool-down: the final one); when Stop returns it must hold the acknowledged set and a "+
		"fresh server must accept exactly those users' keys and refuse every deleted or replaced key (request + reply round trip). One evaluation = one plan. Non-trivial: "+
		"a window with at least two requests follows an earlier automatic save. Distinct key = moves of all windows + save triggers").
	Require("window-after-an-earlier-automatic-save", "deletes-with-at-least-as-many-adds", "deletes-outnumber-adds", "move/rename-same-key", "move/rename-new-key",
		"move/update-delete", "move/delete-readd", "move/swap", "move/add-delete", "via/debounce", "via/shutdown", "net-user-count-unchanged-in-window")

func TestBurstsInOneWindow(t *testing.T) {
	base, err := os.MkdirTemp(workDir(), "verif-c20-b-")
	if err != nil {
		t.Fatal(err)
	}
	defer os.RemoveAll(base)
	n := 0
	rapid.Check(t, func(rt *rapid.T) {
		n++
		p := drawBurstPlan(rt)
		dir := filepath.Join(base, fmt.Sprint(n))
		os.MkdirAll(dir, 0o755)
		defer os.RemoveAll(dir)
		rm := journal("burst-in-one-window", p)
		res := runBurstPlan(t, p, dir)
		rm()
		if res.violation != "" {
			if strings.Contains(res.violation, "SIG=C20/"+sigNotSaved) && isKnown(sigNotSaved) {
				recBurst.KnownHit(listedSig(sigNotSaved))
				return
			}
			rt.Fatalf("%s\n  plan: %s", res.violation, p)
		}
		labels := map[string]bool{}
		nontrivial := false
		var keyParts []string
		for w, win := range p.Windows {
			earlier := p.Warm || w > 0
			adds, dels := 0, 0
			for _, op := range win.Ops {
				switch op.Op {
				case "add":
					adds++
				case "delete":
					dels++
				}
			}
			labels["via/"+win.Via] = true
			if earlier {
				labels["window-after-an-earlier-automatic-save"] = true
				for _, m := range win.Moves {
					labels["move/"+m] = true
				}
				if dels > 0 && adds >= dels {
					labels["deletes-with-at-least-as-many-adds"] = true
				}
				if dels > adds {
					labels["deletes-outnumber-adds"] = true
				}
				if dels > 0 && adds == dels {
					labels["net-user-count-unchanged-in-window"] = true
				}
				if len(win.Ops) >= 2 {
					nontrivial = true
				}
			}
			keyParts = append(keyParts, strings.Join(win.Moves, "+")+"/"+win.Via)
		}
		var ls []string
		for l := range labels {
			ls = append(ls, l)
		}
		sort.Strings(ls)
		ls = append(ls, fmt.Sprintf("windows/%d", len(p.Windows)))
		recBurst.Case(fmt.Sprintf("%v|%s", p.Warm, strings.Join(keyParts, "|")), nontrivial, ls...)
		recBurst.Label("automatic-saves-that-wrote-the-acknowledged-set", int64(res.savedAuto))
		if nontrivial {
			recBurst.Sample(p)
		}
	})
}
