package c20

import (
	"encoding/json"
	"fmt"
	"os"
	"path/filepath"
	"strings"
	"testing"

	"verif/internal/credx"
)

// Frozen minimal reproduction of the first C20 defect: empty store, add(alice) acknowledged,
// the save (either trigger) can write only k bytes.
func TestRegressionPartialWrite(t *testing.T) {
	base, err := os.MkdirTemp(workDir(), "verif-c20-g-")
	if err != nil {
		t.Fatal(err)
	}
	defer os.RemoveAll(base)
	cache := map[[32]byte]verdict{}
	for i, via := range []string{"debounce", "cancel", "debounce", "cancel"} {
		spec := faultSpec{Mode: "faults", KeyLen: 16, Stores: credx.Both, Prev: map[string]int{}, Op: opSpec{"add", "alice", 0}, Via: via, Loc: []string{"plain", "plain", "symlink-rel", "symlink-abs"}[i],
			Ks: []int{0, 1, 22, 43, 44}, Dir: filepath.Join(base, fmt.Sprint(i))}
		spec.Out = filepath.Join(spec.Dir, "out.json")
		os.MkdirAll(spec.Dir, 0o755)
		o, err := runChild(spec, "2m")
		if err != nil {
			t.Fatalf("HARNESS child failed: %v\n%s", err, o)
		}
		var out faultOutput
		b, _ := os.ReadFile(spec.Out)
		if err := json.Unmarshal(b, &out); err != nil {
			t.Fatalf("HARNESS %v", err)
		}
		prev, next := users(16, spec.Prev), users(16, applyModel(spec.Prev, spec.Op))
		for _, r := range out.Results {
			v := judge(r.File, 16, spec.Stores, prev, next, base, cache)
			if v.set == "" {
				if isKnown(sigPartial) {
					recFaults.KnownHit(listedSig(sigPartial))
					continue
				}
				t.Errorf("SIG=C20/%s store \"{}\\n\", add(alice) acknowledged, save via %s (store location %s) limited to %d of %d bytes: store file is now %q: %s",
					sigPartial, via, spec.Loc, r.K, out.NewDocLen, clip(r.File, 80), v.descr)
				continue
			}
			recFaults.Case(fmt.Sprintf("regression/%s/%s/k%d", via, spec.Loc, r.K), r.K > 0 && r.K < out.NewDocLen && !r.NoSave, "regression")
		}
	}
}

// TestReplayRecorded re-runs what a recorded C20 failure log names (bin/check --replay FILE):
// the signatures found in the file select the frozen reproductions.
func TestReplayRecorded(t *testing.T) {
	p := os.Getenv("VERIF_REPLAY")
	if p == "" {
		t.Skip("no VERIF_REPLAY")
	}
	b, err := os.ReadFile(p)
	if err != nil {
		t.Fatal(err)
	}
	s := string(b)
	ran := false
	if strings.Contains(s, sigPartial) || strings.Contains(s, "kill-leaves") {
		ran = true
		t.Run("partial-write", TestRegressionPartialWrite)
	}
	if strings.Contains(s, "kill-leaves") {
		t.Run("kill", TestKillDuringSaves)
	}
	if strings.Contains(s, sigNotSaved) {
		ran = true
		t.Run("ack-then-stop", TestRegressionAckThenStop)
		t.Run("saving", TestCancelWhileSaving)
	}
	if !ran {
		t.Run("partial-write", TestRegressionPartialWrite)
		t.Run("ack-then-stop", TestRegressionAckThenStop)
	}
}
