package c20

import (
	"context"
	"fmt"
	"os"
	"path/filepath"
	"sort"
	"strings"
	"sync"
	"testing"
	"time"

	"verif/internal/credx"
	"verif/internal/ev"
)

// The "saving" phase, observed and widened instead of held: a store large enough that encoding,
// writing and syncing it takes tens of milliseconds, a watcher on the store directory that sees
// the save start (a temp file appears next to the store, or the store file itself changes size),
// and at that moment further changes are requested through the API. Whether they are
// acknowledged while the file is still being written (an implementation that releases the
// manager lock for the write) or only after the save (an implementation that keeps the read lock,
// like /repo today) does not matter to the oracle: every change acknowledged before cancel
// must be in the store file after Stop has returned.

var recBig = ev.New("C20", "change-while-saving",
	"real time, disk-backed directory: a server on a store of N users (default 20 000, ~1.3 MB document, so snapshot+encode+write+fsync "+
		"takes tens of ms); one acknowledged change; the debounce save is due 5 s later; a second change is requested through the ssm handlers "+
		"at due time + offset (offset sweeps 0.5..60 ms over the trials), or as soon as the save is visible in the store directory "+
		"(a '<base>.tmp-*' sibling exists or the store file changes size, polled every ~100 us); cancel 0..20 ms after its acknowledgement; after "+
		"Stop the decoded store file must equal the acknowledged set. One evaluation = one trial. Non-trivial: the second request was issued after "+
		"the save became due and before it was seen finished. Labels ack-before-save-visible / ack-during-save / ack-after-save tell where "+
		"the acknowledgement landed as far as the directory shows (an implementation holding the lock for the whole save never acknowledges while the temp file exists)").
	Require("issued-while-save-in-progress")

func bigUsers(n int) map[string]int {
	m := make(map[string]int, n)
	for i := 0; i < n; i++ {
		m[fmt.Sprintf("user%05d", i)] = 1000 + i
	}
	return m
}

// saveState looks at the store directory: 1 = a save is visibly under way (a sibling temp file of
// an atomic save exists, or the store file is being rewritten in place and has neither its old
// nor its new size), 2 = the save has already finished (store has its new size), 0 = nothing yet.
func saveState(dir, base string, origSize, newSize int64) int {
	ents, err := os.ReadDir(dir)
	if err != nil {
		return 0
	}
	for _, e := range ents {
		if e.Name() != base {
			return 1
		}
	}
	if fi, err := os.Stat(filepath.Join(dir, base)); err == nil && fi.Size() != origSize {
		if fi.Size() == newSize {
			return 2
		}
		return 1
	}
	return 0
}

func stateName(st int) string {
	return [...]string{"no save visible yet", "save in progress", "save finished"}[st]
}

type bigResult struct {
	violation    string
	issuedInSave bool // the follow-up requests were issued while the save was seen in progress
	ackInSave    bool // …and the first of them was acknowledged while it was still in progress
	window       time.Duration
	stateAtIssue int // saveState when the follow-up was issued / acknowledged (0 not visible, 1 in progress, 2 finished)
	stateAtAck   int
}

func bigStoreTrial(kl int, stores credx.Mode, n int, dir string, offset, cancelDelay time.Duration) bigResult {
	const base = "upsks.json"
	path := filepath.Join(dir, base)
	prev := bigUsers(n)
	doc := credx.EncodeStore(users(kl, prev), true)
	if err := os.WriteFile(path, doc, 0o644); err != nil {
		return bigResult{violation: "HARNESS " + err.Error()}
	}
	rig, err := credx.NewRig(path, kl, stores, nil)
	if err != nil {
		return bigResult{violation: "HARNESS start: " + err.Error()}
	}
	ctx, cancel := context.WithCancel(context.Background())
	rig.Start(ctx)
	stopped := false
	defer func() {
		if !stopped {
			cancel()
			rig.Stop()
		}
	}()
	state := applyModel(prev, opSpec{})
	first := opSpec{"add", "alice", 1}
	if code := doOp(rig, kl, first); code < 200 || code > 299 {
		return bigResult{violation: fmt.Sprintf("HARNESS add -> %d", code)}
	}
	state = applyModel(state, first)
	acked := time.Now()

	// The save is due 5 s after the acknowledgement (documented debounce). The follow-up request
	// is issued at due time + offset, or earlier if the save is already visible in the directory
	// (temp file / size change). The offset sweeps the part of the save that the directory cannot
	// show: taking the snapshot and encoding ~1.3 MB before the temp file is created.
	res := bigResult{}
	due := acked.Add(5 * time.Second)
	newSize := int64(len(credx.EncodeStore(users(kl, state), true)))
	time.Sleep(time.Until(due.Add(-200 * time.Millisecond)))
	st := 0
	for time.Now().Before(due.Add(offset)) {
		if st = saveState(dir, base, int64(len(doc)), newSize); st != 0 {
			break
		}
		time.Sleep(100 * time.Microsecond)
	}
	issued := time.Now()
	res.stateAtIssue = st
	res.issuedInSave = st != 2 && !issued.Before(due) || st == 1
	followUp := opSpec{"add", "bob", 2}
	if code := doOp(rig, kl, followUp); code < 200 || code > 299 {
		return bigResult{violation: fmt.Sprintf("HARNESS %+v -> %d", followUp, code)}
	}
	state = applyModel(state, followUp)
	res.stateAtAck = saveState(dir, base, int64(len(doc)), newSize)
	res.ackInSave = res.stateAtAck != 2
	res.window = time.Since(issued)
	if cancelDelay > 0 {
		time.Sleep(cancelDelay)
	}
	cancel() // shutdown begins; the four changes above were acknowledged before
	stopDone := make(chan struct{})
	go func() { rig.Stop(); close(stopDone) }()
	select {
	case <-stopDone:
		stopped = true
	case <-time.After(90 * time.Second):
		res.violation = "SIG=C20/stop-does-not-return Stop did not return within 90 s of cancel"
		return res
	}
	content, err := os.ReadFile(path)
	if err != nil {
		res.violation = "SIG=C20/store-not-loadable-after-stop " + err.Error()
		return res
	}
	got, complete, derr := credx.DecodeStore(content, kl)
	if derr != nil || !complete {
		res.violation = fmt.Sprintf("SIG=C20/store-not-loadable-after-stop %d-byte store does not decode after Stop: %v", len(content), derr)
		return res
	}
	want := users(kl, state)
	if !credx.SameUsers(got, want) {
		_, hasAlice := got["alice"]
		_, hasBob := got["bob"]
		res.violation = fmt.Sprintf("SIG=C20/%s %d-user store; add(alice) acknowledged; add(bob) requested %v after that (save due at 5s; directory state then: %s) and acknowledged %v later "+
			"(directory state: %s); cancel +%v; Stop returned; store file has %d users (alice on disk: %v, bob on disk: %v), acknowledged set has %d",
			sigNotSaved, n, issued.Sub(acked).Round(100*time.Microsecond), stateName(res.stateAtIssue), res.window.Round(10*time.Microsecond), stateName(res.stateAtAck), cancelDelay,
			len(got), hasAlice, hasBob, len(want))
	}
	return res
}

func TestChangeWhileSaving(t *testing.T) {
	reps := envInt("VERIF_C20_BIGREPS", 4)
	n := envInt("VERIF_C20_BIGSTORE", 20000)
	par := envInt("VERIF_C20_BIGPAR", 4)
	// deliberately disk-backed ($VERIF_WORK): the slower the write+fsync, the wider the window
	root := os.Getenv("VERIF_WORK")
	if root == "" {
		root = os.TempDir()
	}
	base, err := os.MkdirTemp(root, "verif-c20-big-")
	if err != nil {
		t.Fatal(err)
	}
	defer os.RemoveAll(base)
	delays := []time.Duration{0, 0, time.Millisecond, 20 * time.Millisecond}
	offsets := []time.Duration{500 * time.Microsecond, 3 * time.Millisecond, 8 * time.Millisecond, 15 * time.Millisecond, 30 * time.Millisecond, 60 * time.Millisecond}
	sem := make(chan struct{}, par)
	var mu sync.Mutex
	var wg sync.WaitGroup
	var violations, harness []string
	for i := 0; i < reps; i++ {
		dir := filepath.Join(base, fmt.Sprint(i))
		os.MkdirAll(dir, 0o755)
		kl := []int{16, 32}[i%2]
		stores := []credx.Mode{credx.TCPOnly, credx.Both, credx.UDPOnly}[(i+seedInt())%3]
		delay := delays[(i/len(offsets)+seedInt())%len(delays)]
		offset := offsets[i%len(offsets)]
		wg.Go(func() {
			sem <- struct{}{}
			defer func() { <-sem }()
			r := bigStoreTrial(kl, stores, n, dir, offset, delay)
			os.RemoveAll(dir)
			mu.Lock()
			defer mu.Unlock()
			switch {
			case strings.HasPrefix(r.violation, "HARNESS"):
				harness = append(harness, r.violation)
			case r.violation != "":
				if strings.Contains(r.violation, "SIG=C20/"+sigNotSaved) && isKnown(sigNotSaved) {
					recBig.KnownHit(listedSig(sigNotSaved))
					return
				}
				violations = append(violations, r.violation)
			default:
				labels := []string{fmt.Sprintf("keylen/%d", kl), "stores/" + stores.String(), fmt.Sprintf("cancel-delay/%v", delay), fmt.Sprintf("offset/%v", offset),
					"at-issue/" + strings.ReplaceAll(stateName(r.stateAtIssue), " ", "-")}
				if r.issuedInSave {
					labels = append(labels, "issued-while-save-in-progress")
				}
				// where the acknowledgement landed, as far as the directory shows: before any save was
				// visible (the request won the race against the saver, or the saver was still
				// encoding with the lock released), while the temp file existed, or after the save
				labels = append(labels, [...]string{"ack-before-save-visible", "ack-during-save", "ack-after-save"}[r.stateAtAck])
				recBig.Case(fmt.Sprintf("%d/%v/%v/%v/%v", kl, stores, offset, delay, r.ackInSave), r.issuedInSave, labels...)
			}
		})
	}
	wg.Wait()
	sort.Strings(violations)
	for i, v := range violations {
		if i < 3 {
			t.Errorf("%s", v)
		}
	}
	if len(violations) > 0 {
		t.Errorf("%d of %d trials lost an acknowledged change", len(violations), reps)
	}
	for i, h := range harness {
		if i < 3 {
			t.Logf("not judged: %s", h)
		}
	}
}
