package c20

import (
	"bufio"
	"bytes"
	"context"
	"encoding/json"
	"errors"
	"fmt"
	"io"
	"math/rand/v2"
	"os"
	"os/exec"
	"path/filepath"
	"sort"
	"strings"
	"sync"
	"sync/atomic"
	"syscall"
	"testing"
	"time"

	"golang.org/x/sys/unix"

	"verif/internal/credx"
	"verif/internal/ev"
)

// ---- shutdown while a save is in progress (real time: the write is held open in the kernel)

var recSaving = ev.New("C20", "cancel-while-saving",
	"real time: a server on a ~13 KB store; the store file is replaced by a FIFO whose pipe buffer is one page and whose read side the "+
		"harness owns, so a direct rewrite of the store blocks inside write(2) (phase 'saving' is held; no further change can be acknowledged "+
		"then because the save holds the manager's read lock); cancel arrives, the harness drains the FIFO; after Stop the last complete "+
		"document written must hold the change. If the implementation replaces the file by rename instead (the FIFO disappears), the write "+
		"cannot be held: the case then acknowledges a second change right after the first save, cancels at once (phase 'queued' in real time) "+
		"and checks the regular file. Non-trivial: cancel arrived while a save was held, or with a change queued right after a save")

func padUsers(n int) map[string]int {
	m := map[string]int{}
	for i := 0; i < n; i++ {
		m[fmt.Sprintf("pad%03d", i)] = 100 + i
	}
	return m
}

func savingTrial(kl int, stores credx.Mode, dir string) (violation string, held bool) {
	path := filepath.Join(dir, "upsks.json")
	prev := padUsers(200)
	if err := os.WriteFile(path, credx.EncodeStore(users(kl, prev), true), 0o644); err != nil {
		return "HARNESS " + err.Error(), false
	}
	rig, err := credx.NewRig(path, kl, stores, nil)
	if err != nil {
		return "HARNESS start: " + err.Error(), false
	}
	ctx, cancel := context.WithCancel(context.Background())
	rig.Start(ctx)
	stopped := false
	defer func() {
		if !stopped {
			cancel()
			rig.Stop()
		}
	}()
	if err := os.Remove(path); err != nil {
		return "HARNESS " + err.Error(), false
	}
	if err := syscall.Mkfifo(path, 0o644); err != nil {
		return "HARNESS mkfifo: " + err.Error(), false
	}
	fifo, err := os.OpenFile(path, os.O_RDWR, 0)
	if err != nil {
		return "HARNESS open fifo: " + err.Error(), false
	}
	defer fifo.Close()
	if rc, err := fifo.SyscallConn(); err == nil {
		rc.Control(func(fd uintptr) { unix.FcntlInt(fd, unix.F_SETPIPE_SZ, 4096) })
	}

	state := applyModel(prev, opSpec{})
	opA, opB := opSpec{"add", "alice", 1}, opSpec{"add", "bob", 2}
	if code := doOp(rig, kl, opA); code < 200 || code > 299 {
		return fmt.Sprintf("HARNESS add -> %d", code), false
	}
	state = applyModel(state, opA)

	// wait (bounded: save is due after 5 s; allow 40 s) until the save has started writing into
	// the FIFO, or the FIFO has been replaced by a regular file
	var stream bytes.Buffer
	buf := make([]byte, 4096)
	deadline := time.Now().Add(40 * time.Second)
	replaced := false
	for {
		fifo.SetReadDeadline(time.Now().Add(20 * time.Millisecond))
		n, _ := fifo.Read(buf)
		if n > 0 {
			stream.Write(buf[:n])
			held = true
			break
		}
		if fi, err := os.Lstat(path); err == nil && fi.Mode().IsRegular() {
			replaced = true
			break
		}
		if time.Now().After(deadline) {
			return "SIG=C20/save-not-started-within-bound no save activity within 40 s of an acknowledged change", false
		}
	}
	// While a save is held the manager's write lock is unavailable (the save holds the read lock),
	// so no further change can be acknowledged in that phase: shutdown begins with the save in
	// flight. If the write could not be held (file replaced by rename), a second change is
	// acknowledged right after the first save instead and shutdown begins at once.
	if !held {
		if code := doOp(rig, kl, opB); code < 200 || code > 299 {
			return fmt.Sprintf("HARNESS add -> %d", code), held
		}
		state = applyModel(state, opB)
	}
	cancel() // shutdown begins; everything above was acknowledged before
	drained := make(chan struct{})
	stopDrain := make(chan struct{})
	go func() {
		defer close(drained)
		for {
			fifo.SetReadDeadline(time.Now().Add(20 * time.Millisecond))
			n, err := fifo.Read(buf)
			if n > 0 {
				stream.Write(buf[:n])
				continue
			}
			select {
			case <-stopDrain:
				if errors.Is(err, os.ErrDeadlineExceeded) {
					return
				}
			default:
			}
			if err != nil && !errors.Is(err, os.ErrDeadlineExceeded) {
				return
			}
		}
	}()
	stopDone := make(chan struct{})
	go func() { rig.Stop(); close(stopDone) }()
	select {
	case <-stopDone:
	case <-time.After(60 * time.Second):
		close(stopDrain)
		return "SIG=C20/stop-does-not-return Stop did not return within 60 s of cancel although the FIFO was being drained", held
	}
	stopped = true
	close(stopDrain)
	<-drained

	want := users(kl, state)
	var content []byte
	if fi, err := os.Lstat(path); err == nil && fi.Mode().IsRegular() {
		content, _ = os.ReadFile(path)
	} else {
		// the store "file" is what was written through the FIFO: the last complete document counts
		d := json.NewDecoder(bytes.NewReader(stream.Bytes()))
		var last json.RawMessage
		for {
			var raw json.RawMessage
			if err := d.Decode(&raw); err != nil {
				if err != io.EOF {
					return fmt.Sprintf("SIG=C20/store-not-loadable-after-stop the bytes written to the store end in an incomplete document: %v", err), held
				}
				break
			}
			last = raw
		}
		content = last
	}
	_ = replaced
	got, _, derr := credx.DecodeStore(content, kl)
	if derr != nil {
		return fmt.Sprintf("SIG=C20/store-not-loadable-after-stop store after Stop does not decode: %v (%q)", derr, clip(content, 100)), held
	}
	if !credx.SameUsers(got, want) {
		_, hasA := got["alice"]
		_, hasB := got["bob"]
		return fmt.Sprintf("SIG=C20/%s add(alice) acknowledged; %s; cancel; Stop returned; store holds alice=%v bob=%v (%d users, want %d)",
			sigNotSaved, map[bool]string{true: "its save was held inside write(2) when shutdown began", false: "its save completed (file replaced by rename); add(bob) acknowledged"}[held], hasA, hasB, len(got), len(want)), held
	}
	return "", held
}

func TestCancelWhileSaving(t *testing.T) {
	n := envInt("VERIF_C20_SAVING", 6)
	base, err := os.MkdirTemp(workDir(), "verif-c20-s-")
	if err != nil {
		t.Fatal(err)
	}
	defer os.RemoveAll(base)
	var mu sync.Mutex
	var wg sync.WaitGroup
	var violations []string
	for i := 0; i < n; i++ {
		dir := filepath.Join(base, fmt.Sprint(i))
		os.MkdirAll(dir, 0o755)
		kl := []int{16, 32}[i%2]
		stores := []credx.Mode{credx.Both, credx.TCPOnly, credx.UDPOnly}[i%3]
		wg.Go(func() {
			v, held := savingTrial(kl, stores, dir)
			mu.Lock()
			defer mu.Unlock()
			if v != "" {
				if strings.Contains(v, "SIG=C20/"+sigNotSaved) && isKnown(sigNotSaved) {
					recSaving.KnownHit(listedSig(sigNotSaved))
					return
				}
				violations = append(violations, v)
				return
			}
			label := "save-held-in-write"
			if !held {
				label = "save-not-holdable-file-replaced-by-rename"
			}
			recSaving.Case(fmt.Sprintf("%d/%v/%s", kl, stores, label), true, label)
		})
	}
	wg.Wait()
	sort.Strings(violations)
	for i, v := range violations {
		if i < 3 {
			t.Errorf("%s", v)
		}
	}
	if len(violations) > 0 {
		t.Errorf("%d of %d trials failed", len(violations), n)
	}
}

// ---- SIGKILL at random instants of a save loop

var recKill = ev.New("C20", "kill-during-save-loop",
	"a child process runs an endless loop of acknowledged changes (add/update/delete walk over 6 names on top of 0..300 padding users), "+
		"each followed by its debounce save on a fake clock, journaling intent/ack/save-due lines write-ahead; the parent SIGKILLs it after a "+
		"random 0-60 ms; the store file must then be one complete document equal to a journaled state not older than the last save known "+
		"complete, and a fresh server must start on it; then a SECOND LIFETIME on the same directory (with whatever the killed process "+
		"left next to the store): restart, one more acknowledged change, graceful stop - the store must hold it. Non-trivial: at least one save had completed and another change was in flight at the kill").
	Require("kill-judged")

type journalLine struct {
	kind  string
	idx   int
	state map[string]int
}

func readJournal(path string) []journalLine {
	f, err := os.Open(path)
	if err != nil {
		return nil
	}
	defer f.Close()
	var out []journalLine
	sc := bufio.NewScanner(f)
	sc.Buffer(make([]byte, 1<<20), 1<<24)
	for sc.Scan() {
		parts := strings.SplitN(sc.Text(), " ", 3)
		if len(parts) != 3 {
			continue
		}
		var jl journalLine
		jl.kind = parts[0]
		if _, err := fmt.Sscanf(parts[1], "%d", &jl.idx); err != nil {
			continue
		}
		if jl.kind == "E" {
			out = append(out, journalLine{kind: "E"})
			continue
		}
		if json.Unmarshal([]byte(parts[2]), &jl.state) != nil {
			continue // torn last line
		}
		out = append(out, jl)
	}
	return out
}

func killTrial(i int, rng *rand.Rand, base string) (violation string, nontrivial bool, label string) {
	dir := filepath.Join(base, fmt.Sprint(i))
	os.MkdirAll(dir, 0o755)
	defer os.RemoveAll(dir)
	kl := []int{16, 32}[rng.IntN(2)]
	stores := []credx.Mode{credx.TCPOnly, credx.UDPOnly, credx.Both}[rng.IntN(3)]
	pad := []int{0, 0, 1, 3, 40, 300}[rng.IntN(6)]
	delay := time.Duration(rng.Int64N(int64(60 * time.Millisecond)))
	loc := Locs[rng.IntN(len(Locs))]
	spec := faultSpec{Mode: "killloop", KeyLen: kl, Stores: stores, Prev: padUsers(pad), Dir: dir, Loc: loc}
	sb, _ := json.Marshal(spec)
	specPath := filepath.Join(dir, "spec.json")
	os.WriteFile(specPath, sb, 0o644)
	cmd := exec.Command(os.Args[0], "-test.run", "^TestChildFaults$", "-test.count=1", "-test.timeout", "2m")
	cmd.Env = append(os.Environ(), "VERIF_C20_CHILD="+specPath, "VERIF_EVDIR=")
	var outBuf bytes.Buffer
	cmd.Stdout, cmd.Stderr = &outBuf, &outBuf
	if err := cmd.Start(); err != nil {
		return "HARNESS " + err.Error(), false, ""
	}
	deadline := time.Now().Add(60 * time.Second)
	for {
		if _, err := os.Stat(filepath.Join(dir, "ready")); err == nil {
			break
		}
		if time.Now().After(deadline) {
			cmd.Process.Kill()
			cmd.Wait()
			return "HARNESS child never became ready: " + outBuf.String(), false, ""
		}
		time.Sleep(time.Millisecond)
	}
	time.Sleep(delay)
	cmd.Process.Signal(syscall.SIGKILL)
	cmd.Wait()

	jl := readJournal(filepath.Join(dir, "journal"))
	lastS, lastI := -1, -1
	states := map[int]map[string]int{}
	for _, l := range jl {
		switch l.kind {
		case "E":
			return "HARNESS child reported an error: " + outBuf.String(), false, ""
		case "S":
			lastS = l.idx
			states[l.idx] = l.state
		case "I":
			lastI = l.idx
			states[l.idx] = l.state
		}
	}
	if len(states) == 0 {
		return "HARNESS empty journal", false, ""
	}
	storePath, _ := os.ReadFile(filepath.Join(dir, "store-path"))
	content, err := os.ReadFile(string(storePath)) // follows the link if the configured path is one
	if err != nil {
		return fmt.Sprintf("SIG=C20/kill-leaves-no-store after SIGKILL %v into the loop the store file is gone: %v", delay, err), false, ""
	}
	got, complete, derr := credx.DecodeStore(content, kl)
	restart := ""
	p2 := filepath.Join(dir, "restart.json")
	os.WriteFile(p2, content, 0o644)
	if _, rerr := credx.NewRig(p2, kl, stores, nil); rerr != nil {
		restart = "; a restarting server refuses it: " + rerr.Error()
	} else if derr != nil {
		restart = "; a restarting server silently starts with what it can read"
	}
	if derr != nil || !complete {
		return fmt.Sprintf("SIG=C20/kill-leaves-unloadable-store SIGKILL %v into a loop of acknowledged changes (last save known complete #%d, last request #%d, %d-user store): store file (location class %s) is %d bytes %q: %v%s",
			delay, lastS, lastI, len(states[lastS]), loc, len(content), clip(content, 80), derr, restart), false, ""
	}
	if restart != "" {
		return "SIG=C20/kill-leaves-unloadable-store document decodes per README" + restart, false, ""
	}
	ok := false
	for j := lastS; j <= max(lastI, lastS); j++ {
		if st, has := states[j]; has && credx.SameUsers(got, users(kl, st)) {
			ok = true
			break
		}
	}
	if !ok {
		return fmt.Sprintf("SIG=C20/kill-leaves-stale-or-foreign-store after SIGKILL the store holds %d users, which is none of the states #%d..#%d (last save known complete: #%d)",
			len(got), lastS, lastI, lastS), false, ""
	}
	// second lifetime on the same directory, with whatever the killed process left behind
	label = fmt.Sprintf("pad/%d loc/%s", pad, loc)
	strays := strayFiles(string(storePath))
	if len(strays) > 0 {
		label += " stray-files-left-by-the-kill"
	}
	if v := secondLifetime(string(storePath), kl, stores, got, fmt.Sprintf("after SIGKILL %v into the save loop (location class %s)", delay, loc)); v != "" {
		return v, false, ""
	}
	return "", lastS >= 0 && lastI > lastS, label
}

const sigSecondLife = "saves-fail-in-the-next-lifetime"

// strayFiles lists what else is in the store's directory (names only).
func strayFiles(storePath string) []string {
	var out []string
	base := filepath.Base(storePath)
	if ents, err := os.ReadDir(filepath.Dir(storePath)); err == nil {
		for _, e := range ents {
			if e.Name() != base && !e.IsDir() {
				out = append(out, e.Name())
			}
		}
	}
	return out
}

// secondLifetime restarts a server on the store as it was left (including stray files next to
// it), acknowledges one more change and stops gracefully: the store must then hold it.
func secondLifetime(storePath string, kl int, stores credx.Mode, current map[string][]byte, how string) string {
	before := strayFiles(storePath)
	var saveErrs atomic.Int64
	rig, err := credx.NewRig(storePath, kl, stores, countingLogger(&saveErrs))
	if err != nil {
		return fmt.Sprintf("SIG=C20/%s %s: the restarted server refuses the store: %v", sigSecondLife, how, err)
	}
	ctx, cancel := context.WithCancel(context.Background())
	rig.Start(ctx)
	key := credx.Key(kl, 900)
	code, body := rig.Add("second-life", key)
	cancel()
	rig.Stop()
	if code < 200 || code > 299 {
		return fmt.Sprintf("HARNESS second lifetime: add -> %d %s", code, body)
	}
	want := map[string][]byte{"second-life": key}
	for n, k := range current {
		want[n] = k
	}
	b, _ := os.ReadFile(storePath)
	got, complete, derr := credx.DecodeStore(b, kl)
	if derr != nil || !complete || !credx.SameUsers(got, want) {
		_, has := got["second-life"]
		return fmt.Sprintf("SIG=C20/%s %s: restart on the same directory (files next to the store: %v), POST users {second-life} -> %d, graceful stop; the store holds %d users (second-life on disk: %v, decode error %v), acknowledged set has %d; save errors logged: %d; files now: %v",
			sigSecondLife, how, before, code, len(got), has, derr, len(want), saveErrs.Load(), strayFiles(storePath))
	}
	return ""
}

func TestKillDuringSaves(t *testing.T) {
	n := envInt("VERIF_C20_KILLS", 40)
	base, err := os.MkdirTemp(workDir(), "verif-c20-k-")
	if err != nil {
		t.Fatal(err)
	}
	defer os.RemoveAll(base)
	shard := envInt("VERIF_SHARD", 0)
	sem := make(chan struct{}, envInt("VERIF_C20_PAR", 4))
	var mu sync.Mutex
	var wg sync.WaitGroup
	var violations, harness []string
	for i := 0; i < n; i++ {
		rng := rand.New(rand.NewPCG(uint64(seedInt())+1, uint64(shard)*1000003+uint64(i)))
		wg.Go(func() {
			sem <- struct{}{}
			defer func() { <-sem }()
			v, nt, label := killTrial(i, rng, base)
			mu.Lock()
			defer mu.Unlock()
			if strings.HasPrefix(v, "HARNESS") {
				// the child could not be started/observed (overloaded machine): not a verdict
				harness = append(harness, v)
				return
			}
			if v != "" {
				if strings.Contains(v, sigSecondLife) && isKnown(sigSecondLife) {
					recKill.KnownHit(listedSig(sigSecondLife))
					return
				}
				if strings.Contains(v, "kill-leaves-unloadable-store") && isKnown(sigPartial) {
					recKill.KnownHit(listedSig(sigPartial))
					return
				}
				violations = append(violations, v)
				return
			}
			recKill.Case(fmt.Sprintf("%s/%v", label, nt), nt, append(strings.Fields(label), "kill-judged")...)
		})
	}
	wg.Wait()
	sort.Strings(violations)
	for i, v := range violations {
		if i < 3 {
			t.Errorf("%s", v)
		}
	}
	if len(violations) > 0 {
		t.Errorf("%d of %d kills left a bad store", len(violations), n)
	}
	for i, h := range harness {
		if i < 3 {
			t.Logf("not judged: %s", h)
		}
	}
}
