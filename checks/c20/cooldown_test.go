package c20

import (
	"context"
	"encoding/json"
	"fmt"
	"os"
	"path/filepath"
	"strings"
	"testing"
	"testing/synctest"
	"time"

	"pgregory.net/rapid"

	"verif/internal/credx"
	"verif/internal/ev"
)

// Graceful shutdown inside the cool-down, followed by a restart (round 6, gap 3). 1-3 changes are
// acknowledged inside one cool-down (optionally after an earlier automatic save); then the
// shutdown actions come in every order and gap:
//
//	cancel-stop         cancel; gap; Stop
//	stop-cancel         Stop is called first (it must wait); gap; cancel
//	stop-change-cancel  Stop called; gap; one more request (must return; if acknowledged it may or may
//	                    not be saved: Stop has been called already); gap; cancel
//	cancel-late-stop    cancel; gap; two more requests (shutdown has begun: whatever they are
//	                    answered, they must return; if acknowledged they may or may not be saved); gap; Stop
//	cancel-stop-late    cancel; gap; Stop; two more requests (must return)
//
// What a restart finds is what the store file holds at the moment Stop RETURNS (the process
// exits then): the file is read by the goroutine that called Stop, right after the call, inside
// the bubble - work still going on in other goroutines at that moment does not count as written.
// It must be one complete document holding every change acknowledged before cancel (plus,
// possibly, a prefix of the acknowledged late ones), and a fresh server started on those bytes
// must accept exactly those users' keys.

type coolChange struct {
	Op    opSpec `json:"op"`
	After int64  `json:"after_ns"`
	Park  bool   `json:"park"`
}

type coolPlan struct {
	KeyLen  int            `json:"key_len"`
	Stores  credx.Mode     `json:"stores"`
	Prev    map[string]int `json:"prev"`
	Earlier bool           `json:"earlier"` // one change and its automatic save first
	Park0   bool           `json:"park0"`
	Changes []coolChange   `json:"changes"`
	Order   string         `json:"order"`
	Gap1    int64          `json:"gap1_ns"`
	Park1   bool           `json:"park1"`
	Gap2    int64          `json:"gap2_ns"`
	Park2   bool           `json:"park2"`
	Extra   []opSpec       `json:"extra"` // the requests made during / after shutdown (or before cancel in stop-change-cancel)
	Reps    int            `json:"reps"`
}

func (p coolPlan) String() string { b, _ := json.Marshal(p); return string(b) }

var coolOrders = []string{"cancel-stop", "stop-cancel", "stop-change-cancel", "cancel-late-stop", "cancel-stop-late"}
var coolChangeGaps = []int64{0, 0, 1, int64(time.Millisecond), int64(time.Second), int64(1500 * time.Millisecond)}
var coolGaps = []int64{0, 0, 0, 1, int64(time.Millisecond), int64(2500 * time.Millisecond), int64(6 * time.Second)}

func drawCoolPlan(rt *rapid.T) coolPlan {
	p := coolPlan{
		KeyLen:  rapid.SampledFrom([]int{16, 32}).Draw(rt, "kl"),
		Stores:  rapid.SampledFrom([]credx.Mode{credx.TCPOnly, credx.UDPOnly, credx.Both}).Draw(rt, "stores"),
		Prev:    map[string]int{},
		Earlier: rapid.Bool().Draw(rt, "earlier"),
		Park0:   rapid.Bool().Draw(rt, "park0"),
		Order:   rapid.SampledFrom(coolOrders).Draw(rt, "order"),
		Gap1:    rapid.SampledFrom(coolGaps).Draw(rt, "gap1"),
		Park1:   rapid.Bool().Draw(rt, "park1"),
		Gap2:    rapid.SampledFrom(coolGaps).Draw(rt, "gap2"),
		Park2:   rapid.Bool().Draw(rt, "park2"),
		Reps:    rapid.IntRange(2, 6).Draw(rt, "reps"),
	}
	nu := rapid.IntRange(0, 3).Draw(rt, "users")
	for i := 0; i < nu; i++ {
		p.Prev[names[i]] = i
	}
	state := applyModel(p.Prev, opSpec{})
	if p.Earlier {
		state["warmup"] = 9
	}
	nextKey := 10
	draw := func() opSpec {
		name := names[rapid.IntRange(0, 4).Draw(rt, "name")]
		nextKey++
		var op opSpec
		if _, ok := state[name]; !ok {
			op = opSpec{"add", name, nextKey}
		} else if rapid.Bool().Draw(rt, "del") {
			op = opSpec{"delete", name, 0}
		} else {
			op = opSpec{"update", name, nextKey}
		}
		state = applyModel(state, op)
		return op
	}
	n := rapid.IntRange(1, 3).Draw(rt, "changes")
	for i := 0; i < n; i++ {
		p.Changes = append(p.Changes, coolChange{Op: draw(), After: rapid.SampledFrom(coolChangeGaps).Draw(rt, "after"), Park: rapid.Bool().Draw(rt, "park")})
	}
	switch p.Order {
	case "stop-change-cancel":
		p.Extra = []opSpec{draw()}
	case "cancel-late-stop", "cancel-stop-late":
		p.Extra = []opSpec{draw(), draw()}
	}
	return p
}

// insideCooldown: is the context cancelled less than 5 s after the first change of the window?
func (p coolPlan) insideCooldown() bool {
	t := int64(0)
	for _, c := range p.Changes {
		t += c.After
	}
	switch p.Order {
	case "stop-cancel":
		t += p.Gap1
	case "stop-change-cancel":
		t += p.Gap1 + p.Gap2
	}
	return t < int64(5*time.Second)
}

type coolResult struct {
	violation string
	lost      int
	lateSaved int // repetitions in which an acknowledged late request was on disk
	lateAcked int
}

func runCoolPlan(t *testing.T, p coolPlan, dir string) (res coolResult) {
	const kind = "shutdown-in-cooldown"
	kl := p.KeyLen
	path := filepath.Join(dir, "upsks.json")
	for rep := 0; rep < p.Reps; rep++ {
		if err := os.WriteFile(path, credx.EncodeStore(users(kl, p.Prev), true), 0o644); err != nil {
			res.violation = "HARNESS " + err.Error()
			return
		}
		state := applyModel(p.Prev, opSpec{})
		usedKeys := map[int]bool{}
		for _, k := range p.Prev {
			usedKeys[k] = true
		}
		var prog progress
		var history []string
		var atStop []byte
		var lateStates []map[string]int // acknowledged states after each acknowledged late request
		harness := ""
		disarm := realWatchdog(kind, p, &prog)
		synctest.Test(t, func(t *testing.T) {
			rig, err := credx.NewRig(path, kl, p.Stores, nil)
			if err != nil {
				harness = "start: " + err.Error()
				return
			}
			ctx, cancel := context.WithCancel(context.Background())
			defer cancel()
			rig.Start(ctx)
			if p.Park0 {
				synctest.Wait()
			}
			pause := func(gap int64, park bool) {
				if gap > 0 {
					time.Sleep(time.Duration(gap))
					history = append(history, "+"+time.Duration(gap).String())
				}
				if park {
					synctest.Wait()
					history = append(history, "(all goroutines parked)")
				}
			}
			request := func(op opSpec) int {
				code := 0
				guarded(kind, p, fakeHangBound, &prog, fmt.Sprintf("%s(%s)", op.Op, op.Name), func() { code = doOp(rig, kl, op) })
				if op.Op != "delete" {
					usedKeys[op.Key] = true
				}
				history = append(history, fmt.Sprintf("%s(%s) -> %d", op.Op, op.Name, code))
				return code
			}
			must := func(op opSpec) bool {
				if code := request(op); !is2xx(code) {
					harness = fmt.Sprintf("%+v -> %d", op, code)
					return false
				}
				state = applyModel(state, op)
				return true
			}
			stopAndRead := func() { rig.Stop(); atStop, _ = os.ReadFile(path) }
			late := func() {
				cur := state
				for _, op := range p.Extra {
					// shutdown has begun: the answer is the implementation's business, the return is not
					if code := request(op); is2xx(code) {
						cur = applyModel(cur, op)
						lateStates = append(lateStates, cur)
					}
				}
			}
			if p.Earlier {
				if !must(opSpec{"add", "warmup", 9}) {
					return
				}
				time.Sleep(6 * time.Second)
				synctest.Wait()
				history = append(history, "6 s (automatic save)")
			}
			for _, c := range p.Changes {
				if !must(c.Op) {
					cancel()
					rig.Stop()
					return
				}
				pause(c.After, c.Park)
			}
			switch p.Order {
			case "cancel-stop":
				history = append(history, "cancel")
				cancel()
				pause(p.Gap1, p.Park1)
				guarded(kind, p, fakeHangBound, &prog, "Stop after cancel", stopAndRead)
			case "stop-cancel", "stop-change-cancel":
				history = append(history, "Stop called")
				done := make(chan struct{})
				go func() { defer close(done); stopAndRead() }()
				pause(p.Gap1, p.Park1)
				if p.Order == "stop-change-cancel" {
					// Stop has been called but the context is live. Whether that already counts as
					// "shutdown has begun" is the implementation's business (one whose Stop saves and
					// returns by itself is as good): the request must return; if acknowledged it may be saved.
					late()
					pause(p.Gap2, p.Park2)
				}
				history = append(history, "cancel")
				cancel()
				guarded(kind, p, fakeHangBound, &prog, "Stop (called before cancel) after cancel", func() { <-done })
			case "cancel-late-stop":
				history = append(history, "cancel")
				cancel()
				pause(p.Gap1, p.Park1)
				late()
				pause(p.Gap2, p.Park2)
				guarded(kind, p, fakeHangBound, &prog, "Stop after cancel", stopAndRead)
			case "cancel-stop-late":
				history = append(history, "cancel")
				cancel()
				pause(p.Gap1, p.Park1)
				guarded(kind, p, fakeHangBound, &prog, "Stop after cancel", stopAndRead)
				history = append(history, "Stop returned")
				late()
				lateStates = nil // the service has stopped: nothing is saved any more, and nothing has to be
			}
		})
		disarm()
		if harness != "" {
			res.violation = "HARNESS " + harness
			return
		}
		want := users(kl, state)
		got, complete, derr := credx.DecodeStore(atStop, kl)
		if derr != nil || !complete {
			res.violation = fmt.Sprintf("SIG=C20/store-not-loadable-after-stop start on %s; %s; at the moment Stop returned the store file %q does not decode: %v",
				credx.Show(users(kl, p.Prev), kl), strings.Join(history, "; "), clip(atStop, 200), derr)
			return
		}
		ok := credx.SameUsers(got, want)
		res.lateAcked += len(lateStates)
		for _, ls := range lateStates {
			if !ok && credx.SameUsers(got, users(kl, ls)) {
				ok = true
				res.lateSaved++
			}
		}
		if !ok {
			res.lost++
			if res.violation == "" {
				res.violation = fmt.Sprintf("SIG=C20/%s start on %s (save goroutine parked first: %v); %s; at the moment Stop returned the store file held %s; acknowledged before shutdown began: %s: %s",
					sigNotSaved, credx.Show(users(kl, p.Prev), kl), p.Park0, strings.Join(history, "; "), credx.Show(got, kl), credx.Show(want, kl), diffSets(got, want))
			}
			continue
		}
		var probe [][]byte
		for k := range usedKeys {
			probe = append(probe, credx.Key(kl, k))
		}
		probe = append(probe, credx.Key(kl, 7))
		if d := restartCheck(atStop, kl, p.Stores, got, probe, dir); d != "" {
			res.violation = fmt.Sprintf("SIG=C20/restart-does-not-accept-the-persisted-users start on %s; %s: %s", credx.Show(users(kl, p.Prev), kl), strings.Join(history, "; "), d)
			return
		}
	}
	if res.lost > 0 {
		res.violation += fmt.Sprintf(" [in %d of %d repetitions of this plan]", res.lost, p.Reps)
	}
	return
}

var recCool = ev.New("C20", "shutdown-in-cooldown-then-restart",
	"rapid, fake clock: store of 0-3 users, in half of the plans one change and its automatic save first; 1-3 acknowledged changes with gaps 0 / 1 ns / 1 ms / 1 s / 1.5 s "+
		"(all inside one cool-down); then cancel and Stop in the orders cancel-stop, stop-cancel, stop-change-cancel, cancel-late-stop, cancel-stop-late with gaps "+
		"0 / 1 ns / 1 ms / 2.5 s / 6 s and optional synctest.Wait between the actions; every plan repeated 2-6 times. The file is read by the goroutine that "+
		"called Stop immediately after Stop returned; it must be a complete document holding every change acknowledged before cancel (late acknowledged requests "+
		"optional, in order), and a fresh server on those bytes must list them and accept exactly their keys (request + reply). Every call and Stop has a completion "+
		"bound. One evaluation = one repetition. Non-trivial: cancel came less than 5 s after the first change of the window. Distinct key = order + gaps + parks + number of changes + earlier save").
	Require("order/cancel-stop", "order/stop-cancel", "order/stop-change-cancel", "order/cancel-late-stop", "order/cancel-stop-late",
		"shutdown-inside-the-cooldown", "after-an-earlier-automatic-save", "gap1/0", "gap1/nonzero", "changes/1", "changes/2+")

func TestShutdownInCooldownThenRestart(t *testing.T) {
	base, err := os.MkdirTemp(workDir(), "verif-c20-c-")
	if err != nil {
		t.Fatal(err)
	}
	defer os.RemoveAll(base)
	n := 0
	rapid.Check(t, func(rt *rapid.T) {
		n++
		p := drawCoolPlan(rt)
		dir := filepath.Join(base, fmt.Sprint(n))
		os.MkdirAll(dir, 0o755)
		defer os.RemoveAll(dir)
		rm := journal("shutdown-in-cooldown", p)
		res := runCoolPlan(t, p, dir)
		rm()
		if res.violation != "" {
			if strings.Contains(res.violation, "SIG=C20/"+sigNotSaved) && isKnown(sigNotSaved) {
				recCool.KnownHit(listedSig(sigNotSaved))
				return
			}
			rt.Fatalf("%s\n  plan: %s", res.violation, p)
		}
		inside := p.insideCooldown()
		labels := []string{"order/" + p.Order}
		if inside {
			labels = append(labels, "shutdown-inside-the-cooldown")
		}
		if p.Earlier {
			labels = append(labels, "after-an-earlier-automatic-save")
		}
		if p.Gap1 == 0 {
			labels = append(labels, "gap1/0")
		} else {
			labels = append(labels, "gap1/nonzero")
		}
		if len(p.Changes) == 1 {
			labels = append(labels, "changes/1")
		} else {
			labels = append(labels, "changes/2+")
		}
		key := fmt.Sprintf("%s/%d%v/%d%v/%v/%v/%d", p.Order, p.Gap1, p.Park1, p.Gap2, p.Park2, p.Earlier, p.Park0, len(p.Changes))
		for _, c := range p.Changes {
			key += fmt.Sprintf("/%d%v", c.After, c.Park)
		}
		for i := 0; i < p.Reps; i++ {
			recCool.Case(key, inside, labels...)
		}
		recCool.Label("late-requests-acknowledged", int64(res.lateAcked))
		recCool.Label("late-requests-found-on-disk", int64(res.lateSaved))
		if inside {
			recCool.Sample(p)
		}
	})
}
