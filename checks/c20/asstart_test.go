package c20

import (
	"context"
	"encoding/json"
	"fmt"
	"math/rand/v2"
	"os"
	"path/filepath"
	"sort"
	"strings"
	"sync"
	"sync/atomic"
	"testing"
	"testing/synctest"
	"time"

	"pgregory.net/rapid"

	"verif/internal/credx"
	"verif/internal/ev"
)

// Requests that arrive exactly as a save STARTS (round 6, gap 1, fake-time part).
//
// 2-4 goroutines each own a few user names and send add / update / delete requests back to back
// in bursts; optionally one more goroutine keeps POSTing reload-users on the file nobody touched.
// All of them sleep to the same instants of the fake clock: start + r * 5 s (+ a drawn offset of
// 0, +-1 ns, +-1 us). The first burst queues a save job; its cool-down ends at start + 5 s, which
// is the instant the second bursts begin, and their requests queue the job whose cool-down ends at
// start + 10 s, and so on: at every round the saver wakes up (clears its queue, takes the read
// lock, snapshots, encodes, writes) in the same instant in which 2-5 goroutines call the API. On a
// fake clock "the same instant" means really concurrent on different CPUs; a drawn amount of
// busy-spinning before each burst sweeps the arrival over the first microseconds of the save.
//
// Oracle: every request is valid against its sender's own model (names and keys are disjoint
// between senders) and must be answered 2xx; every call, every save and Stop must return (bound:
// one hour of fake time, noProgressBound of real time without a step finishing); after Stop the store file decodes to
// exactly the union of the senders' models and a fresh server on it accepts exactly those keys.

type startPlan struct {
	KeyLen int        `json:"key_len"`
	Stores credx.Mode `json:"stores"`
	Pad    int        `json:"pad"` // further users in the store (makes the save longer)
	Rounds int        `json:"rounds"`
	Muts   []startMut `json:"muts"`
	Reload bool       `json:"reload"`
	Park   bool       `json:"park"` // let the save goroutine reach its wait before the first request
	End    string     `json:"end"`  // "debounce": the last save is the automatic one; "shutdown": cancel right after the last burst
	Reps   int        `json:"reps"`
}

type startMut struct {
	Burst int    `json:"burst"` // requests per round, back to back
	Seed  uint64 `json:"seed"`  // op walk, offsets and spin
}

func (p startPlan) String() string { b, _ := json.Marshal(p); return string(b) }

func drawStartPlan(rt *rapid.T) startPlan {
	p := startPlan{
		KeyLen: rapid.SampledFrom([]int{16, 32}).Draw(rt, "kl"),
		Stores: rapid.SampledFrom([]credx.Mode{credx.TCPOnly, credx.UDPOnly, credx.Both}).Draw(rt, "stores"),
		Pad:    rapid.SampledFrom([]int{0, 3, 40, 300, 300}).Draw(rt, "pad"),
		Rounds: rapid.SampledFrom([]int{2, 2, 3, 3, 4, 6, 10, 20, 30}).Draw(rt, "rounds"),
		Reload: rapid.Bool().Draw(rt, "reload"),
		Park:   rapid.Bool().Draw(rt, "park"),
		End:    rapid.SampledFrom([]string{"debounce", "shutdown"}).Draw(rt, "end"),
	}
	// Only what the LAST round leaves unsaved can still be unsaved at shutdown (every later request
	// queues a new save job): short plans are repeated more often, long ones exercise many save starts.
	if p.Rounds <= 4 {
		if p.Pad > 40 {
			p.Pad = 40
		}
		p.Reps = rapid.IntRange(20, 60).Draw(rt, "reps")
	} else {
		p.Reps = rapid.IntRange(1, 2).Draw(rt, "reps")
	}
	n := rapid.IntRange(2, 4).Draw(rt, "muts")
	for i := 0; i < n; i++ {
		p.Muts = append(p.Muts, startMut{Burst: rapid.IntRange(1, 4).Draw(rt, "burst"), Seed: rapid.Uint64().Draw(rt, "seed")})
	}
	return p
}

var spinSink atomic.Uint64

func spin(n int) {
	x := uint64(n) | 1
	for i := 0; i < n; i++ {
		x = x*6364136223846793005 + 1442695040888963407
	}
	spinSink.Add(x)
}

// roundOffset: most bursts begin exactly at the save instant, some 1 ns / 1 us before or after.
func roundOffset(rng *rand.Rand) time.Duration {
	switch rng.IntN(10) {
	case 0:
		return -1
	case 1:
		return 1
	case 2:
		return time.Microsecond
	default:
		return 0
	}
}

type startResult struct {
	violation string
	overlaps  int // API calls during which the store file was replaced (the call overlapped a save), all repetitions
	calls     int
	atInstant int // requests issued at start + r*5 s exactly, r >= 1
	saves     int // replacements of the store file seen
}

func mutName(g, j int) string { return fmt.Sprintf("m%d-%c", g, 'a'+j) }

func runStartPlan(t *testing.T, p startPlan, dir string) (res startResult) {
	const kind = "as-save-starts"
	kl := p.KeyLen
	path := filepath.Join(dir, "upsks.json")
	prev := padUsers(p.Pad)
	for rep := 0; rep < p.Reps; rep++ {
		if err := os.WriteFile(path, credx.EncodeStore(users(kl, prev), true), 0o644); err != nil {
			res.violation = "HARNESS " + err.Error()
			return
		}
		var prog progress
		models := make([]map[string]int, len(p.Muts))
		logs := make([][]string, len(p.Muts))
		var mu sync.Mutex
		var bad []string
		var overlaps, calls, atInstant, saves atomic.Int64
		var atStop []byte
		var atStopErr error
		fail := func(s string) { mu.Lock(); bad = append(bad, s); mu.Unlock() }
		disarm := realWatchdog(kind, p, &prog)
		synctest.Test(t, func(t *testing.T) {
			rig, err := credx.NewRig(path, kl, p.Stores, nil)
			if err != nil {
				fail("HARNESS start: " + err.Error())
				return
			}
			ctx, cancel := context.WithCancel(context.Background())
			rig.Start(ctx)
			if p.Park {
				synctest.Wait()
			}
			start := time.Now()
			var wg sync.WaitGroup
			for g, m := range p.Muts {
				models[g] = map[string]int{}
				wg.Go(func() {
					rng := rand.New(rand.NewPCG(m.Seed, uint64(g)+1))
					state := models[g]
					nextKey := 100000 * (g + 1)
					for r := 0; r < p.Rounds; r++ {
						off := time.Duration(0)
						if r > 0 {
							off = roundOffset(rng)
						}
						time.Sleep(time.Until(start.Add(time.Duration(r)*5*time.Second + off)))
						spin(1 << rng.IntN(17))
						for b := 0; b < m.Burst; b++ {
							name := mutName(g, rng.IntN(3))
							var op opSpec
							if _, ok := state[name]; !ok {
								nextKey++
								op = opSpec{"add", name, nextKey}
							} else if rng.IntN(3) == 0 {
								op = opSpec{"delete", name, 0}
							} else {
								nextKey++
								op = opSpec{"update", name, nextKey}
							}
							prog.Set("round %d: %s(%s) by sender %d", r, op.Op, op.Name, g)
							ino := inodeOf(path)
							code := doOp(rig, kl, op)
							if inodeOf(path) != ino {
								overlaps.Add(1)
							}
							calls.Add(1)
							if r > 0 && off == 0 {
								atInstant.Add(1)
							}
							if !is2xx(code) {
								fail(fmt.Sprintf("SIG=C20/%s round %d (+%v): %s(%s) is valid against what its sender was acknowledged so far (%v; earlier requests of this sender: %s) but was answered %d",
									sigLostMidStream(p.Reload), r, time.Since(start), op.Op, op.Name, state, strings.Join(logs[g], " "), code))
								return
							}
							switch op.Op {
							case "delete":
								delete(state, op.Name)
							default:
								state[op.Name] = op.Key
							}
							logs[g] = append(logs[g], fmt.Sprintf("%s(%s)@r%d", op.Op, op.Name, r))
						}
					}
				})
			}
			if p.Reload {
				wg.Go(func() {
					rng := rand.New(rand.NewPCG(p.Muts[0].Seed, 77))
					for r := 1; r < p.Rounds; r++ {
						time.Sleep(time.Until(start.Add(time.Duration(r)*5*time.Second + roundOffset(rng))))
						spin(1 << rng.IntN(17))
						for b := 0; b < 1; b++ {
							prog.Set("round %d: POST reload-users", r)
							ino := inodeOf(path)
							code, body := rig.Reload()
							if inodeOf(path) != ino {
								overlaps.Add(1)
							}
							calls.Add(1)
							if !is2xx(code) {
								fail(fmt.Sprintf("HARNESS round %d: reload of the file nobody touched -> %d %s", r, code, body))
								return
							}
						}
					}
				})
			}
			// count the saves: the store file is replaced (new inode) by each of them
			stopCount := make(chan struct{})
			var cwg sync.WaitGroup
			cwg.Go(func() {
				last := inodeOf(path)
				for r := 1; ; r++ {
					select {
					case <-stopCount:
						return
					case <-time.After(time.Until(start.Add(time.Duration(r)*5*time.Second + 2500*time.Millisecond))):
					}
					if i := inodeOf(path); i != last {
						saves.Add(1)
						last = i
					}
				}
			})
			waitGuarded(kind, p, fakeHangBound, &prog, "request streams", &wg)
			close(stopCount)
			cwg.Wait()
			if p.End == "debounce" {
				time.Sleep(6 * time.Second)
				synctest.Wait()
			}
			cancel() // shutdown begins: every request above was acknowledged before
			// what a restart finds is what the file holds at the moment Stop returns
			guarded(kind, p, fakeHangBound, &prog, "Stop after cancel", func() { rig.Stop(); atStop, atStopErr = os.ReadFile(path) })
		})
		disarm()
		res.overlaps += int(overlaps.Load())
		res.calls += int(calls.Load())
		res.atInstant += int(atInstant.Load())
		res.saves += int(saves.Load())
		if len(bad) > 0 {
			sort.Strings(bad)
			res.violation = bad[len(bad)-1] // a SIG= line sorts after HARNESS
			return
		}
		wantIdx := map[string]int{}
		for n, k := range prev {
			wantIdx[n] = k
		}
		var probe [][]byte
		for g, m := range models {
			for n, k := range m {
				wantIdx[n] = k
				probe = append(probe, credx.Key(kl, k))
			}
			for k := 100000*(g+1) + 1; k <= 100000*(g+1)+p.Rounds*4 && len(probe) < 40; k += 5 {
				probe = append(probe, credx.Key(kl, k))
			}
		}
		want := users(kl, wantIdx)
		b, err := atStop, atStopErr
		if err != nil {
			res.violation = "SIG=C20/store-not-loadable-after-stop " + err.Error()
			return
		}
		got, complete, derr := credx.DecodeStore(b, kl)
		if derr != nil || !complete {
			res.violation = fmt.Sprintf("SIG=C20/store-not-loadable-after-stop after Stop the store file %q does not decode: %v", clip(b, 200), derr)
			return
		}
		if !credx.SameUsers(got, want) {
			var all []string
			for g := range logs {
				all = append(all, fmt.Sprintf("sender %d: %s", g, strings.Join(logs[g], " ")))
			}
			res.violation = fmt.Sprintf("SIG=C20/%s %d senders sent their bursts at start + r*5 s, the instants at which the debounced saves start (store of %d further users; reloads of the untouched file alongside: %v); "+
				"all %d requests were acknowledged; then %s, cancel, Stop returned; the store differs from the acknowledged set: %s\n  %s",
				sigNotSaved, len(p.Muts), p.Pad, p.Reload, calls.Load(), map[string]string{"debounce": "6 s without requests", "shutdown": "at once"}[p.End], diffSets(got, want), strings.Join(all, "\n  "))
			return
		}
		if rep > 0 {
			continue // the fresh server is started on the first repetition's file
		}
		if d := restartCheck(b, kl, p.Stores, want, probe, dir); d != "" {
			res.violation = fmt.Sprintf("SIG=C20/restart-does-not-accept-the-persisted-users after a stream of requests at the save instants and a graceful stop: %s", d)
			return
		}
	}
	return
}

func sigLostMidStream(reload bool) string {
	if reload {
		return sigLostByReload
	}
	return "acknowledged-change-lost-before-its-save"
}

var recStart = ev.New("C20", "requests-as-a-save-starts",
	"rapid, fake clock: 2-4 senders with disjoint names and keys send bursts of 1-4 add/update/delete requests back to back at start + r*5 s "+
		"(r = 0..1-29, short plans of 2-4 rounds repeated 20-60 times; offset 0, or +-1 ns / +1 us in 3 of 10 bursts; 1..65 000 iterations of busy-spinning first), which from r = 1 on is the instant the debounced save of the "+
		"previous round starts; in half of the plans a further goroutine POSTs reload-users at the same instants on the file nobody touched; store of "+
		"0-300 further users; the last save is the automatic one or a shutdown save right after the last burst. Every call, save and Stop has a completion bound "+
		"(1 h fake, 30 s of real time without progress: SIG save-or-api-call-did-not-return); every request must be answered 2xx; after Stop the file must decode to the union of the senders' "+
		"models and a fresh server must accept exactly those keys. One evaluation = one repetition of a plan. Non-trivial: during at least one API call the store file "+
		"was replaced (the call overlapped a save). Distinct key = senders/bursts/rounds/pad/reload/end").
	Require("api-call-overlapped-a-save", "requests-issued-at-the-instant-a-save-is-due", "reloads-alongside", "end/debounce", "end/shutdown", "saves>=3", "short-plan", "long-plan")

func TestRequestsAsSaveStarts(t *testing.T) {
	dir, err := os.MkdirTemp(workDir(), "verif-c20-a-")
	if err != nil {
		t.Fatal(err)
	}
	defer os.RemoveAll(dir)
	rapid.Check(t, func(rt *rapid.T) {
		p := drawStartPlan(rt)
		rm := journal("as-save-starts", p)
		res := runStartPlan(t, p, dir)
		rm()
		if res.violation != "" {
			for _, s := range []string{sigNotSaved, sigLostByReload} {
				if strings.Contains(res.violation, "SIG=C20/"+s) && isKnown(s) {
					recStart.KnownHit(listedSig(s))
					return
				}
			}
			rt.Fatalf("%s\n  plan: %s", res.violation, p)
		}
		labels := []string{"end/" + p.End, fmt.Sprintf("senders/%d", len(p.Muts)), fmt.Sprintf("pad/%d", p.Pad)}
		if res.overlaps > 0 {
			labels = append(labels, "api-call-overlapped-a-save")
		}
		if res.atInstant > 0 {
			labels = append(labels, "requests-issued-at-the-instant-a-save-is-due")
		}
		if p.Reload {
			labels = append(labels, "reloads-alongside")
		}
		if res.saves >= 3*p.Reps {
			labels = append(labels, "saves>=3")
		}
		if p.Rounds <= 4 {
			labels = append(labels, "short-plan")
		} else {
			labels = append(labels, "long-plan")
		}
		bursts := ""
		for _, m := range p.Muts {
			bursts += fmt.Sprint(m.Burst)
		}
		key := fmt.Sprintf("%d/%v/%s/%d/%d/%v/%s", p.KeyLen, p.Stores, bursts, p.Rounds, p.Pad, p.Reload, p.End)
		for i := 0; i < p.Reps; i++ {
			recStart.Case(key, res.overlaps > 0, labels...)
		}
		recStart.Label("api-calls", int64(res.calls))
		recStart.Label("api-calls-overlapping-a-save", int64(res.overlaps))
		recStart.Label("saves-seen", int64(res.saves))
		if res.overlaps > 0 {
			recStart.Sample(map[string]any{"plan": p, "calls": res.calls, "overlapping_a_save": res.overlaps, "saves": res.saves})
		}
	})
}
