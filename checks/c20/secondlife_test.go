package c20

import (
	"fmt"
	"os"
	"path/filepath"
	"testing"

	"verif/internal/credx"
)

// A store directory that is not clean: files such as a crashed writer (of this or an earlier
// version, an editor, a backup tool) leaves next to the store. None of them may keep the server
// from saving: restart, acknowledge a change, stop gracefully, the store holds it. (The kill test
// produces the real leftovers of the implementation under test; this is the deterministic part.)
func TestSecondLifetimeInDirtyDirectory(t *testing.T) {
	base, err := os.MkdirTemp(workDir(), "verif-c20-d-")
	if err != nil {
		t.Fatal(err)
	}
	defer os.RemoveAll(base)
	const store = "upsks.json"
	strays := [][]string{
		{store + ".tmp"}, {store + ".tmp-1234567890"}, {"." + store + ".tmp"}, {store + ".new"}, {store + "~", store + ".bak"},
		{store + ".tmp", store + ".tmp-1", store + ".tmp-2", "." + store + ".swp", store + ".lock"},
	}
	for i, names := range strays {
		for _, kl := range []int{16, 32} {
			dir := filepath.Join(base, fmt.Sprintf("%d-%d", i, kl))
			os.MkdirAll(dir, 0o755)
			cur := map[string][]byte{"alice": credx.Key(kl, 0), "bob": credx.Key(kl, 1)}
			doc := credx.EncodeStore(cur, true)
			if err := os.WriteFile(filepath.Join(dir, store), doc, 0o644); err != nil {
				t.Fatal(err)
			}
			for j, n := range names {
				// what an interrupted writer leaves: a prefix of a document
				if err := os.WriteFile(filepath.Join(dir, n), doc[:len(doc)*(j+1)/(len(names)+1)], 0o600); err != nil {
					t.Fatal(err)
				}
			}
			stores := []credx.Mode{credx.Both, credx.TCPOnly, credx.UDPOnly}[i%3]
			v := secondLifetime(filepath.Join(dir, store), kl, stores, cur, fmt.Sprintf("store directory also holds %v", names))
			if v != "" {
				if isKnown(sigSecondLife) {
					recKill.KnownHit(listedSig(sigSecondLife))
					continue
				}
				t.Errorf("%s", v)
				continue
			}
			recKill.Case(fmt.Sprintf("dirty/%d/%d", i, kl), true, "second-lifetime-in-dirty-directory")
		}
	}
}
