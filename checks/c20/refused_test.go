package c20

import (
	"bytes"
	"context"
	"encoding/base64"
	"encoding/json"
	"fmt"
	"os"
	"path/filepath"
	"testing"
	"testing/synctest"
	"time"

	"pgregory.net/rapid"

	"verif/internal/credx"
	"verif/internal/ev"
)

// A reload that is refused because of a semantic error in the middle of a hand-edited file
// (valid JSON; one entry has a key of the wrong length for the method, a key that an earlier
// entry already has, or bad base64) must leave the in-memory user set exactly as it was, so that
// the next acknowledged change is saved as (previous set +- that change): nothing lost, nothing
// of the refused file leaked into the store.

const (
	sigRefusedChanged = "refused-reload-changed-the-user-set"
	sigRefusedSave    = "save-after-refused-reload-not-previous-set-plus-change"
)

type refusedPlan struct {
	KeyLen  int        `json:"key_len"`
	Stores  credx.Mode `json:"stores"`
	NPrev   int        `json:"nprev"`
	NGood   int        `json:"ngood"`
	Kind    string     `json:"kind"`
	Pos     string     `json:"pos"`
	Overlap bool       `json:"overlap"` // the file's good entries reuse previous users' names (with other keys)
	Compact bool       `json:"compact"`
	Op      string     `json:"op"`  // add update delete
	Via     string     `json:"via"` // debounce shutdown
	Twice   bool       `json:"twice"`
}

func (p refusedPlan) String() string { b, _ := json.Marshal(p); return string(b) }

var recRefused = ev.New("C20", "refused-reload-then-change-then-save",
	"rapid, fake clock: store of 1-5 users; the file is hand-edited to valid JSON with 1-4 good entries (new names, or the previous users' "+
		"names with other keys) and ONE bad entry (key of the other method's length / a key an earlier entry already has / bad base64) standing "+
		"first, in the middle or last; POST reload-users must be refused; right after it the API list must be the previous set and real "+
		"TCP/UDP clients (with reply round trip) of every previous user accepted, of every key in the file refused; then one acknowledged "+
		"POST / PATCH / DELETE; its save (5 s debounce or graceful shutdown) must write exactly (previous set +- that change), and a fresh "+
		"server must start on it. Non-trivial: at least one good entry precedes the bad one").
	Require("kind/bad-length", "kind/dup-key", "kind/bad-base64", "pos/first", "pos/middle", "pos/last", "good-entries-before-the-bad-one", "via/debounce", "via/shutdown")

func runRefusedPlan(t *testing.T, p refusedPlan, dir string) (violation string, goodBefore int) {
	kl := p.KeyLen
	path := filepath.Join(dir, "upsks.json")
	prevIdx := map[string]int{}
	for i := 0; i < p.NPrev; i++ {
		prevIdx[names[i]] = i
	}
	prev := users(kl, prevIdx)
	if err := os.WriteFile(path, credx.EncodeStore(prev, true), 0o644); err != nil {
		return "HARNESS " + err.Error(), 0
	}
	// the refused file
	var good []credx.Entry
	var fileKeys [][]byte
	for i := 0; i < p.NGood; i++ {
		n := fmt.Sprintf("newcomer%d", i)
		if p.Overlap && i < p.NPrev {
			n = names[i]
		}
		k := credx.Key(kl, 40+i)
		fileKeys = append(fileKeys, k)
		good = append(good, credx.Entry{Name: n, Value: base64.StdEncoding.EncodeToString(k)})
	}
	pos := map[string]int{"first": 0, "middle": (p.NGood + 1) / 2, "last": p.NGood}[p.Pos]
	goodBefore = pos
	bad := credx.SemanticallyBadStore(kl, good, "intruder", p.Kind, pos, !p.Compact)
	if _, _, derr := credx.DecodeStore(bad, kl); derr == nil {
		return "HARNESS the bad file decodes", 0
	}
	var op opSpec
	switch p.Op {
	case "add":
		op = opSpec{"add", "zed", 70}
	case "update":
		op = opSpec{"update", names[0], 71}
	case "delete":
		op = opSpec{"delete", names[p.NPrev-1], 0}
	}
	wantIdx := applyModel(prevIdx, op)
	want := users(kl, wantIdx)
	describe := fmt.Sprintf("store %s; file rewritten as %q (%s entry %s, %d good entries before it)", credx.Show(prev, kl), clip(bad, 400), p.Kind, p.Pos, goodBefore)

	synctest.Test(t, func(t *testing.T) {
		rig, err := credx.NewRig(path, kl, p.Stores, nil)
		if err != nil {
			violation = "HARNESS start: " + err.Error()
			return
		}
		ctx, cancel := context.WithCancel(context.Background())
		rig.Start(ctx)
		stopped := false
		defer func() {
			if !stopped {
				cancel()
				rig.Stop()
			}
		}()
		synctest.Wait()
		if err := os.WriteFile(path, bad, 0o644); err != nil {
			violation = "HARNESS " + err.Error()
			return
		}
		reloads := 1
		if p.Twice {
			reloads = 2
		}
		for i := 0; i < reloads; i++ {
			code, body := rig.Reload()
			if code < 400 {
				violation = fmt.Sprintf("SIG=C20/invalid-store-accepted-by-reload %s; POST reload-users -> %d %s", describe, code, body)
				return
			}
			listed, err := rig.List()
			if err != nil || !credx.SameUsers(listed, prev) {
				violation = fmt.Sprintf("SIG=C20/%s %s; POST reload-users refused (%d); right after it the API lists %s (%v)", sigRefusedChanged, describe, code, credx.Show(listed, kl), err)
				return
			}
			check := func(key []byte, owner string, listedKey bool) string {
				var probes []credx.Probe
				var trs []string
				if p.Stores.HasTCP() {
					probes, trs = append(probes, rig.ProbeTCP(key)), append(trs, "tcp")
				}
				if p.Stores.HasUDP() {
					probes, trs = append(probes, rig.ProbeUDP(key)), append(trs, "udp")
				}
				for j, pr := range probes {
					if listedKey && (!pr.OK || pr.User != owner || !pr.ReplyOK) {
						return fmt.Sprintf("%s client of previous user %s: accepted=%v as %q reply=%v (%s %s)", trs[j], owner, pr.OK, pr.User, pr.ReplyOK, pr.Err, pr.ReplyErr)
					}
					if !listedKey && pr.OK {
						return fmt.Sprintf("%s client with a key that only the refused file contains is accepted as %q", trs[j], pr.User)
					}
				}
				return ""
			}
			for n, k := range prev {
				if d := check(k, n, true); d != "" {
					violation = fmt.Sprintf("SIG=C20/%s %s; POST reload-users refused (%d); then %s", sigRefusedChanged, describe, code, d)
					return
				}
			}
			for _, k := range append(fileKeys, credx.Key(kl, 9), credx.Key(48-kl, 9)[:min(kl, 48-kl)]) {
				held := false
				for _, pk := range prev {
					held = held || bytes.Equal(pk, k)
				}
				if len(k) != kl || held {
					continue
				}
				if d := check(k, "", false); d != "" {
					violation = fmt.Sprintf("SIG=C20/%s %s; POST reload-users refused (%d); then %s", sigRefusedChanged, describe, code, d)
					return
				}
			}
		}
		if code := doOp(rig, kl, op); code < 200 || code > 299 {
			violation = fmt.Sprintf("SIG=C20/%s %s; reload refused; then %s(%s), valid against the previous set, answered %d", sigRefusedChanged, describe, op.Op, op.Name, code)
			return
		}
		if p.Via == "debounce" {
			time.Sleep(6 * time.Second)
			synctest.Wait()
		}
		cancel()
		rig.Stop()
		stopped = true
	})
	if violation != "" {
		return violation, goodBefore
	}
	b, err := os.ReadFile(path)
	if err != nil {
		return "SIG=C20/" + sigRefusedSave + " " + err.Error(), goodBefore
	}
	got, complete, derr := credx.DecodeStore(b, kl)
	if derr != nil || !complete || !credx.SameUsers(got, want) {
		return fmt.Sprintf("SIG=C20/%s %s; reload refused; %s(%s) acknowledged; after its save (%s) the store file is %q = %s (decode error %v); it must be %s",
			sigRefusedSave, describe, op.Op, op.Name, p.Via, clip(b, 300), credx.Show(got, kl), derr, credx.Show(want, kl)), goodBefore
	}
	p2 := filepath.Join(dir, "restart.json")
	_ = os.WriteFile(p2, b, 0o644)
	fresh, err := credx.NewRig(p2, kl, p.Stores, nil)
	if err != nil {
		return fmt.Sprintf("SIG=C20/%s a server restarted on the saved store refuses it: %v", sigRefusedSave, err), goodBefore
	}
	if l, err := fresh.List(); err != nil || !credx.SameUsers(l, want) {
		return fmt.Sprintf("SIG=C20/%s a server restarted on the saved store lists %s, expected %s", sigRefusedSave, credx.Show(l, kl), credx.Show(want, kl)), goodBefore
	}
	return "", goodBefore
}

func TestRefusedReloadThenChange(t *testing.T) {
	base, err := os.MkdirTemp(workDir(), "verif-c20-x-")
	if err != nil {
		t.Fatal(err)
	}
	defer os.RemoveAll(base)
	n := 0
	rapid.Check(t, func(rt *rapid.T) {
		n++
		p := refusedPlan{
			KeyLen:  rapid.SampledFrom([]int{16, 32}).Draw(rt, "kl"),
			Stores:  rapid.SampledFrom([]credx.Mode{credx.TCPOnly, credx.UDPOnly, credx.Both}).Draw(rt, "stores"),
			NPrev:   rapid.IntRange(1, 5).Draw(rt, "nprev"),
			NGood:   rapid.IntRange(1, 4).Draw(rt, "ngood"),
			Kind:    rapid.SampledFrom([]string{"bad-length", "dup-key", "bad-base64"}).Draw(rt, "kind"),
			Pos:     rapid.SampledFrom([]string{"first", "middle", "last"}).Draw(rt, "pos"),
			Overlap: rapid.Bool().Draw(rt, "overlap"),
			Compact: rapid.Bool().Draw(rt, "compact"),
			Op:      rapid.SampledFrom([]string{"add", "update", "delete"}).Draw(rt, "op"),
			Via:     rapid.SampledFrom([]string{"debounce", "shutdown"}).Draw(rt, "via"),
			Twice:   rapid.IntRange(0, 3).Draw(rt, "twice") == 0,
		}
		dir := filepath.Join(base, fmt.Sprint(n))
		os.MkdirAll(dir, 0o755)
		defer os.RemoveAll(dir)
		v, goodBefore := runRefusedPlan(t, p, dir)
		if v != "" {
			rt.Fatalf("%s\n  plan: %s", v, p)
		}
		labels := []string{"kind/" + p.Kind, "pos/" + p.Pos, "via/" + p.Via, "op/" + p.Op, "stores/" + p.Stores.String()}
		if goodBefore >= 1 {
			labels = append(labels, "good-entries-before-the-bad-one", "kind/"+p.Kind+"/after-good-entries")
		}
		recRefused.Case(fmt.Sprintf("%s/%s/%d/%d/%s/%s/%v", p.Kind, p.Pos, p.NGood, p.NPrev, p.Op, p.Via, p.Overlap), goodBefore >= 1, labels...)
	})
}
