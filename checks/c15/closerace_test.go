package c15

// Mode C: closes of the SAME direction issued from both ends at the same instant, on real goroutines.
//
// A case takes hundreds of fresh pipes. Two long-lived closer goroutines walk over them in lock step:
// for every pipe both wait for each other and then for a common start instant of the monotonic clock, then
// one calls its close operation on end a and the other on end b (a.Close || b.Close,
// a.CloseRead || b.CloseWrite, a.CloseWrite || b.CloseRead; also two closes on the same end, and the
// sequential idioms peer.CloseWrite; local.Close and local.CloseRead; local.Close executed by one of
// them). A drawn per-pipe skew of a few spin iterations on one side scans the alignment of the two
// calls. Optionally each pipe has calls parked on it when the closes hit (Read / WriteTo / Write per
// direction), and one or two more goroutines that, from the same start flag on, keep calling Read
// (Write) with an already expired read (write) deadline on one end, so that a call is *entering* the
// pipe at the very moment the direction is being closed.
//
// Oracle (property text + doc comments; error classes via the reference model's readClosedErrs):
//   - no panic (a panic kills the binary: the plan is journaled first and replayable), every close
//     returns, every call parked on a direction that was closed returns (bounded liveness);
//   - direction closed by its writer only: the reader sees exactly io.EOF (WriteTo: nil); by its reader
//     only: io.ErrClosedPipe; by both: either; writes on a closed direction: (0, io.ErrClosedPipe);
//     n == 0 for every call that was parked or started on a closed direction;
//   - a Read (Write) with an expired deadline never moves a byte: (0, timeout) until the direction is
//     closed, then timeout or the close error (closed and expired at once: either);
//   - a direction the closes did not touch keeps working: 3 bytes written afterwards arrive intact at
//     the parked (or a fresh) reader, a parked writer's bytes are delivered to a fresh Read;
//   - after Close of both ends everything has returned.

import (
	"bytes"
	"fmt"
	"runtime"
	"strings"
	"sync"
	"sync/atomic"
	"testing"
	"time"

	"github.com/database64128/shadowsocks-go/netio"
	"pgregory.net/rapid"

	"verif/internal/ev"
)

const (
	rkCloseClose = iota // a.Close || b.Close
	rkCloseReadCloseWrite
	rkCloseWriteCloseRead
	rkSeqPeerCloseWriteLocalClose // b.CloseWrite(); a.Close()   (one goroutine)
	rkSeqLocalCloseReadLocalClose // a.CloseRead(); a.Close()    (one goroutine)
	rkSameEndCloseClose           // a.Close || a.Close
	nRaceKinds
)

var raceKindNames = [...]string{"race/a.Close||b.Close", "race/a.CloseRead||b.CloseWrite", "race/a.CloseWrite||b.CloseRead",
	"seq/peer.CloseWrite;local.Close", "seq/local.CloseRead;local.Close", "race/a.Close||a.Close"}

const (
	pendNone = iota
	pendReader
	pendWriter
	pendWriteTo
)

type planC struct {
	Kind int    `json:"kind"`
	N    int    `json:"n"`    // pipes
	Swap bool   `json:"swap"` // which result of NewPipe plays "a"
	Pend [2]int `json:"pend"` // per direction (0: a->b, 1: b->a): call parked on it when the closes hit
	// SpinR / SpinW: end (0 a, 1 b, -1 none) on which a goroutine keeps calling Read / Write with an expired deadline
	SpinR   int    `json:"spinR"`
	SpinW   int    `json:"spinW"`
	SkewMax int    `json:"skewMax"` // per pipe one closer is delayed by 0..SkewMax spin iterations
	Seed    uint64 `json:"seed"`    // of the per-pipe skews
}

type caseInfoC struct {
	Pipes       int
	Within1us   int // pairs of simultaneous closes whose returns were < 1us apart
	Within200ns int
	SpinCalls   int // calls made by the spinning goroutines
	SpinSawIt   int // pipes on which a spinning call returned the close error
}

// closedFlags returns, per direction (0: a->b, 1: b->a), whether the plan's close operations closed it
// from the writer's side (cw) / the reader's side (cr).
func (p planC) closedFlags() (cw, cr [2]bool) {
	switch p.Kind {
	case rkCloseClose:
		cw, cr = [2]bool{true, true}, [2]bool{true, true}
	case rkCloseReadCloseWrite: // a.CloseRead: b->a from the reader; b.CloseWrite: b->a from the writer
		cw[1], cr[1] = true, true
	case rkCloseWriteCloseRead:
		cw[0], cr[0] = true, true
	case rkSeqPeerCloseWriteLocalClose: // b.CloseWrite; a.Close
		cw[1], cr[1], cw[0] = true, true, true
	case rkSeqLocalCloseReadLocalClose, rkSameEndCloseClose: // only a closes: a->b as writer, b->a as reader
		cw[0], cr[1] = true, true
	}
	return
}

var (
	stallBoundC atomic.Int64
)

// Liveness bound for one phase of one case (real time). Observed: a few ms on an idle machine, up to
// 5.5 s for 300 pipes with two spinning callers at load average 90 on 16 cores. A miss is re-tried
// once on fresh pipes before it counts (checkPlanC); after a confirmed miss the bound drops so that
// shrinking a hanging case stays affordable.
func init() { stallBoundC.Store(int64(120 * time.Second)) }

type pcallC struct {
	kind callKind
	buf  []byte
	sink *bytes.Buffer
	n    int
	err  error
	done chan struct{}
}

// spinWait waits until f >= target: a short busy wait (the normal case: the partner is a few hundred
// nanoseconds away), then yielding, then sleeping (the partner's thread was descheduled).
func spinWait(f *atomic.Int64, target int64) {
	for s := 0; f.Load() < target; s++ {
		switch {
		case s > 20000:
			time.Sleep(20 * time.Microsecond)
		case s > 2000:
			runtime.Gosched()
		}
	}
}

func runPlanC(p planC) (viol string, ci caseInfoC) {
	type pipeC struct {
		ends  [2]*netio.PipeConn // [0] = a, [1] = b
		calls [2]*pcallC         // per direction
	}
	N := p.N
	pipes := make([]pipeC, N)
	var vmu sync.Mutex
	fail := func(s string) {
		vmu.Lock()
		if viol == "" {
			viol = s
		}
		vmu.Unlock()
	}
	past := time.Unix(1, 0)
	for i := range pipes {
		x, y := netio.NewPipe()
		if p.Swap {
			x, y = y, x
		}
		pp := &pipes[i]
		pp.ends = [2]*netio.PipeConn{x, y}
		if p.SpinR >= 0 {
			pp.ends[p.SpinR].SetReadDeadline(past)
		}
		if p.SpinW >= 0 {
			pp.ends[p.SpinW].SetWriteDeadline(past)
		}
		for d := range 2 {
			w, r := pp.ends[d], pp.ends[1-d] // direction d is written by end d
			var c *pcallC
			switch p.Pend[d] {
			case pendReader:
				c = &pcallC{kind: cRead, buf: make([]byte, 4), done: make(chan struct{})}
				go func() { c.n, c.err = r.Read(c.buf); close(c.done) }()
			case pendWriteTo:
				c = &pcallC{kind: cWriteTo, sink: &bytes.Buffer{}, done: make(chan struct{})}
				go func() {
					n, err := r.WriteTo(c.sink)
					c.n, c.err = int(n), err
					close(c.done)
				}()
			case pendWriter:
				c = &pcallC{kind: cWrite, buf: []byte{byte(i), byte(i + 1), byte(i + 2)}, done: make(chan struct{})}
				go func() { c.n, c.err = w.Write(c.buf); close(c.done) }()
			}
			pp.calls[d] = c
		}
	}
	// let the parked calls reach their select (best effort; the oracle does not depend on it)
	for range 20 {
		runtime.Gosched()
	}
	time.Sleep(200 * time.Microsecond)

	// per-pipe skew
	skew := make([]int8, N)
	sd := p.Seed | 1
	for i := range skew {
		sd ^= sd << 13
		sd ^= sd >> 7
		sd ^= sd << 17
		if p.SkewMax > 0 {
			skew[i] = int8(int(sd>>33)%(2*p.SkewMax+1) - p.SkewMax)
		}
	}

	ops := func(kind, who int, a, b *netio.PipeConn) {
		switch kind {
		case rkCloseClose:
			if who == 0 {
				a.Close()
			} else {
				b.Close()
			}
		case rkCloseReadCloseWrite:
			if who == 0 {
				a.CloseRead()
			} else {
				b.CloseWrite()
			}
		case rkCloseWriteCloseRead:
			if who == 0 {
				a.CloseWrite()
			} else {
				b.CloseRead()
			}
		case rkSeqPeerCloseWriteLocalClose:
			if who == 0 {
				b.CloseWrite()
				a.Close()
			}
		case rkSeqLocalCloseReadLocalClose:
			if who == 0 {
				a.CloseRead()
				a.Close()
			}
		case rkSameEndCloseClose:
			a.Close()
		}
	}

	// Start protocol per pipe: both closers announce their arrival; the one that arrives last publishes
	// a start instant 1.5us ahead; both poll the monotonic clock until it is reached (so they leave at
	// the same instant up to the clock's resolution, wherever each was when the other arrived). A
	// spinning caller only has to be calling on pipe i before the closers arrive there.
	t0 := time.Now()
	var arrive atomic.Int64
	startAt := make([]atomic.Int64, N)
	closersDone := make([]atomic.Int32, N)
	retAt := [2][]int64{make([]int64, N), make([]int64, N)}
	var spinIdx [2]atomic.Int64 // pipe index a spinner is calling on (spinner 0: Read, 1: Write)
	spinOn := [2]bool{p.SpinR >= 0, p.SpinW >= 0}
	var sink atomic.Int64
	var wg sync.WaitGroup
	for who := range 2 {
		wg.Go(func() {
			for i := range pipes {
				for k := range spinOn {
					if spinOn[k] {
						spinWait(&spinIdx[k], int64(i+1))
					}
				}
				if arrive.Add(1) == int64(2*(i+1)) {
					startAt[i].Store(int64(time.Since(t0)) + 1500)
				} else {
					spinWait(&startAt[i], 1)
				}
				for T := startAt[i].Load(); int64(time.Since(t0)) < T; {
				}
				if k := int(skew[i]); (who == 0 && k > 0) || (who == 1 && k < 0) {
					if k < 0 {
						k = -k
					}
					for range k * 4 {
						sink.Load()
					}
				}
				ops(p.Kind, who, pipes[i].ends[0], pipes[i].ends[1])
				retAt[who][i] = int64(time.Since(t0))
				closersDone[i].Add(1)
			}
		})
	}
	cw, cr := p.closedFlags()
	var spinCalls, spinSaw atomic.Int64
	spinner := func(end int, write bool) {
		wg.Go(func() {
			buf := make([]byte, 4)
			// direction this spinner's calls use, and the classes a call may return once it is closed
			d, me := end, 1
			if !write {
				d, me = 1-end, 0
			}
			for i := range pipes {
				c := pipes[i].ends[end]
				spinIdx[me].Store(int64(i + 1))
				extra := 0
				for calls := 0; ; calls++ {
					var n int
					var err error
					if write {
						n, err = c.Write(buf[:3])
					} else {
						n, err = c.Read(buf)
					}
					spinCalls.Add(1)
					cl := classify(err)
					if n != 0 || cl == eNil {
						fail(fmt.Sprintf("SIG=C15/C/expired-call-transferred pipe %d end %d: a call with an expired deadline (write=%v) returned n=%d err=%v", i, end, write, n, err))
						break
					}
					if cl == eTimeout {
						if closersDone[i].Load() == 2 {
							if extra++; extra > 3 {
								break
							}
						} else if calls > 5000 {
							runtime.Gosched() // the closers are not there yet (descheduled): do not hog the processor
						}
						continue
					}
					var ok errClass
					if cw[d] || cr[d] {
						if write {
							ok = eClosed
						} else {
							ok = readClosedErrs(&dirState{ClosedW: cw[d], ClosedR: cr[d]}, cRead)
						}
					}
					if cl&ok == 0 {
						fail(fmt.Sprintf("SIG=C15/C/spinning-call-error pipe %d end %d %s: a call with an expired deadline (write=%v) returned err=%v (%s); allowed: timeout|%s", i, end, raceKindNames[p.Kind], write, err, cl, ok))
					} else {
						spinSaw.Add(1)
					}
					break
				}
				if write {
					c.SetWriteDeadline(time.Time{})
				} else {
					c.SetReadDeadline(time.Time{})
				}
			}
		})
	}
	if p.SpinR >= 0 {
		spinner(p.SpinR, false)
	}
	if p.SpinW >= 0 {
		spinner(p.SpinW, true)
	}
	racesDone := make(chan struct{})
	go func() { wg.Wait(); close(racesDone) }()
	bound := time.Duration(stallBoundC.Load())
	missed := func(what string) string {
		return fmt.Sprintf("VERIF-VIOLATION SIG=C15/C/%s %s: %s not finished within %v; plan=%s", what, raceKindNames[p.Kind], what, bound, jsonOfC(p))
	}
	select {
	case <-racesDone:
	case <-time.After(bound):
		for i := range pipes {
			pipes[i].ends[0].Close()
			pipes[i].ends[1].Close()
		}
		return missed("close-did-not-return"), ci
	}
	if viol != "" {
		return viol + " plan=" + jsonOfC(p), ci
	}
	for i := range pipes {
		if p.Kind == rkCloseClose || p.Kind == rkCloseReadCloseWrite || p.Kind == rkCloseWriteCloseRead || p.Kind == rkSameEndCloseClose {
			d := retAt[0][i] - retAt[1][i]
			if d < 0 {
				d = -d
			}
			if d < 1000 {
				ci.Within1us++
			}
			if d < 200 {
				ci.Within200ns++
			}
		}
	}
	ci.Pipes = N
	ci.SpinCalls = int(spinCalls.Load())
	ci.SpinSawIt = int(spinSaw.Load())

	// ---- after the closes: everything below runs under one watchdog
	post := make(chan string, 1)
	go func() {
		post <- func() string {
			checkParked := func(i, d int, c *pcallC, cwd, crd bool, when string) string {
				var ok errClass
				if c.kind == cWrite {
					ok = eClosed
				} else {
					ok = readClosedErrs(&dirState{ClosedW: cwd, ClosedR: crd}, c.kind)
				}
				if c.n != 0 || classify(c.err)&ok == 0 {
					return fmt.Sprintf("SIG=C15/C/parked-%s-result pipe %d direction %d %s (%s): parked %s returned n=%d err=%v (%s), want n=0 err in {%s}",
						c.kind, i, d, raceKindNames[p.Kind], when, c.kind, c.n, c.err, classify(c.err), ok)
				}
				return ""
			}
			for i := range pipes {
				pp := &pipes[i]
				for d := range 2 {
					w, r := pp.ends[d], pp.ends[1-d]
					c := pp.calls[d]
					if cw[d] || cr[d] {
						// closed direction: the parked call returns; fresh calls fail at once
						if c != nil {
							<-c.done
							if v := checkParked(i, d, c, cw[d], cr[d], "woken by the closes"); v != "" {
								return v
							}
						}
						// an end that closed its own read (write) side refuses Set*Deadline, so a spinner's expired
						// deadline may still be in place there: closed and expired at once, either error
						okr, okw := readClosedErrs(&dirState{ClosedW: cw[d], ClosedR: cr[d]}, cRead), eClosed
						if p.SpinR == 1-d {
							okr |= eTimeout
						}
						if p.SpinW == d {
							okw |= eTimeout
						}
						if n, err := r.Read(make([]byte, 1)); n != 0 || classify(err)&okr == 0 {
							return fmt.Sprintf("SIG=C15/C/read-after-close pipe %d direction %d %s: Read on the closed direction (closed by writer=%v, by reader=%v) returned n=%d err=%v, want n=0 err in {%s}",
								i, d, raceKindNames[p.Kind], cw[d], cr[d], n, err, okr)
						}
						if n, err := w.Write([]byte{1}); n != 0 || classify(err)&okw == 0 {
							return fmt.Sprintf("SIG=C15/C/write-after-close pipe %d direction %d %s: Write on the closed direction returned n=%d err=%v, want (0, io.ErrClosedPipe)",
								i, d, raceKindNames[p.Kind], n, err)
						}
						continue
					}
					// untouched direction: still a working stream
					msg := []byte{byte(i), byte(i + 1), byte(i + 2)}
					switch {
					case c == nil:
						got := make([]byte, 8)
						rd := make(chan struct{})
						var rn int
						var rerr error
						go func() { rn, rerr = r.Read(got); close(rd) }()
						if n, err := w.Write(msg); n != 3 || err != nil {
							return fmt.Sprintf("SIG=C15/C/reverse-direction-broken pipe %d direction %d %s: Write on the direction the closes did not touch returned n=%d err=%v", i, d, raceKindNames[p.Kind], n, err)
						}
						<-rd
						if rn != 3 || rerr != nil || !bytes.Equal(got[:3], msg) {
							return fmt.Sprintf("SIG=C15/C/reverse-direction-broken pipe %d direction %d %s: Read returned n=%d err=%v data=%x, want %x", i, d, raceKindNames[p.Kind], rn, rerr, got[:max(0, min(rn, 8))], msg)
						}
					case c.kind == cRead:
						if n, err := w.Write(msg); n != 3 || err != nil {
							return fmt.Sprintf("SIG=C15/C/reverse-direction-broken pipe %d direction %d %s: Write to the parked reader returned n=%d err=%v", i, d, raceKindNames[p.Kind], n, err)
						}
						<-c.done
						if c.n != 3 || c.err != nil || !bytes.Equal(c.buf[:3], msg) {
							return fmt.Sprintf("SIG=C15/C/reverse-direction-broken pipe %d direction %d %s: parked Read returned n=%d err=%v data=%x, want %x", i, d, raceKindNames[p.Kind], c.n, c.err, c.buf, msg)
						}
						pp.calls[d] = nil
					case c.kind == cWriteTo:
						if n, err := w.Write(msg); n != 3 || err != nil {
							return fmt.Sprintf("SIG=C15/C/reverse-direction-broken pipe %d direction %d %s: Write to the parked WriteTo returned n=%d err=%v", i, d, raceKindNames[p.Kind], n, err)
						}
					case c.kind == cWrite:
						got := make([]byte, 8)
						if n, err := r.Read(got); n != 3 || err != nil || !bytes.Equal(got[:3], c.buf) {
							return fmt.Sprintf("SIG=C15/C/reverse-direction-broken pipe %d direction %d %s: Read of the parked Write returned n=%d err=%v data=%x, want %x", i, d, raceKindNames[p.Kind], n, err, got[:max(0, min(n, 8))], c.buf)
						}
						<-c.done
						if c.n != 3 || c.err != nil {
							return fmt.Sprintf("SIG=C15/C/reverse-direction-broken pipe %d direction %d %s: parked Write returned n=%d err=%v, want (3, nil)", i, d, raceKindNames[p.Kind], c.n, c.err)
						}
						pp.calls[d] = nil
					}
				}
				// Close of both ends releases whatever is left
				pp.ends[0].Close()
				pp.ends[1].Close()
				for d := range 2 {
					c := pp.calls[d]
					if c == nil || cw[d] || cr[d] {
						continue
					}
					<-c.done // a parked WriteTo on the untouched direction
					if c.kind != cWriteTo || c.n != 3 || classify(c.err)&(eNil|eClosed) == 0 || !bytes.Equal(c.sink.Bytes(), []byte{byte(i), byte(i + 1), byte(i + 2)}) {
						return fmt.Sprintf("SIG=C15/C/parked-WriteTo-result pipe %d direction %d %s: WriteTo parked on the untouched direction returned n=%d err=%v data=%x after 3 bytes were written and both ends closed",
							i, d, raceKindNames[p.Kind], c.n, c.err, c.sink.Bytes())
					}
				}
			}
			return ""
		}()
	}()
	select {
	case v := <-post:
		if v != "" {
			return v + " plan=" + jsonOfC(p), ci
		}
	case <-time.After(bound):
		for i := range pipes {
			pipes[i].ends[0].Close()
			pipes[i].ends[1].Close()
		}
		return missed("blocked-after-close"), ci
	}
	return "", ci
}

func jsonOfC(p planC) string { return planJSONAny(replayDoc{Mode: "C", C: &p}) }

func drawPlanC(rt *rapid.T) planC {
	p := planC{
		Kind:    rapid.SampledFrom([]int{3, 0, 1, 2, 4, 0, 1, 2, 3, 5, 4}).Draw(rt, "kind"),
		N:       rapid.IntRange(100, 300).Draw(rt, "pipes"),
		Swap:    rapid.Bool().Draw(rt, "swap"),
		SpinR:   rapid.SampledFrom([]int{-1, -1, 0, 1}).Draw(rt, "spinR"),
		SpinW:   rapid.SampledFrom([]int{-1, -1, -1, 0, 1}).Draw(rt, "spinW"),
		SkewMax: rapid.SampledFrom([]int{0, 2, 8, 32}).Draw(rt, "skewMax"),
		Seed:    rapid.Uint64().Draw(rt, "seed"),
	}
	for d := range 2 {
		p.Pend[d] = rapid.SampledFrom([]int{pendNone, pendNone, pendReader, pendReader, pendWriter, pendWriteTo}).Draw(rt, "pend")
		// a spinning call sets an expired deadline on its end: a call of the same side parked there would
		// just time out, and a parked peer call is what the spinner must not touch
		switch {
		case p.SpinR == 1-d && p.SpinW == d:
			p.Pend[d] = pendNone
		case p.SpinR == 1-d && (p.Pend[d] == pendReader || p.Pend[d] == pendWriteTo):
			p.Pend[d] = pendWriter
		case p.SpinW == d && p.Pend[d] == pendWriter:
			p.Pend[d] = pendReader
		}
	}
	return p
}

var recC = ev.New("C15", "close-races",
	"rapid draws: the pair of close operations {a.Close||b.Close, a.CloseRead||b.CloseWrite, a.CloseWrite||b.CloseRead, a.Close||a.Close, sequential peer.CloseWrite;local.Close, "+
		"sequential local.CloseRead;local.Close}, 100..300 fresh pipes, which NewPipe result is a, per direction the call parked on every pipe when the closes hit "+
		"(none | Read | Write | WriteTo), optional goroutines that keep calling Read / Write with an expired deadline on one end while the closes hit, and the range of the "+
		"per-pipe start skew. Two closer goroutines on the real scheduler leave a spinning start barrier per pipe at the same instant. Oracle: no panic, all closes and all parked "+
		"calls return, error classes per direction from who closed it, expired calls never move a byte, the untouched direction still transfers 3 bytes intact. "+
		"Non-trivial: a simultaneous kind with at least one pair of closes returning < 1us apart and a parked or spinning call; distinct key = kind/swap/parked/spinners/skew").
	Require("race/a.Close||b.Close", "race/a.CloseRead||b.CloseWrite", "race/a.CloseWrite||b.CloseRead",
		"seq/peer.CloseWrite;local.Close", "seq/local.CloseRead;local.Close",
		"parked-reader-at-close", "parked-writer-at-close", "expired-read-spinning-at-close", "expired-write-spinning-at-close", "closes-returned-within-1us")

const livenessMarkC = "not finished within"

func checkPlanC(rt *rapid.T, p planC) {
	done := journal("c15c", replayDoc{Mode: "C", C: &p})
	viol, ci := runPlanC(p)
	if strings.Contains(viol, livenessMarkC) { // a missed liveness bound is re-tried once before it counts
		if viol, ci = runPlanC(p); strings.Contains(viol, livenessMarkC) {
			stallBoundC.Store(int64(3 * time.Second))
		}
	}
	done()
	if viol != "" {
		if i := strings.Index(viol, "SIG="); i >= 0 {
			sig := strings.Fields(viol[i+4:])[0]
			if ev.IsKnown("C15", sig) {
				recC.KnownHit(sig)
				return
			}
		}
		rt.Fatalf("%s", viol)
	}
	l := []string{raceKindNames[p.Kind]}
	parked := false
	for d := range 2 {
		switch p.Pend[d] {
		case pendReader:
			l = append(l, "parked-reader-at-close")
			parked = true
		case pendWriter:
			l = append(l, "parked-writer-at-close")
			parked = true
		case pendWriteTo:
			l = append(l, "parked-writeto-at-close")
			parked = true
		}
	}
	if p.Pend[0] == p.Pend[1] && p.Pend[0] != pendNone { // count a case once per label
		l = l[:len(l)-1]
	}
	if p.SpinR >= 0 {
		l = append(l, "expired-read-spinning-at-close")
	}
	if p.SpinW >= 0 {
		l = append(l, "expired-write-spinning-at-close")
	}
	if ci.Within1us > 0 {
		l = append(l, "closes-returned-within-1us")
	}
	nt := ci.Within1us > 0 && (parked || p.SpinR >= 0 || p.SpinW >= 0)
	recC.Case(fmt.Sprintf("%d/%v/%v/%d/%d/%d", p.Kind, p.Swap, p.Pend, p.SpinR, p.SpinW, p.SkewMax), nt, l...)
	recC.Label("pipes", int64(ci.Pipes))
	recC.Label("close-pairs-returned-within-1us", int64(ci.Within1us))
	recC.Label("close-pairs-returned-within-200ns", int64(ci.Within200ns))
	recC.Label("spinning-calls", int64(ci.SpinCalls))
	recC.Label("spinning-call-saw-close-error", int64(ci.SpinSawIt))
	if nt {
		recC.Sample(map[string]any{"plan": p, "within1us": ci.Within1us, "spinCalls": ci.SpinCalls})
	}
}

func TestCloseRaces(t *testing.T) {
	rapid.Check(t, func(rt *rapid.T) {
		checkPlanC(rt, drawPlanC(rt))
	})
}
