package c15

// Mode A: the generated case owns the schedule. A drawn plan of steps is executed inside a
// testing/synctest bubble; after every step synctest.Wait() brings the pipe to quiescence and the
// set of calls that returned, with their (n, err, data), must be one of the outcomes the reference
// model (model_test.go) allows.

import (
	"bytes"
	"encoding/json"
	"errors"
	"fmt"
	"io"
	"net"
	"os"
	"path/filepath"
	"sort"
	"strings"
	"sync"
	"testing"
	"testing/synctest"
	"time"

	"github.com/database64128/shadowsocks-go/netio"
	"pgregory.net/rapid"

	"verif/internal/ev"
)

var errSink = errors.New("c15 sink full")

func classify(err error) errClass {
	switch {
	case err == nil:
		return eNil
	case err == io.EOF: // io.Reader contract: EOF itself, not wrapped
		return eEOF
	case errors.Is(err, io.ErrClosedPipe):
		return eClosed
	case errors.Is(err, errSink):
		return eSink
	case errors.Is(err, os.ErrDeadlineExceeded):
		var ne net.Error
		if errors.As(err, &ne) && ne.Timeout() {
			return eTimeout
		}
	}
	return eOther
}

// sink is the io.Writer given to WriteTo: accepts capacity bytes in total (-1: unlimited), then
// fails with a short write.
//
// A gated sink (gate != nil) blocks in every Write until a ReleaseSink step sends a token; a
// receive on a channel made inside the bubble is durably blocking, so plan steps can run while the
// destination's Write is pending.
type sink struct {
	mu      sync.Mutex
	cap     int
	buf     []byte
	gate    chan struct{}
	waiting bool
}

func (s *sink) isWaiting() bool {
	s.mu.Lock()
	defer s.mu.Unlock()
	return s.waiting
}

func (s *sink) Write(p []byte) (int, error) {
	if s.gate != nil {
		s.mu.Lock()
		s.waiting = true
		s.mu.Unlock()
		<-s.gate
		s.mu.Lock()
		s.waiting = false
		s.mu.Unlock()
	}
	s.mu.Lock()
	defer s.mu.Unlock()
	if s.cap >= 0 && len(p) > s.cap {
		k := s.cap
		s.buf = append(s.buf, p[:k]...)
		s.cap = 0
		return k, errSink
	}
	s.buf = append(s.buf, p...)
	if s.cap >= 0 {
		s.cap -= len(p)
	}
	return len(p), nil
}

func (s *sink) bytes() []byte {
	s.mu.Lock()
	defer s.mu.Unlock()
	return append([]byte(nil), s.buf...)
}

type callRec struct {
	id   int
	kind callKind
	end  int
	size int
	buf  []byte
	sink *sink

	done bool
	seen bool
	n    int
	err  error
}

type obsComp struct {
	id   int
	kind callKind
	n    int
	err  error
	data []byte
}

type runnerA struct {
	mu    sync.Mutex
	calls []*callRec
}

func (r *runnerA) start(c *netio.PipeConn, kind callKind, end, size int, gated bool) int {
	r.mu.Lock()
	id := len(r.calls)
	cr := &callRec{id: id, kind: kind, end: end, size: size}
	switch kind {
	case cWrite:
		cr.buf = payload(id, size)
	case cRead:
		cr.buf = make([]byte, size)
	case cWriteTo:
		cr.sink = &sink{cap: size}
		if gated {
			cr.sink.gate = make(chan struct{})
		}
	}
	r.calls = append(r.calls, cr)
	r.mu.Unlock()
	go func() {
		var n int
		var err error
		switch kind {
		case cWrite:
			n, err = c.Write(cr.buf)
		case cRead:
			n, err = c.Read(cr.buf)
		case cWriteTo:
			var n64 int64
			n64, err = c.WriteTo(cr.sink)
			n = int(n64)
		}
		r.mu.Lock()
		cr.done, cr.n, cr.err = true, n, err
		r.mu.Unlock()
	}()
	return id
}

// collect returns the calls that completed since the previous collect, ordered by id.
func (r *runnerA) collect() []obsComp {
	r.mu.Lock()
	defer r.mu.Unlock()
	var out []obsComp
	for _, cr := range r.calls {
		if cr.done && !cr.seen {
			cr.seen = true
			oc := obsComp{id: cr.id, kind: cr.kind, n: cr.n, err: cr.err}
			switch cr.kind {
			case cRead:
				if cr.n >= 0 && cr.n <= len(cr.buf) {
					oc.data = cr.buf[:cr.n]
				}
			case cWriteTo:
				oc.data = cr.sink.bytes()
			}
			out = append(out, oc)
		}
	}
	return out
}

// waitingSinks returns the pending WriteTo calls of end (or of both ends if end < 0) whose sink is
// inside a blocked Write.
func (r *runnerA) waitingSinks(end int) []*callRec {
	r.mu.Lock()
	defer r.mu.Unlock()
	var out []*callRec
	for _, cr := range r.calls {
		if cr.kind == cWriteTo && !cr.done && (end < 0 || cr.end == end) && cr.sink.isWaiting() {
			out = append(out, cr)
		}
	}
	return out
}

func (r *runnerA) pending() []*callRec {
	r.mu.Lock()
	defer r.mu.Unlock()
	var out []*callRec
	for _, cr := range r.calls {
		if !cr.done {
			out = append(out, cr)
		}
	}
	return out
}

// mismatch compares an allowed outcome with the observation; "" means it matches. The returned
// string is a short stable description of the first difference (used in the signature).
func mismatch(o outcome, obs []obsComp, sinkWaiting map[int]bool) (score int, what, detail string) {
	exp := map[int]comp{}
	for _, c := range o.Comps {
		exp[c.ID] = c
	}
	ids := make([]int, 0, len(exp))
	for id := range exp {
		ids = append(ids, id)
	}
	sort.Ints(ids)
	got := map[int]obsComp{}
	for _, oc := range obs {
		got[oc.id] = oc
	}
	note := func(w, d string) {
		score++
		if what == "" {
			what, detail = w, d
		}
	}
	for _, id := range ids {
		c := exp[id]
		oc, ok := got[id]
		if !ok {
			note(c.Kind.String()+"-still-blocked", fmt.Sprintf("call #%d %s should have returned (n=%d, err in {%s}) but is still blocked", id, c.Kind, c.N, c.Errs))
			continue
		}
		if oc.n != c.N {
			note(c.Kind.String()+"-n", fmt.Sprintf("call #%d %s returned n=%d err=%v, want n=%d err in {%s}", id, c.Kind, oc.n, oc.err, c.N, c.Errs))
			continue
		}
		if classify(oc.err)&c.Errs == 0 {
			note(c.Kind.String()+"-err", fmt.Sprintf("call #%d %s returned n=%d err=%v (%s), want err in {%s}", id, c.Kind, oc.n, oc.err, classify(oc.err), c.Errs))
			continue
		}
		if c.Kind != cWrite {
			if want := segBytes(c.Segs); !bytes.Equal(want, oc.data) {
				note(c.Kind.String()+"-data", fmt.Sprintf("call #%d %s got data %x, want %x (segments %v)", id, c.Kind, oc.data, want, c.Segs))
			}
		}
	}
	for d := range o.M.D {
		for _, r := range o.M.D[d].Rd {
			if r.Gated && r.InSink != sinkWaiting[r.ID] {
				note("WriteTo-sink-state", fmt.Sprintf("call #%d WriteTo: sink.Write pending = %v, model says %v", r.ID, sinkWaiting[r.ID], r.InSink))
			}
		}
	}
	for _, oc := range obs {
		if _, ok := exp[oc.id]; !ok {
			note(oc.kind.String()+"-unexpected-return", fmt.Sprintf("call #%d %s returned n=%d err=%v but should still be blocked", oc.id, oc.kind, oc.n, oc.err))
		}
	}
	return
}

type caseInfoA struct {
	F        facts
	Executed int
	Skipped  int
	MaxCands int
	Trace    []string // per executed step: op + completions summary (for the distinct key)
	Detail   []string // per executed plan step: the calls that returned, "#id n=N class"
	Known    string
}

func closingSteps() []step {
	return []step{
		{Op: opClose, End: 0}, {Op: opClose, End: 1}, {Op: opRelease, End: 0}, {Op: opRelease, End: 1},
		{Op: opRead, End: 0, N: 1}, {Op: opWrite, End: 0, N: 1}, {Op: opWriteTo, End: 0, N: -1},
		{Op: opRead, End: 1, N: 1}, {Op: opWrite, End: 1, N: 1}, {Op: opWriteTo, End: 1, N: -1},
	}
}

// runPlanA executes plan in a fresh bubble. It returns a violation ("" if none; starts with the
// signature) and what the case exercised.
func runPlanA(t *testing.T, plan []step) (viol string, ci caseInfoA) {
	synctest.Test(t, func(t *testing.T) {
		a, b := netio.NewPipe()
		ends := [2]*netio.PipeConn{a, b}
		r := &runnerA{}
		cands := []model{{}}
		var hist []string

		full := append(append([]step(nil), plan...), closingSteps()...)
		for si, st := range full {
			isClosing := si >= len(plan)
			// gating (HARNESS: never leave two goroutines contending on wrMu across Wait; bound the branching)
			skip := false
			for _, m := range cands {
				switch st.Op {
				case opWrite:
					skip = skip || len(m.D[st.End].Wr) > 0
				case opRead, opWriteTo:
					skip = skip || len(m.D[1-st.End].Rd) >= 3
				}
			}
			if st.Op == opRelease && len(r.waitingSinks(st.End)) == 0 {
				skip = true // nothing to release (a token must not be left behind)
			}
			if skip {
				if !isClosing {
					ci.Skipped++
				}
				continue
			}
			c := ends[st.End]
			id := -1
			setErr := false
			switch st.Op {
			case opWrite:
				id = r.start(c, cWrite, st.End, st.N, false)
			case opRead:
				id = r.start(c, cRead, st.End, st.N, false)
			case opWriteTo:
				id = r.start(c, cWriteTo, st.End, st.N, st.G)
			case opRelease:
				for _, cr := range r.waitingSinks(st.End) {
					cr.sink.gate <- struct{}{}
				}
			case opCloseWrite:
				c.CloseWrite()
			case opCloseRead:
				c.CloseRead()
			case opClose:
				c.Close()
			case opSetRD, opSetWD, opSetD:
				var tm time.Time
				switch st.DL {
				case dlLongAgo:
					tm = time.Unix(1, 0)
				case dlJustNow:
					tm = time.Now().Add(-time.Nanosecond)
				case dlFuture:
					tm = time.Now().Add(futureDur(st))
				}
				var err error
				switch st.Op {
				case opSetRD:
					err = c.SetReadDeadline(tm)
				case opSetWD:
					err = c.SetWriteDeadline(tm)
				default:
					err = c.SetDeadline(tm)
				}
				setErr = err != nil
			case opAdvance:
				time.Sleep(time.Duration(st.D) * time.Millisecond)
			}
			synctest.Wait()
			obs := r.collect()
			sinkWaiting := map[int]bool{}
			for _, cr := range r.waitingSinks(-1) {
				sinkWaiting[cr.id] = true
			}
			if id >= 0 {
				hist = append(hist, fmt.Sprintf("#%d=%s", id, st))
			} else if setErr {
				hist = append(hist, st.String()+"=err")
			} else {
				hist = append(hist, st.String())
			}

			var next []model
			seen := map[string]bool{}
			var stepFacts facts
			bestScore, bestWhat, bestDetail := -1, "", ""
			for _, m := range cands {
				outs, bad := m.apply(st, id, setErr)
				if bad != "" {
					if bestScore < 0 {
						bestScore, bestWhat, bestDetail = 1<<30, bad, "Set*Deadline reported an error although no direction of that end is closed"
						if bad != "deadline-error-on-open-pipe" {
							bestDetail = "harness/model disagreement about the step itself: " + bad
						}
					}
					continue
				}
				for _, o := range outs {
					score, what, detail := mismatch(o, obs, sinkWaiting)
					if score == 0 {
						if k := o.M.key(); !seen[k] {
							seen[k] = true
							next = append(next, o.M)
						}
						if len(next) == 1 {
							stepFacts = o.F
						}
						continue
					}
					if bestScore < 0 || score < bestScore {
						bestScore, bestWhat, bestDetail = score, what, detail
					}
				}
			}
			if len(next) == 0 {
				phase := st.Op.String()
				if isClosing {
					phase = "final-" + phase
				}
				sig := "C15/A/" + phase + "/" + bestWhat
				if ev.IsKnown("C15", sig) {
					ci.Known = sig
				} else {
					viol = fmt.Sprintf("SIG=%s step %d %s: %s\nhistory: %s\nplan: %s", sig, si, st, bestDetail, strings.Join(hist, "; "), planJSON(plan))
				}
				break
			}
			cands = next
			ci.Executed++
			ci.MaxCands = max(ci.MaxCands, len(cands))
			ci.F.or(stepFacts)
			var cs []string
			for _, oc := range obs {
				nc := "0"
				if oc.n > 0 {
					nc = "+"
				}
				cs = append(cs, fmt.Sprintf("%s%s%s", oc.kind.String()[:2], nc, classify(oc.err)))
			}
			if !isClosing {
				var ds []string
				for _, oc := range obs {
					ds = append(ds, fmt.Sprintf("#%d n=%d %s", oc.id, oc.n, classify(oc.err)))
				}
				ci.Detail = append(ci.Detail, strings.Join(ds, ", "))
				ci.Trace = append(ci.Trace, fmt.Sprintf("%d%d[%s]", st.Op, st.End, strings.Join(cs, ",")))
			}
		}

		// Leave the bubble with no goroutine behind. On the success path everything has returned
		// already (the final steps closed both ends and the model agreed).
		if len(r.pending()) > 0 {
			a.Close()
			b.Close()
			synctest.Wait()
			for range 8 { // sinks still inside a gated Write: let them return (not the pipe's blocking)
				ws := r.waitingSinks(-1)
				if len(ws) == 0 {
					break
				}
				for _, cr := range ws {
					cr.sink.gate <- struct{}{}
				}
				synctest.Wait()
			}
		}
		if p := r.pending(); len(p) > 0 {
			var ss []string
			for _, cr := range p {
				ss = append(ss, fmt.Sprintf("#%d %s.%s(%d)", cr.id, "AB"[cr.end:cr.end+1], cr.kind, cr.size))
			}
			msg := fmt.Sprintf("SIG=C15/blocked-after-close calls still blocked after Close of both ends: %s\nhistory: %s\nplan: %s", strings.Join(ss, ", "), strings.Join(hist, "; "), planJSON(plan))
			if viol == "" {
				viol = msg
			} else {
				viol += "\nALSO " + msg
			}
			// the bubble would die with "deadlock: ... blocked goroutines remain" and take the
			// process with it; say what happened first, then try to get the goroutines out.
			fmt.Printf("VERIF-VIOLATION %s\n", viol)
			past := time.Unix(1, 0)
			a.SetDeadline(past)
			b.SetDeadline(past)
			synctest.Wait()
			for range 4 {
				for e := range ends {
					if len(r.pending()) == 0 {
						break
					}
					go ends[e].Read(make([]byte, 1<<16))
					go ends[e].Write(nil)
					synctest.Wait()
				}
			}
		}
	})
	return viol, ci
}

func planJSON(plan []step) string { return planJSONAny(replayDoc{Mode: "A", Plan: plan}) }

func planJSONAny(v any) string {
	b, _ := json.Marshal(v)
	return string(b)
}

// ---- generator

var opWeights = func() []opKind {
	w := map[opKind]int{opWrite: 22, opRead: 28, opWriteTo: 4, opCloseWrite: 2, opCloseRead: 2, opClose: 1,
		opSetRD: 6, opSetWD: 6, opSetD: 3, opAdvance: 10, opRelease: 5}
	var s []opKind
	for k := opKind(0); k < nOps; k++ {
		for range w[k] {
			s = append(s, k)
		}
	}
	return s
}()

func drawWriteSize(rt *rapid.T, scale int) int {
	switch rapid.IntRange(0, 9).Draw(rt, "wk") {
	case 0:
		return 0
	case 1:
		return 1
	case 2, 3:
		return scale
	default:
		return rapid.IntRange(0, scale).Draw(rt, "wn")
	}
}

func drawReadSize(rt *rapid.T, scale int) int {
	switch rapid.IntRange(0, 9).Draw(rt, "rk") {
	case 0:
		return 0
	case 1:
		return 1
	case 2:
		return scale
	case 3, 4, 5:
		return rapid.IntRange(0, max(1, scale/2)).Draw(rt, "rn") // smaller than typical writes: partial writes
	default:
		return rapid.IntRange(0, 3*scale).Draw(rt, "rn")
	}
}

func drawDeadlineStep(rt *rapid.T, op opKind, end int) step {
	st := step{Op: op, End: end}
	st.DL = rapid.SampledFrom([]int{dlZero, dlLongAgo, dlJustNow, dlFuture, dlFuture, dlFuture}).Draw(rt, "dl")
	if st.DL == dlFuture {
		st.D = rapid.IntRange(0, 30).Draw(rt, "dms")
	}
	return st
}

func drawStepA(rt *rapid.T, scale int) step {
	st := step{Op: rapid.SampledFrom(opWeights).Draw(rt, "op"), End: rapid.IntRange(0, 1).Draw(rt, "end")}
	switch st.Op {
	case opWrite:
		st.N = drawWriteSize(rt, scale)
	case opRead:
		st.N = drawReadSize(rt, scale)
	case opWriteTo:
		if rapid.IntRange(0, 2).Draw(rt, "sk") == 0 {
			st.N = rapid.IntRange(0, 2*scale).Draw(rt, "cap")
		} else {
			st.N = -1
		}
		st.G = rapid.Bool().Draw(rt, "gated")
	case opSetRD, opSetWD, opSetD:
		st = drawDeadlineStep(rt, st.Op, st.End)
	case opAdvance:
		st.D = rapid.IntRange(1, 25).Draw(rt, "adv")
	}
	return st
}

// drawPlanA draws a plan as a sequence of blocks: mostly single free steps (every interleaving of
// the step alphabet is reachable that way), mixed with short idioms that make the interesting
// situations frequent (a write met by a smaller read; a deadline armed around a blocking call and
// then reached; a half-close followed by traffic in the reverse direction). The idioms only bias
// the distribution; the oracle is the same model for every step.
func drawPlanA(rt *rapid.T) []step {
	// write-size scale of this plan; read buffers range over 0..3x of it
	scale := rapid.SampledFrom([]int{1, 2, 3, 4, 8, 8, 16, 16, 64, 1000, 5000}).Draw(rt, "scale")
	nb := rapid.IntRange(1, 24).Draw(rt, "blocks")
	var plan []step
	for range nb {
		x := rapid.IntRange(0, 1).Draw(rt, "x")
		y := 1 - x
		switch rapid.IntRange(0, 19).Draw(rt, "block") {
		case 0, 1: // a write met by a smaller read, then something that ends or continues it
			n := max(2, drawWriteSize(rt, scale))
			m := rapid.IntRange(0, n-1).Draw(rt, "m")
			w, r := step{Op: opWrite, End: x, N: n}, step{Op: opRead, End: y, N: m}
			if rapid.Bool().Draw(rt, "readFirst") {
				plan = append(plan, r, w)
			} else {
				plan = append(plan, w, r)
			}
			switch rapid.IntRange(0, 6).Draw(rt, "then") {
			case 0:
				plan = append(plan, step{Op: opRead, End: y, N: 3 * n})
			case 1:
				plan = append(plan, drawDeadlineStep(rt, opSetWD, x))
			case 2:
				plan = append(plan, step{Op: opAdvance, D: rapid.IntRange(1, 25).Draw(rt, "adv")})
			case 3:
				plan = append(plan, step{Op: opCloseWrite, End: x})
			case 4:
				plan = append(plan, step{Op: opCloseRead, End: y})
			case 5:
				plan = append(plan, step{Op: opWriteTo, End: y, N: -1})
			}
		case 2, 3: // a future deadline armed before or after a blocking call, then time passes
			d := rapid.IntRange(0, 20).Draw(rt, "dms")
			var dl, call step
			if rapid.Bool().Draw(rt, "reader") {
				dl = step{Op: rapid.SampledFrom([]opKind{opSetRD, opSetD}).Draw(rt, "dop"), End: x, DL: dlFuture, D: d}
				call = step{Op: rapid.SampledFrom([]opKind{opRead, opRead, opWriteTo}).Draw(rt, "cop"), End: x, N: drawReadSize(rt, scale)}
				if call.Op == opWriteTo {
					call.N = -1
				}
			} else {
				dl = step{Op: rapid.SampledFrom([]opKind{opSetWD, opSetD}).Draw(rt, "dop"), End: x, DL: dlFuture, D: d}
				call = step{Op: opWrite, End: x, N: drawWriteSize(rt, scale)}
			}
			if rapid.Bool().Draw(rt, "armFirst") {
				plan = append(plan, dl, call)
			} else {
				plan = append(plan, call, dl)
			}
			plan = append(plan, step{Op: opAdvance, D: d + rapid.IntRange(-2, 3).Draw(rt, "over")})
			if plan[len(plan)-1].D < 1 {
				plan[len(plan)-1].D = 1
			}
			if rapid.Bool().Draw(rt, "refresh") {
				plan = append(plan, drawDeadlineStep(rt, dl.Op, x))
			}
		case 4: // half-close, then the reverse direction is used
			cl := rapid.SampledFrom([]opKind{opCloseWrite, opCloseWrite, opCloseRead}).Draw(rt, "hc")
			plan = append(plan, step{Op: cl, End: x})
			var w, r step
			if cl == opCloseWrite { // x -> y closed; y -> x still open
				w, r = step{Op: opWrite, End: y, N: drawWriteSize(rt, scale)}, step{Op: opRead, End: x, N: drawReadSize(rt, scale)}
			} else { // y -> x closed; x -> y still open
				w, r = step{Op: opWrite, End: x, N: drawWriteSize(rt, scale)}, step{Op: opRead, End: y, N: drawReadSize(rt, scale)}
			}
			if rapid.Bool().Draw(rt, "readFirst") {
				plan = append(plan, r, w)
			} else {
				plan = append(plan, w, r)
			}
		case 7: // WriteTo into a gated sink; steps while the sink's Write is pending; release
			wt := step{Op: opWriteTo, End: y, N: -1, G: true}
			if rapid.IntRange(0, 3).Draw(rt, "capped") == 0 {
				wt.N = rapid.IntRange(0, 2*scale).Draw(rt, "cap")
			}
			w := step{Op: opWrite, End: x, N: max(1, drawWriteSize(rt, scale))}
			if rapid.Bool().Draw(rt, "writeFirst") {
				plan = append(plan, w, wt)
			} else {
				plan = append(plan, wt, w)
			}
			for range rapid.IntRange(1, 3).Draw(rt, "mid") {
				switch rapid.IntRange(0, 9).Draw(rt, "midk") {
				case 0, 1: // the deadline fires and is cleared / moved before the sink returns
					plan = append(plan, step{Op: rapid.SampledFrom([]opKind{opSetRD, opSetD}).Draw(rt, "dop"), End: y,
						DL: rapid.SampledFrom([]int{dlLongAgo, dlJustNow}).Draw(rt, "past")})
					plan = append(plan, step{Op: rapid.SampledFrom([]opKind{opSetRD, opSetD}).Draw(rt, "dop2"), End: y,
						DL: rapid.SampledFrom([]int{dlZero, dlFuture}).Draw(rt, "clear"), D: rapid.IntRange(0, 30).Draw(rt, "dms")})
				case 2:
					plan = append(plan, drawDeadlineStep(rt, rapid.SampledFrom([]opKind{opSetRD, opSetD}).Draw(rt, "dop"), y))
				case 3:
					plan = append(plan, drawDeadlineStep(rt, rapid.SampledFrom([]opKind{opSetWD, opSetD}).Draw(rt, "dop"), x))
				case 4:
					plan = append(plan, step{Op: opAdvance, D: rapid.IntRange(1, 25).Draw(rt, "adv")})
				case 5:
					plan = append(plan, step{Op: rapid.SampledFrom([]opKind{opCloseRead, opClose}).Draw(rt, "cop"), End: y})
				case 6:
					plan = append(plan, step{Op: rapid.SampledFrom([]opKind{opCloseWrite, opClose}).Draw(rt, "cop"), End: x})
				case 7:
					plan = append(plan, step{Op: opRead, End: y, N: drawReadSize(rt, scale)})
				default:
					plan = append(plan, drawStepA(rt, scale))
				}
			}
			plan = append(plan, step{Op: opRelease, End: y})
			if rapid.Bool().Draw(rt, "again") {
				plan = append(plan, step{Op: opWrite, End: x, N: drawWriteSize(rt, scale)}, step{Op: opRelease, End: y})
			}
		case 8: // a call started after its deadline has expired while the peer call is parked and ready
			var peer, call step
			var dlops []opKind
			dlEnd := y
			if rapid.Bool().Draw(rt, "reader") { // x's Write is parked; y reads with an expired read deadline
				peer = step{Op: opWrite, End: x, N: drawWriteSize(rt, scale)}
				call = step{Op: opRead, End: y, N: drawReadSize(rt, scale)}
				dlops = []opKind{opSetRD, opSetRD, opSetD}
			} else { // y's reader is parked; x writes with an expired write deadline
				peer = step{Op: opRead, End: y, N: drawReadSize(rt, scale)}
				if rapid.IntRange(0, 4).Draw(rt, "peerWriteTo") == 0 {
					peer = step{Op: opWriteTo, End: y, N: -1}
				}
				call = step{Op: opWrite, End: x, N: drawWriteSize(rt, scale)}
				dlops = []opKind{opSetWD, opSetWD, opSetD}
				dlEnd = x
			}
			dlop := rapid.SampledFrom(dlops).Draw(rt, "dop")
			var expire []step
			switch rapid.IntRange(0, 2).Draw(rt, "how") {
			case 0:
				expire = []step{{Op: dlop, End: dlEnd, DL: dlLongAgo}}
			case 1:
				expire = []step{{Op: dlop, End: dlEnd, DL: dlJustNow}}
			default: // armed in the future, reached by the clock before the call starts
				d := rapid.IntRange(0, 20).Draw(rt, "dms")
				expire = []step{{Op: dlop, End: dlEnd, DL: dlFuture, D: d}, {Op: opAdvance, D: d + rapid.IntRange(1, 3).Draw(rt, "over")}}
			}
			if rapid.Bool().Draw(rt, "peerFirst") {
				plan = append(plan, peer)
				plan = append(plan, expire...)
			} else {
				plan = append(plan, expire...)
				plan = append(plan, peer)
			}
			plan = append(plan, call)
			switch rapid.IntRange(0, 3).Draw(rt, "then") {
			case 0: // still expired: once more
				call.N = max(1, call.N)
				plan = append(plan, call)
			case 1, 2: // re-enabled: the same call now meets the peer, which must have lost / got nothing meanwhile
				plan = append(plan, step{Op: dlop, End: dlEnd, DL: rapid.SampledFrom([]int{dlZero, dlFuture}).Draw(rt, "clear"), D: rapid.IntRange(0, 30).Draw(rt, "dms2")})
				plan = append(plan, call)
			}
		case 9: // Close of an end whose read side is closed already (by itself or by the peer's CloseWrite), then probes before the peer closes
			if rapid.Bool().Draw(rt, "parkedPeerReader") {
				plan = append(plan, step{Op: rapid.SampledFrom([]opKind{opRead, opRead, opWriteTo}).Draw(rt, "prk"), End: y, N: -1})
				if plan[len(plan)-1].Op == opRead {
					plan[len(plan)-1].N = max(1, drawReadSize(rt, scale))
				}
			}
			if rapid.Bool().Draw(rt, "byPeer") {
				plan = append(plan, step{Op: opCloseWrite, End: y})
			} else {
				plan = append(plan, step{Op: opCloseRead, End: x})
			}
			plan = append(plan, step{Op: opClose, End: x})
			probes := []step{{Op: opRead, End: y, N: max(1, drawReadSize(rt, scale))}, {Op: opWrite, End: y, N: drawWriteSize(rt, scale)},
				{Op: opWrite, End: x, N: drawWriteSize(rt, scale)}, {Op: opWriteTo, End: y, N: -1}, {Op: opRead, End: x, N: drawReadSize(rt, scale)}}
			for _, i := range rapid.Permutation([]int{0, 1, 2, 3, 4}).Draw(rt, "probeOrder")[:rapid.IntRange(2, 5).Draw(rt, "nprobes")] {
				plan = append(plan, probes[i])
			}
		case 5, 6: // matched transfer
			w, r := step{Op: opWrite, End: x, N: drawWriteSize(rt, scale)}, step{Op: opRead, End: y, N: drawReadSize(rt, scale)}
			if rapid.Bool().Draw(rt, "readFirst") {
				plan = append(plan, r, w)
			} else {
				plan = append(plan, w, r)
			}
		default:
			plan = append(plan, drawStepA(rt, scale))
		}
	}
	return plan
}

func journal(name string, v any) func() {
	dir := os.Getenv("VERIF_WORK")
	if dir == "" {
		return func() {}
	}
	p := filepath.Join(dir, fmt.Sprintf("journal-%s-%d.json", name, os.Getpid()))
	b, _ := json.Marshal(v)
	if os.WriteFile(p, b, 0o644) != nil {
		return func() {}
	}
	return func() { os.Remove(p) }
}

type replayDoc struct {
	Mode string `json:"mode"`
	Plan []step `json:"plan,omitempty"`
	B    *planB `json:"b,omitempty"`
	C    *planC `json:"c,omitempty"`
}

var recA = ev.New("C15", "owned-schedule",
	"rapid: plan of 1..24 blocks (a block is one free step, 50%, or a 2..7 step idiom: write met by a smaller read / deadline armed around a blocking call then reached / half-close then reverse traffic / matched transfer / WriteTo into a gated sink with 1..3 steps before the release / a Read or Write started after its deadline expired (set to the past, or armed and reached) while the peer call is parked, then repeated or re-enabled / Close of an end whose read side is already closed (own CloseRead or peer's CloseWrite), then probes on both ends before the peer closes) over {Write(n), Read(m), WriteTo(sink with capacity), CloseWrite, CloseRead, Close, "+
		"Set{Read,Write,}Deadline(zero | long ago | now-1ns | now+k.5ms), advance virtual time k ms, ReleaseSink} on either end; a WriteTo sink is plain or gated (its Write blocks until a ReleaseSink step, so closes, deadline changes and other calls happen while the destination's Write is pending); write sizes 0..scale, "+
		"read buffers 0..3*scale, scale in {1..5000}; each call runs in its own goroutine inside a synctest bubble (at most one blocked "+
		"writer per end, at most 3 blocked readers per end); after every step synctest.Wait() and the set of returned calls with (n, err, data) "+
		"must equal an outcome of the rendezvous-pipe reference model; every plan ends with Close of both ends and probes. "+
		"Non-trivial: the plan had a partial write (reader took less than the write had left), a deadline that woke a blocked call, and a "+
		"transfer on a direction whose reverse direction was already closed; distinct key = sequence of (op, end, completion classes)").
	Require("partial-write", "deadline-woke-pending", "deadline-woke-partial-write", "half-close-reverse-used", "close-woke-pending",
		"multi-reader-choice", "zero-write", "zero-read", "writeto-moved", "sink-fail", "deadline-refreshed-after-fire",
		"deadline-changed-while-sink-write-pending", "deadline-fired-and-cleared-while-sink-write-pending", "deadline-fired-while-sink-write-pending",
		"close-while-sink-write-pending", "gated-sink-released",
		// round 6
		"expired-read-vs-parked-write", "expired-write-vs-parked-reader",
		"close-after-read-side-closed", "close-after-read-side-closed/peer-read-eof", "close-after-read-side-closed/local-write-fails",
		"close-after-read-side-closed/peer-write-fails")

func labelsA(ci caseInfoA, plan []step) []string {
	var l []string
	add := func(b bool, s string) {
		if b {
			l = append(l, s)
		}
	}
	f := ci.F
	add(f.Partial, "partial-write")
	add(f.DlPending, "deadline-woke-pending")
	add(f.DlPartial, "deadline-woke-partial-write")
	add(f.HalfReverse, "half-close-reverse-used")
	add(f.ClosePending, "close-woke-pending")
	add(f.MultiRd, "multi-reader-choice")
	add(f.ZeroW, "zero-write")
	add(f.ZeroR, "zero-read")
	add(f.WriteToMoved, "writeto-moved")
	add(f.SinkFail, "sink-fail")
	add(f.Fork, "lenient-fork")
	add(f.Refreshed, "deadline-refreshed-after-fire")
	add(f.GatedMoved, "gated-sink-released")
	add(f.StepInSink, "step-while-sink-write-pending")
	add(f.DlChangedInSink, "deadline-changed-while-sink-write-pending")
	add(f.DlClearedInSink, "deadline-fired-and-cleared-while-sink-write-pending")
	add(f.DlFiredInSink, "deadline-fired-while-sink-write-pending")
	add(f.CloseInSink, "close-while-sink-write-pending")
	add(f.WdlInSink, "write-deadline-while-sink-write-pending")
	add(f.ExpRead, "expired-read-vs-parked-write")
	add(f.ExpWrite, "expired-write-vs-parked-reader")
	add(f.LateClose, "close-after-read-side-closed")
	add(f.LateClosePRead, "close-after-read-side-closed/peer-read-eof")
	add(f.LateCloseLWr, "close-after-read-side-closed/local-write-fails")
	add(f.LateClosePWr, "close-after-read-side-closed/peer-write-fails")
	add(f.LateCloseWoke, "close-after-read-side-closed/woke-parked-peer-reader")
	add(ci.MaxCands > 1, "multiple-model-candidates")
	add(ci.Skipped > 0, "step-skipped-by-gate")
	return l
}

func checkPlanA(t *testing.T, rt *rapid.T, plan []step) {
	done := journal("c15a", replayDoc{Mode: "A", Plan: plan})
	viol, ci := runPlanA(t, plan)
	done()
	if viol != "" {
		rt.Fatalf("%s", viol)
	}
	if ci.Known != "" {
		recA.KnownHit(ci.Known)
		return
	}
	nt := ci.F.Partial && ci.F.DlPending && ci.F.HalfReverse
	recA.Case(strings.Join(ci.Trace, " "), nt, labelsA(ci, plan)...)
	recA.Label("steps-executed", int64(ci.Executed))
	if nt {
		var ss []string
		for _, s := range plan {
			ss = append(ss, s.String())
		}
		recA.Sample(map[string]any{"plan": strings.Join(ss, "; "), "trace": strings.Join(ci.Trace, " ")})
	}
}

func TestModelA(t *testing.T) {
	rapid.Check(t, func(rt *rapid.T) {
		checkPlanA(t, rt, drawPlanA(rt))
	})
}

// TestReplayPlan re-runs a journaled plan ($VERIF_REPLAY), e.g. one that killed the process.
func TestReplayPlan(t *testing.T) {
	p := os.Getenv("VERIF_REPLAY")
	if p == "" {
		t.Skip("VERIF_REPLAY not set")
	}
	b, err := os.ReadFile(p)
	if err != nil {
		t.Fatal(err)
	}
	var doc replayDoc
	if err := json.Unmarshal(b, &doc); err != nil {
		t.Fatal(err)
	}
	switch doc.Mode {
	case "A":
		if viol, _ := runPlanA(t, doc.Plan); viol != "" {
			t.Fatalf("%s", viol)
		}
	case "B":
		if doc.B == nil {
			t.Fatal("no plan")
		}
		for range 200 {
			if viol, _ := runPlanB(*doc.B); viol != "" {
				t.Fatalf("%s", viol)
			}
		}
	case "C":
		if doc.C == nil {
			t.Fatal("no plan")
		}
		for range 50 {
			if viol, _ := runPlanC(*doc.C); viol != "" {
				t.Fatalf("%s", viol)
			}
		}
	default:
		t.Fatalf("unknown mode %q", doc.Mode)
	}
}

// TestFixedPlansA runs hand-written plans whose outcome is spelled out from the documentation, so
// that the model's verdicts (and the facts behind the evidence labels) are pinned independently of
// the generator.
func TestFixedPlansA(t *testing.T) {
	const A, B = 0, 1
	type fixed struct {
		name string
		plan []step
		want []string // calls returning after each step
		fact func(facts) bool
	}
	cases := []fixed{
		{"partial write then write deadline", []step{
			{Op: opWrite, End: A, N: 10}, {Op: opRead, End: B, N: 5}, {Op: opSetWD, End: A, DL: dlFuture, D: 3}, {Op: opAdvance, D: 4}},
			[]string{"", "#1 n=5 nil", "", "#0 n=5 timeout"},
			func(f facts) bool { return f.Partial && f.DlPending && f.DlPartial }},
		{"half close, drain, reverse direction keeps working", []step{
			{Op: opWrite, End: A, N: 6}, {Op: opRead, End: B, N: 6}, {Op: opCloseWrite, End: A}, {Op: opRead, End: B, N: 4},
			{Op: opWrite, End: B, N: 3}, {Op: opRead, End: A, N: 8}, {Op: opWrite, End: A, N: 1}},
			[]string{"", "#0 n=6 nil, #1 n=6 nil", "", "#2 n=0 EOF", "", "#3 n=3 nil, #4 n=3 nil", "#5 n=0 closed"},
			func(f facts) bool { return f.HalfReverse }},
		{"CloseRead fails the peer's blocked and later writes", []step{
			{Op: opWrite, End: A, N: 4}, {Op: opCloseRead, End: B}, {Op: opWrite, End: A, N: 2}, {Op: opRead, End: B, N: 2},
			{Op: opWrite, End: B, N: 2}, {Op: opRead, End: A, N: 2}},
			[]string{"", "#0 n=0 closed", "#1 n=0 closed", "#2 n=0 closed", "", "#3 n=2 nil, #4 n=2 nil"},
			func(f facts) bool { return f.ClosePending && f.HalfReverse }},
		{"expired deadline fails calls until it is refreshed", []step{
			{Op: opSetRD, End: A, DL: dlLongAgo}, {Op: opRead, End: A, N: 1}, {Op: opSetRD, End: A, DL: dlZero}, {Op: opRead, End: A, N: 2},
			{Op: opWrite, End: B, N: 2}, {Op: opSetD, End: B, DL: dlFuture, D: 1}, {Op: opAdvance, D: 2}, {Op: opWrite, End: B, N: 1},
			{Op: opSetWD, End: B, DL: dlFuture, D: 7}, {Op: opWrite, End: B, N: 1}, {Op: opRead, End: A, N: 1}},
			[]string{"", "#0 n=0 timeout", "", "", "#1 n=2 nil, #2 n=2 nil", "", "", "#3 n=0 timeout", "", "", "#4 n=1 nil, #5 n=1 nil"},
			func(f facts) bool { return f.Refreshed }},
		{"zero-length write and read are matched", []step{
			{Op: opWrite, End: A, N: 0}, {Op: opRead, End: B, N: 3}, {Op: opRead, End: B, N: 0}, {Op: opWrite, End: A, N: 2}, {Op: opRead, End: B, N: 2}},
			[]string{"", "#0 n=0 nil, #1 n=0 nil", "", "#2 n=0 nil", "#3 n=2 nil, #4 n=2 nil"},
			func(f facts) bool { return f.ZeroW && f.ZeroR }},
		{"WriteTo drains until CloseWrite; a failing sink reports what it took", []step{
			{Op: opWriteTo, End: B, N: -1}, {Op: opWrite, End: A, N: 5}, {Op: opWrite, End: A, N: 0}, {Op: opCloseWrite, End: A},
			{Op: opWriteTo, End: A, N: 3}, {Op: opWrite, End: B, N: 2}, {Op: opWrite, End: B, N: 4}, {Op: opCloseRead, End: A}},
			[]string{"", "#1 n=5 nil", "#2 n=0 nil", "#0 n=5 nil", "", "#4 n=2 nil", "#3 n=3 sink", "#5 n=1 closed"},
			func(f facts) bool { return f.WriteToMoved && f.SinkFail }},
		{"read deadline fires and is cleared while WriteTo is inside the sink's Write", []step{
			{Op: opWriteTo, End: B, N: -1, G: true}, {Op: opWrite, End: A, N: 3}, {Op: opSetRD, End: B, DL: dlLongAgo}, {Op: opSetRD, End: B, DL: dlZero},
			{Op: opRelease, End: B}, {Op: opWrite, End: A, N: 2}, {Op: opSetD, End: B, DL: dlJustNow}, {Op: opSetD, End: B, DL: dlFuture, D: 9},
			{Op: opRelease, End: B}, {Op: opCloseWrite, End: A}},
			[]string{"", "", "", "", "#1 n=3 nil", "", "", "", "#2 n=2 nil", "#0 n=5 nil"},
			func(f facts) bool { return f.DlChangedInSink && f.DlClearedInSink && f.GatedMoved }},
		{"deadline still expired / direction closed when the sink returns", []step{
			{Op: opWriteTo, End: B, N: -1, G: true}, {Op: opWrite, End: A, N: 3}, {Op: opSetRD, End: B, DL: dlFuture, D: 2}, {Op: opSetWD, End: A, DL: dlLongAgo},
			{Op: opAdvance, D: 3}, {Op: opRelease, End: B},
			{Op: opWriteTo, End: A, N: 1, G: true}, {Op: opWrite, End: B, N: 4}, {Op: opCloseRead, End: A}, {Op: opRelease, End: A}},
			[]string{"", "", "", "", "", "#0 n=3 timeout, #1 n=3 nil", "", "", "", "#2 n=1 sink, #3 n=1 closed"},
			func(f facts) bool { return f.DlFiredInSink && f.CloseInSink && f.WdlInSink }},
		// round 6
		{"calls started after their deadline expired time out although the peer is parked, and move nothing", []step{
			{Op: opWrite, End: A, N: 4}, {Op: opSetRD, End: B, DL: dlLongAgo}, {Op: opRead, End: B, N: 2}, {Op: opSetRD, End: B, DL: dlZero},
			{Op: opRead, End: B, N: 2}, {Op: opRead, End: B, N: 8},
			{Op: opRead, End: B, N: 3}, {Op: opSetWD, End: A, DL: dlFuture, D: 2}, {Op: opAdvance, D: 3}, {Op: opWrite, End: A, N: 5},
			{Op: opWrite, End: A, N: 0}, {Op: opSetWD, End: A, DL: dlZero}, {Op: opWrite, End: A, N: 1}},
			[]string{"", "", "#1 n=0 timeout", "", "#2 n=2 nil", "#0 n=4 nil, #3 n=2 nil", "", "", "", "#5 n=0 timeout", "#6 n=0 timeout", "", "#4 n=1 nil, #7 n=1 nil"},
			func(f facts) bool { return f.ExpRead && f.ExpWrite && f.Refreshed }},
		{"Close after the peer's CloseWrite still closes the write side", []step{
			{Op: opCloseWrite, End: B}, {Op: opClose, End: A}, {Op: opRead, End: B, N: 1}, {Op: opWrite, End: B, N: 1}, {Op: opWrite, End: A, N: 1}},
			[]string{"", "", "#0 n=0 EOF", "#1 n=0 closed", "#2 n=0 closed"},
			func(f facts) bool { return f.LateClose && f.LateClosePRead && f.LateClosePWr && f.LateCloseLWr }},
		{"Close after the end's own CloseRead still closes the write side", []step{
			{Op: opRead, End: B, N: 3}, {Op: opCloseRead, End: A}, {Op: opClose, End: A}, {Op: opRead, End: B, N: 1}, {Op: opWrite, End: B, N: 2},
			{Op: opWrite, End: A, N: 1}, {Op: opRead, End: A, N: 1}},
			[]string{"", "", "#0 n=0 EOF", "#1 n=0 EOF", "#2 n=0 closed", "#3 n=0 closed", "#4 n=0 closed"},
			func(f facts) bool {
				return f.LateClose && f.LateCloseWoke && f.LateClosePRead && f.LateClosePWr && f.LateCloseLWr
			}},
	}
	for _, c := range cases {
		viol, ci := runPlanA(t, c.plan)
		if viol != "" {
			t.Errorf("%s: %s", c.name, viol)
			continue
		}
		if ci.Skipped != 0 || len(ci.Detail) != len(c.want) {
			t.Errorf("%s: executed %d steps (%d skipped), want %d", c.name, len(ci.Detail), ci.Skipped, len(c.want))
			continue
		}
		for i := range c.want {
			if ci.Detail[i] != c.want[i] {
				t.Errorf("SIG=C15/A/fixed-plan %s: after step %d %s returned {%s}, documented outcome {%s}", c.name, i, c.plan[i], ci.Detail[i], c.want[i])
			}
		}
		if !c.fact(ci.F) {
			t.Errorf("%s: harness self-check: expected facts not recorded: %+v", c.name, ci.F)
		}
		recA.Label("fixed-plan", 1)
	}
}
