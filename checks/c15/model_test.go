package c15

// Reference model of a synchronous (rendezvous) duplex pipe with half-close and deadlines,
// written from the doc comments of netio.NewPipe / PipeConn and the property text only:
//
//   - no buffering: a Write hands its remaining bytes to one pending reader at a time; each Read
//     takes min(len(buf), remaining) bytes; the Write returns when everything was taken (nil), or
//     when its direction is closed / its write deadline fires, reporting the bytes taken so far;
//   - a zero-length Write is matched with exactly one reader (which gets 0 bytes), a zero-length
//     Read is matched with a write and takes nothing;
//   - WriteTo(sink) is a reader that keeps taking whole chunks until the direction is closed
//     (CloseWrite by the peer: nil error; CloseRead locally: io.ErrClosedPipe), its read deadline
//     fires, or the sink fails (the writer is told how much the sink accepted);
//   - a sink may block inside its Write (gated sink, released by a plan step): until it returns, the
//     chunk is not acknowledged, the WriteTo and the waiting Write do not return whatever happens to
//     closes and deadlines meanwhile; when it returns the writer is told what the sink accepted and
//     both calls go on under the close/deadline state of that moment (so a deadline that fired and
//     was cleared or moved to the future before the sink returned does not fail the WriteTo);
//   - CloseWrite(W): W's writes fail with io.ErrClosedPipe, the peer's reads return io.EOF;
//     CloseRead(R): R's reads and the peer's writes fail with io.ErrClosedPipe; the other
//     direction is not affected;
//   - deadlines: past => calls of that side fail with a timeout error, pending ones are woken;
//     future => the same at that instant; zero or a later instant re-enables calls;
//   - Set{Read,Write}Deadline "implement the net.Conn methods", whose contract is "if the deadline is
//     exceeded a call to Read or Write [...] will return an error that wraps os.ErrDeadlineExceeded":
//     a Read / Write that is STARTED when its deadline has already expired returns (0, timeout) even
//     if a peer Write / Read is parked and ready, and takes / hands over nothing (the parked peer call
//     stays parked with its count unchanged).
//
// Wherever the documentation does not say which of two simultaneously possible results wins,
// the model is non-deterministic and yields every allowed outcome:
//   - several readers pending on one end when a write arrives: any of them may take each chunk;
//   - a WriteTo started with an expired read deadline while a peer Write is ready, and a call that
//     is already in progress (a Write between two chunks, a WriteTo between two sink writes) when its
//     deadline is found expired while the peer is ready: timeout or transfer;
//   - a call started on a direction that is closed and has an expired deadline: either error;
//   - reads on a direction closed from both sides (CloseWrite and CloseRead): EOF or ErrClosedPipe;
//   - Set*Deadline that reports an error on a closed direction: applied or not applied.

import (
	"fmt"
	"sort"
	"strings"
	"time"
)

type errClass uint8

const (
	eNil errClass = 1 << iota
	eEOF
	eClosed
	eTimeout
	eSink
	eOther
)

func (e errClass) String() string {
	var s []string
	for i, n := range []string{"nil", "EOF", "closed", "timeout", "sink", "other"} {
		if e&(1<<i) != 0 {
			s = append(s, n)
		}
	}
	return strings.Join(s, "|")
}

type dlKind uint8

const (
	dlNone dlKind = iota
	dlAt
	dlExpired
)

type deadline struct {
	Kind dlKind
	At   time.Duration // virtual time since bubble start, valid for dlAt
}

type callKind uint8

const (
	cWrite callKind = iota
	cRead
	cWriteTo
)

func (k callKind) String() string { return [...]string{"Write", "Read", "WriteTo"}[k] }

// seg is a piece of the payload of write W: bytes [Off, Off+N).
type seg struct{ W, Off, N int }

// pcall is a pending call.
type pcall struct {
	ID   int
	Kind callKind
	Size int   // Write: len(b); Read: len(buf); WriteTo: remaining sink capacity, -1 = unlimited
	N    int   // bytes so far (Write: consumed by readers; WriteTo: accepted by the sink)
	Sent bool  // Write: at least one rendezvous happened
	Segs []seg // WriteTo: what the sink has received so far (copy on write)

	// WriteTo into a gated sink (its Write blocks until a Release step): while the sink's Write is
	// pending the chunk is in flight: the WriteTo is inside the destination's Write and the writer
	// waits for the count of bytes the sink consumed; neither watches closes or deadlines until the
	// sink returns (a write reports only what the reader consumed; WriteTo "writes data to w until
	// there's no more data or an error occurs" and evaluates its deadline/close state afterwards).
	Gated    bool
	InSink   bool // WriteTo: sink.Write pending with SinkK bytes of write SinkW at offset SinkOff
	SinkK    int
	SinkW    int
	SinkOff  int
	AwaitAck bool // Write: its current chunk is inside a gated sink
}

// dirState is one direction: writer end W -> reader end R.
type dirState struct {
	ClosedW bool     // W called CloseWrite
	ClosedR bool     // R called CloseRead
	Wr      []pcall  // pending writer (at most one in Mode A)
	Rd      []pcall  // pending readers / WriteTo of end R, in arrival order
	Rdl     deadline // read deadline of end R
	Wdl     deadline // write deadline of end W
	RFired  bool     // the read deadline has been in the expired state at some point
	WFired  bool     // same for the write deadline

	// W closed this direction with Close() at a moment when W's read side (the reverse direction)
	// was already closed and this direction was still open (evidence only; does not change results)
	LateClose bool
}

type model struct {
	Now time.Duration
	D   [2]dirState // D[e] is the direction written by end e and read by end 1-e
}

func (m model) clone() model {
	c := m
	for i := range c.D {
		c.D[i].Wr = append([]pcall(nil), m.D[i].Wr...)
		c.D[i].Rd = append([]pcall(nil), m.D[i].Rd...)
	}
	return c
}

func (m model) key() string { return fmt.Sprintf("%v", m) }

func (m model) pendingIDs() []int {
	var ids []int
	for i := range m.D {
		for _, c := range m.D[i].Wr {
			ids = append(ids, c.ID)
		}
		for _, c := range m.D[i].Rd {
			ids = append(ids, c.ID)
		}
	}
	sort.Ints(ids)
	return ids
}

// comp is an expected completion.
type comp struct {
	ID   int
	Kind callKind
	N    int
	Errs errClass // allowed classes
	Segs []seg    // Read / WriteTo: expected data
}

// facts observed by the model while explaining a step (for the non-trivial rule / labels)
type facts struct {
	Partial      bool // a reader took less than the writer's remaining bytes and the write stayed incomplete at that moment
	DlPending    bool // a deadline woke a call that was pending from an earlier step
	DlPartial    bool // ... and that call was a write with 0 < n < len
	HalfReverse  bool // bytes moved on a direction whose reverse direction is closed (half-close, reverse still used)
	ClosePending bool // a close woke a call pending from an earlier step
	MultiRd      bool // a write arrived while >= 2 readers were pending on the peer (non-deterministic choice)
	ZeroW, ZeroR bool // zero-length write / read matched
	SinkFail     bool
	WriteToMoved bool
	Fork         bool // lenient non-determinism other than reader choice was exercised
	Refreshed    bool // bytes moved for a side whose deadline had fired earlier and was refreshed since

	GatedMoved      bool // a gated sink was released and its chunk acknowledged
	DlChangedInSink bool // Set*Deadline changed the read deadline of an end whose WriteTo was inside the sink's Write
	DlClearedInSink bool // ... from expired to not expired (fired and cleared before the sink returned)
	DlFiredInSink   bool // a read deadline expired (set to the past or reached) while the WriteTo was inside the sink's Write
	CloseInSink     bool // the direction was closed while a chunk was inside the sink
	WdlInSink       bool // the waiting writer's deadline changed / fired while its chunk was inside the sink
	StepInSink      bool // any step executed while a sink's Write was pending

	ExpRead  bool // a Read started with an expired read deadline while a peer Write was parked: (0, timeout), nothing consumed
	ExpWrite bool // a Write started with an expired write deadline while a peer reader was parked: (0, timeout)

	LateClose      bool // Close() of an end whose read side was already closed (own CloseRead / peer's CloseWrite) and whose write side was still open
	LateClosePRead bool // ... then, before the peer closed anything on that direction, a peer Read/WriteTo was started (must see end-of-stream)
	LateCloseLWr   bool // ... a local Write was started (must fail with io.ErrClosedPipe)
	LateClosePWr   bool // ... a peer Write was started (must fail)
	LateCloseWoke  bool // ... the Close itself woke a peer reader parked on the write side
}

func (f *facts) or(g facts) {
	f.Partial = f.Partial || g.Partial
	f.DlPending = f.DlPending || g.DlPending
	f.DlPartial = f.DlPartial || g.DlPartial
	f.HalfReverse = f.HalfReverse || g.HalfReverse
	f.ClosePending = f.ClosePending || g.ClosePending
	f.MultiRd = f.MultiRd || g.MultiRd
	f.ZeroW = f.ZeroW || g.ZeroW
	f.ZeroR = f.ZeroR || g.ZeroR
	f.SinkFail = f.SinkFail || g.SinkFail
	f.WriteToMoved = f.WriteToMoved || g.WriteToMoved
	f.Fork = f.Fork || g.Fork
	f.Refreshed = f.Refreshed || g.Refreshed
	f.GatedMoved = f.GatedMoved || g.GatedMoved
	f.DlChangedInSink = f.DlChangedInSink || g.DlChangedInSink
	f.DlClearedInSink = f.DlClearedInSink || g.DlClearedInSink
	f.DlFiredInSink = f.DlFiredInSink || g.DlFiredInSink
	f.CloseInSink = f.CloseInSink || g.CloseInSink
	f.WdlInSink = f.WdlInSink || g.WdlInSink
	f.StepInSink = f.StepInSink || g.StepInSink
	f.ExpRead = f.ExpRead || g.ExpRead
	f.ExpWrite = f.ExpWrite || g.ExpWrite
	f.LateClose = f.LateClose || g.LateClose
	f.LateClosePRead = f.LateClosePRead || g.LateClosePRead
	f.LateCloseLWr = f.LateCloseLWr || g.LateCloseLWr
	f.LateClosePWr = f.LateClosePWr || g.LateClosePWr
	f.LateCloseWoke = f.LateCloseWoke || g.LateCloseWoke
}

type outcome struct {
	M     model
	Comps []comp
	F     facts
}

func (o outcome) withComp(c comp) outcome {
	o.Comps = append(append([]comp(nil), o.Comps...), c)
	return o
}

func readClosedErrs(ds *dirState, k callKind) errClass {
	var e errClass
	if ds.ClosedW {
		if k == cWriteTo {
			e |= eNil
		} else {
			e |= eEOF
		}
	}
	if ds.ClosedR {
		e |= eClosed
	}
	return e
}

// settle brings direction d to quiescence and returns every allowed result.
// fresh is the id of the call started in this step (-1 if none); it only feeds the facts.
//
// Calls parked around a gated sink (the WriteTo inside sink.Write and the writer waiting for its
// count) take no part: they are set aside and put back unchanged.
func settle(o outcome, d int, fresh int) []outcome {
	o.M = o.M.clone()
	ds := &o.M.D[d]
	var parkW, parkR, actW, actR []pcall
	for _, w := range ds.Wr {
		if w.AwaitAck {
			parkW = append(parkW, w)
		} else {
			actW = append(actW, w)
		}
	}
	for _, r := range ds.Rd {
		if r.InSink {
			parkR = append(parkR, r)
		} else {
			actR = append(actR, r)
		}
	}
	if len(parkW) == 0 && len(parkR) == 0 {
		return settleActive(o, d, fresh)
	}
	ds.Wr, ds.Rd = actW, actR
	outs := settleActive(o, d, fresh)
	for i := range outs {
		outs[i].M = outs[i].M.clone()
		x := &outs[i].M.D[d]
		x.Wr = append(append([]pcall(nil), parkW...), x.Wr...)
		x.Rd = append(append([]pcall(nil), parkR...), x.Rd...)
	}
	return outs
}

func (ds *dirState) sinkPending() bool {
	for _, r := range ds.Rd {
		if r.InSink {
			return true
		}
	}
	return false
}

func settleActive(o outcome, d int, fresh int) []outcome {
	o.M = o.M.clone()
	ds := &o.M.D[d]
	rev := &o.M.D[1-d]

	if ds.ClosedW || ds.ClosedR {
		for _, w := range ds.Wr {
			e := eClosed
			if ds.Wdl.Kind == dlExpired {
				e |= eTimeout
				o.F.Fork = true
			}
			if w.ID != fresh {
				o.F.ClosePending = true
			}
			o = o.withComp(comp{ID: w.ID, Kind: cWrite, N: w.N, Errs: e})
		}
		for _, r := range ds.Rd {
			e := readClosedErrs(ds, r.Kind)
			if ds.Rdl.Kind == dlExpired {
				e |= eTimeout
				o.F.Fork = true
			}
			if r.ID != fresh {
				o.F.ClosePending = true
			}
			o = o.withComp(comp{ID: r.ID, Kind: r.Kind, N: r.N, Errs: e, Segs: r.Segs})
		}
		ds.Wr, ds.Rd = nil, nil
		return []outcome{o}
	}

	if len(ds.Wr) == 0 {
		if ds.Rdl.Kind == dlExpired {
			for _, r := range ds.Rd {
				if r.ID != fresh {
					o.F.DlPending = true
				}
				o = o.withComp(comp{ID: r.ID, Kind: r.Kind, N: r.N, Errs: eTimeout, Segs: r.Segs})
			}
			ds.Rd = nil
		}
		return []outcome{o}
	}
	w := ds.Wr[0]
	if len(ds.Rd) == 0 {
		if ds.Wdl.Kind == dlExpired {
			if w.ID != fresh {
				o.F.DlPending = true
				if w.N > 0 && w.N < w.Size {
					o.F.DlPartial = true
				}
			}
			o = o.withComp(comp{ID: w.ID, Kind: cWrite, N: w.N, Errs: eTimeout})
			ds.Wr = nil
		}
		return []outcome{o}
	}

	// a writer and at least one reader are ready
	var outs []outcome
	if ds.Wdl.Kind == dlExpired {
		b := o
		b.M = o.M.clone()
		b.M.D[d].Wr = nil
		b = b.withComp(comp{ID: w.ID, Kind: cWrite, N: w.N, Errs: eTimeout})
		if w.ID == fresh && !w.Sent {
			// net.Conn contract: a Write started after its deadline has passed fails with a timeout
			// whatever the peer is doing; the parked readers get nothing and keep waiting
			b.F.ExpWrite = true
			return settle(b, d, fresh)
		}
		b.F.Fork = true // lenient: a write already in progress may give up or hand over the next chunk
		outs = append(outs, settle(b, d, fresh)...)
	}
	if len(ds.Rd) >= 2 && w.ID == fresh && !w.Sent {
		o.F.MultiRd = true
	}
	for i := range ds.Rd {
		r := ds.Rd[i]
		if ds.Rdl.Kind == dlExpired {
			b := o
			b.M = o.M.clone()
			b.M.D[d].Rd = append(append([]pcall(nil), ds.Rd[:i]...), ds.Rd[i+1:]...)
			b = b.withComp(comp{ID: r.ID, Kind: r.Kind, N: r.N, Errs: eTimeout, Segs: r.Segs})
			// net.Conn contract: a Read started after its deadline has passed fails with a timeout
			// although a peer Write is parked; it takes nothing, the Write keeps waiting.
			// (WriteTo is not a net.Conn method: started-expired or in progress, it may give up or take the chunk.)
			strict := r.ID == fresh && r.Kind == cRead
			if strict {
				b.F.ExpRead = true
			} else {
				b.F.Fork = true
			}
			outs = append(outs, settle(b, d, fresh)...)
			if strict {
				continue
			}
		}
		// transfer one chunk from w to r
		b := o
		b.M = o.M.clone()
		bs := &b.M.D[d]
		chunk := w.Size - w.N
		var k int
		removeR := false
		switch r.Kind {
		case cRead:
			k = min(r.Size, chunk)
			var sg []seg
			if k > 0 {
				sg = []seg{{w.ID, w.N, k}}
			}
			if r.Size == 0 {
				b.F.ZeroR = true
			}
			b = b.withComp(comp{ID: r.ID, Kind: cRead, N: k, Errs: eNil, Segs: sg})
			removeR = true
		case cWriteTo:
			nr := r
			if r.Gated { // the chunk goes into the sink's pending Write; nothing is acknowledged yet
				nr.InSink, nr.SinkK, nr.SinkW, nr.SinkOff = true, chunk, w.ID, w.N
				bs.Rd[i] = nr
				pw := w
				pw.AwaitAck = true
				bs.Wr = []pcall{pw}
				outs = append(outs, settle(b, d, fresh)...)
				continue
			}
			if r.Size >= 0 && chunk > r.Size {
				k = r.Size
			} else {
				k = chunk
			}
			nr.N += k
			if k > 0 {
				nr.Segs = append(append([]seg(nil), r.Segs...), seg{w.ID, w.N, k})
				b.F.WriteToMoved = true
			}
			if r.Size >= 0 {
				nr.Size -= k
			}
			if k < chunk {
				b.F.SinkFail = true
				b = b.withComp(comp{ID: r.ID, Kind: cWriteTo, N: nr.N, Errs: eSink, Segs: nr.Segs})
				removeR = true
			} else {
				bs.Rd[i] = nr
			}
		}
		if removeR {
			bs.Rd = append(append([]pcall(nil), bs.Rd[:i]...), bs.Rd[i+1:]...)
		}
		if k > 0 && (rev.ClosedW || rev.ClosedR) {
			b.F.HalfReverse = true
		}
		if (ds.RFired && ds.Rdl.Kind != dlExpired) || (ds.WFired && ds.Wdl.Kind != dlExpired) {
			b.F.Refreshed = true
		}
		if chunk == 0 {
			b.F.ZeroW = true
		}
		nw := w
		nw.N += k
		nw.Sent = true
		if nw.N == nw.Size {
			b = b.withComp(comp{ID: w.ID, Kind: cWrite, N: nw.N, Errs: eNil})
			bs.Wr = nil
		} else {
			if k < chunk && r.Kind == cRead {
				b.F.Partial = true
			}
			bs.Wr = []pcall{nw}
		}
		outs = append(outs, settle(b, d, fresh)...)
	}
	return outs
}

func settleBoth(o outcome, fresh int) []outcome {
	var outs []outcome
	for _, a := range settle(o, 0, fresh) {
		outs = append(outs, settle(a, 1, fresh)...)
	}
	return outs
}

// ---- steps

type opKind int

const (
	opWrite opKind = iota
	opRead
	opWriteTo
	opCloseWrite
	opCloseRead
	opClose
	opSetRD
	opSetWD
	opSetD
	opAdvance
	opRelease // let the pending Write of a gated sink of this end return
	nOps
)

var opNames = [...]string{"Write", "Read", "WriteTo", "CloseWrite", "CloseRead", "Close", "SetReadDeadline", "SetWriteDeadline", "SetDeadline", "Advance", "ReleaseSink"}

func (k opKind) String() string { return opNames[k] }

const (
	dlZero    = 0 // time.Time{}
	dlLongAgo = 1 // time.Unix(1, 0)
	dlJustNow = 2 // now - 1ns
	dlFuture  = 3 // now + D ms + 500us
)

// step is one plan step. JSON-encodable (journal / replay).
type step struct {
	Op  opKind `json:"op"`
	End int    `json:"end"`
	N   int    `json:"n"`           // Write: len(b); Read: len(buf); WriteTo: sink capacity (-1 unlimited)
	DL  int    `json:"dl"`          // deadline kind for Set*
	D   int    `json:"d"`           // ms: Advance amount, or future deadline distance (plus 500us)
	G   bool   `json:"g,omitempty"` // WriteTo: the sink's Write blocks until a ReleaseSink step of that end
}

func (s step) String() string {
	e := "AB"[s.End : s.End+1]
	switch s.Op {
	case opWrite, opRead:
		return fmt.Sprintf("%s.%s(%d)", e, s.Op, s.N)
	case opWriteTo:
		if s.G {
			return fmt.Sprintf("%s.WriteTo(gated sink cap=%d)", e, s.N)
		}
		return fmt.Sprintf("%s.WriteTo(sink cap=%d)", e, s.N)
	case opSetRD, opSetWD, opSetD:
		switch s.DL {
		case dlZero:
			return fmt.Sprintf("%s.%s(zero)", e, s.Op)
		case dlLongAgo:
			return fmt.Sprintf("%s.%s(long ago)", e, s.Op)
		case dlJustNow:
			return fmt.Sprintf("%s.%s(now-1ns)", e, s.Op)
		default:
			return fmt.Sprintf("%s.%s(now+%d.5ms)", e, s.Op, s.D)
		}
	case opAdvance:
		return fmt.Sprintf("advance(%dms)", s.D)
	default:
		return fmt.Sprintf("%s.%s()", e, s.Op)
	}
}

func futureDur(s step) time.Duration {
	return time.Duration(s.D)*time.Millisecond + 500*time.Microsecond
}

func newDeadline(now time.Duration, s step) deadline {
	switch s.DL {
	case dlZero:
		return deadline{Kind: dlNone}
	case dlFuture:
		return deadline{Kind: dlAt, At: now + futureDur(s)}
	default:
		return deadline{Kind: dlExpired}
	}
}

// apply returns every allowed outcome of executing st in state m. id is the call id for
// Write/Read/WriteTo steps. setErr says whether a Set*Deadline call reported an error (an
// observation: the documentation does not fix it). bad is non-empty if the observation itself
// is not allowed in this state.
func (m model) apply(st step, id int, setErr bool) (outs []outcome, bad string) {
	o := outcome{M: m.clone()}
	e := st.End
	if o.M.D[0].sinkPending() || o.M.D[1].sinkPending() {
		o.F.StepInSink = true
	}
	switch st.Op {
	case opRelease:
		d := 1 - e
		ds := &o.M.D[d]
		idx := -1
		for i, r := range ds.Rd {
			if r.InSink {
				idx = i
			}
		}
		if idx < 0 || len(ds.Wr) == 0 || !ds.Wr[0].AwaitAck {
			return nil, "release-without-pending-sink"
		}
		r, w := ds.Rd[idx], ds.Wr[0]
		k, failed := r.SinkK, false
		if r.Size >= 0 && k > r.Size {
			k, failed = r.Size, true
		}
		r.N += k
		if k > 0 {
			r.Segs = append(append([]seg(nil), r.Segs...), seg{r.SinkW, r.SinkOff, k})
			o.F.WriteToMoved = true
			if rev := &o.M.D[1-d]; rev.ClosedW || rev.ClosedR {
				o.F.HalfReverse = true
			}
		}
		if r.Size >= 0 {
			r.Size -= k
		}
		if r.SinkK == 0 {
			o.F.ZeroW = true
		}
		r.InSink, r.SinkK, r.SinkW, r.SinkOff = false, 0, 0, 0
		o.F.GatedMoved = true
		w.N += k
		w.Sent, w.AwaitAck = true, false
		if failed {
			o.F.SinkFail = true
			o = o.withComp(comp{ID: r.ID, Kind: cWriteTo, N: r.N, Errs: eSink, Segs: r.Segs})
			ds.Rd = append(append([]pcall(nil), ds.Rd[:idx]...), ds.Rd[idx+1:]...)
		} else {
			ds.Rd[idx] = r
		}
		if w.N == w.Size {
			o = o.withComp(comp{ID: w.ID, Kind: cWrite, N: w.N, Errs: eNil})
			ds.Wr = nil
		} else {
			ds.Wr[0] = w
		}
		return settle(o, d, -1), ""
	case opWrite:
		ds := &o.M.D[e]
		if ds.LateClose && !ds.ClosedR {
			o.F.LateCloseLWr = true
		}
		if rev := &o.M.D[1-e]; rev.LateClose && !rev.ClosedR && (ds.ClosedW || ds.ClosedR) {
			o.F.LateClosePWr = true
		}
		ds.Wr = append(ds.Wr, pcall{ID: id, Kind: cWrite, Size: st.N})
		return settle(o, e, id), ""
	case opRead:
		ds := &o.M.D[1-e]
		if ds.LateClose && !ds.ClosedR {
			o.F.LateClosePRead = true
		}
		ds.Rd = append(ds.Rd, pcall{ID: id, Kind: cRead, Size: st.N})
		return settle(o, 1-e, id), ""
	case opWriteTo:
		ds := &o.M.D[1-e]
		if ds.LateClose && !ds.ClosedR {
			o.F.LateClosePRead = true
		}
		ds.Rd = append(ds.Rd, pcall{ID: id, Kind: cWriteTo, Size: st.N, Gated: st.G})
		return settle(o, 1-e, id), ""
	case opCloseWrite:
		o.F.CloseInSink = o.M.D[e].sinkPending()
		o.M.D[e].ClosedW = true
		return settle(o, e, -1), ""
	case opCloseRead:
		o.F.CloseInSink = o.M.D[1-e].sinkPending()
		o.M.D[1-e].ClosedR = true
		return settle(o, 1-e, -1), ""
	case opClose:
		o.F.CloseInSink = o.M.D[e].sinkPending() || o.M.D[1-e].sinkPending()
		if rd, wr := &o.M.D[1-e], &o.M.D[e]; (rd.ClosedW || rd.ClosedR) && !wr.ClosedW && !wr.ClosedR {
			// the end's read side is closed already, its write side is not: Close still has to close it
			o.F.LateClose = true
			wr.LateClose = true
			for _, r := range wr.Rd {
				if !r.InSink {
					o.F.LateCloseWoke = true
				}
			}
		}
		o.M.D[1-e].ClosedR = true
		o.M.D[e].ClosedW = true
		return settleBoth(o, -1), ""
	case opSetRD, opSetWD, opSetD:
		nd := newDeadline(o.M.Now, st)
		type target struct {
			read   bool
			closed bool
		}
		var ts []target
		if st.Op == opSetRD || st.Op == opSetD {
			ds := &o.M.D[1-e]
			ts = append(ts, target{true, ds.ClosedW || ds.ClosedR})
		}
		if st.Op == opSetWD || st.Op == opSetD {
			ds := &o.M.D[e]
			ts = append(ts, target{false, ds.ClosedW || ds.ClosedR})
		}
		anyClosed := false
		for _, t := range ts {
			anyClosed = anyClosed || t.closed
		}
		if setErr && !anyClosed {
			return nil, "deadline-error-on-open-pipe"
		}
		// open directions (and every direction when no error was reported): applied;
		// closed directions when an error was reported: applied or not applied.
		combos := [][]bool{nil}
		for _, t := range ts {
			opts := []bool{true}
			if setErr && t.closed {
				opts = []bool{true, false}
			}
			var next [][]bool
			for _, c := range combos {
				for _, op := range opts {
					next = append(next, append(append([]bool(nil), c...), op))
				}
			}
			combos = next
		}
		for _, c := range combos {
			s := o
			s.M = o.M.clone()
			for ti, t := range ts {
				if !c[ti] {
					continue
				}
				if t.read {
					x := &s.M.D[1-e]
					if x.sinkPending() {
						s.F.DlChangedInSink = true
						s.F.DlClearedInSink = s.F.DlClearedInSink || (x.Rdl.Kind == dlExpired && nd.Kind != dlExpired)
						s.F.DlFiredInSink = s.F.DlFiredInSink || nd.Kind == dlExpired
					}
					x.Rdl = nd
					x.RFired = x.RFired || nd.Kind == dlExpired
				} else {
					x := &s.M.D[e]
					if x.sinkPending() {
						s.F.WdlInSink = true
					}
					x.Wdl = nd
					x.WFired = x.WFired || nd.Kind == dlExpired
				}
			}
			if len(combos) > 1 {
				s.F.Fork = true
			}
			outs = append(outs, settleBoth(s, -1)...)
		}
		return outs, ""
	case opAdvance:
		o.M.Now += time.Duration(st.D) * time.Millisecond
		for i := range o.M.D {
			ds := &o.M.D[i]
			if ds.Rdl.Kind == dlAt && ds.Rdl.At <= o.M.Now {
				ds.Rdl, ds.RFired = deadline{Kind: dlExpired}, true
				o.F.DlFiredInSink = o.F.DlFiredInSink || ds.sinkPending()
			}
			if ds.Wdl.Kind == dlAt && ds.Wdl.At <= o.M.Now {
				ds.Wdl, ds.WFired = deadline{Kind: dlExpired}, true
				o.F.WdlInSink = o.F.WdlInSink || ds.sinkPending()
			}
		}
		return settleBoth(o, -1), ""
	}
	return nil, "unknown-op"
}

// payload byte i of write w
func payloadByte(w, i int) byte {
	h := uint32(w+1)*2654435761 + uint32(i)*40503
	return byte(h >> 13)
}

func payload(w, n int) []byte {
	b := make([]byte, n)
	for i := range b {
		b[i] = payloadByte(w, i)
	}
	return b
}

func segBytes(segs []seg) []byte {
	var b []byte
	for _, s := range segs {
		for i := 0; i < s.N; i++ {
			b = append(b, payloadByte(s.W, s.Off+i))
		}
	}
	return b
}
