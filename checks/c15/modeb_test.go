package c15

// Mode B: free-running. 2-4 goroutines per end on the real scheduler (writers, Read loops, WriteTo),
// plus drawn "chaos" actions (closes, deadlines) injected after the k-th completed call. Every
// Write fills its buffer with a byte value unique to that write in its direction, so what the
// readers received can be attributed. The oracle is a set of history invariants that hold for every
// schedule of a faithful rendezvous pipe:
//
//   - every received chunk (one Read result / one sink.Write call) is from a single write;
//   - for every write, the bytes received with its tag are exactly the n it reported (nothing
//     lost, invented or duplicated; a write reports only consumed bytes); err == nil => n == len;
//   - within one reader goroutine (a real-time ordered history) the chunks of a write are
//     consecutive (no other write in between) and writes of one writer goroutine appear in issue order;
//   - across reader goroutines the same two facts for every pair of chunks that is ordered by
//     stamps of a global atomic counter (stamp after return < stamp before call);
//   - no chunk is received by a Read that was called after the Write returned (no buffering) or
//     that returned before the Write was called;
//   - errors are only {nil, io.EOF, io.ErrClosedPipe, timeout}; a timeout only if some deadline was set;
//   - every goroutine returns: the protocol always terminates on a faithful pipe (readers run until
//     EOF/closed, the last writer of an end calls CloseWrite), so a stall (generous bound) or calls
//     still blocked after Close of both ends is a violation.

import (
	"fmt"
	"sort"
	"strings"
	"sync"
	"sync/atomic"
	"testing"
	"time"

	"github.com/database64128/shadowsocks-go/netio"
	"pgregory.net/rapid"

	"verif/internal/ev"
)

type readerB struct {
	WriteTo bool  `json:"writeTo"`
	Bufs    []int `json:"bufs"` // Read buffer sizes, cycled; at least one > 0
	// Read-loop iterations (0-based) that are "expired probes": the goroutine itself sets the read
	// deadline of its end to a past instant, calls Read, and clears the deadline again, all under the
	// harness's deadline lock of that end (so no other goroutine can have re-armed it in between)
	Probe []int `json:"probe,omitempty"`
}

type endB struct {
	Writers [][]int   `json:"writers"` // per writer goroutine: sizes of its writes, in order
	Readers []readerB `json:"readers"`
	// per writer goroutine: indices of its writes that are expired probes (same protocol with the write deadline)
	WProbe [][]int `json:"wprobe,omitempty"`
}

type chaosB struct {
	After int    `json:"after"` // executed by whoever completes the After-th call
	End   int    `json:"end"`
	Op    opKind `json:"op"`
	DL    int    `json:"dl"`
	Dus   int    `json:"dus"` // future deadline distance in microseconds (real time)
}

type planB struct {
	Ends  [2]endB  `json:"ends"`
	Chaos []chaosB `json:"chaos"`
}

const maxWritesPerWriterB = 60

type wrecB struct {
	g, s, size, n int
	err           error
	before, after int64
}

type chunkB struct {
	tag           byte
	k             int
	before, after int64
	reader        int
}

type caseInfoB struct {
	MultiWriterPartial bool
	Timeouts           int
	ClosedPartial      bool
	HalfReverse        bool
	Chunks             int
	Bytes              int
	WriteToChunks      int
	ConcurrentWriters  bool
	ConcurrentReaders  bool

	RProbes, RProbesPeerBusy int // expired Read probes; ... issued while a peer Write call was in flight
	WProbes, WProbesPeerBusy int // expired Write probes; ... issued while a peer Read/WriteTo call was in flight
}

type stampSink struct {
	clock  *atomic.Int64
	last   int64
	chunks []chunkB
	bad    string
	reader int
	onOp   func()
}

func (s *stampSink) Write(p []byte) (int, error) {
	after := s.clock.Add(1)
	if len(p) > 0 {
		for _, x := range p {
			if x != p[0] {
				s.bad = fmt.Sprintf("sink chunk mixes bytes of different writes: %x", trunc(p))
				break
			}
		}
		s.chunks = append(s.chunks, chunkB{tag: p[0], k: len(p), before: s.last, after: after, reader: s.reader})
	}
	s.last = s.clock.Add(1)
	s.onOp()
	return len(p), nil
}

func trunc(p []byte) []byte {
	if len(p) > 48 {
		return p[:48]
	}
	return p
}

func tagOf(g, s int) byte { return byte(1 + g*maxWritesPerWriterB + s) }

// Liveness bounds (real time). A whole run normally takes well under 10 ms; the bounds are the
// "missed once, waited once more" form of the harness rule. After the first miss in a process the
// bounds drop so that rapid's shrinking of a hanging case does not cost a minute per attempt.
var (
	stallBoundB      atomic.Int64
	afterCloseBoundB atomic.Int64
)

func init() {
	stallBoundB.Store(int64(60 * time.Second))
	afterCloseBoundB.Store(int64(30 * time.Second))
}

func livenessMissed() {
	stallBoundB.Store(int64(3 * time.Second))
	afterCloseBoundB.Store(int64(2 * time.Second))
}

func runPlanB(p planB) (viol string, ci caseInfoB) {
	a, b := netio.NewPipe()
	ends := [2]*netio.PipeConn{a, b}
	var clock, ops atomic.Int64
	var vmu sync.Mutex
	fail := func(s string) {
		vmu.Lock()
		if viol == "" {
			viol = s
		}
		vmu.Unlock()
	}
	chaosAt := map[int64][]chaosB{}
	deadlineSet := false
	for _, c := range p.Chaos {
		chaosAt[int64(c.After)] = append(chaosAt[int64(c.After)], c)
		if c.Op == opSetRD || c.Op == opSetWD || c.Op == opSetD {
			deadlineSet = deadlineSet || c.DL != dlZero
		}
	}
	// Expired probes (calls STARTED after their deadline expired while the peer is ready). The
	// assertion "returns (0, error), moves nothing" is only sound if nobody re-arms the deadline between
	// the prober's Set*Deadline(past) and its call, so in plans with probes every Set*Deadline the
	// harness issues on an end takes that end's lock for the side(s) it touches; the prober holds it over
	// set + call + clear (the call cannot block: its deadline is expired).
	hasProbes := false
	for e := range p.Ends {
		for _, wp := range p.Ends[e].WProbe {
			hasProbes = hasProbes || len(wp) > 0
		}
		for _, r := range p.Ends[e].Readers {
			hasProbes = hasProbes || (len(r.Probe) > 0 && !r.WriteTo)
		}
	}
	deadlineSet = deadlineSet || hasProbes
	var dlMu [2][2]sync.Mutex // [end][0 read side, 1 write side]
	lockDL := func(e int, rd, wr bool) func() {
		if !hasProbes {
			return func() {}
		}
		if rd {
			dlMu[e][0].Lock()
		}
		if wr {
			dlMu[e][1].Lock()
		}
		return func() {
			if wr {
				dlMu[e][1].Unlock()
			}
			if rd {
				dlMu[e][0].Unlock()
			}
		}
	}
	var writersIn, readersIn [2]atomic.Int64 // per direction: Write / Read+WriteTo calls currently in flight
	var rProbes, rProbesBusy, wProbes, wProbesBusy atomic.Int64
	pastOf := func(k int) time.Time {
		if k%2 == 0 {
			return time.Unix(1, 0)
		}
		return time.Now().Add(-time.Nanosecond)
	}
	var closeStamp [2]atomic.Int64 // stamp at which direction e (written by end e) was first closed
	markClosed := func(d int) {
		closeStamp[d].CompareAndSwap(0, clock.Add(1))
	}
	doChaos := func(c chaosB) {
		e := ends[c.End]
		switch c.Op {
		case opCloseWrite:
			e.CloseWrite()
			markClosed(c.End)
		case opCloseRead:
			e.CloseRead()
			markClosed(1 - c.End)
		case opClose:
			e.Close()
			markClosed(c.End)
			markClosed(1 - c.End)
		case opSetRD, opSetWD, opSetD:
			var tm time.Time
			switch c.DL {
			case dlLongAgo:
				tm = time.Unix(1, 0)
			case dlJustNow:
				tm = time.Now().Add(-time.Nanosecond)
			case dlFuture:
				tm = time.Now().Add(time.Duration(c.Dus) * time.Microsecond)
			}
			unlock := lockDL(c.End, c.Op != opSetWD, c.Op != opSetRD)
			switch c.Op {
			case opSetRD:
				e.SetReadDeadline(tm)
			case opSetWD:
				e.SetWriteDeadline(tm)
			default:
				e.SetDeadline(tm)
			}
			unlock()
		}
	}
	onOp := func() {
		n := ops.Add(1)
		for _, c := range chaosAt[n] {
			doChaos(c)
		}
	}
	for _, c := range chaosAt[0] {
		doChaos(c)
	}

	var wg sync.WaitGroup
	var writes [2][]*wrecB   // per direction
	var chunks [2][][]chunkB // per direction, per reader goroutine
	var timeouts atomic.Int64
	var wTimeouts, rTimeouts, wClosed, rClosed [2]atomic.Int64 // per direction
	for e := range ends {
		ep := p.Ends[e]
		c := ends[e]
		left := new(atomic.Int64)
		left.Store(int64(len(ep.Writers)))
		if len(ep.Writers) == 0 {
			c.CloseWrite()
			markClosed(e)
		}
		for g, sizes := range ep.Writers {
			recs := make([]*wrecB, len(sizes))
			for s, sz := range sizes {
				recs[s] = &wrecB{g: g, s: s, size: sz}
			}
			writes[e] = append(writes[e], recs...)
			probeW := map[int]bool{}
			if g < len(ep.WProbe) {
				for _, s := range ep.WProbe[g] {
					probeW[s] = true
				}
			}
			wg.Go(func() {
				defer func() {
					if left.Add(-1) == 0 {
						c.CloseWrite()
						markClosed(e)
					}
				}()
				for _, r := range recs {
					buf := make([]byte, r.size)
					tag := tagOf(r.g, r.s)
					for i := range buf {
						buf[i] = tag
					}
					if probeW[r.s] {
						unlock := lockDL(e, false, true)
						c.SetWriteDeadline(pastOf(r.s))
						busy := readersIn[e].Load() > 0
						r.before = clock.Add(1)
						r.n, r.err = c.Write(buf)
						r.after = clock.Add(1)
						c.SetWriteDeadline(time.Time{})
						unlock()
						wProbes.Add(1)
						if busy {
							wProbesBusy.Add(1)
						}
						if r.n != 0 || r.err == nil {
							fail(fmt.Sprintf("SIG=C15/B/expired-write-transferred end %d writer %d write %d (len %d): the goroutine set its write deadline to a past instant and then called Write, which returned n=%d err=%v instead of (0, timeout)", e, r.g, r.s, r.size, r.n, r.err))
						}
					} else {
						writersIn[e].Add(1)
						r.before = clock.Add(1)
						r.n, r.err = c.Write(buf)
						r.after = clock.Add(1)
						writersIn[e].Add(-1)
					}
					switch classify(r.err) {
					case eNil:
					case eClosed:
						wClosed[e].Add(1)
					case eTimeout:
						timeouts.Add(1)
						wTimeouts[e].Add(1)
						if !probeW[r.s] {
							unlock := lockDL(e, false, true)
							c.SetWriteDeadline(time.Time{})
							unlock()
						}
					default:
						fail(fmt.Sprintf("SIG=C15/B/write-error-class end %d writer %d write %d (len %d) returned n=%d err=%v", e, r.g, r.s, r.size, r.n, r.err))
					}
					onOp()
				}
			})
		}
		d := 1 - e // direction read by end e
		chunks[d] = make([][]chunkB, len(ep.Readers))
		for ri, rp := range ep.Readers {
			wg.Go(func() {
				if rp.WriteTo {
					sk := &stampSink{clock: &clock, reader: ri, onOp: onOp}
					for {
						sk.last = clock.Add(1)
						readersIn[d].Add(1)
						_, err := c.WriteTo(sk)
						readersIn[d].Add(-1)
						cl := classify(err)
						if cl == eClosed {
							rClosed[d].Add(1)
						}
						if cl == eTimeout {
							timeouts.Add(1)
							rTimeouts[d].Add(1)
							unlock := lockDL(e, true, false)
							c.SetReadDeadline(time.Time{})
							unlock()
							onOp()
							continue
						}
						if cl != eNil && cl != eClosed {
							fail(fmt.Sprintf("SIG=C15/B/writeto-error-class end %d reader %d WriteTo returned err=%v", e, ri, err))
						}
						break
					}
					if sk.bad != "" {
						fail("SIG=C15/B/chunk-mixed " + sk.bad)
					}
					chunks[d][ri] = sk.chunks
					onOp()
					return
				}
				maxb := 0
				for _, x := range rp.Bufs {
					maxb = max(maxb, x)
				}
				buf := make([]byte, maxb)
				var mine []chunkB
				defer func() { chunks[d][ri] = mine }()
				probeR := map[int]bool{}
				for _, i := range rp.Probe {
					probeR[i] = true
				}
				for i := 0; ; i++ {
					bb := buf[:rp.Bufs[i%len(rp.Bufs)]]
					var before, after int64
					var n int
					var err error
					if probeR[i] {
						unlock := lockDL(e, true, false)
						c.SetReadDeadline(pastOf(i))
						busy := writersIn[d].Load() > 0
						before = clock.Add(1)
						n, err = c.Read(bb)
						after = clock.Add(1)
						c.SetReadDeadline(time.Time{})
						unlock()
						rProbes.Add(1)
						if busy {
							rProbesBusy.Add(1)
						}
						if n != 0 || err == nil {
							fail(fmt.Sprintf("SIG=C15/B/expired-read-transferred end %d reader %d iteration %d: the goroutine set its read deadline to a past instant and then called Read(len %d), which returned n=%d err=%v instead of (0, timeout)", e, ri, i, len(bb), n, err))
						}
					} else {
						readersIn[d].Add(1)
						before = clock.Add(1)
						n, err = c.Read(bb)
						after = clock.Add(1)
						readersIn[d].Add(-1)
					}
					if n < 0 || n > len(bb) {
						fail(fmt.Sprintf("SIG=C15/B/read-n end %d reader %d Read(len %d) returned n=%d err=%v", e, ri, len(bb), n, err))
						return
					}
					if n > 0 {
						for _, x := range bb[:n] {
							if x != bb[0] {
								fail(fmt.Sprintf("SIG=C15/B/chunk-mixed end %d reader %d Read returned bytes of different writes: %x", e, ri, trunc(bb[:n])))
								break
							}
						}
						mine = append(mine, chunkB{tag: bb[0], k: n, before: before, after: after, reader: ri})
					}
					onOp()
					switch classify(err) {
					case eNil:
					case eTimeout:
						timeouts.Add(1)
						rTimeouts[d].Add(1)
						if !probeR[i] {
							unlock := lockDL(e, true, false)
							c.SetReadDeadline(time.Time{})
							unlock()
						}
					case eEOF, eClosed:
						if classify(err) == eClosed {
							rClosed[d].Add(1)
						}
						if n != 0 {
							fail(fmt.Sprintf("SIG=C15/B/read-n-with-error end %d reader %d Read returned n=%d err=%v", e, ri, n, err))
						}
						return
					default:
						fail(fmt.Sprintf("SIG=C15/B/read-error-class end %d reader %d Read returned n=%d err=%v", e, ri, n, err))
						return
					}
				}
			})
		}
	}

	finished := make(chan struct{})
	go func() { wg.Wait(); close(finished) }()
	stalled := false
	select {
	case <-finished:
	case <-time.After(time.Duration(stallBoundB.Load())):
		stalled = true
	}
	a.Close()
	b.Close()
	if stalled {
		sb, ab := time.Duration(stallBoundB.Load()), time.Duration(afterCloseBoundB.Load())
		livenessMissed()
		select {
		case <-finished:
			return fmt.Sprintf("VERIF-VIOLATION SIG=C15/B/stalled calls did not finish within %v although every end had a reader running until EOF/close; only closing both ends released them; plan=%s", sb, jsonOf(p)), ci
		case <-time.After(ab):
			return fmt.Sprintf("VERIF-VIOLATION SIG=C15/blocked-after-close calls still blocked %v after Close of both ends; plan=%s", ab, jsonOf(p)), ci
		}
	}
	if viol != "" {
		return viol + " plan=" + jsonOf(p), ci
	}
	// after Close of both ends nothing blocks and nothing is delivered
	for e, c := range ends {
		okr := eEOF | eClosed
		if deadlineSet {
			okr |= eTimeout // closed and expired at once: the documentation does not say which error wins
		}
		if n, err := c.Read(make([]byte, 1)); n != 0 || classify(err)&okr == 0 {
			return fmt.Sprintf("SIG=C15/B/read-after-close end %d Read after Close of both ends returned n=%d err=%v plan=%s", e, n, err, jsonOf(p)), ci
		}
		if n, err := c.Write([]byte{255}); n != 0 || classify(err)&(okr&^eEOF) == 0 {
			return fmt.Sprintf("SIG=C15/B/write-after-close end %d Write after Close of both ends returned n=%d err=%v plan=%s", e, n, err, jsonOf(p)), ci
		}
	}

	ci.Timeouts = int(timeouts.Load())
	ci.RProbes, ci.RProbesPeerBusy = int(rProbes.Load()), int(rProbesBusy.Load())
	ci.WProbes, ci.WProbesPeerBusy = int(wProbes.Load()), int(wProbesBusy.Load())
	if ci.Timeouts > 0 && !deadlineSet {
		return fmt.Sprintf("SIG=C15/B/timeout-without-deadline %d calls timed out but no deadline was ever set; plan=%s", ci.Timeouts, jsonOf(p)), ci
	}
	// every failure has a cause in the plan: the only closes that can hit a running call are the
	// chaos ones (the last writer's CloseWrite comes after its end's writes), the only deadlines the chaos ones
	for d := range 2 {
		var closeW, closeR, wdl, rdl bool
		for _, c := range p.Chaos {
			switch c.Op {
			case opClose:
				closeW = true
				closeR = closeR || c.End == 1-d
			case opCloseWrite:
				closeW = closeW || c.End == d
			case opCloseRead:
				closeW = closeW || c.End == 1-d
				closeR = closeR || c.End == 1-d
			case opSetWD:
				wdl = wdl || (c.End == d && c.DL != dlZero)
			case opSetRD:
				rdl = rdl || (c.End == 1-d && c.DL != dlZero)
			case opSetD:
				wdl = wdl || (c.End == d && c.DL != dlZero)
				rdl = rdl || (c.End == 1-d && c.DL != dlZero)
			}
		}
		for _, wp := range p.Ends[d].WProbe { // a prober's past deadline also hits the other writers of its end
			wdl = wdl || len(wp) > 0
		}
		for _, r := range p.Ends[1-d].Readers {
			rdl = rdl || (len(r.Probe) > 0 && !r.WriteTo)
		}
		switch {
		case wClosed[d].Load() > 0 && !closeW:
			return fmt.Sprintf("SIG=C15/B/write-failed-without-close direction %d: %d writes failed with ErrClosedPipe although nothing closed this direction before they returned; plan=%s", d, wClosed[d].Load(), jsonOf(p)), ci
		case rClosed[d].Load() > 0 && !closeR:
			return fmt.Sprintf("SIG=C15/B/read-closed-without-closeread direction %d: %d readers got ErrClosedPipe instead of EOF although their end never called CloseRead/Close; plan=%s", d, rClosed[d].Load(), jsonOf(p)), ci
		case wTimeouts[d].Load() > 0 && !wdl:
			return fmt.Sprintf("SIG=C15/B/write-timeout-without-deadline direction %d: %d writes timed out although no write deadline was set on that end; plan=%s", d, wTimeouts[d].Load(), jsonOf(p)), ci
		case rTimeouts[d].Load() > 0 && !rdl:
			return fmt.Sprintf("SIG=C15/B/read-timeout-without-deadline direction %d: %d reads timed out although no read deadline was set on that end; plan=%s", d, rTimeouts[d].Load(), jsonOf(p)), ci
		}
	}
	for d := range 2 {
		if v := checkDirectionB(d, writes[d], chunks[d], &ci); v != "" {
			return v + " plan=" + jsonOf(p), ci
		}
		// half-close with the reverse direction still used: bytes moved on direction d after 1-d was closed
		if cs := closeStamp[1-d].Load(); cs != 0 {
			for _, rc := range chunks[d] {
				for _, ch := range rc {
					if ch.before > cs {
						ci.HalfReverse = true
					}
				}
			}
		}
	}
	return "", ci
}

func jsonOf(p planB) string { return planJSONAny(replayDoc{Mode: "B", B: &p}) }

func checkDirectionB(d int, ws []*wrecB, rchunks [][]chunkB, ci *caseInfoB) string {
	byTag := map[byte]*wrecB{}
	nWriters := 0
	for _, w := range ws {
		byTag[tagOf(w.g, w.s)] = w
		nWriters = max(nWriters, w.g+1)
		if w.n < 0 || w.n > w.size {
			return fmt.Sprintf("SIG=C15/B/write-n direction %d writer %d write %d (len %d) reported n=%d err=%v", d, w.g, w.s, w.size, w.n, w.err)
		}
		if w.err == nil && w.n != w.size {
			return fmt.Sprintf("SIG=C15/B/short-write-nil-error direction %d writer %d write %d (len %d) reported n=%d err=nil", d, w.g, w.s, w.size, w.n)
		}
		if w.err != nil && w.n > 0 && w.n < w.size {
			ci.ClosedPartial = true
		}
	}
	type agg struct {
		total, pieces       int
		minAfter, maxBefore int64
		minBefore, maxAfter int64
	}
	got := map[byte]*agg{}
	var all []chunkB
	for ri, rc := range rchunks {
		// per-reader real-time order
		seenRun := map[byte]bool{}
		lastSeq := map[int]int{}
		var prev byte
		for i, ch := range rc {
			w := byTag[ch.tag]
			if w == nil {
				return fmt.Sprintf("SIG=C15/B/unknown-bytes direction %d reader %d received %d bytes of value %d that no write sent", d, ri, ch.k, ch.tag)
			}
			if i == 0 || ch.tag != prev {
				if seenRun[ch.tag] {
					return fmt.Sprintf("SIG=C15/B/interleaved-write direction %d reader %d: bytes of writer %d write %d (len %d, reported n=%d) were split by bytes of another write (reader history %s)",
						d, ri, w.g, w.s, w.size, w.n, tagsOf(rc, byTag))
				}
				seenRun[ch.tag] = true
				if ls, ok := lastSeq[w.g]; ok && w.s < ls {
					return fmt.Sprintf("SIG=C15/B/reordered-writes direction %d reader %d saw write %d of writer %d after its write %d (reader history %s)", d, ri, w.s, w.g, ls, tagsOf(rc, byTag))
				}
				lastSeq[w.g] = w.s
			}
			prev = ch.tag
			g := got[ch.tag]
			if g == nil {
				g = &agg{minAfter: ch.after, maxBefore: ch.before, minBefore: ch.before, maxAfter: ch.after}
				got[ch.tag] = g
			}
			g.total += ch.k
			g.pieces++
			g.minAfter = min(g.minAfter, ch.after)
			g.maxBefore = max(g.maxBefore, ch.before)
			g.minBefore = min(g.minBefore, ch.before)
			g.maxAfter = max(g.maxAfter, ch.after)
			all = append(all, ch)
			ci.Chunks++
			ci.Bytes += ch.k
		}
	}
	if len(rchunks) > 1 {
		ci.ConcurrentReaders = true
	}
	if nWriters > 1 {
		ci.ConcurrentWriters = true
	}
	for _, w := range ws {
		tag := tagOf(w.g, w.s)
		g := got[tag]
		total := 0
		if g != nil {
			total = g.total
		}
		if total != w.n {
			return fmt.Sprintf("SIG=C15/B/reported-vs-consumed direction %d writer %d write %d (len %d) reported n=%d err=%v but readers received %d of its bytes", d, w.g, w.s, w.size, w.n, w.err, total)
		}
		if g == nil {
			continue
		}
		if g.pieces > 1 && nWriters > 1 {
			ci.MultiWriterPartial = true
		}
		// no buffering: each chunk's Read overlaps the Write call in time
		if g.maxBefore > w.after {
			return fmt.Sprintf("SIG=C15/B/delivered-after-write-returned direction %d writer %d write %d: a Read called after the Write had returned received its bytes", d, w.g, w.s)
		}
		if g.minAfter < w.before {
			return fmt.Sprintf("SIG=C15/B/delivered-before-write direction %d writer %d write %d: a Read that returned before the Write was called received its bytes", d, w.g, w.s)
		}
	}
	// cross-reader checks on stamp-ordered pairs
	if len(rchunks) > 1 {
		for _, q := range all {
			for tag, g := range got {
				if tag == q.tag || g.pieces < 2 {
					continue
				}
				if g.minAfter < q.before && q.after < g.maxBefore {
					w, wq := byTag[tag], byTag[q.tag]
					return fmt.Sprintf("SIG=C15/B/interleaved-write direction %d: a chunk of writer %d write %d was received strictly between two chunks of writer %d write %d (len %d, n=%d)",
						d, wq.g, wq.s, w.g, w.s, w.size, w.n)
				}
			}
		}
		// per-writer order across readers
		bySeq := map[int][]*wrecB{}
		for _, w := range ws {
			bySeq[w.g] = append(bySeq[w.g], w)
		}
		for g := 0; g < nWriters; g++ {
			l := bySeq[g]
			sort.Slice(l, func(i, j int) bool { return l[i].s < l[j].s })
			var maxBeforeEarlier int64 = -1
			earlier := -1
			for _, w := range l {
				ag := got[tagOf(w.g, w.s)]
				if ag == nil {
					continue
				}
				if earlier >= 0 && ag.minAfter < maxBeforeEarlier {
					return fmt.Sprintf("SIG=C15/B/reordered-writes direction %d: bytes of writer %d write %d were received before a Read that later received bytes of its earlier write %d was even called", d, g, w.s, earlier)
				}
				if ag.maxBefore > maxBeforeEarlier {
					maxBeforeEarlier, earlier = ag.maxBefore, w.s
				}
			}
		}
	}
	return ""
}

func tagsOf(rc []chunkB, byTag map[byte]*wrecB) string {
	var ss []string
	for i, ch := range rc {
		if i >= 40 {
			ss = append(ss, "...")
			break
		}
		w := byTag[ch.tag]
		ss = append(ss, fmt.Sprintf("w%d.%d*%d", w.g, w.s, ch.k))
	}
	return strings.Join(ss, " ")
}

// ---- generator

func drawPlanB(rt *rapid.T) planB {
	var p planB
	scale := rapid.SampledFrom([]int{1, 2, 4, 8, 16, 64, 64, 512, 4096}).Draw(rt, "scale")
	totalOps := 0
	for e := range 2 {
		total := rapid.IntRange(2, 4).Draw(rt, "goroutines")
		nr := rapid.IntRange(1, min(3, total)).Draw(rt, "readers")
		nw := total - nr
		for range nw {
			k := rapid.IntRange(1, 12).Draw(rt, "writes")
			sizes := make([]int, k)
			for i := range sizes {
				switch rapid.IntRange(0, 7).Draw(rt, "wk") {
				case 0:
					sizes[i] = 0
				case 1, 2:
					sizes[i] = scale
				default:
					sizes[i] = rapid.IntRange(0, scale).Draw(rt, "wn")
				}
			}
			totalOps += 2 * k
			p.Ends[e].Writers = append(p.Ends[e].Writers, sizes)
			var wp []int
			if rapid.IntRange(0, 2).Draw(rt, "wprobe") == 0 {
				for range rapid.IntRange(1, 2).Draw(rt, "nwprobe") {
					wp = append(wp, rapid.IntRange(0, k-1).Draw(rt, "wpi"))
				}
			}
			p.Ends[e].WProbe = append(p.Ends[e].WProbe, wp)
		}
		for range nr {
			var r readerB
			if rapid.IntRange(0, 5).Draw(rt, "writeTo") == 0 {
				r.WriteTo = true
			} else {
				k := rapid.IntRange(1, 3).Draw(rt, "nbufs")
				pos := false
				for range k {
					var x int
					if rapid.IntRange(0, 2).Draw(rt, "small") == 0 {
						x = rapid.IntRange(0, max(1, scale/3)).Draw(rt, "buf")
					} else {
						x = rapid.IntRange(0, 3*scale).Draw(rt, "buf")
					}
					pos = pos || x > 0
					r.Bufs = append(r.Bufs, x)
				}
				if !pos {
					r.Bufs[0] = 1
				}
				if rapid.IntRange(0, 2).Draw(rt, "rprobe") == 0 {
					for range rapid.IntRange(1, 3).Draw(rt, "nrprobe") {
						r.Probe = append(r.Probe, rapid.IntRange(0, 20).Draw(rt, "rpi"))
					}
				}
			}
			p.Ends[e].Readers = append(p.Ends[e].Readers, r)
		}
	}
	nc := rapid.SampledFrom([]int{0, 0, 1, 1, 2, 3, 4}).Draw(rt, "nchaos")
	ops := []opKind{opCloseWrite, opCloseRead, opClose, opSetRD, opSetRD, opSetWD, opSetWD, opSetD}
	for range nc {
		c := chaosB{After: rapid.IntRange(0, totalOps).Draw(rt, "after"), End: rapid.IntRange(0, 1).Draw(rt, "end"),
			Op: rapid.SampledFrom(ops).Draw(rt, "cop")}
		if c.Op == opSetRD || c.Op == opSetWD || c.Op == opSetD {
			c.DL = rapid.SampledFrom([]int{dlZero, dlLongAgo, dlJustNow, dlFuture, dlFuture}).Draw(rt, "dl")
			if c.DL == dlFuture {
				c.Dus = rapid.IntRange(1, 2000).Draw(rt, "dus")
			}
		}
		p.Chaos = append(p.Chaos, c)
	}
	return p
}

var recB = ev.New("C15", "free-running",
	"rapid draws the configuration only (the schedule is the Go scheduler's): per end 2..4 goroutines = 0..3 writers (1..12 writes each, sizes 0..scale, "+
		"every write filled with a byte value unique in its direction) + 1..3 readers (Read loop cycling buffer sizes 0..3*scale, or WriteTo into a recording sink), "+
		"scale in {1..4096}, plus 0..4 chaos actions {CloseWrite, CloseRead, Close, Set{Read,Write,}Deadline(zero|past|+1..2000us real time)} run after the k-th completed call; "+
		"timed-out callers clear their deadline and go on; the last writer of an end calls CloseWrite; then both ends are closed and probed. "+
		"Oracle: attribution invariants on the received chunks vs. the n each Write reported (see modeb_test.go). "+
		"Non-trivial: some end had >= 2 concurrent writers and one of their writes was consumed in >= 2 chunks; distinct key = goroutine shape + chaos ops + observed classes").
	Require("multi-writer-partial", "timeout-seen", "write-failed-partially-consumed", "half-close-reverse-used", "writeto-reader", "concurrent-readers", "chaos-close",
		// round 6
		"expired-read-probe", "expired-read-probe-while-peer-write-in-flight", "expired-write-probe", "expired-write-probe-while-peer-reader-in-flight")

func checkPlanB(rt *rapid.T, p planB) {
	done := journal("c15b", replayDoc{Mode: "B", B: &p})
	viol, ci := runPlanB(p)
	done()
	if viol != "" {
		if i := strings.Index(viol, "SIG="); i >= 0 {
			sig := strings.Fields(viol[i+4:])[0]
			if ev.IsKnown("C15", sig) {
				recB.KnownHit(sig)
				return
			}
		}
		rt.Fatalf("%s", viol)
	}
	var l []string
	add := func(b bool, s string) {
		if b {
			l = append(l, s)
		}
	}
	add(ci.MultiWriterPartial, "multi-writer-partial")
	add(ci.Timeouts > 0, "timeout-seen")
	add(ci.ClosedPartial, "write-failed-partially-consumed")
	add(ci.HalfReverse, "half-close-reverse-used")
	add(ci.ConcurrentReaders, "concurrent-readers")
	add(ci.ConcurrentWriters, "concurrent-writers")
	add(ci.RProbes > 0, "expired-read-probe")
	add(ci.RProbesPeerBusy > 0, "expired-read-probe-while-peer-write-in-flight")
	add(ci.WProbes > 0, "expired-write-probe")
	add(ci.WProbesPeerBusy > 0, "expired-write-probe-while-peer-reader-in-flight")
	key := ""
	chaosClose := false
	for e := range 2 {
		key += fmt.Sprintf("w%dr%d", len(p.Ends[e].Writers), len(p.Ends[e].Readers))
		for _, r := range p.Ends[e].Readers {
			if r.WriteTo {
				add(true, "writeto-reader")
				key += "t"
			}
		}
	}
	for _, c := range p.Chaos {
		key += fmt.Sprintf(",%d%d%d", c.Op, c.End, c.DL)
		chaosClose = chaosClose || c.Op == opClose || c.Op == opCloseRead || c.Op == opCloseWrite
	}
	add(chaosClose, "chaos-close")
	add(len(p.Chaos) == 0, "no-chaos")
	key += fmt.Sprintf("|%v%v%v%v", ci.MultiWriterPartial, ci.Timeouts > 0, ci.ClosedPartial, ci.HalfReverse)
	recB.Case(key, ci.MultiWriterPartial, l...)
	recB.Label("chunks", int64(ci.Chunks))
	recB.Label("bytes", int64(ci.Bytes))
	recB.Label("expired-read-probes", int64(ci.RProbes))
	recB.Label("expired-read-probes-peer-busy", int64(ci.RProbesPeerBusy))
	recB.Label("expired-write-probes", int64(ci.WProbes))
	recB.Label("expired-write-probes-peer-busy", int64(ci.WProbesPeerBusy))
	if ci.MultiWriterPartial {
		recB.Sample(map[string]any{"plan": p, "chunks": ci.Chunks, "timeouts": ci.Timeouts})
	}
}

func TestFreeRunning(t *testing.T) {
	rapid.Check(t, func(rt *rapid.T) {
		checkPlanB(rt, drawPlanB(rt))
	})
}
