package c06

import (
	"context"
	"errors"
	"fmt"
	"hash/fnv"
	"net/netip"
	"os"
	"path/filepath"
	"reflect"
	"strconv"
	"strings"
	"sync"

	"github.com/database64128/shadowsocks-go/conn"
	"github.com/database64128/shadowsocks-go/direct"
	"github.com/database64128/shadowsocks-go/dns"
	"github.com/database64128/shadowsocks-go/domainset"
	"github.com/database64128/shadowsocks-go/httpproxy"
	"github.com/database64128/shadowsocks-go/netio"
	"github.com/database64128/shadowsocks-go/prefixset"
	"github.com/database64128/shadowsocks-go/router"
	"github.com/database64128/shadowsocks-go/socks5"
	"github.com/database64128/shadowsocks-go/ss2022"
	"github.com/database64128/shadowsocks-go/ssnone"
	"github.com/database64128/shadowsocks-go/zerocopy"
	"go.uber.org/zap"

	"verif/internal/ev"
)

// Everything the service computes from an address after parsing it is reproduced here with the real
// exported entry points: log rendering, routing (router.GetTCPClient/GetUDPClient, as called by
// service/tcp.go and service/udp_*.go), re-encoding towards the upstream proxy by every client protocol
// (what dialer.DialStream / natConnPacker.PackInPlace do) and reply packing.

// ---- routers

// recRoute (round 6) counts, over every address any entry point produced in this process, which representation of a port
// criterion in the fixed router cells was asked about which edge port, for which kind of target. The labels are bumped by
// useAddr (no case of its own: the address is part of the case of the entry point that produced it). The required labels
// are declared by TestSeeds, the deterministic stage that is guaranteed to produce all of them.
var recRoute = ev.New(prop, "route-cells",
	"every address produced by any entry point x 38 fixed router cells; cells with a source-port criterion are asked with 6 sources "+
		"(ports 1, 11, 61, 39999, 40000, 65535) and, for UDP requests, 2 more with source port 0. Label '<side>:<representation>[/inv] <what>' = "+
		"the first port criterion of the cell (side to|from, representation single|ranges|bitmap, inverted or not; type verified by reflect on "+
		"the built route) was evaluated for: 'dom/p0', 'ip/p0', 'dom/p65535', 'ip/p65535' (destination side: kind of target and its port) or "+
		"'src/p0 dom|ip', 'src/p65535 dom|ip' (source side: source port, kind of target)")

// routeRequired are the labels a full run must have produced (all of them come out of the deterministic seed lists).
func routeRequired() []string {
	var out []string
	for _, rep := range []string{"single", "ranges", "bitmap"} {
		for _, inv := range []string{"", "/inv"} {
			for _, k := range []string{"dom", "ip"} {
				for _, p := range []string{"p0", "p65535"} {
					out = append(out, "to:"+rep+inv+" "+k+"/"+p, "from:"+rep+inv+" src/"+p+" "+k)
				}
			}
		}
	}
	return out
}

type routerCell struct {
	name string // criterion/representation[/inv]
	rep  string // representation reflect saw in the built route ("" when not a port criterion)
	r    *router.Router
	// round 6: what the cell's port criteria are, as verified by reflect on the built route (inner type of an
	// inverted criterion included). side "to" / "from" / "" ; kind "single" / "ranges" / "bitmap".
	ports []cellPort
}

// cellPort describes one port criterion of a cell.
type cellPort struct {
	side, kind string
	inv        bool
}

func (p cellPort) String() string {
	s := p.side + ":" + p.kind
	if p.inv {
		s += "/inv"
	}
	return s
}

// setFiles are the domain-set / prefix-set files written once per process for router configs.
var setFiles struct{ ds, gob, ps string }

var (
	cellsOnce sync.Once
	cells     []routerCell
	cellsErr  error
	c1TCP     = &scriptClient{name: "c1"}
	c2TCP     = &scriptClient{name: "c2"}
	c1UDP     = &sinkUDPClient{name: "c1"}
	c2UDP     = &sinkUDPClient{name: "c2"}
)

// fakeResolver answers by name length so every branch of router.lookup is taken by hostile names.
type fakeResolver struct{ k int }

var errResolver = errors.New("scripted resolver failure")

func (f fakeResolver) LookupIP(ctx context.Context, name string) (netip.Addr, error) {
	switch (len(name) + f.k) % 5 {
	case 0:
		return netip.AddrFrom4([4]byte{10, 0, 0, 1}), nil
	case 1:
		return netip.AddrFrom16([16]byte{10: 0xff, 11: 0xff, 12: 10, 13: 0, 14: 0, 15: 1}), nil // IPv4-mapped
	case 2:
		return netip.Addr{}, dns.ErrLookup
	case 3:
		return netip.Addr{}, dns.ErrDomainNoAssociatedIPs
	default:
		return netip.MustParseAddr("2001:db8::1"), nil
	}
}

func (f fakeResolver) LookupIPs(ctx context.Context, name string) ([]netip.Addr, error) {
	ip, err := f.LookupIP(ctx, name)
	if err != nil {
		return nil, err
	}
	return []netip.Addr{ip}, nil
}

func portRanges(n int) string {
	var parts []string
	for i := 1; i <= n; i++ {
		parts = append(parts, fmt.Sprintf("%d-%d", i*10, i*10+1))
	}
	return strings.Join(parts, ",")
}

func scratchDir() (string, error) {
	base := os.Getenv("VERIF_WORK")
	if base == "" {
		base = os.TempDir()
	}
	return os.MkdirTemp(base, "c06-sets-")
}

const domainSetText = "# shadowsocks-go domain set capacity hint 2 3 1 1 DSKR\n" +
	"domain:exact.example\ndomain:a\nsuffix:example.com\nsuffix:com.\nsuffix:x\nkeyword:tracker\nregexp:^ad[0-9]+\\.\n"

const prefixSetText = "# test\n10.0.0.0/8\n127.0.0.0/8\n::ffff:0:0/96\n2001:db8::/32\n0.0.0.0/32\n"

func buildCells() {
	dir, err := scratchDir()
	if err != nil {
		cellsErr = err
		return
	}
	dsPath := filepath.Join(dir, "ds.txt")
	psPath := filepath.Join(dir, "ps.txt")
	gobPath := filepath.Join(dir, "ds.gob")
	if err := os.WriteFile(dsPath, []byte(domainSetText), 0o644); err != nil {
		cellsErr = err
		return
	}
	if err := os.WriteFile(psPath, []byte(prefixSetText), 0o644); err != nil {
		cellsErr = err
		return
	}
	dsb, err := domainset.BuilderFromText(domainSetText)
	if err != nil {
		cellsErr = err
		return
	}
	gf, err := os.Create(gobPath)
	if err != nil {
		cellsErr = err
		return
	}
	if err := dsb.WriteGob(gf); err != nil {
		cellsErr = err
		return
	}
	gf.Close()
	setFiles.ds, setFiles.gob, setFiles.ps = dsPath, gobPath, psPath

	var singles20 []uint16
	for i := 1; i <= 20; i++ {
		singles20 = append(singles20, uint16(i*2))
	}
	pfx := []netip.Prefix{netip.MustParsePrefix("10.0.0.0/8"), netip.MustParsePrefix("2001:db8::/32"), netip.MustParsePrefix("0.0.0.0/0")}

	type spec struct {
		name    string
		wantRep string
		rc      router.RouteConfig
	}
	// round 6: every type name listed under inner must occur among the built criteria (inverted ones unwrapped)
	type specExtra struct {
		inner []string
		ports []cellPort
	}
	extras := map[string]specExtra{}
	const (
		tSingle = "router.DestPortCriterion"
		tRanges = "router.DestPortRangeSetCriterion"
		tBitmap = "*router.DestPortSetCriterion"
		fSingle = "router.SourcePortCriterion"
		fRanges = "router.SourcePortRangeSetCriterion"
		fBitmap = "*router.SourcePortSetCriterion"
	)
	specs := []spec{
		{"to/single", "router.DestPortCriterion", router.RouteConfig{ToPorts: []uint16{443}}},
		{"to/ranges2", "router.DestPortRangeSetCriterion", router.RouteConfig{ToPortRanges: "1-1023,8000-9000"}},
		{"to/ranges16", "router.DestPortRangeSetCriterion", router.RouteConfig{ToPortRanges: portRanges(16)}},
		{"to/bitmap17", "*router.DestPortSetCriterion", router.RouteConfig{ToPortRanges: portRanges(17)}},
		{"to/bitmap20", "*router.DestPortSetCriterion", router.RouteConfig{ToPorts: singles20}},
		{"to/bitmapmix", "*router.DestPortSetCriterion", router.RouteConfig{ToPorts: []uint16{1, 65535}, ToPortRanges: portRanges(16)}},
		{"to/single/inv", "router.InvertedCriterion", router.RouteConfig{ToPorts: []uint16{443}, InvertToPorts: true}},
		{"to/ranges2/inv", "router.InvertedCriterion", router.RouteConfig{ToPortRanges: "1-1023,8000-9000", InvertToPorts: true}},
		{"to/bitmap17/inv", "router.InvertedCriterion", router.RouteConfig{ToPortRanges: portRanges(17), InvertToPorts: true}},
		{"from/single", "router.SourcePortCriterion", router.RouteConfig{FromPorts: []uint16{40000}}},
		{"from/ranges2", "router.SourcePortRangeSetCriterion", router.RouteConfig{FromPortRanges: "1-1023,40000-50000"}},
		{"from/bitmap17", "*router.SourcePortSetCriterion", router.RouteConfig{FromPortRanges: portRanges(17), FromPorts: []uint16{40000}}},
		{"domains", "", router.RouteConfig{ToDomains: []string{"example.com", "a", "localhost"}}},
		{"domains/inv", "", router.RouteConfig{ToDomains: []string{"example.com", "a"}, InvertToDomains: true}},
		{"domainsets", "", router.RouteConfig{ToDomainSets: []string{"ds", "dsgob"}}},
		{"domainsets+expected", "", router.RouteConfig{ToDomainSets: []string{"ds"}, ToMatchedDomainExpectedPrefixes: pfx[:2], ToMatchedDomainExpectedPrefixSets: []string{"ps"}}},
		{"prefixes/resolved", "", router.RouteConfig{ToPrefixes: pfx[:2], ToPrefixSets: []string{"ps"}}},
		{"prefixes/resolved/inv", "", router.RouteConfig{ToPrefixes: pfx[:2], InvertToPrefixes: true, Resolver: "r1"}},
		{"prefixes/noresolve", "", router.RouteConfig{ToPrefixes: pfx[:2], DisableNameResolutionForIPRules: true}},
		{"domains|prefixes", "", router.RouteConfig{ToDomains: []string{"example.com"}, ToPrefixes: pfx[:2]}},
		{"from/prefixes", "", router.RouteConfig{FromPrefixes: pfx[:1], FromPrefixSets: []string{"ps"}}},
		{"users", "", router.RouteConfig{FromUsers: []string{"alice", ""}, FromServers: []string{"s1"}}},
		{"tcp-only", "", router.RouteConfig{Network: "tcp", ToPortRanges: portRanges(17)}},
		{"udp-only/reject", "", router.RouteConfig{Network: "udp", ToPortRanges: portRanges(17), Client: "reject"}},
	}
	// what the cells above are, for the route-cells evidence
	for i := range specs {
		switch specs[i].name {
		case "to/single":
			extras[specs[i].name] = specExtra{[]string{tSingle}, []cellPort{{"to", "single", false}}}
		case "to/ranges2", "to/ranges16":
			extras[specs[i].name] = specExtra{[]string{tRanges}, []cellPort{{"to", "ranges", false}}}
		case "to/bitmap17", "to/bitmap20", "to/bitmapmix", "tcp-only", "udp-only/reject":
			extras[specs[i].name] = specExtra{[]string{tBitmap}, []cellPort{{"to", "bitmap", false}}}
		case "to/single/inv":
			extras[specs[i].name] = specExtra{[]string{tSingle}, []cellPort{{"to", "single", true}}}
		case "to/ranges2/inv":
			extras[specs[i].name] = specExtra{[]string{tRanges}, []cellPort{{"to", "ranges", true}}}
		case "to/bitmap17/inv":
			extras[specs[i].name] = specExtra{[]string{tBitmap}, []cellPort{{"to", "bitmap", true}}}
		case "from/single":
			extras[specs[i].name] = specExtra{[]string{fSingle}, []cellPort{{"from", "single", false}}}
		case "from/ranges2":
			extras[specs[i].name] = specExtra{[]string{fRanges}, []cellPort{{"from", "ranges", false}}}
		case "from/bitmap17":
			extras[specs[i].name] = specExtra{[]string{fBitmap}, []cellPort{{"from", "bitmap", false}}}
		}
	}
	// Round 6: the remaining combinations of {source, destination} x {single, <=16 ranges, bitmap} x {plain, inverted}, bitmaps
	// that contain the edge ports 1 and 65535, and routes in which a port criterion is followed by a domain / prefix criterion
	// (so a request that passes the port criterion goes on into the name-based ones) or preceded by a source-side one.
	specs = append(specs,
		spec{"from/single/inv", "router.InvertedCriterion", router.RouteConfig{FromPorts: []uint16{40000}, InvertFromPorts: true}},
		spec{"from/ranges2/inv", "router.InvertedCriterion", router.RouteConfig{FromPortRanges: "1-1023,40000-50000", InvertFromPorts: true}},
		spec{"from/bitmap17/inv", "router.InvertedCriterion", router.RouteConfig{FromPortRanges: portRanges(17), InvertFromPorts: true}},
		spec{"from/bitmapmix", "*router.SourcePortSetCriterion", router.RouteConfig{FromPorts: []uint16{1, 65535}, FromPortRanges: portRanges(16)}},
		spec{"from/bitmapmix/inv", "router.InvertedCriterion", router.RouteConfig{FromPorts: []uint16{1, 65535}, FromPortRanges: portRanges(16), InvertFromPorts: true}},
		spec{"to/bitmap20/inv", "router.InvertedCriterion", router.RouteConfig{ToPorts: singles20, InvertToPorts: true}},
		spec{"to/bitmapmix/inv", "router.InvertedCriterion", router.RouteConfig{ToPorts: []uint16{1, 65535}, ToPortRanges: portRanges(16), InvertToPorts: true}},
		spec{"to/ranges16/inv", "router.InvertedCriterion", router.RouteConfig{ToPortRanges: portRanges(16), InvertToPorts: true}},
		spec{"from/bitmap17+to/bitmap17", "*router.DestPortSetCriterion", router.RouteConfig{FromPortRanges: portRanges(17), FromPorts: []uint16{40000, 65535}, ToPortRanges: portRanges(17), ToPorts: []uint16{443, 65535}}},
		spec{"from/bitmap17/inv+to/bitmap17/inv", "router.InvertedCriterion", router.RouteConfig{FromPortRanges: portRanges(17), InvertFromPorts: true, ToPortRanges: portRanges(17), InvertToPorts: true}},
		spec{"to/bitmap17/inv+domains", "", router.RouteConfig{ToPortRanges: portRanges(17), InvertToPorts: true, ToDomains: []string{"example.com", "a"}, ToDomainSets: []string{"ds"}}},
		spec{"to/bitmapmix+domainsets+expected", "", router.RouteConfig{ToPorts: []uint16{1, 53, 443, 65535}, ToPortRanges: portRanges(16), ToDomainSets: []string{"ds"}, ToMatchedDomainExpectedPrefixes: pfx[:2]}},
		spec{"to/bitmap17/inv+prefixes/resolved", "", router.RouteConfig{ToPortRanges: portRanges(17), InvertToPorts: true, ToPrefixes: pfx[:2]}},
		spec{"users+from/bitmap17/inv+to/single/inv", "router.InvertedCriterion", router.RouteConfig{FromUsers: []string{"alice", "", "u"}, FromPortRanges: portRanges(17), InvertFromPorts: true, ToPorts: []uint16{443}, InvertToPorts: true}},
	)
	extras["from/single/inv"] = specExtra{[]string{fSingle}, []cellPort{{"from", "single", true}}}
	extras["from/ranges2/inv"] = specExtra{[]string{fRanges}, []cellPort{{"from", "ranges", true}}}
	extras["from/bitmap17/inv"] = specExtra{[]string{fBitmap}, []cellPort{{"from", "bitmap", true}}}
	extras["from/bitmapmix"] = specExtra{[]string{fBitmap}, []cellPort{{"from", "bitmap", false}}}
	extras["from/bitmapmix/inv"] = specExtra{[]string{fBitmap}, []cellPort{{"from", "bitmap", true}}}
	extras["to/bitmap20/inv"] = specExtra{[]string{tBitmap}, []cellPort{{"to", "bitmap", true}}}
	extras["to/bitmapmix/inv"] = specExtra{[]string{tBitmap}, []cellPort{{"to", "bitmap", true}}}
	extras["to/ranges16/inv"] = specExtra{[]string{tRanges}, []cellPort{{"to", "ranges", true}}}
	extras["from/bitmap17+to/bitmap17"] = specExtra{[]string{fBitmap, tBitmap}, []cellPort{{"from", "bitmap", false}, {"to", "bitmap", false}}}
	extras["from/bitmap17/inv+to/bitmap17/inv"] = specExtra{[]string{fBitmap, tBitmap}, []cellPort{{"from", "bitmap", true}, {"to", "bitmap", true}}}
	extras["to/bitmap17/inv+domains"] = specExtra{[]string{tBitmap, "router.DestDomainCriterion"}, []cellPort{{"to", "bitmap", true}}}
	extras["to/bitmapmix+domainsets+expected"] = specExtra{[]string{tBitmap, "router.DestDomainExpectedIPCriterion"}, []cellPort{{"to", "bitmap", false}}}
	extras["to/bitmap17/inv+prefixes/resolved"] = specExtra{[]string{tBitmap, "router.DestResolvedIPCriterion"}, []cellPort{{"to", "bitmap", true}}}
	extras["users+from/bitmap17/inv+to/single/inv"] = specExtra{[]string{fBitmap, tSingle}, []cellPort{{"from", "bitmap", true}, {"to", "single", true}}}
	logger := debugLogger()
	r1, r2 := fakeResolver{0}, fakeResolver{2}
	for _, sp := range specs {
		rc := sp.rc
		rc.Name = "r"
		if rc.Client == "" {
			rc.Client = "c1"
		}
		cfg := router.Config{
			DefaultTCPClientName: "c2",
			DefaultUDPClientName: "c2",
			DomainSets:           []domainset.Config{{Name: "ds", Path: dsPath}, {Name: "dsgob", Type: "gob", Path: gobPath}},
			PrefixSets:           []prefixset.Config{{Name: "ps", Path: psPath}},
			Routes:               []router.RouteConfig{rc},
		}
		r, err := cfg.Router(logger,
			[]dns.SimpleResolver{r1, r2}, map[string]dns.SimpleResolver{"r1": r1, "r2": r2},
			map[string]netio.StreamClient{"c1": c1TCP, "c2": c2TCP},
			map[string]zerocopy.UDPClient{"c1": c1UDP, "c2": c2UDP},
			map[string]int{"s0": 0, "s1": 1})
		if err != nil {
			cellsErr = fmt.Errorf("router cell %s: %w", sp.name, err)
			return
		}
		rep := routeRep(r)
		if sp.wantRep != "" && rep != sp.wantRep {
			// The thresholds (1 port / <=16 ranges / >16 ranges) are read from router/route.go; if they
			// move, the cells no longer force the representation they claim and the evidence would lie.
			cellsErr = fmt.Errorf("router cell %s: built criterion %q, expected %q", sp.name, rep, sp.wantRep)
			return
		}
		built := routeCriterionTypes(r)
		for _, want := range extras[sp.name].inner {
			if !strings.Contains(" "+built+" ", " "+want+" ") {
				cellsErr = fmt.Errorf("router cell %s: built criteria %q do not contain %q", sp.name, built, want)
				return
			}
		}
		cells = append(cells, routerCell{name: sp.name, rep: rep, r: r, ports: extras[sp.name].ports})
	}
}

// routeRep reports the dynamic type of the last criterion of the first route (observation only:
// reflect may read the type of an unexported field, not its value).
func routeRep(r *router.Router) (rep string) {
	defer func() {
		if recover() != nil {
			rep = "?"
		}
	}()
	crit := reflect.ValueOf(r).Elem().FieldByName("routes").Index(0).FieldByName("criteria")
	if crit.Len() == 0 {
		return "none"
	}
	return crit.Index(crit.Len() - 1).Elem().Type().String()
}

func routerCells(t failer) []routerCell {
	cellsOnce.Do(buildCells)
	if cellsErr != nil {
		t.Fatalf("harness: cannot build router cells: %v", cellsErr)
	}
	return cells
}

// ---- relay clients (built once; they are stateless apart from counters)

var (
	relayOnce     sync.Once
	relayNone     *direct.ShadowsocksNonePacketClientPacker
	relaySocks5   *direct.Socks5PacketClientPacker
	relayDirect   *direct.DirectPacketClientPacker
	relaySS       [2]zerocopy.ClientPacker // no EIH / EIH
	relaySSInfo   [2]zerocopy.UDPClientSessionInfo
	srvPackNone   zerocopy.ServerPacker
	srvPackSocks5 zerocopy.ServerPacker
	streamSink    = &scriptClient{name: "sink"}
	socksOK       = &scriptClient{name: "socksok", reply: func(int, conn.Addr, []byte) []byte {
		return []byte{5, 0, 5, 0, 0, 1, 0, 0, 0, 0, 0, 0}
	}}
	httpOK = &scriptClient{name: "httpok", reply: func(int, conn.Addr, []byte) []byte {
		return []byte("HTTP/1.1 200 OK\r\n\r\n")
	}}
	relayStreams []netio.StreamClient
	relayErr     error
)

var upstream = netip.MustParseAddrPort("127.0.0.1:8388")

func buildRelays() {
	relayNone = direct.NewShadowsocksNonePacketClientPacker(upstream, 1472)
	relaySocks5 = direct.NewSocks5PacketClientPacker(upstream, 1472)
	relayDirect = direct.NewDirectPacketClientPacker("ip", 1500)
	srvPackNone = direct.ShadowsocksNonePacketServerPacker{}
	srvPackSocks5 = direct.Socks5PacketServerPacker{}
	for i, ipsks := range [][][]byte{nil, {key16(9)}} {
		cc, err := ss2022.NewClientCipherConfig(key16(1), ipsks, true)
		if err != nil {
			relayErr = err
			return
		}
		policy := ss2022.PadPlainDNS
		if i == 1 {
			policy = ss2022.PadAll
		}
		c := ss2022.NewUDPClient("ssu", "ip", conn.AddrFromIPPort(upstream), 1500, conn.DefaultUDPClientListenConfig, 0, cc, policy)
		info, sess, err := c.NewSession(context.Background())
		if err != nil {
			relayErr = err
			return
		}
		relaySS[i], relaySSInfo[i] = sess.Packer, info
	}
	up := conn.AddrFromIPPort(upstream)
	relayStreams = append(relayStreams,
		(&ssnone.StreamClientConfig{Name: "none", InnerClient: streamSink, Addr: up}).NewStreamClient(),
		(&socks5.StreamClientConfig{Name: "s5", InnerClient: socksOK, Addr: up}).NewStreamClient(),
	)
	hc, err := (&httpproxy.ClientConfig{Name: "http", InnerClient: httpOK, Addr: up, Username: "u", Password: "p", UseBasicAuth: true}).NewProxyClient()
	if err != nil {
		relayErr = err
		return
	}
	relayStreams = append(relayStreams, hc)
	for _, ipsks := range [][][]byte{nil, {key32(9), key32(8)}} {
		cc, err := ss2022.NewClientCipherConfig(key32(1), ipsks, false)
		if err != nil {
			relayErr = err
			return
		}
		relayStreams = append(relayStreams, (&ss2022.StreamClientConfig{Name: "ss", InnerClient: streamSink, Addr: up, CipherConfig: cc}).NewStreamClient())
	}
}

func key16(b byte) []byte {
	k := make([]byte, 16)
	for i := range k {
		k[i] = b + byte(i)
	}
	return k
}
func key32(b byte) []byte {
	k := make([]byte, 32)
	for i := range k {
		k[i] = b + byte(3*i)
	}
	return k
}

// useResult says how far an address got.
type useResult struct {
	routed  int // routing decisions returned (client / rejected / error)
	relayed int // upstream encodings produced
	known   bool
}

// useAddr pushes a parsed address through rendering, all router cells, upstream re-encoding and reply
// packing. origin names the entry point that produced it (for the failure message). heavy selects the
// expensive relay encoders (AEAD); they are rotated by address hash otherwise.
func useAddr(t failer, rec *ev.Recorder, origin string, addr conn.Addr, username string, isUDP bool) (res useResult) {
	if !addr.IsValid() {
		return
	}
	desc := func() string {
		return fmt.Sprintf("origin=%s addr=%q class=%s user=%q", origin, addr.String(), addrClass(addr), username)
	}
	relayOnce.Do(buildRelays)
	if relayErr != nil {
		t.Fatalf("harness: cannot build relay clients: %v", relayErr)
	}
	ctx := context.Background()

	// 1. rendering, as the service's log statements and String() conversions do.
	guard(t, rec, "render", desc, func() {
		s := addr.String()
		_ = addr.AppendTo(make([]byte, 0, 8))
		b, _ := addr.MarshalText()
		_ = addr.Host()
		_ = addr.Port()
		debugLogger().Debug("x", zap.Stringer("targetAddress", addr), zap.String("s", s), zap.ByteString("b", b))
		var back conn.Addr
		_ = back.UnmarshalText(b) // ParseAddr of our own rendering (config round trip / HTTP CONNECT line)
		_ = socks5.LengthOfAddrFromConnAddr(addr)
		_ = socks5.AppendAddrFromConnAddr(nil, addr)
	})

	// 2. routing.
	srcs := [...]netip.AddrPort{
		netip.MustParseAddrPort("127.0.0.1:40000"),
		netip.MustParseAddrPort("[::ffff:10.1.2.3]:11"),
		netip.MustParseAddrPort("[2001:db8::2]:65535"),
	}
	// Round 6. Cells with a source-port criterion are asked with sources from the lists below (edge ports 1 and 65535, a port inside and
	// one outside the ranges); a datagram's source port is whatever its sender wrote into the UDP header, so for UDP requests the
	// list includes source port 0 (a TCP connection cannot have it, so it is not asked for TCP).
	srcsFrom := [...]netip.AddrPort{
		netip.MustParseAddrPort("127.0.0.1:1"),
		netip.MustParseAddrPort("127.0.0.1:61"),
		netip.MustParseAddrPort("[::1]:39999"),
	}
	srcsZero := [...]netip.AddrPort{
		netip.MustParseAddrPort("127.0.0.1:0"),
		netip.MustParseAddrPort("[::ffff:127.0.0.1]:0"),
	}
	h := fnv.New32a()
	h.Write([]byte(addr.String()))
	hv := h.Sum32()
	// One guard (one goroutine + timer) for all cells; cur names the cell in flight for the failure message. A listed
	// finding ends the routing step for this address (the remaining cells are skipped, counted as known).
	cellList := routerCells(t)
	cur := ""
	tgtKind := "ip"
	if addr.IsDomain() {
		tgtKind = "dom"
	}
	portClass := func(p uint16) string {
		switch p {
		case 0:
			return "p0"
		case 65535:
			return "p65535"
		}
		return ""
	}
	asked := map[string]int64{}
	var (
		curCell *routerCell
		curSrc  netip.AddrPort
	)
	k := guard(t, rec, "route", func() string {
		if curCell == nil {
			return desc()
		}
		return desc() + " cell=" + curCell.name + " rep=" + curCell.rep + " src=" + curSrc.String()
	}, func() {
		var list []netip.AddrPort
		for i, c := range cellList {
			list = append(list[:0], srcs[(int(hv)+i)%len(srcs)])
			hasFrom := false
			for _, p := range c.ports {
				hasFrom = hasFrom || p.side == "from"
			}
			if hasFrom {
				// two of the six non-zero sources per address (rotating with the address hash: over a seed list every cell
				// sees every source many times), and for UDP one with source port 0
				j := int(hv>>3) + i
				all := [...]netip.AddrPort{srcs[0], srcsFrom[0], srcs[2], srcsFrom[1], srcs[1], srcsFrom[2]}
				list = append(list[:0], all[j%6], all[(j+1+int(hv>>9)%5)%6])
			}
			if isUDP && (hasFrom || (int(hv)+i)%4 == 0) {
				list = append(list, srcsZero[(int(hv)+i)%len(srcsZero)])
			}
			for _, src := range list {
				curCell, curSrc = &cellList[i], src
				info := router.RequestInfo{ServerIndex: i & 1, Username: username, SourceAddrPort: src, TargetAddr: addr}
				if isUDP {
					cl, err := c.r.GetUDPClient(ctx, info)
					if cl == nil && err == nil {
						t.Fatalf("SIG=C06/route-no-result VERIF-VIOLATION %s cell=%s: GetUDPClient returned neither client nor error", desc(), c.name)
					}
				} else {
					cl, err := c.r.GetTCPClient(ctx, info)
					if cl == nil && err == nil {
						t.Fatalf("SIG=C06/route-no-result VERIF-VIOLATION %s cell=%s: GetTCPClient returned neither client nor error", desc(), c.name)
					}
				}
				res.routed++
				// evidence: which port-criterion representation was asked about which edge port (the first port criterion of a
				// route is always evaluated; a later one only when the earlier ones were met, so only the first is counted)
				if len(c.ports) > 0 {
					p := c.ports[0]
					if p.side == "to" {
						if pc := portClass(addr.Port()); pc != "" {
							asked[p.String()+" "+tgtKind+"/"+pc]++
						}
					} else if pc := portClass(src.Port()); pc != "" {
						asked[p.String()+" src/"+pc+" "+tgtKind]++
					}
				}
			}
		}
	})
	if k {
		res.known = true
	} else {
		for l, n := range asked {
			recRoute.Label(l, n)
		}
		recRoute.Label("addresses", 1)
	}

	// 3. relaying: every client protocol re-encodes the address for its upstream.
	payload := 32
	if isUDP {
		packers := []struct {
			name string
			p    zerocopy.ClientPacker
		}{{"none", relayNone}, {"socks5", relaySocks5}, {"ss2022", relaySS[hv&1]}}
		if addr.IsIP() {
			packers = append(packers, struct {
				name string
				p    zerocopy.ClientPacker
			}{"direct", relayDirect})
		}
		guard(t, rec, "relay-udp", func() string { return desc() + " step=" + cur }, func() {
			for _, pk := range packers {
				cur = "pack-" + pk.name
				hr := pk.p.ClientPackerInfo().Headroom
				buf := make([]byte, hr.Front+payload+hr.Rear)
				_, ps, pl, err := pk.p.PackInPlace(ctx, buf, addr, hr.Front, payload)
				if err == nil && (ps < 0 || pl < 0 || ps+pl > len(buf)) {
					t.Fatalf("SIG=C06/relay-bounds VERIF-VIOLATION %s packer=%s start=%d len=%d buf=%d", desc(), pk.name, ps, pl, len(buf))
				}
				res.relayed++
			}
			// reply packing: the downlink packs the payload source, which for an IP target is the target itself.
			if addr.IsIP() {
				for _, sp := range []zerocopy.ServerPacker{srvPackNone, srvPackSocks5} {
					cur = "reply-pack"
					hr := sp.ServerPackerInfo().Headroom
					buf := make([]byte, hr.Front+payload+hr.Rear)
					_, _, _ = sp.PackInPlace(buf, addr.IPPort(), hr.Front, payload, 1472)
				}
			}
		})
	} else {
		n := len(relayStreams)
		idx := []int{0, 1, 2, 3 + int(hv%2)} // none, socks5, http always; one of the two ss2022 clients
		guard(t, rec, "relay-tcp", func() string { return desc() + " step=" + cur }, func() {
			for _, i := range idx {
				if i >= n {
					continue
				}
				cur = "dial-" + strconv.Itoa(i)
				c, err := relayStreams[i].DialStream(ctx, addr, []byte("ping"))
				if err == nil && c != nil {
					c.Close()
				}
				res.relayed++
			}
		})
	}
	return
}
