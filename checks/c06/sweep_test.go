package c06

import (
	"encoding/binary"
	"testing"
)

// TestSweep is a bounded-exhaustive structural pass over the valid seeds (the ones produced by the repo's
// own encoders, which come first in every seed list): at every byte offset of the (plaintext) message the
// 16-bit big-endian field is moved by -2,-1,+1,+2 and the byte is set to 0x00 / 0xff / +1, and every
// prefix of the message is presented on its own. Length fields that are one or two off in either
// direction and every truncation point are exactly the cases hand-written hostile constants tend to miss
// (sensitivity runs M12/M13/M5 in NOTES.md were only caught after this pass existed). The native fuzz
// targets cover the same ground with a time budget; this pass is deterministic and runs in the quick tier.
func sweep(seed []byte, maxOff int, run func([]byte)) {
	n := min(len(seed), maxOff)
	for off := 0; off < n; off++ {
		if off+1 < len(seed) {
			v := binary.BigEndian.Uint16(seed[off:])
			for _, d := range []int{-2, -1, 1, 2} {
				m := append([]byte(nil), seed...)
				binary.BigEndian.PutUint16(m[off:], uint16(int(v)+d))
				run(m)
			}
		}
		for _, b := range []byte{0x00, 0xff, seed[off] + 1} {
			if b == seed[off] {
				continue
			}
			m := append([]byte(nil), seed...)
			m[off] = b
			run(m)
		}
		run(seed[:off]) // truncation
	}
}

func TestSweep(t *testing.T) {
	const per = 3 // valid seeds per target
	run := func(name string, f func(t *testing.T)) {
		if !t.Failed() {
			t.Run(name, f)
		}
	}
	run("socks5-server", func(t *testing.T) {
		sels, seeds := socks5ServerSeeds()
		for _, i := range []int{0, 2, 9, 18, 33} {
			sweep(seeds[i], 140, func(m []byte) { oracleSocks5Server(t, sels[i], 0, m) })
		}
	})
	run("socks5-client", func(t *testing.T) {
		sels, seeds := socks5ClientSeeds()
		for i := 0; i < 4; i++ {
			sweep(seeds[i], 64, func(m []byte) { oracleSocks5Client(t, sels[i], 0, m) })
		}
	})
	run("ssnone-server", func(t *testing.T) {
		seeds := ssnoneSeeds()
		for i := 0; i < per; i++ {
			sweep(seeds[i], 64, func(m []byte) { oracleSSNone(t, 0, m) })
		}
	})
	run("http", func(t *testing.T) {
		sels, clients, origins := httpServerSeeds()
		for _, i := range []int{0, 1} {
			sweep(clients[i], 80, func(m []byte) { oracleHTTPServer(t, sels[i], 0, m, origins[i]) })
		}
		csels, cseeds := httpClientSeeds()
		for _, i := range []int{0, 1} {
			sweep(cseeds[i], 60, func(m []byte) { oracleHTTPClient(t, csels[i], 0, m) })
		}
	})
	run("ss2022-server", func(t *testing.T) {
		sels, seeds := ssServerSeeds()
		n := 0
		for i := range seeds {
			if sels[i]&ssRaw != 0 || sels[i]&ssFixLen == 0 || n >= 3 {
				continue
			}
			n++
			// with and without the harness repairing the declared lengths afterwards
			sweep(seeds[i], 60, func(m []byte) { oracleSS2022Server(t, sels[i]&^ssFixLen, uint8(i), 0, m) })
			sweep(seeds[i], 60, func(m []byte) { oracleSS2022Server(t, sels[i], uint8(i), 0, m) })
		}
	})
	run("ss2022-client", func(t *testing.T) {
		sels, seeds := ssClientSeeds()
		for _, i := range []int{0, 12} {
			sweep(seeds[i], 80, func(m []byte) { oracleSS2022Client(t, sels[i]&^ssFixLen|ssFixSalt, uint8(i), 0, m) })
			sweep(seeds[i], 80, func(m []byte) { oracleSS2022Client(t, sels[i], uint8(i)+1, 0, m) })
		}
	})
	run("ss2022-udp", func(t *testing.T) {
		sels, seeds := ssUDPServerSeeds()
		n := 0
		for i := range seeds {
			if sels[i]&ssRaw != 0 || n >= 3 {
				continue
			}
			n++
			sweep(seeds[i], 90, func(m []byte) { oracleSS2022UDPServer(t, sels[i], m) })
		}
		csels, cseeds := ssUDPClientSeeds()
		for _, i := range []int{0, 1} {
			sweep(cseeds[i], 120, func(m []byte) { oracleSS2022UDPClient(t, csels[i], m) })
		}
	})
	run("packets", func(t *testing.T) {
		sels, seeds := packetSeeds()
		for i := 0; i < 8 && i < len(seeds); i++ {
			sweep(seeds[i], 40, func(m []byte) { oraclePacket(t, sels[i], m) })
		}
	})
	run("dns", func(t *testing.T) {
		sels, names, firsts, seconds := dnsSeeds()
		for _, i := range []int{0, 2, 4} {
			sweep(firsts[i], 120, func(m []byte) { oracleDNS(t, sels[i], 0, names[i], m, seconds[i]) })
		}
		// framed mode: the harness repairs length prefix, id and flags, so the sweep reaches the resource parsers
		sweep(firsts[15], 120, func(m []byte) { oracleDNS(t, 1, 0, names[15], m, nil) })
	})
}
