package c06

import (
	"bytes"
	"context"
	"encoding/binary"
	"fmt"
	"net/netip"
	"testing"

	"github.com/database64128/shadowsocks-go/conn"
	"github.com/database64128/shadowsocks-go/ss2022"
	"github.com/database64128/shadowsocks-go/zerocopy"
)

// TestSweep is a bounded-exhaustive structural pass over the valid seeds (the ones produced by the repo's
// own encoders, which come first in every seed list): at every byte offset of the (plaintext) message the
// 16-bit big-endian field is moved by -2,-1,+1,+2 and the byte is set to 0x00 / 0xff / +1, and every
// prefix of the message is presented on its own. Length fields that are one or two off in either
// direction and every truncation point are exactly the cases hand-written hostile constants tend to miss
// (sensitivity runs M12/M13/M5 in NOTES.md were only caught after this pass existed). The native fuzz
// targets cover the same ground with a time budget; this pass is deterministic and runs in the quick tier.
func sweep(seed []byte, maxOff int, run func([]byte)) {
	n := min(len(seed), maxOff)
	for off := 0; off < n; off++ {
		if off+1 < len(seed) {
			v := binary.BigEndian.Uint16(seed[off:])
			for _, d := range []int{-2, -1, 1, 2} {
				m := append([]byte(nil), seed...)
				binary.BigEndian.PutUint16(m[off:], uint16(int(v)+d))
				run(m)
			}
		}
		for _, b := range []byte{0x00, 0xff, seed[off] + 1} {
			if b == seed[off] {
				continue
			}
			m := append([]byte(nil), seed...)
			m[off] = b
			run(m)
		}
		run(seed[:off]) // truncation
	}
}

func TestSweep(t *testing.T) {
	const per = 3 // valid seeds per target
	run := func(name string, f func(t *testing.T)) {
		if !t.Failed() {
			t.Run(name, f)
		}
	}
	run("socks5-server", func(t *testing.T) {
		sels, seeds := socks5ServerSeeds()
		for _, i := range []int{0, 2, 9, 18, 33} {
			sweep(seeds[i], 140, func(m []byte) { oracleSocks5Server(t, sels[i], 0, m) })
		}
	})
	run("socks5-client", func(t *testing.T) {
		sels, seeds := socks5ClientSeeds()
		for i := 0; i < 4; i++ {
			sweep(seeds[i], 64, func(m []byte) { oracleSocks5Client(t, sels[i], 0, m) })
		}
	})
	run("ssnone-server", func(t *testing.T) {
		seeds := ssnoneSeeds()
		for i := 0; i < per; i++ {
			sweep(seeds[i], 64, func(m []byte) { oracleSSNone(t, 0, m) })
		}
	})
	run("http", func(t *testing.T) {
		sels, clients, origins := httpServerSeeds()
		for _, i := range []int{0, 1} {
			sweep(clients[i], 80, func(m []byte) { oracleHTTPServer(t, sels[i], 0, m, origins[i]) })
		}
		csels, cseeds := httpClientSeeds()
		for _, i := range []int{0, 1} {
			sweep(cseeds[i], 60, func(m []byte) { oracleHTTPClient(t, csels[i], 0, m) })
		}
	})
	run("http-origin", func(t *testing.T) {
		// round 6: the well-formed origin replies (plain 200, 100 + chunked with trailer, 301 with Location), damaged at every offset
		forms, origins := originSeeds()
		for _, i := range []int{0, 6, 8} {
			sweep(origins[i], 84, func(m []byte) { oracleHTTPOrigin(t, forms[i], 0, m) })
		}
	})
	run("ss2022-server", func(t *testing.T) {
		sels, seeds := ssServerSeeds()
		n := 0
		for i := range seeds {
			if sels[i]&ssRaw != 0 || sels[i]&ssFixLen == 0 || n >= 3 {
				continue
			}
			n++
			// with and without the harness repairing the declared lengths afterwards
			sweep(seeds[i], 60, func(m []byte) { oracleSS2022Server(t, sels[i]&^ssFixLen, uint8(i), 0, m) })
			sweep(seeds[i], 60, func(m []byte) { oracleSS2022Server(t, sels[i], uint8(i), 0, m) })
		}
	})
	run("ss2022-client", func(t *testing.T) {
		sels, seeds := ssClientSeeds()
		for _, i := range []int{0, 12} {
			sweep(seeds[i], 80, func(m []byte) { oracleSS2022Client(t, sels[i]&^ssFixLen|ssFixSalt, uint8(i), 0, m) })
			sweep(seeds[i], 80, func(m []byte) { oracleSS2022Client(t, sels[i], uint8(i)+1, 0, m) })
		}
	})
	run("ss2022-udp", func(t *testing.T) {
		sels, seeds := ssUDPServerSeeds()
		n := 0
		for i := range seeds {
			if sels[i]&ssRaw != 0 || n >= 3 {
				continue
			}
			n++
			sweep(seeds[i], 90, func(m []byte) { oracleSS2022UDPServer(t, sels[i], m) })
		}
		csels, cseeds := ssUDPClientSeeds()
		for _, i := range []int{0, 1} {
			sweep(cseeds[i], 120, func(m []byte) { oracleSS2022UDPClient(t, csels[i], m) })
		}
	})
	run("packets", func(t *testing.T) {
		sels, seeds := packetSeeds()
		for i := 0; i < 8 && i < len(seeds); i++ {
			sweep(seeds[i], 40, func(m []byte) { oraclePacket(t, sels[i], m) })
		}
	})
	run("packets-reused", func(t *testing.T) {
		// Round 6: every datagram of 0..8 bytes (shortDatagrams) in a buffer that still holds an earlier valid packet, for every
		// unpacker of the plain-text UDP protocols (socks5 / ss-none / direct; server and client side; reply from the upstream and
		// from its IPv4-mapped form) and every kind of earlier packet (IPv4, 255-byte name, IPv6 target). Then the valid packets
		// themselves and their every truncation in the same kind of buffer.
		recPacket.Require("reused:short-datagrams", "reused:rejected", "reused:accepted",
			"reused:socks5/server", "reused:none/server", "reused:direct/server", "reused:socks5/client", "reused:none/client", "reused:direct/client")
		shorts := shortDatagrams()
		for _, base := range []uint8{0, 1, 4, 5, 4 | 8, 5 | 8} {
			for i, d := range shorts {
				if len(d) <= 3 || len(d) >= 5 { // the earlier packet's address type matters where the datagram ends inside header or address
					for v := uint8(0); v < 3; v++ {
						oraclePacket(t, base|32|v<<6, d)
					}
				} else {
					oraclePacket(t, base|32|uint8(i%3)<<6, d)
				}
			}
		}
		for _, base := range []uint8{2, 2 | 16, 6} { // direct: the datagram is the payload; one datagram of every length
			for l := 0; l <= 8; l++ {
				oraclePacket(t, base|32|uint8(l%3)<<6, bytes.Repeat([]byte{byte(l)}, l))
			}
		}
		sels, seeds := packetSeeds()
		for i := 0; i < 12 && i < len(seeds); i++ {
			for l := 0; l <= len(seeds[i]); l++ {
				oraclePacket(t, sels[i]|32|uint8(l%3)<<6, seeds[i][:l])
			}
		}
	})
	run("ss2022-udp-established", TestSweepEstablished)
	run("dns", func(t *testing.T) {
		sels, names, firsts, seconds := dnsSeeds()
		for _, i := range []int{0, 2, 4} {
			sweep(firsts[i], 120, func(m []byte) { oracleDNS(t, sels[i], 0, names[i], m, seconds[i]) })
		}
		// framed mode: the harness repairs length prefix, id and flags, so the sweep reaches the resource parsers
		sweep(firsts[15], 120, func(m []byte) { oracleDNS(t, 1, 0, names[15], m, nil) })
	})
}

// rawRec is a datagram record of the raw-mode UDP oracles: [len][wire bytes].
func rawRec(b []byte) []byte { return cat(binary.BigEndian.AppendUint16(nil, uint16(len(b))), b) }

// genuineClientPackets returns n datagrams of one session produced by the repo's real ss2022 UDP client for cfg.
func genuineClientPackets(t *testing.T, cfg uint8, n int) (pkts [][]byte, cc *ss2022.ClientCipherConfig, sess zerocopy.UDPClientSession, info zerocopy.UDPClientSessionInfo) {
	k := ssKeysFor(cfg)
	var ipsks [][]byte
	psk := k.psk
	if k.eih {
		ipsks, psk = [][]byte{k.psk}, k.upsk
	}
	cc, err := ss2022.NewClientCipherConfig(psk, ipsks, true)
	if err != nil {
		t.Fatalf("harness: %v", err)
	}
	c := ss2022.NewUDPClient("c", "ip", conn.AddrFromIPPort(upstream), 1500, conn.DefaultUDPClientListenConfig, 0, cc, ss2022.NoPadding)
	info, sess, err = c.NewSession(context.Background())
	if err != nil {
		t.Fatalf("harness: %v", err)
	}
	for i := 0; i < n; i++ {
		buf := make([]byte, info.PackerHeadroom.Front+5+info.PackerHeadroom.Rear)
		copy(buf[info.PackerHeadroom.Front:], "hello")
		_, ps, pl, err := sess.Packer.PackInPlace(context.Background(), buf, conn.AddrFromIPAndPort(netip.MustParseAddr("127.0.0.1"), 53), info.PackerHeadroom.Front, 5)
		if err != nil {
			t.Fatalf("harness: %v", err)
		}
		pkts = append(pkts, append([]byte(nil), buf[ps:ps+pl]...))
	}
	return
}

// TestSweepEstablished: for every ss2022 UDP server configuration (both key sizes, with and without identity headers)
// a session is established with one genuine datagram from the repo's real client, and then EVERY prefix 0..len of
// further genuine datagrams of that session (and of the first one), plus every prefix from 16 bytes up with its last
// byte flipped, goes through the same session-table path and the same unpacker object (SessionInfo -> table hit ->
// UnpackInPlace, as service/udp_session*.go do; NewUnpacker only ever sees the first datagram). Nothing here needs a
// key: an on-path observer can replay the first bytes of a captured datagram. The mirror image is done for the client
// unpacker with genuine replies packed by the repo's real server packer for that client session.
func TestSweepEstablished(t *testing.T) {
	for _, cfg := range []uint8{0, ssM256, ssEIH, ssM256 | ssEIH} {
		t.Run(fmt.Sprintf("server-%#x", cfg), func(t *testing.T) {
			pk, _, _, _ := genuineClientPackets(t, cfg, 3)
			for l := 0; l <= len(pk[1]); l++ {
				oracleSS2022UDPServer(t, cfg|ssRaw, cat(rawRec(pk[0]), rawRec(pk[1][:l])))
				oracleSS2022UDPServer(t, cfg|ssRaw, cat(rawRec(pk[0]), rawRec(pk[1]), rawRec(pk[2][:l])))
				oracleSS2022UDPServer(t, cfg|ssRaw, cat(rawRec(pk[0]), rawRec(pk[0][:l])))
				if l >= 1 {
					f := append([]byte(nil), pk[1][:l]...)
					f[l-1] ^= 0x01
					oracleSS2022UDPServer(t, cfg|ssRaw, cat(rawRec(pk[0]), rawRec(f)))
					if l > 16 { // damage behind the separate header: still the established session
						g := append([]byte(nil), pk[1]...)
						g[l-1] ^= 0x80
						oracleSS2022UDPServer(t, cfg|ssRaw, cat(rawRec(pk[0]), rawRec(g)))
					}
				}
			}
		})
		t.Run(fmt.Sprintf("client-%#x", cfg), func(t *testing.T) { sweepEstablishedClient(t, cfg) })
	}
}

func sweepEstablishedClient(t *testing.T, cfg uint8) {
	pk, _, sess, _ := genuineClientPackets(t, cfg, 1)
	// the real server answers the real client
	ucc, icc, suc, err := ssUDPKeys(cfg)
	if err != nil {
		t.Fatalf("harness: %v", err)
	}
	var server *ss2022.UDPServer
	if cfg&ssEIH != 0 {
		server = ss2022.NewUDPServer(0, ss2022.UserCipherConfig{}, icc, ss2022.NoPadding)
		server.ReplaceUserLookupMap(ss2022.UserLookupMap{ss2022.PSKHash(ssKeysFor(cfg).upsk): suc})
	} else {
		server = ss2022.NewUDPServer(0, ucc, icc, ss2022.NoPadding)
	}
	req := append([]byte(nil), pk[0]...)
	csid, err := server.SessionInfo(req)
	if err != nil {
		t.Fatalf("harness: %v", err)
	}
	su, _, err := server.NewUnpacker(req, csid)
	if err != nil {
		t.Fatalf("harness: %v", err)
	}
	if _, _, _, err = su.UnpackInPlace(req, upstream, 0, len(req)); err != nil {
		t.Fatalf("harness: genuine client packet rejected by the real server: %v", err)
	}
	sp, err := su.NewPacker()
	if err != nil {
		t.Fatalf("harness: %v", err)
	}
	var replies [][]byte
	for i := 0; i < 3; i++ {
		hr := sp.ServerPackerInfo().Headroom
		buf := make([]byte, hr.Front+5+hr.Rear)
		copy(buf[hr.Front:], "reply")
		ps, pl, err := sp.PackInPlace(buf, netip.MustParseAddrPort("127.0.0.1:53"), hr.Front, 5, 1472)
		if err != nil {
			t.Fatalf("harness: %v", err)
		}
		replies = append(replies, append([]byte(nil), buf[ps:ps+pl]...))
	}
	feed := func(what string, pkt []byte) (err error) {
		buf := make([]byte, 8+sess.MaxPacketSize)
		copy(buf[8:], pkt)
		guard(t, recSSUDPClient, "ss2022-udp-client-unpack", func() string { return fmt.Sprintf("cfg=%#x %s wire=%s", cfg, what, hexs(pkt)) }, func() {
			_, s, l, e := sess.Unpacker.UnpackInPlace(buf, upstream, 8, len(pkt))
			err = e
			if e == nil && (s < 8 || l < 0 || s+l > 8+len(pkt)) {
				t.Fatalf("SIG=C06/ss2022-udp-client-bounds VERIF-VIOLATION payload [%d,+%d) outside packet [8,+%d): %s", s, l, len(pkt), what)
			}
		})
		return
	}
	if err := feed("genuine first reply", replies[0]); err != nil {
		t.Fatalf("harness: genuine server packet rejected by the real client: %v", err)
	}
	n := 0
	for _, r := range [][]byte{replies[1], replies[0], replies[2]} {
		for l := 0; l <= len(r); l++ {
			_ = feed(fmt.Sprintf("prefix %d", l), r[:l])
			n++
			if l >= 1 {
				f := append([]byte(nil), r[:l]...)
				f[l-1] ^= 0x01
				_ = feed(fmt.Sprintf("prefix %d last byte flipped", l), f)
				n++
			}
		}
	}
	recSSUDPClient.Case(fmt.Sprintf("established/%#x", cfg), true, "established-prefix-sweep")
	recSSUDPClient.Label("established-prefixes", int64(n))
}
