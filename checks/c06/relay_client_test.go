package c06

import (
	"context"
	"encoding/binary"
	"encoding/hex"
	"encoding/json"
	"fmt"
	"io"
	"net"
	"os"
	"path/filepath"
	"strings"
	"sync"
	"testing"
	"time"

	"github.com/database64128/shadowsocks-go/conn"
	"github.com/database64128/shadowsocks-go/httpproxy"
	"github.com/database64128/shadowsocks-go/netio"
	"github.com/database64128/shadowsocks-go/socks5"
	"github.com/database64128/shadowsocks-go/ss2022"
	"github.com/database64128/shadowsocks-go/ssnone"

	"verif/internal/ev"
	"verif/internal/xnet"
)

// What is done with a connection *after* a hostile-but-valid reply. The client targets above stop once the
// reply is parsed; the service does not: service/tcp.go hands the connection returned by DialStream to
// netio.BidirectionalCopy, i.e. io.Copy in both directions, which picks WriteTo / ReadFrom of whatever
// wrapper the client protocol returned. Whether those methods exist (and what they assume about the conn
// underneath) depends on the transport to the upstream proxy: *net.TCPConn has both, a TLS conn or a pipe has
// not. So every client protocol is dialled here over four transports and the returned conn is then driven
// through every copy path the relay uses, with the proxy's reply either glued to the first tunnel bytes
// (one read: the reply parser's read-ahead holds tunnel data) or separate.

var recRelay = ev.New(prop, "client-relay",
	"selector (client protocol: http | http+auth | socks5 | socks5+auth | ss2022-128 | ss2022-256+2 iPSKs | ss-none; transport to the proxy: owned conn without "+
		"ReadFrom/WriteTo | owned conn with both | netio pipe | real loopback TCP; reply glued to the first tunnel bytes or not; well-formed reply built by the harness | "+
		"reply bytes from the input (ss2022: sealed plaintext structure)) + copy path (Read/Write/CloseWrite | io.Copy(dst, conn) | io.Copy(conn, src) | "+
		"netio.BidirectionalCopy with a left side without / with ReadFrom+WriteTo | direct WriterTo/ReaderFrom assertion as io.Copy does) + reply + tunnel bytes -> the real "+
		"StreamClient.DialStream, then the copy path on the returned conn. BidirectionalCopy runs a goroutine of the code under test: the case is journaled. "+
		"Non-trivial: handshake accepted and tunnel bytes delivered through the returned conn; distinct key = protocol + transport + glued + path").
	Require("proto:http", "proto:socks5", "proto:ss2022", "proto:ssnone", "transport:bare", "transport:full", "transport:pipe", "glued", "path:bidi", "path:readfrom", "path:writeto")

// ---- transports

// fullConn adds io.ReaderFrom and io.WriterTo to an owned conn (what *net.TCPConn offers).
type fullConn struct{ *xnet.Conn }

func (c fullConn) ReadFrom(r io.Reader) (n int64, err error) {
	buf := make([]byte, 4096)
	for {
		k, rerr := r.Read(buf)
		if k > 0 {
			if _, werr := c.Conn.Write(buf[:k]); werr != nil {
				return n, werr
			}
			n += int64(k)
		}
		if rerr != nil {
			if rerr == io.EOF {
				return n, nil
			}
			return n, rerr
		}
	}
}

func (c fullConn) WriteTo(w io.Writer) (n int64, err error) {
	buf := make([]byte, 4096)
	for {
		k, rerr := c.Conn.Read(buf)
		if k > 0 {
			if _, werr := w.Write(buf[:k]); werr != nil {
				return n, werr
			}
			n += int64(k)
		}
		if rerr != nil {
			if rerr == io.EOF {
				return n, nil
			}
			return n, rerr
		}
	}
}

// plain reader / writer: hide every optional interface so io.Copy must use the conn's own methods
type onlyReader struct{ r io.Reader }

func (o onlyReader) Read(b []byte) (int, error) { return o.r.Read(b) }

type countWriter struct{ n int64 }

func (c *countWriter) Write(b []byte) (int, error) { c.n += int64(len(b)); return len(b), nil }

// relayInner is the StreamClient underneath the client protocol under test.
type relayInner struct {
	transport int // 0 bare owned conn, 1 owned conn with ReadFrom/WriteTo, 2 netio pipe, 3 loopback TCP
	script    func(request []byte) [][]byte
	firstMin  int
	wg        sync.WaitGroup
	mu        sync.Mutex
	closers   []io.Closer
}

func (r *relayInner) track(cs ...io.Closer) {
	r.mu.Lock()
	r.closers = append(r.closers, cs...)
	r.mu.Unlock()
}

func (r *relayInner) NewStreamDialer() (netio.StreamDialer, netio.StreamDialerInfo) {
	return r, netio.StreamDialerInfo{Name: "relay-inner"}
}

func (r *relayInner) DialStream(ctx context.Context, addr conn.Addr, payload []byte) (netio.Conn, error) {
	frames := r.script(payload)
	serve := func(peer netio.Conn) { // the proxy's side on a blocking transport
		r.wg.Go(func() { _, _ = io.Copy(io.Discard, peer) })
		r.wg.Go(func() {
			for _, f := range frames {
				if len(f) > 0 {
					if _, err := peer.Write(f); err != nil {
						break
					}
				}
			}
			_ = peer.CloseWrite()
		})
	}
	switch r.transport {
	case 2:
		pl, pr := netio.NewPipe()
		r.track(pl, pr)
		serve(pr)
		if len(payload) > 0 {
			if _, err := pl.Write(payload); err != nil {
				return nil, err
			}
		}
		return pl, nil
	case 3:
		ln, err := net.ListenTCP("tcp4", &net.TCPAddr{IP: net.IPv4(127, 0, 0, 1)})
		if err != nil {
			return nil, err
		}
		r.track(ln)
		r.wg.Go(func() {
			pc, err := ln.AcceptTCP()
			if err != nil {
				return
			}
			r.track(pc)
			serve(pc)
		})
		c, err := net.DialTCP("tcp4", nil, ln.Addr().(*net.TCPAddr))
		if err != nil {
			return nil, err
		}
		r.track(c)
		if len(payload) > 0 {
			if _, err := c.Write(payload); err != nil {
				return nil, err
			}
		}
		return c, nil
	default:
		a, b := xnet.Pair()
		r.track(a, b)
		if len(payload) > 0 {
			_, _ = a.Write(payload)
		}
		for _, f := range frames {
			a.Inject(f)
		}
		a.EndInput()
		a.SetReadPlan(nil, r.firstMin, false) // a read never spans two frames: "glued" is exactly one frame
		if r.transport == 1 {
			return fullConn{a}, nil
		}
		return a, nil
	}
}

func (r *relayInner) cleanup() (stuck bool) {
	r.mu.Lock()
	cs := append([]io.Closer(nil), r.closers...)
	r.mu.Unlock()
	for _, c := range cs {
		_ = c.Close()
	}
	done := make(chan struct{})
	go func() { r.wg.Wait(); close(done) }()
	select {
	case <-done:
	case <-time.After(completionBound / 3):
		stuck = true
	}
	return
}

// ---- journal (BidirectionalCopy's goroutine is not ours)

type relayJournal struct {
	Type   string `json:"type"`
	Sel    uint16 `json:"sel"`
	Mode   uint8  `json:"mode"`
	Reply  string `json:"reply"`
	Tunnel string `json:"tunnel"`
}

func journalRelay(sel uint16, mode uint8, reply, tunnel []byte) func() {
	w := os.Getenv("VERIF_WORK")
	if w == "" || isFuzzWorker {
		return nil
	}
	p := filepath.Join(w, fmt.Sprintf("journal-relay-%d.json", os.Getpid()))
	b, _ := json.Marshal(relayJournal{"client-relay", sel, mode, hex.EncodeToString(reply), hex.EncodeToString(tunnel)})
	if os.WriteFile(p, b, 0o644) != nil {
		return nil
	}
	return func() { os.Remove(p) }
}

// TestReplayRelay re-runs a journaled client-relay case ($VERIF_REPLAY).
func TestReplayRelay(t *testing.T) {
	p := os.Getenv("VERIF_REPLAY")
	if p == "" {
		t.Skip("VERIF_REPLAY not set")
	}
	b, err := os.ReadFile(p)
	if err != nil {
		t.Fatal(err)
	}
	var j relayJournal
	if json.Unmarshal(b, &j) != nil || j.Type != "client-relay" {
		t.Skip("not a client-relay journal")
	}
	r, _ := hex.DecodeString(j.Reply)
	tn, _ := hex.DecodeString(j.Tunnel)
	oracleClientRelay(t, j.Sel, j.Mode, r, tn)
}

// ---- the oracle

const (
	relayGlued   = 1 << 5
	relayValid   = 1 << 6
	relaySSRaw   = 1 << 7
	relaySSFixTS = 1 << 8
	relaySSFix   = 1 << 9
)

var relayProtoNames = []string{"http", "http", "socks5", "socks5", "ss2022", "ss2022", "ssnone", "http"}
var relayTransportNames = []string{"bare", "full", "pipe", "tcp"}
var relayPathNames = []string{"readwrite", "writeto", "readfrom", "bidi", "bidi-full", "assert", "bidi", "bidi"}

// sel: bits0-2 protocol, bits3-4 transport, bit5 glued, bit6 well-formed reply, bits7-9 ss2022 builder flags (hostile mode)
// mode: bits0-2 copy path, bit4 initial payload handed to DialStream
func oracleClientRelay(t failer, sel uint16, mode uint8, reply, tunnel []byte) {
	desc := func() string {
		return fmt.Sprintf("sel=%#x mode=%#x reply=%s tunnel=%s", sel, mode, hexs(reply), hexs(tunnel))
	}
	proto := int(sel & 7)
	transport := int(sel>>3) & 3
	if transport == 3 && isFuzzWorker {
		transport = 0 // no kernel sockets inside the fuzz engine
	}
	glued := sel&relayGlued != 0
	valid := sel&relayValid != 0
	if len(tunnel) > 70000 {
		tunnel = tunnel[:70000]
	}
	up := conn.AddrFromIPPort(upstream)
	inner := &relayInner{transport: transport}
	var client netio.StreamClient
	join := func(head, tail []byte) [][]byte {
		if glued {
			return [][]byte{cat(head, tail)}
		}
		return [][]byte{head, tail}
	}
	switch proto {
	case 0, 1, 7:
		cfg := httpproxy.ClientConfig{Name: "h", InnerClient: inner, Addr: up}
		if proto == 1 {
			cfg.Username, cfg.Password, cfg.UseBasicAuth = "u", "p", true
		}
		c, err := cfg.NewProxyClient()
		if err != nil {
			t.Fatalf("harness: %v", err)
		}
		client = c
		inner.script = func([]byte) [][]byte {
			if valid {
				return join([]byte("HTTP/1.1 200 Connection established\r\nProxy-Agent: x\r\n\r\n"), tunnel)
			}
			return join(reply, tunnel)
		}
	case 2, 3:
		cfg := socks5.StreamClientConfig{Name: "s", InnerClient: inner, Addr: up}
		ok := []byte{5, 0, 5, 0, 0, 1, 0, 0, 0, 0, 0, 0}
		if proto == 3 {
			cfg.AuthMsg = s5Users[0].AppendAuthMsg(nil)
			ok = []byte{5, 2, 1, 0, 5, 0, 0, 1, 0, 0, 0, 0, 0, 0}
		}
		client = cfg.NewStreamClient()
		inner.script = func([]byte) [][]byte {
			if valid {
				return join(ok, tunnel)
			}
			return join(reply, tunnel)
		}
	case 4, 5:
		ssel := uint8(0)
		if proto == 5 {
			ssel = ssM256 | ssEIH
		}
		k := ssKeysFor(ssel)
		var ipsks [][]byte
		if k.eih {
			ipsks = [][]byte{k.psk, k.upsk}
		}
		cc, err := ss2022.NewClientCipherConfig(k.psk, ipsks, false)
		if err != nil {
			t.Fatalf("harness: %v", err)
		}
		client = (&ss2022.StreamClientConfig{Name: "ss", InnerClient: inner, Addr: up, CipherConfig: cc}).NewStreamClient()
		firstLen := k.klen + 1 + 8 + k.klen + 2 + 16
		inner.firstMin = firstLen
		inner.script = func(request []byte) [][]byte {
			var wire []byte
			if valid {
				tn := tunnel
				if len(tn) == 0 {
					tn = []byte("t")
				}
				first := tn[:(len(tn)+1)/2]
				rest := tn[(len(tn)+1)/2:]
				data := cat(make([]byte, 1+8+k.klen+2), binary.BigEndian.AppendUint16(nil, uint16(min(len(first), 0xffff))), first[:min(len(first), 0xffff)])
				if len(rest) > 0 {
					rest = rest[:min(len(rest), 0xffff)]
					data = cat(data, binary.BigEndian.AppendUint16(nil, uint16(len(rest))), binary.BigEndian.AppendUint16(nil, uint16(len(rest))), rest)
				}
				wire = ssClientWire(ssel|ssFixTS|ssFixLen, data, request, cc)
			} else {
				var f uint8
				if sel&relaySSRaw != 0 {
					f |= ssRaw
				}
				if sel&relaySSFixTS != 0 {
					f |= ssFixTS
				}
				if sel&relaySSFix != 0 {
					f |= ssFixLen
				}
				wire = ssClientWire(ssel|f, cat(reply, tunnel), request, cc)
			}
			if glued || len(wire) <= firstLen {
				return [][]byte{wire}
			}
			return [][]byte{wire[:firstLen], wire[firstLen:]}
		}
	default:
		client = (&ssnone.StreamClientConfig{Name: "n", InnerClient: inner, Addr: up}).NewStreamClient()
		inner.script = func([]byte) [][]byte { return [][]byte{tunnel} }
	}

	if done := journalRelay(sel, mode, reply, tunnel); done != nil {
		defer done()
	}
	path := int(mode & 7)
	var (
		accepted  bool
		delivered int64
	)
	uplink := strings.Repeat("uplink-", 300)
	guard(t, recRelay, "client-relay-"+relayProtoNames[proto], desc, func() {
		var payload []byte
		if mode&16 != 0 {
			payload = []byte("initial payload")
		}
		target := conn.MustAddrFromDomainPort("example.com", 443)
		c, err := client.DialStream(context.Background(), target, payload)
		if err != nil {
			return
		}
		if c == nil {
			t.Fatalf("SIG=C06/client-relay-nil-conn VERIF-VIOLATION DialStream returned neither conn nor error: %s", desc())
		}
		accepted = true
		switch path {
		case 0: // Read / Write / CloseWrite
			buf := make([]byte, 13)
			for i := 0; i < 1<<20; i++ {
				k, err := c.Read(buf)
				delivered += int64(k)
				if err != nil {
					break
				}
			}
			_, _ = c.Write([]byte(uplink))
			_ = c.CloseWrite()
		case 1: // io.Copy(dst, conn): conn.WriteTo when the returned conn has it
			var w countWriter
			_, _ = io.Copy(&w, c)
			delivered = w.n
			_, _ = io.Copy(c, onlyReader{strings.NewReader(uplink)})
			_ = c.CloseWrite()
		case 2: // io.Copy(conn, src): conn.ReadFrom when the returned conn has it
			_, _ = io.Copy(c, onlyReader{strings.NewReader(uplink)})
			_ = c.CloseWrite()
			var w countWriter
			_, _ = io.Copy(&w, onlyReader{c})
			delivered = w.n
		case 5: // the type assertions io.Copy performs, made directly
			if wt, ok := c.(io.WriterTo); ok {
				var w countWriter
				_, _ = wt.WriteTo(&w)
				delivered = w.n
			}
			if rf, ok := c.(io.ReaderFrom); ok {
				_, _ = rf.ReadFrom(onlyReader{strings.NewReader(uplink)})
			}
			_ = c.CloseWrite()
		default: // what service/tcp.go does
			la, lb := xnet.Pair()
			la.Inject([]byte(uplink))
			la.EndInput()
			var left netio.ReadWriter = la
			if path == 4 {
				left = fullConn{la}
			}
			_, nr2l, _ := netio.BidirectionalCopy(left, c)
			delivered = nr2l
			_ = lb.Close()
		}
		_ = c.Close()
	})
	stuck := inner.cleanup()
	labels := []string{"proto:" + relayProtoNames[proto], "transport:" + relayTransportNames[transport], "path:" + strings.SplitN(relayPathNames[path], "-", 2)[0]}
	if glued {
		labels = append(labels, "glued")
	}
	if valid {
		labels = append(labels, "well-formed-reply")
	}
	if stuck {
		labels = append(labels, "peer-goroutines-stuck-20s") // not a crash; recorded only
	}
	if !accepted {
		labels = append(labels, "rejected")
	}
	recRelay.Case(fmt.Sprintf("%d/%s/%v/%s", proto, relayTransportNames[transport], glued, relayPathNames[path]), accepted && delivered > 0, labels...)
}

func clientRelaySeeds() (sels []uint16, modes []uint8, replies, tunnels [][]byte) {
	add := func(sel uint16, mode uint8, r, tn []byte) {
		sels = append(sels, sel)
		modes = append(modes, mode)
		replies = append(replies, r)
		tunnels = append(tunnels, tn)
	}
	tn := []byte("server speaks first: 220 ready\r\n")
	// every protocol x transport x glued x path with a well-formed reply
	for proto := uint16(0); proto < 7; proto++ {
		for tr := uint16(0); tr < 4; tr++ {
			for _, g := range []uint16{0, relayGlued} {
				for path := uint8(0); path < 6; path++ {
					add(proto|tr<<3|g|relayValid, path|uint8(proto&1)<<4, nil, tn)
				}
			}
		}
	}
	// boundary tunnels
	for proto := uint16(0); proto < 7; proto++ {
		add(proto|relayGlued|relayValid, 3, nil, nil)
		add(proto|relayGlued|relayValid, 3, nil, []byte{0})
		add(proto|1<<3|relayGlued|relayValid, 4, nil, make([]byte, 5000)) // larger than the reply parser's read-ahead buffer
		add(proto|2<<3|relayGlued|relayValid, 2, nil, make([]byte, 70000))
	}
	// hostile-but-parseable replies from the client corpora, then relayed
	_, hs := httpClientSeeds()
	for i, r := range hs {
		add(0|uint16(i%3)<<3|relayGlued, uint8(i%6), r, tn)
	}
	_, ss := socks5ClientSeeds()
	for i, r := range ss {
		if i%5 == 0 {
			add(2|uint16(i%3)<<3|relayGlued, uint8(i%6), r, tn)
		}
	}
	csel, cs := ssClientSeeds()
	for i, r := range cs {
		var f uint16
		if csel[i]&ssRaw != 0 {
			f |= relaySSRaw
		}
		if csel[i]&ssFixTS != 0 {
			f |= relaySSFixTS
		}
		if csel[i]&ssFixLen != 0 {
			f |= relaySSFix
		}
		add(4|uint16(i%3)<<3|f|uint16(i&1)<<5, uint8(i%6), r, nil)
	}
	return
}

func FuzzClientRelay(f *testing.F) {
	sels, modes, replies, tunnels := clientRelaySeeds()
	for i := range sels {
		if (sels[i]>>3)&3 == 3 || i%2 == 1 && i < 336 {
			continue // TCP transport and every second matrix cell are left to TestSeeds
		}
		f.Add(sels[i], modes[i], replies[i], tunnels[i])
	}
	f.Fuzz(func(t *testing.T, sel uint16, mode uint8, reply, tunnel []byte) {
		oracleClientRelay(t, sel, mode, reply, tunnel)
	})
}

var _ = net.Dial
