package c06

import (
	"bytes"
	"context"
	"fmt"
	"net/netip"
	"strings"
	"testing"

	"github.com/database64128/shadowsocks-go/conn"
	"github.com/database64128/shadowsocks-go/direct"
	"github.com/database64128/shadowsocks-go/netio"
	"github.com/database64128/shadowsocks-go/socks5"
	"github.com/database64128/shadowsocks-go/zerocopy"

	"verif/internal/ev"
	"verif/internal/xnet"
)

// ---------------------------------------------------------------- SOCKS address parsers

var recS5Addr = ev.New(prop, "fuzz-socks5-addr",
	"bytes -> socks5.ConnAddrFromSlice, DomainCache.ConnAddrFromSlice, AddrPortFromSlice, AppendFromReader and ConnAddrFromReader "+
		"(over a fragmenting reader); every parsed address is then used (render, 24 router cells, upstream re-encoding). "+
		"Non-trivial: an address was produced and routed; distinct key = address class")

// hostileAddrs are the address encodings the wire can express, including the ones no well-behaved
// client sends.
func hostileAddrs() [][]byte {
	long := strings.Repeat("a", 255)
	lbl63 := strings.Repeat("b", 63)
	var out [][]byte
	for _, port := range []uint16{0, 1, 53, 80, 443, 65535} {
		out = append(out,
			socksAddrIP(netip.MustParseAddr("127.0.0.1"), port),
			socksAddrIP(netip.MustParseAddr("0.0.0.0"), port),
			socksAddrIP(netip.MustParseAddr("255.255.255.255"), port),
			socksAddrIP(netip.MustParseAddr("::"), port),
			socksAddrIP(netip.MustParseAddr("::1"), port),
			socksAddrIP(netip.MustParseAddr("::ffff:10.0.0.1"), port), // IPv4-mapped under ATYP 4
			socksAddrIP(netip.MustParseAddr("2001:db8::1"), port),
			socksAddrDomain("a", port),
			socksAddrDomain("example.com", port),
			socksAddrDomain("exact.example", port),
			socksAddrDomain("ad1.tracker.x", port),
			socksAddrDomain(long, port),
			socksAddrDomain(long[:254], port),
			socksAddrDomain(lbl63+"."+lbl63+"."+lbl63+"."+lbl63[:61], port), // 253 bytes, legal DNS name
			socksAddrDomain(lbl63+"b.com", port),                            // 64-byte label
			socksAddrDomain("", port),                                       // empty name
			socksAddrDomain(".", port),
			socksAddrDomain("..", port),
			socksAddrDomain("a..b", port),
			socksAddrDomain("127.0.0.1", port), // IP literal as a name
			socksAddrDomain("::1", port),
			socksAddrDomain("[::1]", port),
			socksAddrDomain("fe80::1%lo", port),
			socksAddrDomain("a b\r\nHost: x", port),
			socksAddrDomain("\x00", port),
			socksAddrDomain("\xff\xfe\xfd", port),
			socksAddrDomain("%s%n%x", port),
			socksAddrDomain("xn--nxasmq6b.example.com", port),
		)
	}
	// structural damage
	out = append(out,
		nil, []byte{0}, []byte{1}, []byte{3}, []byte{4}, []byte{2, 0, 0, 0, 0, 0, 0}, []byte{5, 0, 0, 0, 0, 0, 0}, []byte{0, 0, 0, 0, 0, 0, 0},
		[]byte{3, 255}, []byte{3, 255, 'a'}, []byte{3, 0}, []byte{3, 0, 0}, []byte{3, 1, 'a', 0},
		[]byte{1, 1, 2, 3, 4, 0}, []byte{4, 0, 0, 0, 0, 0, 0, 0, 0, 0, 0, 0, 0, 0, 0, 0, 0, 0},
		bytes.Repeat([]byte{0xff}, 300), bytes.Repeat([]byte{3}, 300),
	)
	return out
}

func FuzzSocks5Addr(f *testing.F) {
	addrs := hostileAddrs()
	for _, i := range thin(len(addrs), 150) {
		f.Add(uint16(0), addrs[i])
	}
	f.Add(uint16(0x0111), append(append([]byte(nil), addrs[0]...), "trailing"...))
	f.Fuzz(func(t *testing.T, frag uint16, data []byte) { oracleSocks5Addr(t, frag, data) })
}

func checkParsed(t failer, what string, data []byte, addr conn.Addr, n int, err error) {
	if err != nil {
		return
	}
	if n < 1+1+1+2 || n > len(data) {
		t.Fatalf("SIG=C06/socks5-addr-length VERIF-VIOLATION %s accepted %x and reported length %d of %d", what, data, n, len(data))
	}
	if !addr.IsValid() {
		t.Fatalf("SIG=C06/socks5-addr-zero VERIF-VIOLATION %s accepted %x and returned the zero address", what, data)
	}
}

func oracleSocks5Addr(t failer, frag uint16, data []byte) {
	desc := func() string { return fmt.Sprintf("frag=%#x data=%s", frag, hexs(data)) }
	var (
		addr conn.Addr
		ok   bool
	)
	guard(t, recS5Addr, "socks5-ConnAddrFromSlice", desc, func() {
		a, n, err := socks5.ConnAddrFromSlice(data)
		checkParsed(t, "ConnAddrFromSlice", data, a, n, err)
		addr, ok = a, err == nil
	})
	guard(t, recS5Addr, "socks5-DomainCache", desc, func() {
		var dc socks5.DomainCache
		for range 2 { // second call takes the cache-hit path
			a, n, err := dc.ConnAddrFromSlice(data)
			checkParsed(t, "DomainCache.ConnAddrFromSlice", data, a, n, err)
		}
	})
	guard(t, recS5Addr, "socks5-AddrPortFromSlice", desc, func() {
		ap, n, err := socks5.AddrPortFromSlice(data)
		if err == nil && (n > len(data) || !ap.IsValid()) {
			t.Fatalf("SIG=C06/socks5-addr-length VERIF-VIOLATION AddrPortFromSlice accepted %x: n=%d addr=%v", data, n, ap)
		}
	})
	guard(t, recS5Addr, "socks5-AppendFromReader", desc, func() {
		r, _ := hostileConn(data, frag, 0)
		sa, err := socks5.AppendFromReader(make([]byte, 3, 3+socks5.MaxAddrLen), r)
		if err == nil {
			if len(sa) < 3 || len(sa)-3 > socks5.MaxAddrLen {
				t.Fatalf("SIG=C06/socks5-addr-length VERIF-VIOLATION AppendFromReader returned %d bytes for %x", len(sa), data)
			}
			a, n, err := socks5.ConnAddrFromSlice(sa[3:])
			if err == nil {
				checkParsed(t, "AppendFromReader+ConnAddrFromSlice", sa[3:], a, n, err)
			}
		}
	})
	guard(t, recS5Addr, "socks5-ConnAddrFromReader", desc, func() {
		r, _ := hostileConn(data, frag, 0)
		a, err := socks5.ConnAddrFromReader(r)
		if err == nil && !a.IsValid() {
			t.Fatalf("SIG=C06/socks5-addr-zero VERIF-VIOLATION ConnAddrFromReader accepted %x and returned the zero address", data)
		}
	})
	if !ok {
		recS5Addr.Case("", false, "rejected")
		return
	}
	res := useAddr(t, recS5Addr, "socks5-addr", addr, "", frag&1 == 1)
	cls := addrClass(addr)
	recS5Addr.Case(cls, res.routed > 0, "parsed", "class:"+cls)
}

// ---------------------------------------------------------------- SOCKS5 server

var recS5Server = ev.New(prop, "fuzz-socks5-server",
	"selector (no-auth | username/password, TCP/UDP enablement, reply code) + client byte stream + fragmentation -> "+
		"socks5 StreamServer/AuthStreamServer.HandleStream over an owned conn, then the parsed address is used and the pending "+
		"connection is answered (Proceed / Abort with each dial result code). Non-trivial: request accepted (address produced) "+
		"and a reply written; distinct key = auth mode + command + address class")

var s5Users = []socks5.UserInfo{
	{Username: "alice", Password: "secret"},
	{Username: "u", Password: "p"},
	{Username: strings.Repeat("U", 255), Password: strings.Repeat("P", 255)},
}

var dialCodes = []conn.DialResultCode{
	conn.DialResultCodeSuccess, conn.DialResultCodeEACCES, conn.DialResultCodeENETDOWN, conn.DialResultCodeENETUNREACH,
	conn.DialResultCodeENETRESET, conn.DialResultCodeECONNABORTED, conn.DialResultCodeECONNRESET, conn.DialResultCodeETIMEDOUT,
	conn.DialResultCodeECONNREFUSED, conn.DialResultCodeEHOSTDOWN, conn.DialResultCodeEHOSTUNREACH,
	conn.DialResultCodeErrDomainNameLookup, conn.DialResultCodeErrOther, conn.DialResultCode(77),
}

// captureClient runs one of the repo's own client handshakes against a scripted peer and returns the
// bytes the client wrote (a valid client stream, used as seed).
func captureClient(reply []byte, f func(c netio.Conn)) []byte {
	srv, _ := hostileConn(reply, 0, 0)
	f(srv)
	return written(srv)
}

func socks5ServerSeeds() (sels []uint8, seeds [][]byte) {
	add := func(sel uint8, b []byte) { sels = append(sels, sel); seeds = append(seeds, b) }
	okNoAuth := []byte{5, 0, 5, 0, 0, 1, 0, 0, 0, 0, 0, 0}
	okAuth := []byte{5, 2, 1, 0, 5, 0, 0, 1, 0, 0, 0, 0, 0, 0}
	targets := []conn.Addr{
		conn.AddrFromIPAndPort(netip.MustParseAddr("127.0.0.1"), 80),
		conn.AddrFromIPAndPort(netip.MustParseAddr("2001:db8::1"), 0),
		conn.MustAddrFromDomainPort("example.com", 443),
		conn.MustAddrFromDomainPort(strings.Repeat("d", 255), 0),
		conn.MustAddrFromDomainPort("a", 65535),
	}
	for _, ta := range targets {
		add(0b0110, captureClient(okNoAuth, func(c netio.Conn) { _ = socks5.ClientConnect(c, ta) }))
		add(0b0110, captureClient(okNoAuth, func(c netio.Conn) { _, _ = socks5.ClientUDPAssociate(c, ta) }))
		for _, u := range s5Users {
			msg := u.AppendAuthMsg(nil)
			add(0b0111, captureClient(okAuth, func(c netio.Conn) { _ = socks5.ClientConnectUsernamePassword(c, msg, ta) }))
			add(0b0111, captureClient(okAuth, func(c netio.Conn) { _, _ = socks5.ClientUDPAssociateUsernamePassword(c, msg, ta) }))
		}
	}
	// every wire address behind a no-auth CONNECT and behind a UDP ASSOCIATE
	for _, a := range hostileAddrs() {
		add(0b0110, cat([]byte{5, 1, 0, 5, 1, 0}, a, []byte("payload")))
		add(0b0110, cat([]byte{5, 1, 0, 5, 3, 0}, a))
		add(0b0111, cat([]byte{5, 2, 0, 2, 1, 1, 'u', 1, 'p', 5, 1, 0}, a))
	}
	// hostile method selections and auth messages
	all := make([]byte, 255)
	for i := range all {
		all[i] = byte(i)
	}
	add(0b0110, cat([]byte{5, 255}, all, []byte{5, 1, 0, 1, 127, 0, 0, 1, 0, 0}))
	add(0b0111, cat([]byte{5, 255}, all, []byte{1, 255}, bytes.Repeat([]byte{'U'}, 255), []byte{255}, bytes.Repeat([]byte{'P'}, 255), []byte{5, 1, 0, 1, 127, 0, 0, 1, 0, 0}))
	add(0b0111, []byte{5, 1, 2, 1, 0, 0, 0})
	add(0b0111, []byte{5, 1, 2, 1, 1, 'u', 0, 0})
	add(0b0111, []byte{5, 1, 2, 1, 255, 'u'})
	add(0b0111, []byte{5, 1, 2, 2, 1, 'u', 1, 'p'})
	add(0b0111, cat([]byte{5, 1, 2, 1, 1, 'u', 255}, bytes.Repeat([]byte{'p'}, 255)))
	add(0b0110, []byte{5, 0})
	add(0b0110, []byte{4, 1, 0})
	add(0b0110, []byte{5, 1, 0, 4, 1, 0, 1, 0, 0, 0, 0, 0, 0})
	add(0b0110, []byte{5, 1, 0, 5, 2, 0, 1, 0, 0, 0, 0, 0, 0}) // BIND
	add(0b0110, []byte{5, 1, 0, 5, 0, 0, 1, 0, 0, 0, 0, 0, 0})
	add(0b0010, []byte{5, 1, 0, 5, 3, 0, 1, 0, 0, 0, 0, 0, 0}) // UDP ASSOCIATE with UDP disabled
	add(0b0100, []byte{5, 1, 0, 5, 1, 0, 1, 0, 0, 0, 0, 0, 0}) // CONNECT with TCP disabled
	add(0b0110, []byte{5, 2, 1, 0, 5, 1, 0, 3, 255})
	return
}

func FuzzSocks5Server(f *testing.F) {
	sels, seeds := socks5ServerSeeds()
	for _, i := range thin(len(seeds), 160) {
		f.Add(sels[i]|uint8(i%14)<<4|uint8(i&1)<<3, uint16(i%3), seeds[i])
	}
	f.Fuzz(func(t *testing.T, sel uint8, frag uint16, data []byte) { oracleSocks5Server(t, sel, frag, data) })
}

// sel: bit0 auth, bit1 enableTCP, bit2 enableUDP, bit3 abort instead of proceed, bits4-7 dial result code index
func oracleSocks5Server(t failer, sel uint8, frag uint16, data []byte) (out oracleResult) {
	desc := func() string { return fmt.Sprintf("sel=%#x frag=%#x data=%s", sel, frag, hexs(data)) }
	cfg := socks5.StreamServerConfig{Users: s5Users, EnableUserPassAuth: sel&1 != 0, EnableTCP: sel&2 != 0, EnableUDP: sel&4 != 0}
	server, err := cfg.NewStreamServer()
	if err != nil {
		t.Fatalf("harness: %v", err)
	}
	srv, _ := hostileConn(data, frag, 0)
	var (
		req  netio.ConnRequest
		herr error
	)
	guard(t, recS5Server, "socks5-server-handle", desc, func() { req, herr = server.HandleStream(srv, debugLogger()) })
	labels := []string{"auth:" + fmt.Sprint(sel&1)}
	if herr != nil {
		if herr == netio.ErrHandleStreamDone {
			// UDP ASSOCIATE handled: a reply with the bound address was written.
			res := useAddr(t, recS5Server, "socks5-server-udpassoc", req.Addr, req.Username, true)
			out = oracleResult{accepted: true, addr: req.Addr, user: req.Username, use: res}
			recS5Server.Case(fmt.Sprintf("assoc/%d/%s", sel&1, addrClass(req.Addr)), res.routed > 0 && len(written(srv)) > 2, append(labels, "udp-associate")...)
			return
		}
		recS5Server.Case("", false, append(labels, "rejected")...)
		return
	}
	if req.PendingConn == nil || !req.Addr.IsValid() {
		t.Fatalf("SIG=C06/socks5-server-empty-request VERIF-VIOLATION HandleStream returned no error and no request: %s", desc())
	}
	res := useAddr(t, recS5Server, "socks5-server", req.Addr, req.Username, false)
	out = oracleResult{accepted: true, addr: req.Addr, user: req.Username, use: res}
	replied := false
	guard(t, recS5Server, "socks5-server-answer", desc, func() {
		before := len(written(srv))
		if sel&8 != 0 {
			code := dialCodes[int(sel>>4)%len(dialCodes)]
			_ = req.Abort(conn.DialResult{Code: code})
		} else {
			c, err := req.Proceed()
			if err == nil {
				buf := make([]byte, 64)
				for {
					if _, err := c.Read(buf); err != nil {
						break
					}
				}
				_, _ = c.Write([]byte("pong"))
			}
		}
		replied = len(written(srv)) > before
	})
	cls := addrClass(req.Addr)
	recS5Server.Case(fmt.Sprintf("connect/%d/%s", sel&1, cls), res.routed > 0 && replied, append(labels, "accepted", "class:"+cls)...)
	return
}

// ---------------------------------------------------------------- SOCKS5 client (reply parsing)

var recS5Client = ev.New(prop, "fuzz-socks5-client",
	"selector (no-auth | username/password, CONNECT | UDP ASSOCIATE, target) + server byte stream + fragmentation -> "+
		"socks5.ClientRequest/ClientRequestUsernamePassword over an owned conn; a returned bound address is used the way "+
		"direct.Socks5UDPClient does (ResolveIPPort through the owned resolver, packer/unpacker construction). "+
		"Non-trivial: reply accepted and bound address produced; distinct key = mode + address class")

func socks5ClientSeeds() (sels []uint8, seeds [][]byte) {
	add := func(sel uint8, b []byte) { sels = append(sels, sel); seeds = append(seeds, b) }
	// replies produced by the repo's own server for the repo's own client requests
	for _, auth := range []uint8{0, 1} {
		for _, cmd := range []uint8{0, 2} {
			cfg := socks5.StreamServerConfig{Users: s5Users, EnableUserPassAuth: auth == 1, EnableTCP: true, EnableUDP: true}
			server, _ := cfg.NewStreamServer()
			ta := conn.MustAddrFromDomainPort("example.com", 443)
			var clientBytes []byte
			okNoAuth := []byte{5, 0, 5, 0, 0, 1, 0, 0, 0, 0, 0, 0}
			okAuth := []byte{5, 2, 1, 0, 5, 0, 0, 1, 0, 0, 0, 0, 0, 0}
			msg := s5Users[0].AppendAuthMsg(nil)
			switch {
			case auth == 0 && cmd == 0:
				clientBytes = captureClient(okNoAuth, func(c netio.Conn) { _ = socks5.ClientConnect(c, ta) })
			case auth == 0:
				clientBytes = captureClient(okNoAuth, func(c netio.Conn) { _, _ = socks5.ClientUDPAssociate(c, ta) })
			case cmd == 0:
				clientBytes = captureClient(okAuth, func(c netio.Conn) { _ = socks5.ClientConnectUsernamePassword(c, msg, ta) })
			default:
				clientBytes = captureClient(okAuth, func(c netio.Conn) { _, _ = socks5.ClientUDPAssociateUsernamePassword(c, msg, ta) })
			}
			srv, _ := hostileConn(clientBytes, 0, 0)
			req, err := server.HandleStream(srv, debugLogger())
			if err == nil {
				_, _ = req.Proceed()
			}
			add(auth|cmd, written(srv))
		}
	}
	for _, a := range hostileAddrs() {
		add(0, cat([]byte{5, 0, 5, 0, 0}, a))
		add(2, cat([]byte{5, 0, 5, 0, 0}, a))
		add(3, cat([]byte{5, 2, 1, 0, 5, 0, 0}, a))
	}
	for rep := byte(1); rep <= 9; rep++ {
		add(0, []byte{5, 0, 5, rep, 0, 1, 0, 0, 0, 0, 0, 0})
	}
	add(0, []byte{5, 0xff})
	add(0, []byte{5, 2})
	add(0, []byte{4, 0})
	add(1, []byte{5, 2, 1, 1})
	add(1, []byte{5, 2, 2, 0})
	add(1, []byte{5, 0})
	add(0, []byte{5, 0, 4, 0, 0, 1, 0, 0, 0, 0, 0, 0})
	add(0, []byte{5, 0, 5, 0, 0xff, 1, 0, 0, 0, 0, 0, 0})
	add(0, []byte{5, 0, 5, 0, 0, 3, 255})
	add(0, []byte{5, 0, 5})
	return
}

func FuzzSocks5Client(f *testing.F) {
	sels, seeds := socks5ClientSeeds()
	for _, i := range thin(len(seeds), 160) {
		f.Add(sels[i]|uint8(i%4)<<2, uint16(i%3), seeds[i])
	}
	f.Fuzz(func(t *testing.T, sel uint8, frag uint16, data []byte) { oracleSocks5Client(t, sel, frag, data) })
}

// sel: bit0 auth, bit1 UDP ASSOCIATE, bits2-3 target kind
func oracleSocks5Client(t failer, sel uint8, frag uint16, data []byte) {
	desc := func() string { return fmt.Sprintf("sel=%#x frag=%#x data=%s", sel, frag, hexs(data)) }
	targets := []conn.Addr{
		{}, // zero value: what direct.Socks5UDPClient sends for UDP ASSOCIATE
		conn.AddrFromIPAndPort(netip.MustParseAddr("::ffff:1.2.3.4"), 0),
		conn.MustAddrFromDomainPort(strings.Repeat("n", 255), 65535),
		conn.MustAddrFromDomainPort("example.com", 443),
	}
	target := targets[int(sel>>2)&3]
	cmd := byte(socks5.CmdConnect)
	if sel&2 != 0 {
		cmd = socks5.CmdUDPAssociate
	}
	srv, _ := hostileConn(data, frag, 0)
	var (
		bound conn.Addr
		err   error
	)
	guard(t, recS5Client, "socks5-client-request", desc, func() {
		if sel&1 != 0 {
			bound, err = socks5.ClientRequestUsernamePassword(srv, s5Users[2].AppendAuthMsg(nil), cmd, target)
		} else {
			bound, err = socks5.ClientRequest(srv, cmd, target)
		}
	})
	if err != nil {
		recS5Client.Case("", false, "rejected")
		return
	}
	if !bound.IsValid() {
		t.Fatalf("SIG=C06/socks5-client-zero-bound VERIF-VIOLATION client accepted reply but returned the zero address: %s", desc())
	}
	// what direct.Socks5UDPClient.newSession does with the bound address
	produced := false
	guard(t, recS5Client, "socks5-client-use-bound", desc, func() {
		_ = bound.String()
		ap, rerr := bound.ResolveIPPort(context.Background(), "ip")
		if rerr != nil {
			return
		}
		maxSize := zerocopy.MaxPacketSizeForAddr(1500, ap.Addr())
		p := direct.NewSocks5PacketClientPacker(ap, maxSize)
		u := direct.NewSocks5PacketClientUnpacker(ap)
		hr := p.ClientPackerInfo().Headroom
		buf := make([]byte, hr.Front+16)
		_, _, _, _ = p.PackInPlace(context.Background(), buf, conn.AddrFromIPPort(ap), hr.Front, 16)
		_, _, _, _ = u.UnpackInPlace(buf, ap, 0, len(buf))
		produced = true
	})
	cls := addrClass(bound)
	recS5Client.Case(fmt.Sprintf("%d/%s", sel&3, cls), produced, "accepted", "class:"+cls)
}

var _ = xnet.Pair
