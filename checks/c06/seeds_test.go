package c06

import "testing"

// TestSeeds runs every fuzz target's oracle over its seed corpus (valid messages from the repo's own
// encoders plus hostile constants) under several fragmentation plans. It is the quick-tier form of the
// native fuzz targets (the same oracle functions are called by the Fuzz* targets).
func TestSeeds(t *testing.T) {
	run := func(name string, f func(t *testing.T)) {
		if !t.Failed() { // after a failure (in particular a stalled call, which leaves a spinning goroutine behind) stop early
			t.Run(name, f)
		}
	}
	frags := []uint16{0, 0x0001, 0x1321, 0x9a62}
	recRoute.Require(routeRequired()...) // round 6: this stage produces every one of them deterministically
	run("socks5-addr", func(t *testing.T) {
		for _, s := range hostileAddrs() {
			for _, fr := range frags {
				oracleSocks5Addr(t, fr, s)
				oracleSocks5Addr(t, fr, append(append([]byte(nil), s...), "trailing"...))
			}
		}
	})
	run("socks5-server", func(t *testing.T) {
		sels, seeds := socks5ServerSeeds()
		for i := range seeds {
			for j, fr := range frags[:3] {
				oracleSocks5Server(t, sels[i], fr, seeds[i])
				oracleSocks5Server(t, sels[i]|8|uint8((i+j)%14)<<4, fr, seeds[i])
			}
		}
	})
	run("socks5-client", func(t *testing.T) {
		sels, seeds := socks5ClientSeeds()
		for i := range seeds {
			for j, fr := range frags {
				oracleSocks5Client(t, sels[i]|uint8(i+j)&3<<2, fr, seeds[i])
			}
		}
	})
	run("http-server", func(t *testing.T) {
		sels, clients, origins := httpServerSeeds()
		for i := range clients {
			for _, fr := range frags[:3] {
				oracleHTTPServer(t, sels[i], fr, clients[i], origins[i])
			}
			oracleHTTPServer(t, sels[i]|4, 0, clients[i], origins[i])
		}
	})
	run("http-origin", func(t *testing.T) {
		// round 6: hostile origin replies to plain-HTTP proxying; every seed once, every fourth also through the basic-auth
		// server and with a fragmented client side
		recHTTPOrigin.Require(originRequired()...)
		forms, origins := originSeeds()
		for i := range origins {
			oracleHTTPOrigin(t, forms[i], 0, origins[i])
			if i%4 == 0 {
				oracleHTTPOrigin(t, forms[i]|8, frags[1+i%3], origins[i])
			}
		}
	})
	run("http-client", func(t *testing.T) {
		sels, seeds := httpClientSeeds()
		for i := range seeds {
			for _, fr := range frags {
				oracleHTTPClient(t, sels[i], fr, seeds[i])
				oracleHTTPClient(t, sels[i]^1, fr, seeds[i])
			}
		}
	})
	run("ssnone-server", func(t *testing.T) {
		for _, s := range ssnoneSeeds() {
			for _, fr := range frags {
				oracleSSNone(t, fr, s)
				oracleSSNone(t, fr|0x4000, s)
			}
		}
	})
	run("ss2022-server", func(t *testing.T) {
		sels, seeds := ssServerSeeds()
		for i := range seeds {
			for j, fr := range frags[:3] {
				oracleSS2022Server(t, sels[i], uint8(i+j), fr, seeds[i])
			}
			oracleSS2022Server(t, sels[i], uint8(i)|4|8|16, 0x8001, seeds[i])
		}
	})
	run("ss2022-client", func(t *testing.T) {
		sels, seeds := ssClientSeeds()
		for i := range seeds {
			for m := uint8(0); m < 8; m++ {
				oracleSS2022Client(t, sels[i], m, frags[int(m)%len(frags)], seeds[i])
			}
		}
	})
	run("ss2022-udp-server", func(t *testing.T) {
		sels, seeds := ssUDPServerSeeds()
		for i := range seeds {
			oracleSS2022UDPServer(t, sels[i], seeds[i])
		}
	})
	run("ss2022-udp-client", func(t *testing.T) {
		sels, seeds := ssUDPClientSeeds()
		for i := range seeds {
			oracleSS2022UDPClient(t, sels[i], seeds[i])
		}
	})
	run("packet-unpackers", func(t *testing.T) {
		sels, seeds := packetSeeds()
		for i := range seeds {
			for _, hi := range []uint8{0, 8, 16, 24} {
				oraclePacket(t, sels[i]|hi, seeds[i])
			}
			oraclePacket(t, sels[i]|32|uint8(i%3)<<6, seeds[i]) // round 6: the same datagram in a reused buffer
		}
	})
	run("dns-response", func(t *testing.T) {
		sels, names, firsts, seconds := dnsSeeds()
		for i := range sels {
			for _, fr := range frags[:3] {
				oracleDNS(t, sels[i], fr, names[i], firsts[i], seconds[i])
			}
		}
	})
	run("client-relay", func(t *testing.T) {
		sels, modes, replies, tunnels := clientRelaySeeds()
		for i := range sels {
			oracleClientRelay(t, sels[i], modes[i], replies[i], tunnels[i])
		}
	})
	run("parsers", func(t *testing.T) {
		for _, s := range parseAddrSeeds() {
			oracleParseAddr(t, s)
		}
		for _, s := range portSetSeeds() {
			oraclePortSet(t, s)
		}
		texts, probes := domainSetSeeds()
		for i := range texts {
			oracleDomainSet(t, texts[i], probes[i])
		}
		for _, s := range prefixSetSeeds() {
			oraclePrefixSet(t, s, []byte{10, 0, 0, 1})
			oraclePrefixSet(t, s, []byte{0, 0, 0, 0, 0, 0, 0, 0, 0, 0, 0xff, 0xff, 10, 0, 0, 1})
		}
	})
}
