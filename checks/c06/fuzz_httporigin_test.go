package c06

import (
	"bytes"
	"fmt"
	"strconv"
	"strings"
	"testing"

	"verif/internal/ev"
)

// Round 6: hostile ORIGIN replies to plain-HTTP (non-CONNECT) proxying.
//
// The HTTP proxy server forwards a non-CONNECT request on two goroutines of its own (httpproxy/server.go
// serverForwardRequests / serverForwardResponses); whatever the origin - or the upstream proxy the request was routed to -
// sends back is parsed by net/http and then inspected by the forwarding code (status class, Location fields, Close flags,
// hop-by-hop fields) before it is written to the client. A panic there is a panic on a goroutine without recover: the
// process dies. The statement decided here is only that: for every reply the request's connection ends (forwarded or
// closed) and nothing else happens to the process. What is forwarded is not judged.
//
// The oracle is the one of FuzzHTTPServer (oracleHTTPServer: real ProxyServer.HandleStream, Proceed, the real forwarding
// goroutines, the harness as origin behind the pipe, journal for the driver), driven from the origin's side: the client
// request is one of 8 fixed well-formed forms, the fuzzed bytes are the origin's. The origin reply is classified by a small
// status-line/field scanner written for this purpose (originClasses), so that the evidence says which of the reply classes
// were really presented - for seeds, sweep mutants and fuzz inputs alike.

var recHTTPOrigin = ev.New(prop, "fuzz-http-origin",
	"request form (GET | HEAD | POST+body | 2 pipelined GETs | GET Connection: close | HTTP/1.0 GET | chunked POST + Expect | OPTIONS; basic auth on/off) x "+
		"origin byte stream x client-side fragmentation -> httpproxy ProxyServer.HandleStream, Proceed, the real request/response forwarding goroutines with the harness "+
		"as origin. Seeds: status {000,099,100,101,103,199,200,204,206,299,301,302,303,304,307,308,400,502,600,999,...} x Location {absent, empty, one, several, malformed, "+
		"other host} x Content-Length {absent, duplicate, conflicting, negative, signed, huge, overflowing, short, long} x Transfer-Encoding chunked {bad size, overflow, truncated, "+
		"extensions, trailers, doubled, with Content-Length} x 1xx runs of 1..3000 x bodies on 204/304/1xx/HEAD x header block cut at every line x close after the header block. "+
		"Non-trivial: the request was accepted, the forwarding goroutines ran to completion and the origin bytes were non-empty; distinct key = request form + reply classes + what the client got")

// originForms are the well-formed client requests (RFC 9112 absolute-form / origin-form) the origin replies are crossed with.
var originForms = []string{
	"GET http://example.com/a HTTP/1.1\r\nHost: example.com\r\n\r\n",
	"HEAD http://example.com/a HTTP/1.1\r\nHost: example.com\r\n\r\n",
	"POST http://example.com/p HTTP/1.1\r\nHost: example.com\r\nContent-Length: 5\r\n\r\nhello",
	"GET http://example.com/1 HTTP/1.1\r\nHost: example.com\r\n\r\nGET http://example.com/2 HTTP/1.1\r\nHost: example.com\r\n\r\n",
	"GET /c HTTP/1.1\r\nHost: example.com\r\nConnection: close\r\n\r\n",
	"GET http://example.com/0 HTTP/1.0\r\n\r\n",
	"POST http://example.com/e HTTP/1.1\r\nHost: example.com\r\nTransfer-Encoding: chunked\r\nExpect: 100-continue\r\n\r\n5\r\nhello\r\n0\r\n\r\n",
	"OPTIONS * HTTP/1.1\r\nHost: example.com\r\n\r\n",
}

var originFormNames = []string{"get", "head", "post", "pipelined", "get-close", "get-1.0", "post-chunked-expect", "options"}

// originRequired: every reply class of the gap list must have been presented (all of them come out of the deterministic seed list;
// TestSeeds declares them).
func originRequired() []string {
	out := []string{"1xx-flood", "1xx-only", "204-body", "304-body", "cl-missing", "cl-dup", "cl-conflict", "cl-negative", "cl-huge", "cl-short-body",
		"chunked-bad-size", "chunked-truncated", "header-only-close", "header-cut", "req:head", "head-with-body",
		"status:000", "status:099", "status:600", "status:999", "outcome:forwarded", "outcome:502", "outcome:closed"}
	for _, st := range []string{"301", "302", "303", "307", "308"} {
		for _, l := range []string{"no-location", "empty-location", "multi-location", "one-location"} {
			out = append(out, "redirect:"+st+"/"+l)
		}
	}
	return out
}

// originSeeds: (request form, origin reply) pairs. Valid replies first (they are the ones the sweep mutates).
func originSeeds() (forms []uint8, origins [][]byte) {
	add := func(form int, o string) { forms = append(forms, uint8(form)); origins = append(origins, []byte(o)) }
	all := func(o string, fs ...int) {
		if len(fs) == 0 {
			fs = []int{0}
		}
		for _, f := range fs {
			add(f, o)
		}
	}
	ok := "HTTP/1.1 200 OK\r\nContent-Length: 5\r\n\r\nhello"
	// 0..7: well-formed exchanges for every request form
	add(0, ok)
	add(1, "HTTP/1.1 200 OK\r\nContent-Length: 5\r\n\r\n")
	add(2, "HTTP/1.1 201 Created\r\nContent-Length: 0\r\nLocation: http://example.com/p/1\r\n\r\n")
	add(3, ok+ok)
	add(4, "HTTP/1.1 200 OK\r\nConnection: close\r\n\r\nuntil close")
	add(5, "HTTP/1.0 200 OK\r\nContent-Type: text/plain\r\n\r\nuntil close")
	add(6, "HTTP/1.1 100 Continue\r\n\r\nHTTP/1.1 200 OK\r\nTransfer-Encoding: chunked\r\nTrailer: X-T\r\n\r\n5\r\nhello\r\n0\r\nX-T: 1\r\n\r\n")
	add(7, "HTTP/1.1 204 No Content\r\nAllow: GET, HEAD\r\n\r\n")
	add(0, "HTTP/1.1 301 Moved Permanently\r\nLocation: http://example.com/b\r\nContent-Length: 0\r\n\r\n")
	add(0, "HTTP/1.1 307 Temporary Redirect\r\nLocation: http://elsewhere.example/\r\nContent-Length: 2\r\n\r\nhi")

	// redirects: every 3xx the forwarding code (or a future edit of it) may look at x Location field sets
	locs := []struct{ name, fields string }{
		{"none", ""},
		{"empty", "Location: \r\n"},
		{"empty-nospace", "Location:\r\n"},
		{"two", "Location: http://a.example/\r\nLocation: http://b.example/\r\n"},
		{"two-same", "Location: /x\r\nLocation: /x\r\n"},
		{"three-mixed", "Location: \r\nlocation: http://example.com/\r\nLOCATION: :%zz\r\n"},
		{"same-host", "Location: http://example.com/next\r\n"},
		{"other-host", "Location: http://other.example:8080/next\r\n"},
		{"relative", "Location: /next?x=1#f\r\n"},
		{"scheme-relative", "Location: //other.example/\r\n"},
		{"unparsable", "Location: :%zz\r\n"},
		{"ctl", "Location: http://exa\x7fmple.com/%\r\n"},
		{"one-char", "Location: /\r\n"},
		{"brackets", "Location: http://[::1/\r\n"},
		{"long", "Location: http://example.com/" + strings.Repeat("l", 9000) + "\r\n"},
		{"folded", "Location: http://example.com/\r\n /folded\r\n"},
		{"in-connection", "Connection: Location\r\nLocation: http://other.example/\r\n"},
	}
	for _, st := range []string{"301 Moved Permanently", "302 Found", "303 See Other", "307 Temporary Redirect", "308 Permanent Redirect", "300 Multiple Choices", "305 Use Proxy", "399 x"} {
		for i, l := range locs {
			all("HTTP/1.1 "+st+"\r\n"+l.fields+"Content-Length: 0\r\n\r\n", 0, 1+i%7)
			if i < 6 {
				all("HTTP/1.1 "+st+"\r\n"+l.fields+"\r\n", 3) // no framing at all: body until close, second pipelined request never answered
				all("HTTP/1.0 "+st+"\r\n"+l.fields+"\r\nbody", 5)
			}
		}
	}

	// interim responses
	cont := "HTTP/1.1 100 Continue\r\n\r\n"
	for _, n := range []int{1, 2, 8, 17, 300, 3000} {
		all(strings.Repeat(cont, n)+ok, 0, 2, 6)
		all(strings.Repeat(cont, n), 0, 6) // interim responses and then nothing
	}
	all(strings.Repeat("HTTP/1.1 103 Early Hints\r\nLink: </s.css>; rel=preload\r\n\r\n", 40)+ok, 0, 1)
	all(strings.Repeat("HTTP/1.1 102 Processing\r\n\r\n", 20)+"HTTP/1.1 199 x\r\n\r\n"+"HTTP/1.1 204 No Content\r\n\r\n", 0, 3)
	all("HTTP/1.1 100 Continue\r\nContent-Length: 5\r\n\r\nhello"+ok, 0, 6)
	all("HTTP/1.1 100 Continue\r\nTransfer-Encoding: chunked\r\n\r\n5\r\nhello\r\n0\r\n\r\n"+ok, 0)
	all("HTTP/1.1 100 Continue\r\nConnection: close\r\n\r\n"+ok, 0, 4)
	all("HTTP/1.1 100 Continue\r\nLocation: x\r\nLocation: y\r\n\r\n"+"HTTP/1.1 301 x\r\n\r\n", 0)
	all("HTTP/1.1 101 Switching Protocols\r\nUpgrade: websocket\r\nConnection: Upgrade\r\n\r\nraw bytes after upgrade", 0, 1, 2)
	all("HTTP/1.1 101 Switching Protocols\r\n\r\n"+ok, 0, 3)
	all(cont+"garbage\r\n\r\n", 0, 6)
	all(cont+cont[:11], 0)

	// bodies where there must be none
	for _, st := range []string{"204 No Content", "304 Not Modified", "205 Reset Content"} {
		all("HTTP/1.1 "+st+"\r\nContent-Length: 5\r\n\r\nhello", 0, 1, 3)
		all("HTTP/1.1 "+st+"\r\n\r\nhello", 0, 3)
		all("HTTP/1.1 "+st+"\r\nTransfer-Encoding: chunked\r\n\r\n5\r\nhello\r\n0\r\n\r\n", 0, 3)
		all("HTTP/1.1 "+st+"\r\nContent-Length: 5\r\n\r\nhello"+ok, 3)
		all("HTTP/1.1 "+st+"\r\nContent-Length: 99999999999999999999\r\n\r\n", 0)
		all("HTTP/1.1 "+st+"\r\nContent-Length: -1\r\n\r\n", 0)
	}
	// responses to HEAD
	all("HTTP/1.1 200 OK\r\nContent-Length: 5\r\n\r\nhello", 1)
	all("HTTP/1.1 200 OK\r\nTransfer-Encoding: chunked\r\n\r\n", 1)
	all("HTTP/1.1 200 OK\r\nTransfer-Encoding: chunked\r\n\r\n5\r\nhello\r\n0\r\n\r\n", 1)
	all("HTTP/1.1 200 OK\r\nContent-Length: 99999999999999999999\r\n\r\n", 1)
	all("HTTP/1.1 200 OK\r\nContent-Length: -5\r\n\r\n", 1)
	all("HTTP/1.1 200 OK\r\n\r\n", 1)
	all("HTTP/1.1 200 OK\r\n\r\nbody until close", 1)
	all("HTTP/1.1 301 x\r\nContent-Length: 10\r\n\r\n", 1)
	all("HTTP/1.0 200 OK\r\nContent-Length: 10\r\n\r\n", 1)

	// Content-Length
	for _, cl := range []string{"", "Content-Length: 5\r\nContent-Length: 5\r\n", "Content-Length: 5\r\nContent-Length: 6\r\n", "Content-Length: 5, 5\r\n", "Content-Length: 5,6\r\n",
		"Content-Length: -1\r\n", "Content-Length: -0\r\n", "Content-Length: +5\r\n", "Content-Length: 99999999999999999999\r\n", "Content-Length: 9223372036854775807\r\n",
		"Content-Length: 9223372036854775808\r\n", "Content-Length: 18446744073709551615\r\n", "Content-Length: 18446744073709551616\r\n", "Content-Length: 0x5\r\n", "Content-Length: 5 5\r\n",
		"Content-Length: \r\n", "Content-Length:\r\n", "Content-Length: 5.0\r\n", "Content-Length: ５\r\n", "Content-Length: 4\r\n", "Content-Length: 6\r\n", "Content-Length: 100000\r\n",
		"Content-Length: 0\r\n", "Content-Length: 00000000000000000000005\r\n", "content-length: 5\r\nCONTENT-LENGTH: 5\r\n", "Content-Length: 5\r\nTransfer-Encoding: chunked\r\n",
		"Connection: Content-Length\r\nContent-Length: 5\r\n"} {
		all("HTTP/1.1 200 OK\r\n"+cl+"\r\nhello", 0, 3)
		all("HTTP/1.1 200 OK\r\n"+cl+"\r\nhello"+ok, 3)
		all("HTTP/1.0 200 OK\r\n"+cl+"\r\nhello", 5)
		all("HTTP/1.1 206 Partial Content\r\nContent-Range: bytes 0-4/5\r\n"+cl+"\r\nhello", 0)
	}

	// Transfer-Encoding: chunked
	te := "HTTP/1.1 200 OK\r\nTransfer-Encoding: chunked\r\n\r\n"
	for _, body := range []string{"5\r\nhello\r\n0\r\n\r\n", "zz\r\n", "-1\r\nx\r\n", "ffffffffffffffff\r\nx", "10000000000000000\r\nx", "7fffffffffffffff\r\nx", "5\r\nhel", "5\r\nhelloXX0\r\n\r\n",
		"5\r\nhello0\r\n\r\n", "5;ext=1;e2=\"q\"\r\nhello\r\n0\r\n\r\n", "5 \r\nhello\r\n0\r\n\r\n", " 5\r\nhello\r\n0\r\n\r\n", "0x5\r\nhello\r\n0\r\n\r\n", "5\nhello\n0\n\n", "0\r\n", "0\r\n\r", "0",
		"", "\r\n", "0\r\nX-T: 1\r\n\r\n", "0\r\nX-T: 1\r\nContent-Length: 5\r\nTransfer-Encoding: x\r\n\r\n", "0\r\n" + strings.Repeat("T: v\r\n", 3000) + "\r\n", "0\r\nbad trailer\r\n\r\n",
		"00000000000000000000000000000005\r\nhello\r\n0\r\n\r\n", strings.Repeat("1\r\nx\r\n", 2000) + "0\r\n\r\n", "5\r\nhello\r\n0\r\n\r\n" + ok, "FFFFFFFF\r\nshort", "5\r\nhello\r\n00\r\n\r\n"} {
		all(te+body, 0, 3)
	}
	for _, h := range []string{"Transfer-Encoding: chunked, chunked\r\n", "Transfer-Encoding: gzip, chunked\r\n", "Transfer-Encoding: chunked, gzip\r\n", "Transfer-Encoding: identity\r\n",
		"Transfer-Encoding: CHUNKED\r\n", "Transfer-Encoding: \r\n", "Transfer-Encoding: chunked\r\nTransfer-Encoding: chunked\r\n", "Transfer-Encoding: chunked\r\nContent-Length: 5\r\n",
		"Transfer-Encoding: chunked\r\nTrailer: Content-Length, Transfer-Encoding, X\r\n", "TE: trailers\r\nConnection: TE, Trailer, Transfer-Encoding\r\nTransfer-Encoding: chunked\r\n"} {
		all("HTTP/1.1 200 OK\r\n"+h+"\r\n5\r\nhello\r\n0\r\n\r\n", 0, 1)
		all("HTTP/1.0 200 OK\r\n"+h+"\r\n5\r\nhello\r\n0\r\n\r\n", 5)
	}

	// the header block ends and so does the connection / the header block is cut at every line end and in the status line
	full := "HTTP/1.1 200 OK\r\nServer: x\r\nContent-Length: 10\r\nConnection: keep-alive, X-Hop\r\nX-Hop: 1\r\n\r\n"
	for i := 0; i <= len(full); i++ {
		if i < 16 || full[i-1] == '\n' || full[i-1] == '\r' || i == len(full) {
			all(full[:i], 0)
		}
	}
	all("HTTP/1.1 200 OK\r\n\r\n", 0, 3)
	all("HTTP/1.1 200 OK\r\nContent-Length: 10\r\n\r\n", 0, 3)
	all("HTTP/1.1 200 OK\r\nTransfer-Encoding: chunked\r\n\r\n", 0)
	all("HTTP/1.1 301 x\r\nLocation: /\r\n\r\n", 0)
	all("HTTP/1.1 301 x\r\nLocation: /", 0)
	all("HTTP/1.1 301 x\r\nLocation:", 0)

	// status lines
	for _, sl := range []string{"HTTP/1.1 000 \r\n", "HTTP/1.1 000 zero\r\n", "HTTP/1.1 099 below\r\n", "HTTP/1.1 600 above\r\n", "HTTP/1.1 999 top\r\n", "HTTP/1.1 1000 four\r\n", "HTTP/1.1 99 two\r\n",
		"HTTP/1.1 2xx x\r\n", "HTTP/1.1 -20 x\r\n", "HTTP/1.1 +20 x\r\n", "HTTP/1.1 200OK\r\n", "HTTP/1.1  200 OK\r\n", "HTTP/1.1 200\r\n", "HTTP/1.1 200 \r\n", "HTTP/1.1\r\n", "HTTP/1.1 \r\n", "HTTP/1.1 200 OK\n",
		"HTTP/0.9 200 OK\r\n", "HTTP/1.2 200 OK\r\n", "HTTP/2.0 200 OK\r\n", "HTTP/9.9 200 OK\r\n", "HTTP/1.10 200 OK\r\n", "HTTP/01.1 200 OK\r\n", "http/1.1 200 OK\r\n", "ICY 200 OK\r\n", "HTTP/1.1 200 " + strings.Repeat("r", 5000) + "\r\n",
		"HTTP/1.1 200 \xff\xfe\x00\x01\r\n", "HTTP/1.1 301\r\n", "HTTP/1.1 301 \r\n", "HTTP/1.1 307\r\n", "HTTP/1.1 0301 x\r\n", "HTTP/1.1 ３０１ x\r\n", "HTTP/1.1 100\r\n", "HTTP/1.1 199\r\n", "\r\nHTTP/1.1 200 OK\r\n"} {
		all(sl+"Content-Length: 5\r\n\r\nhello", 0, 1)
		all(sl+"\r\n", 0, 3)
		all(sl+"Location: http://other.example/\r\nLocation: x\r\nContent-Length: 0\r\n\r\n"+ok, 0)
	}
	// 000 / 099 count as "below 200" in a numeric comparison: what follows them is read as the next response
	all("HTTP/1.1 000 x\r\nContent-Length: 0\r\n\r\n"+ok, 0, 3)
	all("HTTP/1.1 099 x\r\nContent-Length: 0\r\n\r\n"+ok, 0, 3)
	all(strings.Repeat("HTTP/1.1 000 x\r\nContent-Length: 0\r\n\r\n", 50)+ok, 0)
	all("HTTP/1.1 099 x\r\n\r\nclose-delimited body of a pseudo-interim response", 0)

	// field oddities
	for _, h := range []string{"Connection: close\r\n", "Connection: keep-alive\r\n", "Connection: ,,, ,\r\n", "Connection: " + strings.Repeat("a,", 2000) + "\r\n", "Connection: Content-Length, Location, Connection\r\n",
		"Proxy-Connection: keep-alive\r\nKeep-Alive: timeout=5\r\n", "Proxy-Authenticate: Basic\r\nProxy-Authentication-Info: x\r\n", "Trailer: X\r\n", "Upgrade: h2c\r\nConnection: Upgrade\r\n",
		"NoColon\r\n", ": empty-name\r\n", " leading-space: x\r\n", "X: a\r\n b\r\n\tc\r\n", "X:\x00\r\n", "X\x00: y\r\n", "X: " + strings.Repeat("v", 70000) + "\r\n", strings.Repeat("X: y\r\n", 3000),
		"Set-Cookie: a=b\r\nSet-Cookie: c=d\r\nSet-Cookie: \r\n", "Content-Type: \r\nContent-Encoding: gzip\r\n", "Date: not a date\r\nExpires: -1\r\nAge: 99999999999999999999\r\n"} {
		all("HTTP/1.1 200 OK\r\n"+h+"Content-Length: 5\r\n\r\nhello", 0, 3)
		all("HTTP/1.1 302 Found\r\n"+h+"Location: http://other.example/\r\nContent-Length: 0\r\n\r\n", 0)
	}
	// more responses than requests, responses before any request could have been read, nothing at all
	all(ok+ok+ok, 0, 3, 4)
	all("", 0, 3)
	all("\r\n", 0)
	all("garbage that is not HTTP\r\n\r\n", 0, 1, 3)
	all(strings.Repeat("\x00", 100), 0)
	return
}

func FuzzHTTPOrigin(f *testing.F) {
	forms, origins := originSeeds()
	// valid exchanges first, then one representative of every distinct class set (the whole list runs in TestSeeds)
	seen := map[string]bool{}
	n := 0
	for i := range origins {
		if len(origins[i]) > 20000 {
			continue
		}
		key := fmt.Sprint(forms[i]%8, originClasses(int(forms[i]%8), origins[i]))
		if i >= 10 && seen[key] {
			continue
		}
		seen[key] = true
		f.Add(forms[i], uint16(n%3), origins[i])
		n++
	}
	f.Fuzz(func(t *testing.T, sel uint8, frag uint16, origin []byte) { oracleHTTPOrigin(t, sel, frag, origin) })
}

// sel: bits0-2 request form, bit3 basic auth enabled (the request then carries valid credentials)
func oracleHTTPOrigin(t failer, sel uint8, frag uint16, origin []byte) {
	form := int(sel & 7)
	client := originForms[form]
	hsel := uint8(0)
	if sel&8 != 0 {
		hsel = 1
		client = strings.ReplaceAll(client, "\r\nHost: example.com\r\n", "\r\nHost: example.com\r\n"+basic("alice", "secret"))
		if form == 5 {
			client = strings.Replace(client, "\r\n\r\n", "\r\n"+basic("alice", "secret")+"\r\n", 1)
		}
	}
	if len(origin) > 1<<20 {
		origin = origin[:1<<20]
	}
	out := oracleHTTPServer(t, hsel, frag, []byte(client), origin)
	classes := originClasses(form, origin)
	labels := append([]string{"req:" + originFormNames[form]}, classes...)
	outcome := "not-forwarded"
	switch {
	case !out.accepted || !out.forwarded:
		// the request never reached the forwarding code (cannot happen for the fixed forms): recorded, not counted as non-trivial
	case out.stuck:
		outcome = "stuck" // not a crash; recorded (see NOTES: a stuck forwarding is not a C06 failure)
	case bytes.HasPrefix(out.clientGot, []byte("HTTP/1.1 502 Bad Gateway\r\nConnection: close\r\n\r\n")):
		outcome = "502"
	case len(out.clientGot) == 0:
		outcome = "closed"
	default:
		outcome = "forwarded"
	}
	labels = append(labels, "outcome:"+outcome)
	nontrivial := out.accepted && out.forwarded && !out.stuck && len(origin) > 0
	recHTTPOrigin.Case(fmt.Sprintf("%d/%d/%v/%s", form, sel&8, classes, outcome), nontrivial, labels...)
	if nontrivial {
		recHTTPOrigin.Sample(map[string]any{"form": originFormNames[form], "classes": classes, "outcome": outcome, "origin": fmt.Sprintf("%q", trunc(origin)[:min(len(origin), 120)])})
	}
}

// ---- classification of an origin byte stream (evidence only; never part of the pass/fail decision)

type originMsg struct {
	status   string // the three bytes after the first space of the status line ("" when there is no such thing)
	fields   [][2]string
	complete bool // the header block was terminated by an empty line
	rest     []byte
}

// scanOriginMsg splits one message head off b the way RFC 9112 section 2.1 frames it (CRLF or bare LF line ends).
func scanOriginMsg(b []byte) (m originMsg) {
	line, rest, ok := cutLine(b)
	if !ok {
		line, rest = b, nil
	}
	if sp := bytes.IndexByte(line, ' '); sp >= 0 && len(line) >= sp+4 {
		m.status = string(line[sp+1 : sp+4])
	}
	if !ok {
		return
	}
	for {
		line, rest2, ok := cutLine(rest)
		if !ok {
			m.rest = nil
			return
		}
		rest = rest2
		if len(line) == 0 {
			m.complete, m.rest = true, rest
			return
		}
		name, val, _ := strings.Cut(string(line), ":")
		m.fields = append(m.fields, [2]string{strings.ToLower(strings.TrimSpace(name)), strings.TrimSpace(val)})
	}
}

func cutLine(b []byte) (line, rest []byte, ok bool) {
	i := bytes.IndexByte(b, '\n')
	if i < 0 {
		return nil, b, false
	}
	return bytes.TrimSuffix(b[:i], []byte("\r")), b[i+1:], true
}

func (m originMsg) values(name string) (out []string) {
	for _, f := range m.fields {
		if f[0] == name {
			out = append(out, f[1])
		}
	}
	return
}

func isInterim(status string) bool { return len(status) == 3 && status[0] == '1' && status >= "100" && status <= "199" }

// originClasses names the classes of the gap list an origin byte stream belongs to (several may apply).
func originClasses(form int, origin []byte) []string {
	var out []string
	add := func(s string) {
		for _, o := range out {
			if o == s {
				return
			}
		}
		out = append(out, s)
	}
	if len(origin) == 0 {
		return []string{"empty"}
	}
	b := origin
	interim := 0
	var m originMsg
	for {
		m = scanOriginMsg(b)
		if !m.complete || !isInterim(m.status) || m.status == "101" {
			break
		}
		interim++
		b = m.rest
		if len(b) == 0 {
			break
		}
	}
	if interim >= 8 {
		add("1xx-flood")
	} else if interim > 0 {
		add("1xx")
	}
	if interim > 0 && len(b) == 0 {
		add("1xx-only")
		return out
	}
	if !m.complete {
		add("header-cut")
		if m.status != "" {
			add("status:" + m.status)
		}
		return out
	}
	st := m.status
	switch st {
	case "000", "099", "600", "999":
		add("status:" + st)
	default:
		if len(st) == 3 && st[0] >= '0' && st[0] <= '9' {
			add("status:" + st[:1] + "xx")
		} else {
			add("status:malformed")
		}
	}
	cls := m.values("content-length")
	tes := m.values("transfer-encoding")
	chunked := false
	for _, v := range tes {
		if strings.Contains(strings.ToLower(v), "chunked") {
			chunked = true
		}
	}
	switch st {
	case "301", "302", "303", "307", "308":
		locs := m.values("location")
		switch {
		case len(locs) == 0:
			add("redirect:" + st + "/no-location")
		case len(locs) > 1:
			add("redirect:" + st + "/multi-location")
		case locs[0] == "":
			add("redirect:" + st + "/empty-location")
		default:
			add("redirect:" + st + "/one-location")
		}
	}
	bodyish := len(m.rest) > 0 || chunked
	for _, v := range cls {
		if n, err := strconv.ParseUint(v, 10, 63); err == nil && n > 0 {
			bodyish = true
		}
	}
	switch {
	case st == "204" && bodyish:
		add("204-body")
	case st == "304" && bodyish:
		add("304-body")
	}
	if form == 1 && len(m.rest) > 0 {
		add("head-with-body")
	}
	switch {
	case len(cls) == 0 && !chunked:
		add("cl-missing")
		if len(m.rest) == 0 {
			add("header-only-close")
		}
	case len(cls) > 1:
		same := true
		for _, v := range cls[1:] {
			same = same && v == cls[0]
		}
		if same {
			add("cl-dup")
		} else {
			add("cl-conflict")
		}
	}
	for _, v := range cls {
		switch n, err := strconv.ParseInt(v, 10, 64); {
		case strings.HasPrefix(v, "-"):
			add("cl-negative")
		case err != nil && len(v) >= 19 && strings.Trim(v, "0123456789") == "":
			add("cl-huge")
		case err != nil:
			add("cl-malformed")
		case n > int64(len(m.rest)) && !chunked && form != 1:
			add("cl-short-body")
			if len(m.rest) == 0 {
				add("header-only-close")
			}
		case n < int64(len(m.rest)) && !chunked:
			add("cl-extra-bytes")
		}
	}
	if chunked {
		switch chunkedShape(m.rest) {
		case 1:
			add("chunked-bad-size")
		case 2:
			add("chunked-truncated")
		default:
			add("chunked-ok")
		}
	}
	return out
}

// chunkedShape: 0 = a complete chunked body (RFC 9112 section 7.1), 1 = a chunk-size line that is not hex (or overflows 63 bits), 2 = ends early.
func chunkedShape(b []byte) int {
	for {
		line, rest, ok := cutLine(b)
		if !ok {
			return 2
		}
		sz, _, _ := strings.Cut(string(line), ";")
		n, err := strconv.ParseUint(strings.TrimSpace(sz), 16, 63)
		if err != nil || strings.TrimSpace(sz) != sz {
			return 1
		}
		if n == 0 {
			for { // trailer section
				line, rest2, ok := cutLine(rest)
				if !ok {
					return 2
				}
				rest = rest2
				if len(line) == 0 {
					return 0
				}
			}
		}
		if uint64(len(rest)) < n+2 {
			return 2
		}
		if rest[n] != '\r' || rest[n+1] != '\n' {
			return 1
		}
		b = rest[n+2:]
	}
}
