package c06

import (
	"context"
	"net/netip"
	"testing"

	"github.com/database64128/shadowsocks-go/conn"
	"github.com/database64128/shadowsocks-go/router"

	"verif/internal/ev"
)

// Plain regression tests (no rapid, no fuzz engine) for defects this check has shown on the real tree.

var recReg = ev.New(prop, "regressions", "frozen minimal cases of confirmed defects; every case is non-trivial by construction; distinct key = case name")

// TestRegressionRouterPort0: fixed in /repo by 501fd63. A route whose destination (or source) port
// criterion has more than 16 ranges is stored as a portset.PortSet bitmap, whose Contains panics on 0;
// any SOCKS5 / ss-none / ss2022 / HTTP CONNECT client can name port 0. Minimal input: SOCKS5 CONNECT
// 127.0.0.1:0 (05 01 00 | 05 01 00 01 7f 00 00 01 00 00) with route {toPortRanges: 17 ranges}.
func TestRegressionRouterPort0(t *testing.T) {
	for _, c := range routerCells(t) {
		if c.rep != "*router.DestPortSetCriterion" && c.name != "to/bitmap17/inv" && c.name != "tcp-only" && c.name != "udp-only/reject" {
			continue
		}
		for _, target := range []conn.Addr{
			conn.AddrFromIPAndPort(netip.MustParseAddr("127.0.0.1"), 0),
			conn.MustAddrFromDomainPort("example.com", 0),
		} {
			info := router.RequestInfo{SourceAddrPort: netip.MustParseAddrPort("127.0.0.1:40000"), TargetAddr: target}
			guard(t, recReg, "route", func() string { return "cell=" + c.name + " target=" + target.String() }, func() {
				_, _ = c.r.GetTCPClient(context.Background(), info)
				_, _ = c.r.GetUDPClient(context.Background(), info)
			})
			recReg.Case("router-port0/"+c.name+"/"+addrClass(target), true, "router-port0")
		}
	}
	// Round 6: the source-port twin (same root cause, same fix in 501fd63). A datagram's source port is whatever its sender put
	// into the UDP header, 0 included, and service/udp_*.go hand it to GetUDPClient as it is.
	for _, c := range routerCells(t) {
		if len(c.ports) == 0 || c.ports[0].side != "from" || c.ports[0].kind != "bitmap" {
			continue
		}
		for _, target := range []conn.Addr{
			conn.AddrFromIPAndPort(netip.MustParseAddr("127.0.0.1"), 53),
			conn.MustAddrFromDomainPort("example.com", 0),
		} {
			info := router.RequestInfo{SourceAddrPort: netip.MustParseAddrPort("127.0.0.1:0"), TargetAddr: target}
			guard(t, recReg, "route", func() string { return "cell=" + c.name + " source=127.0.0.1:0 target=" + target.String() }, func() {
				_, _ = c.r.GetUDPClient(context.Background(), info)
			})
			recReg.Case("router-source-port0/"+c.name+"/"+addrClass(target), true, "router-source-port0")
		}
	}
	// through the real entry point
	out := oracleSocks5Server(t, 0b0110, 0, []byte{5, 1, 0, 5, 1, 0, 1, 127, 0, 0, 1, 0, 0})
	if !out.accepted || out.addr.Port() != 0 {
		t.Fatalf("harness: SOCKS5 CONNECT 127.0.0.1:0 was not accepted: %+v", out)
	}
}

// TestRegressionServicePort0 is the same defect at service level: one SOCKS5 CONNECT to port 0 against a
// configuration with a >16-range route used to end the process (and with it the canary session).
func TestRegressionServicePort0(t *testing.T) {
	if ev.IsKnown(prop, sigRouterPort0) {
		recReg.KnownHit(sigRouterPort0)
		t.Skip("listed as an open finding: the request would end the process")
	}
	env, err := startService(true)
	if err != nil {
		t.Fatalf("harness: %v", err)
	}
	defer env.stop(t)
	if err := env.canaryFull(); err != nil {
		t.Fatalf("SIG=C06/service-canary VERIF-VIOLATION before the plan: %v", err)
	}
	plan := svcPlan{Bitmap: true, Ops: []svcOp{
		{Kind: "tcp", Listener: "s5/tcp", Build: "raw", Data: []string{"05010005010001" + "7f000001" + "0000"}, Close: "close"},
		{Kind: "tcp", Listener: "none/tcp", Build: "raw", Data: []string{"03" + "0b" + "6578616d706c652e636f6d" + "0000"}, Close: "half"},
		{Kind: "udp", Listener: "none/udp", Build: "raw", Data: []string{"01" + "7f000001" + "0000" + "78"}},
		{Kind: "udp", Listener: "s5/udpmm", Build: "raw", Data: []string{"000000" + "01" + "7f000001" + "0000" + "78"}},
	}}
	executePlan(t, env, plan)
	recReg.Case("service-port0", true, "service-port0")
}
