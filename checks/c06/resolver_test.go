package c06

import (
	"context"
	"encoding/binary"
	"hash/fnv"
	"io"
	"net"
	"strings"
	"sync/atomic"

	"golang.org/x/net/dns/dnsmessage"
)

// Owned name resolution: net.DefaultResolver is a package variable that conn.ResolveIP, the direct
// clients and the "system" resolver all read. It is replaced by a pure-Go resolver whose Dial returns an
// in-memory DNS-over-TCP conversation with a scripted responder, so names taken from hostile traffic are
// resolved without touching the machine's resolver configuration or the network.
//
// Answers depend only on the name: hash%4 == 0 -> NXDOMAIN, otherwise A 127.0.0.1 (and AAAA ::1 when
// hash%4 == 3). "echo.test" always resolves to 127.0.0.1; names starting with "nx" never resolve.

var ownedLookups atomic.Int64

func init() {
	net.DefaultResolver = &net.Resolver{
		PreferGo: true,
		Dial: func(ctx context.Context, network, address string) (net.Conn, error) {
			c, s := net.Pipe()
			go serveOwnedDNS(s)
			return c, nil
		},
	}
}

func serveOwnedDNS(c net.Conn) {
	defer c.Close()
	var lb [2]byte
	for {
		if _, err := io.ReadFull(c, lb[:]); err != nil {
			return
		}
		q := make([]byte, binary.BigEndian.Uint16(lb[:]))
		if _, err := io.ReadFull(c, q); err != nil {
			return
		}
		var p dnsmessage.Parser
		h, err := p.Start(q)
		if err != nil {
			return
		}
		qs, err := p.AllQuestions()
		if err != nil || len(qs) != 1 {
			return
		}
		ownedLookups.Add(1)
		name := qs[0].Name.String()
		hh := fnv.New32a()
		hh.Write([]byte(name))
		k := hh.Sum32() % 4
		if name == "echo.test." {
			k = 1
		}
		if strings.HasPrefix(name, "nx") { // names the harness needs to be unresolvable
			k = 0
		}
		resp := dnsmessage.Message{
			Header:    dnsmessage.Header{ID: h.ID, Response: true, RecursionDesired: true, RecursionAvailable: true},
			Questions: qs,
		}
		switch {
		case k == 0:
			resp.Header.RCode = dnsmessage.RCodeNameError
		case qs[0].Type == dnsmessage.TypeA:
			resp.Answers = append(resp.Answers, dnsmessage.Resource{
				Header: dnsmessage.ResourceHeader{Name: qs[0].Name, Type: dnsmessage.TypeA, Class: dnsmessage.ClassINET, TTL: 60},
				Body:   &dnsmessage.AResource{A: [4]byte{127, 0, 0, 1}},
			})
		case qs[0].Type == dnsmessage.TypeAAAA && k == 3:
			resp.Answers = append(resp.Answers, dnsmessage.Resource{
				Header: dnsmessage.ResourceHeader{Name: qs[0].Name, Type: dnsmessage.TypeAAAA, Class: dnsmessage.ClassINET, TTL: 60},
				Body:   &dnsmessage.AAAAResource{AAAA: [16]byte{15: 1}},
			})
		}
		out, err := resp.Pack()
		if err != nil {
			return
		}
		binary.BigEndian.PutUint16(lb[:], uint16(len(out)))
		if _, err := c.Write(append(lb[:], out...)); err != nil {
			return
		}
	}
}
