package c06

import (
	"context"
	"crypto/cipher"
	"crypto/subtle"
	"encoding/binary"
	"fmt"
	"hash/fnv"
	"io"
	"net/netip"
	"strings"
	"testing"
	"time"

	"github.com/database64128/shadowsocks-go/conn"
	"github.com/database64128/shadowsocks-go/netio"
	"github.com/database64128/shadowsocks-go/socks5"
	"github.com/database64128/shadowsocks-go/ss2022"
	"github.com/database64128/shadowsocks-go/zerocopy"

	"verif/internal/ev"
)

// The AEAD gate would stop every mutated byte string at the first Open. The ss2022 targets therefore
// take *plaintext* structures from the fuzz input and seal them with the real keys (the repo's own
// exported cipher constructors), so mutation reaches the header, address, padding, length-chunk and
// session logic behind authentication. A "raw" selector bit keeps the unauthenticated path covered.

const (
	ssM256     = 1 << 0 // 2022-blake3-aes-256-gcm (else 128)
	ssEIH      = 1 << 1 // multi-user server (identity header)
	ssSegment  = 1 << 2 // AllowSegmentedFixedLengthHeader
	ssPrefix   = 1 << 3 // unsafe request/response stream prefixes
	ssFallback = 1 << 4 // server: unsafeFallbackAddress configured
	ssFixSalt  = 1 << 4 // client targets: echo the request salt (without touching the declared length)
	ssRaw      = 1 << 5 // data is raw wire bytes, nothing is sealed
	ssCutWire  = 1 << 2 // UDP targets: every datagram record starts with [cut u16][flip position u16][flip mask u8], applied to the wire packet after sealing
	ssFixTS    = 1 << 6 // overwrite the timestamp with now
	ssFixLen   = 1 << 7 // overwrite declared lengths / salts / session ids with the consistent values
)

type ssKeys struct {
	method string
	klen   int
	psk    []byte // server PSK (single user) or iPSK (multi user)
	upsk   []byte // user PSK in multi-user mode
	eih    bool
}

func ssKeysFor(sel uint8) ssKeys {
	k := ssKeys{method: "2022-blake3-aes-128-gcm", klen: 16, eih: sel&ssEIH != 0}
	if sel&ssM256 != 0 {
		k.method, k.klen = "2022-blake3-aes-256-gcm", 32
	}
	if k.klen == 16 {
		k.psk, k.upsk = key16(1), key16(77)
	} else {
		k.psk, k.upsk = key32(1), key32(77)
	}
	return k
}

var (
	reqPrefix  = []byte("REQPREF!")
	respPrefix = []byte("RESPPREFIX")
)

func detSalt(n int, data []byte, tweak byte) []byte {
	h := fnv.New64a()
	h.Write(data)
	h.Write([]byte{tweak})
	s := make([]byte, 0, n+8)
	v := h.Sum64()
	for len(s) < n {
		s = binary.BigEndian.AppendUint64(s, v)
		v = v*6364136223846793005 + 1442695040888963407
	}
	return s[:n]
}

// take cuts n bytes from *b (zero-padded when short).
func take(b *[]byte, n int) []byte {
	out := make([]byte, n)
	k := copy(out, *b)
	*b = (*b)[k:]
	return out
}

func takeLen(b *[]byte) int { return int(binary.BigEndian.Uint16(take(b, 2))) }

// sealChunks turns the rest of the input into length/payload chunk pairs: [declared u16][actual u16][actual bytes].
func sealChunks(out []byte, c *ss2022.ShadowStreamCipher, rest []byte, fixLen bool) []byte {
	for i := 0; len(rest) > 0 && i < 4; i++ {
		decl := takeLen(&rest)
		actual := min(takeLen(&rest), len(rest), 0xFFFF)
		body := rest[:actual]
		rest = rest[actual:]
		if fixLen {
			decl = actual
		}
		out = c.EncryptAppend(out, binary.BigEndian.AppendUint16(nil, uint16(decl)))
		out = c.EncryptAppend(out, body)
	}
	return out
}

// drain reads a tunnel to its end through the path mode selects.
func drain(c netio.Conn, mode uint8) (n int64) {
	switch mode & 3 {
	case 0:
		if wt, ok := c.(io.WriterTo); ok {
			n, _ = wt.WriteTo(io.Discard)
			return
		}
		fallthrough
	default:
		sizes := []int{1, 17, 65535 + 16, 70000}
		buf := make([]byte, sizes[mode&3])
		for i := 0; i < 1<<20; i++ {
			k, err := c.Read(buf)
			n += int64(k)
			if err != nil {
				return
			}
		}
	}
	return
}

// ---------------------------------------------------------------- TCP server

var recSSServer = ev.New(prop, "fuzz-ss2022-server",
	"selector (method, single/multi-user, segmented header, stream prefixes, fallback, raw|sealed, fix-timestamp, consistent-lengths) "+
		"+ drain/answer selector + plaintext structure [fixed header][len][variable header][chunk records] + fragmentation -> sealed with the "+
		"real key -> ss2022 StreamServer.HandleStream over an owned conn; then the target is used, the stream is drained through "+
		"Read (1/17/65551/70000-byte buffers) or WriteTo, and a small and a 70000-byte reply are written. "+
		"Non-trivial: handshake authenticated and address produced (or fallback taken) and routed; distinct key = config + class + path")

func ssServerPlain(ta conn.Addr, payload []byte, padding int, extra []byte) []byte {
	vl := socks5.LengthOfAddrFromConnAddr(ta) + 2 + padding + len(payload)
	fixed := make([]byte, ss2022.TCPRequestFixedLengthHeaderLength)
	ss2022.PutTCPRequestFixedLengthHeader(fixed, time.Now(), vl)
	vh := make([]byte, vl)
	ss2022.PutTCPRequestVariableLengthHeader(vh, ta, payload)
	return cat(fixed, binary.BigEndian.AppendUint16(nil, uint16(vl)), vh, extra)
}

func ssReq(fixed, vh, extra []byte) []byte {
	return cat(fixed, binary.BigEndian.AppendUint16(nil, uint16(len(vh))), vh, extra)
}

func chunkRec(decl, actual int, fill byte) []byte {
	b := binary.BigEndian.AppendUint16(nil, uint16(decl))
	b = binary.BigEndian.AppendUint16(b, uint16(actual))
	for range actual {
		b = append(b, fill)
	}
	return b
}

func ssServerSeeds() (sels []uint8, seeds [][]byte) {
	add := func(sel uint8, b []byte) { sels = append(sels, sel); seeds = append(seeds, b) }
	targets := []conn.Addr{
		conn.MustAddrFromDomainPort("example.com", 443),
		conn.AddrFromIPAndPort(netip.MustParseAddr("127.0.0.1"), 0),
		conn.MustAddrFromDomainPort(strings.Repeat("d", 255), 0),
		conn.AddrFromIPAndPort(netip.MustParseAddr("::ffff:10.0.0.1"), 65535),
	}
	for ci, cfg := range []uint8{0, ssM256, ssEIH, ssM256 | ssEIH | ssPrefix, ssSegment | ssFallback} {
		// raw seeds: what the repo's own client puts on the wire
		k := ssKeysFor(cfg)
		var ipsks [][]byte
		psk := k.psk
		if k.eih {
			ipsks, psk = [][]byte{k.psk}, k.upsk
		}
		cc, err := ss2022.NewClientCipherConfig(psk, ipsks, false)
		if err != nil {
			panic(err)
		}
		rec := &scriptClient{record: true}
		scc := ss2022.StreamClientConfig{InnerClient: rec, Addr: conn.AddrFromIPPort(upstream), CipherConfig: cc}
		if cfg&ssPrefix != 0 {
			scc.UnsafeRequestStreamPrefix, scc.UnsafeResponseStreamPrefix = reqPrefix, respPrefix
		}
		c, err := scc.NewStreamClient().DialStream(context.Background(), targets[ci%len(targets)], []byte("hello"))
		if err == nil {
			_, _ = c.Write([]byte("more"))
			var wire []byte
			wire = append(wire, rec.payloads[0]...)
			for _, fr := range rec.conns[0].Written() {
				wire = append(wire, fr...)
			}
			add(cfg|ssRaw, wire)
		}
		// sealed seeds: plaintext from the repo's own header encoders
		for _, ta := range targets {
			add(cfg|ssFixTS|ssFixLen, ssServerPlain(ta, []byte("hi"), 7, cat(chunkRec(5, 5, 'x'), chunkRec(70, 70, 'y'))))
			add(cfg|ssFixTS, ssServerPlain(ta, nil, 1, nil))
		}
		for _, a := range hostileAddrs()[:60] {
			add(cfg|ssFixTS|ssFixLen, ssReq(make([]byte, 11), cat(a, []byte{0, 1, 0}), nil))
			add(cfg|ssFixTS|ssFixLen, ssReq(make([]byte, 11), cat(a, []byte{0, 0}, []byte("payload")), chunkRec(3, 3, 'k')))
		}
	}
	// length fields one or two off in either direction
	for _, a := range [][]byte{socksAddrIP(netip.MustParseAddr("127.0.0.1"), 0), socksAddrDomain("example.com", 443), socksAddrDomain(strings.Repeat("z", 255), 0)} {
		for _, padActual := range []int{0, 1, 2, 900} {
			for delta := -2; delta <= 3; delta++ {
				decl := padActual + delta
				if decl < 0 {
					continue
				}
				vh := cat(a, binary.BigEndian.AppendUint16(nil, uint16(decl)), make([]byte, padActual))
				add(ssFixTS|ssFixLen, ssReq(make([]byte, 11), vh, nil))
				fixed := make([]byte, 11)
				binary.BigEndian.PutUint16(fixed[9:], uint16(max(0, len(vh)+delta)))
				add(ssFixTS, ssReq(fixed, vh, chunkRec(5, 5, 'x'))) // declared header length off by delta
			}
		}
	}
	for delta := -2; delta <= 2; delta++ {
		for _, n := range []int{1, 2, 0xfffe} {
			if n+delta > 0 && n+delta <= 0xffff {
				add(ssFixTS, cat(ssServerPlain(targets[0], []byte("p"), 3, nil), chunkRec(n+delta, n, 'q')))
			}
		}
	}
	ta := targets[0]
	good := ssServerPlain(ta, []byte("p"), 3, nil)
	// hostile constants behind authentication
	add(ssFixTS|ssFixLen, cat(good[:13], nil))                                                     // empty variable header
	add(ssFixTS|ssFixLen, cat(make([]byte, 11), []byte{0, 2}, []byte{1, 1}))                       // truncated address
	add(ssFixTS|ssFixLen, cat(make([]byte, 11), []byte{0, 9}, []byte{1, 1, 2, 3, 4, 0, 80, 0, 0})) // no padding and no payload
	add(ssFixTS|ssFixLen, cat(make([]byte, 11), []byte{0, 10}, []byte{1, 1, 2, 3, 4, 0, 80, 0xff, 0xff, 0}))
	add(ssFixTS|ssFixLen, cat(make([]byte, 11), []byte{0xff, 0xff}, socksAddrDomain(strings.Repeat("z", 255), 0), []byte{0x03, 0x84}, make([]byte, 0xffff)))
	add(ssFixTS, cat(good[:9], []byte{0xff, 0xff}, good[11:])) // declared 65535, sealed less
	add(ssFixTS, cat(good[:9], []byte{0, 0}, good[11:]))       // declared 0
	add(ssFixLen, good)                                        // stale / client timestamp untouched
	add(ssFixTS|ssFixLen, cat([]byte{1}, good[1:]))            // server type
	add(ssFixTS|ssFixLen, cat(good, chunkRec(0, 0, 0)))        // zero length chunk
	add(ssFixTS, cat(good, chunkRec(0xffff, 3, 'q')))          // chunk shorter than declared
	add(ssFixTS, cat(good, chunkRec(1, 900, 'q')))             // chunk longer than declared
	add(ssFixTS|ssFixLen, cat(good, chunkRec(0, 0xffff, 'm'), chunkRec(0, 0xffff, 'n')))
	add(ssRaw, nil)
	add(ssRaw, make([]byte, 16+11+16))
	add(ssRaw|ssFallback, make([]byte, 16+11+16-1))
	add(ssRaw|ssFallback|ssSegment, []byte("GET / HTTP/1.1\r\nHost: fallback\r\n\r\n"))
	add(ssRaw|ssEIH|ssM256, make([]byte, 32+16+11+16))
	add(ssRaw|ssPrefix, cat(reqPrefix, make([]byte, 16+11+16)))
	return
}

func FuzzSS2022Server(f *testing.F) {
	sels, seeds := ssServerSeeds()
	for _, i := range thin(len(seeds), 160) {
		f.Add(sels[i], uint8(i*7), uint16(i%3), seeds[i])
	}
	f.Fuzz(func(t *testing.T, sel, mode uint8, frag uint16, data []byte) {
		oracleSS2022Server(t, sel, mode, frag, data)
	})
}

func newSSStreamServer(sel uint8) (*ss2022.StreamServer, ss2022.UserCipherConfig, ss2022.ServerIdentityCipherConfig, error) {
	k := ssKeysFor(sel)
	cfg := ss2022.StreamServerConfig{AllowSegmentedFixedLengthHeader: sel&ssSegment != 0, RejectPolicy: ss2022.JustClose}
	var (
		ucc ss2022.UserCipherConfig
		icc ss2022.ServerIdentityCipherConfig
		err error
	)
	if k.eih {
		icc, err = ss2022.NewServerIdentityCipherConfig(k.psk, false)
		cfg.IdentityCipherConfig = icc
	} else {
		ucc, err = ss2022.NewUserCipherConfig(k.psk, false)
		cfg.UserCipherConfig = ucc
	}
	if err != nil {
		return nil, ucc, icc, err
	}
	if sel&ssPrefix != 0 {
		cfg.UnsafeRequestStreamPrefix, cfg.UnsafeResponseStreamPrefix = reqPrefix, respPrefix
	}
	if sel&ssFallback != 0 {
		cfg.UnsafeFallbackAddr = conn.MustAddrFromDomainPort("fallback.example", 0)
	}
	s := cfg.NewStreamServer()
	if k.eih {
		suc, err := ss2022.NewServerUserCipherConfig("alice", k.upsk, false)
		if err != nil {
			return nil, ucc, icc, err
		}
		ucc = suc.UserCipherConfig
		s.ReplaceUserLookupMap(ss2022.UserLookupMap{ss2022.PSKHash(k.upsk): suc})
	}
	return s, ucc, icc, nil
}

// ssServerWire turns the fuzz input into the byte stream a client would put on the wire for the server
// configuration sel: raw bytes as they are, or the plaintext structure sealed with the real keys.
// firstLen is the length of the part the protocol requires to arrive in one read.
func ssServerWire(sel uint8, data []byte, ucc ss2022.UserCipherConfig, icc ss2022.ServerIdentityCipherConfig) (wire []byte, firstLen int, err error) {
	k := ssKeysFor(sel)
	firstLen = k.klen + ss2022.TCPRequestFixedLengthHeaderLength + 16
	if k.eih {
		firstLen += ss2022.IdentityHeaderLength
	}
	if sel&ssPrefix != 0 {
		firstLen += len(reqPrefix)
	}
	if sel&ssRaw != 0 {
		return data, firstLen, nil
	}
	rest := data
	fixed := take(&rest, ss2022.TCPRequestFixedLengthHeaderLength)
	vl := min(takeLen(&rest), len(rest))
	vh := rest[:vl]
	rest = rest[vl:]
	if sel&ssFixTS != 0 {
		fixed[0] = ss2022.HeaderTypeClientStream
		binary.BigEndian.PutUint64(fixed[1:], uint64(time.Now().Unix()))
	}
	if sel&ssFixLen != 0 {
		binary.BigEndian.PutUint16(fixed[9:], uint16(vl))
	}
	salt := detSalt(k.klen, data, sel)
	if sel&ssPrefix != 0 {
		wire = append(wire, reqPrefix...)
	}
	wire = append(wire, salt...)
	if k.eih {
		blk, err := icc.TCP(salt)
		if err != nil {
			return nil, 0, err
		}
		h := ss2022.PSKHash(k.upsk)
		ih := make([]byte, 16)
		blk.Encrypt(ih, h[:])
		wire = append(wire, ih...)
	}
	sc, err := ucc.ShadowStreamCipher(salt)
	if err != nil {
		return nil, 0, err
	}
	wire = sc.EncryptAppend(wire, fixed)
	wire = sc.EncryptAppend(wire, vh)
	wire = sealChunks(wire, sc, rest, sel&ssFixLen != 0)
	return wire, firstLen, nil
}

func oracleSS2022Server(t failer, sel, mode uint8, frag uint16, data []byte) (out oracleResult) {
	desc := func() string { return fmt.Sprintf("sel=%#x mode=%#x frag=%#x data=%s", sel, mode, frag, hexs(data)) }
	server, ucc, icc, err := newSSStreamServer(sel)
	if err != nil {
		t.Fatalf("harness: %v", err)
	}
	wire, firstLen, err := ssServerWire(sel, data, ucc, icc)
	if err != nil {
		t.Fatalf("harness: %v", err)
	}
	firstMin := 0
	if frag&0x8000 == 0 {
		firstMin = firstLen // a well-behaved transport delivers the fixed-length header in one read
	}
	srv, _ := hostileConn(wire, frag, firstMin)
	var (
		req  netio.ConnRequest
		herr error
	)
	guard(t, recSSServer, "ss2022-server-handle", desc, func() { req, herr = server.HandleStream(srv, debugLogger()) })
	if herr != nil {
		recSSServer.Case("", false, "rejected")
		return
	}
	if req.PendingConn == nil || !req.Addr.IsValid() {
		t.Fatalf("SIG=C06/ss2022-server-empty-request VERIF-VIOLATION HandleStream returned no error and no request: %s", desc())
	}
	path := "auth"
	if sel&ssFallback != 0 && req.Addr.IsDomain() && req.Addr.Domain() == "fallback.example" {
		path = "fallback"
	}
	res := useAddr(t, recSSServer, "ss2022-server", req.Addr, req.Username, false)
	out = oracleResult{accepted: true, addr: req.Addr, user: req.Username, use: res}
	var n int64
	guard(t, recSSServer, "ss2022-server-tunnel", desc, func() {
		_ = len(req.Payload)
		c, err := req.Proceed()
		if err != nil {
			return
		}
		if mode&4 != 0 {
			_, _ = c.Write([]byte("pong"))
		}
		n = drain(c, mode)
		_, _ = c.Write([]byte("pong"))
		if mode&8 != 0 {
			_, _ = c.Write(make([]byte, 70000))
		}
		if rf, ok := c.(io.ReaderFrom); ok && mode&16 != 0 {
			_, _ = rf.ReadFrom(strings.NewReader(strings.Repeat("r", 70000)))
		}
		_ = c.CloseWrite()
	})
	cls := addrClass(req.Addr)
	labels := []string{"accepted", "path:" + path, "class:" + cls}
	if n > 0 {
		labels = append(labels, "chunks-read")
	}
	recSSServer.Case(fmt.Sprintf("%#x/%s/%s/%d", sel&0x1f, path, cls, mode&3), res.routed > 0, labels...)
	return
}

// ---------------------------------------------------------------- TCP client (first read + stream)

var recSSClient = ev.New(prop, "fuzz-ss2022-client",
	"selector (method, number of iPSKs, segmented header, response prefix, raw|sealed, fix-timestamp, consistent salt/lengths) + read path + "+
		"plaintext structure [response header][len][first chunk][chunk records] + fragmentation -> sealed with the real key -> the real "+
		"ss2022 StreamClient dials an owned conn that serves it; first read and ShadowStreamConn.Read/WriteTo drain it. "+
		"Non-trivial: response header authenticated and payload bytes delivered; distinct key = config + read path")

func ssClientSeeds() (sels []uint8, seeds [][]byte) {
	add := func(sel uint8, b []byte) { sels = append(sels, sel); seeds = append(seeds, b) }
	for _, cfg := range []uint8{0, ssM256, ssEIH, ssM256 | ssPrefix | ssSegment} {
		k := ssKeysFor(cfg)
		hdr := make([]byte, 1+8+k.klen+2)
		ss2022.PutTCPResponseHeader(hdr, time.Now(), make([]byte, k.klen), 5)
		add(cfg|ssFixTS|ssFixLen, cat(hdr, []byte{0, 5}, []byte("hello"), chunkRec(3, 3, 'a'), chunkRec(70, 70, 'b')))
		add(cfg|ssFixTS|ssFixLen, cat(hdr, []byte{0xff, 0xff}, make([]byte, 0xffff), chunkRec(0xffff, 0xffff, 'c')))
		add(cfg|ssFixTS, cat(hdr, []byte{0, 5}, []byte("hello"))) // salt mismatch
		add(cfg|ssFixLen, cat(hdr[:1], make([]byte, 8), hdr[9:], []byte{0, 5}, []byte("hello")))
		hdr0 := append([]byte(nil), hdr...)
		binary.BigEndian.PutUint16(hdr0[len(hdr0)-2:], 0)
		add(cfg|ssFixTS|ssFixSalt, cat(hdr0, []byte{0, 0}))                // zero payload length declared
		add(cfg|ssFixTS|ssFixLen, cat(hdr, []byte{0, 0}))                  // zero payload length, consistent
		add(cfg|ssFixTS|ssFixSalt, cat(hdr, []byte{0, 4}, []byte("hell"))) // declared 5, sealed 4
		add(cfg|ssFixTS|ssFixSalt, cat(hdr, []byte{0, 6}, []byte("hello!")))
		add(cfg|ssFixTS|ssFixLen, cat([]byte{0}, hdr[1:], []byte{0, 5}, []byte("hello")))
		add(cfg|ssFixTS|ssFixLen, cat(hdr, []byte{0, 5}, []byte("hello"), chunkRec(0, 0, 0)))
		add(cfg|ssFixTS, cat(hdr, []byte{0, 9}, []byte("hello")))
		add(cfg|ssFixTS|ssFixLen, cat(hdr, []byte{0, 5}, []byte("he")))
		add(cfg|ssRaw, nil)
		add(cfg|ssRaw, make([]byte, 16+1+8+16+2+16))
		add(cfg|ssRaw, make([]byte, 200))
	}
	return
}

func FuzzSS2022Client(f *testing.F) {
	sels, seeds := ssClientSeeds()
	for i := range seeds {
		f.Add(sels[i], uint8(i), uint16(i%3), seeds[i])
	}
	f.Fuzz(func(t *testing.T, sel, mode uint8, frag uint16, data []byte) {
		oracleSS2022Client(t, sel, mode, frag, data)
	})
}

// ssClientWire is the response stream a server would send for the client's request (whose salt it echoes
// when the consistency bit is set): raw bytes or the plaintext structure sealed with the real key.
func ssClientWire(sel uint8, data, request []byte, cc *ss2022.ClientCipherConfig) []byte {
	if sel&ssRaw != 0 {
		return data
	}
	k := ssKeysFor(sel)
	pfx := 0
	if sel&ssPrefix != 0 {
		pfx = len(reqPrefix)
	}
	rest := data
	hdr := take(&rest, 1+8+k.klen+2)
	pl := min(takeLen(&rest), len(rest))
	first := rest[:pl]
	rest = rest[pl:]
	if sel&ssFixTS != 0 {
		hdr[0] = ss2022.HeaderTypeServerStream
		binary.BigEndian.PutUint64(hdr[1:], uint64(time.Now().Unix()))
	}
	if sel&(ssFixLen|ssFixSalt) != 0 && len(request) >= pfx+k.klen {
		copy(hdr[9:9+k.klen], request[pfx:pfx+k.klen])
	}
	if sel&ssFixLen != 0 {
		binary.BigEndian.PutUint16(hdr[9+k.klen:], uint16(pl))
	}
	var wire []byte
	if sel&ssPrefix != 0 {
		wire = append(wire, respPrefix...)
	}
	salt := detSalt(k.klen, data, sel)
	wire = append(wire, salt...)
	sc, err := cc.ShadowStreamCipher(salt)
	if err != nil {
		return nil
	}
	wire = sc.EncryptAppend(wire, hdr)
	wire = sc.EncryptAppend(wire, first)
	return sealChunks(wire, sc, rest, sel&ssFixLen != 0)
}

func oracleSS2022Client(t failer, sel, mode uint8, frag uint16, data []byte) {
	desc := func() string { return fmt.Sprintf("sel=%#x mode=%#x frag=%#x data=%s", sel, mode, frag, hexs(data)) }
	k := ssKeysFor(sel)
	var ipsks [][]byte
	psk := k.psk
	if k.eih {
		ipsks, psk = [][]byte{k.psk, k.upsk}, k.psk // two identity headers
	}
	cc, err := ss2022.NewClientCipherConfig(psk, ipsks, false)
	if err != nil {
		t.Fatalf("harness: %v", err)
	}
	firstLen := k.klen + 1 + 8 + k.klen + 2 + 16
	if sel&ssPrefix != 0 {
		firstLen += len(respPrefix)
	}
	inner := &scriptClient{frag: frag}
	if frag&0x8000 == 0 {
		inner.firstMin = firstLen
	}
	inner.reply = func(_ int, _ conn.Addr, request []byte) []byte { return ssClientWire(sel, data, request, cc) }
	scc := ss2022.StreamClientConfig{InnerClient: inner, Addr: conn.AddrFromIPPort(upstream), AllowSegmentedFixedLengthHeader: sel&ssSegment != 0, CipherConfig: cc}
	if sel&ssPrefix != 0 {
		scc.UnsafeRequestStreamPrefix, scc.UnsafeResponseStreamPrefix = reqPrefix, respPrefix
	}
	var n int64
	guard(t, recSSClient, "ss2022-client", desc, func() {
		payload := []byte("hello")
		if mode&4 != 0 {
			payload = make([]byte, 70000) // excess payload written through the stream before the first read
		}
		c, err := scc.NewStreamClient().DialStream(context.Background(), conn.MustAddrFromDomainPort("example.com", 443), payload)
		if err != nil {
			return
		}
		n = drain(c, mode)
		_, _ = c.Write([]byte("x"))
		_ = c.Close()
	})
	recSSClient.Case(fmt.Sprintf("%#x/%d", sel&0x0f, mode&3), n > 0, map[bool]string{true: "delivered", false: "rejected"}[n > 0])
}

// ---------------------------------------------------------------- UDP server

var recSSUDPServer = ev.New(prop, "fuzz-ss2022-udp-server",
	"selector (method, single/multi-user, raw|sealed, fix-timestamp) + up to 3 datagrams as plaintext [sid][pid][body...] sealed with the real keys "+
		"-> ss2022 UDPServer.SessionInfo / NewUnpacker / UnpackInPlace in the service's buffer layout (session table keyed by csid as in "+
		"service/udp_session.go), then the target is used, relayed and a reply is packed by NewPacker. "+
		"Non-trivial: a packet authenticated and its address produced and routed; distinct key = config + class + datagram index")

func ssUDPBody(ta conn.Addr, padding int, payload []byte) []byte {
	b := make([]byte, ss2022.UDPClientMessageHeaderFixedLength+padding+socks5.LengthOfAddrFromConnAddr(ta))
	ss2022.PutUDPClientMessageHeader(b, time.Now(), padding, ta)
	return append(b, payload...)
}

func dgram(sid, pid uint64, body []byte) []byte {
	b := binary.BigEndian.AppendUint16(nil, uint16(16+len(body)))
	b = binary.BigEndian.AppendUint64(b, sid)
	b = binary.BigEndian.AppendUint64(b, pid)
	return append(b, body...)
}

// extremeIDs are packet / session ids at the edges of the 64-bit space and of the sliding window's block arithmetic.
var extremeIDs = []uint64{0, 1, 63, 64, 255, 256, 257, 1 << 16, 1<<32 - 1, 1 << 32, 1<<32 + 1, 1 << 48, 1 << 56, 1 << 62, 1<<62 + 1, 1<<63 - 1, 1 << 63, 1<<63 + 1, 1<<64 - 2, 1<<64 - 1}

func ssUDPServerSeeds() (sels []uint8, seeds [][]byte) {
	add := func(sel uint8, b []byte) { sels = append(sels, sel); seeds = append(seeds, b) }
	targets := []conn.Addr{
		conn.MustAddrFromDomainPort("example.com", 53),
		conn.AddrFromIPAndPort(netip.MustParseAddr("127.0.0.1"), 0),
		conn.MustAddrFromDomainPort(strings.Repeat("d", 255), 0),
		conn.AddrFromIPAndPort(netip.MustParseAddr("::ffff:10.0.0.1"), 65535),
	}
	for _, cfg := range []uint8{0, ssM256, ssEIH, ssM256 | ssEIH} {
		// raw: the repo's own client packer
		k := ssKeysFor(cfg)
		var ipsks [][]byte
		psk := k.psk
		if k.eih {
			ipsks, psk = [][]byte{k.psk}, k.upsk
		}
		cc, err := ss2022.NewClientCipherConfig(psk, ipsks, true)
		if err != nil {
			panic(err)
		}
		c := ss2022.NewUDPClient("c", "ip", conn.AddrFromIPPort(upstream), 1500, conn.DefaultUDPClientListenConfig, 0, cc, ss2022.PadAll)
		info, sess, err := c.NewSession(context.Background())
		if err != nil {
			panic(err)
		}
		var raw []byte
		for _, ta := range targets[:2] {
			buf := make([]byte, info.PackerHeadroom.Front+9+info.PackerHeadroom.Rear)
			_, ps, pl, err := sess.Packer.PackInPlace(context.Background(), buf, ta, info.PackerHeadroom.Front, 9)
			if err == nil {
				raw = append(raw, binary.BigEndian.AppendUint16(nil, uint16(pl))...)
				raw = append(raw, buf[ps:ps+pl]...)
			}
		}
		add(cfg|ssRaw, raw)
		for _, ta := range targets {
			add(cfg|ssFixTS, cat(dgram(7, 0, ssUDPBody(ta, 0, []byte("q"))), dgram(7, 1, ssUDPBody(ta, 900, []byte("q"))), dgram(7, 1, ssUDPBody(ta, 0, nil))))
			add(cfg|ssFixTS, cat(dgram(1, 1<<63, ssUDPBody(ta, 3, []byte("q"))), dgram(2, 0, ssUDPBody(ta, 3, []byte("q"))), dgram(1, 0, ssUDPBody(ta, 3, []byte("q")))))
		}
		// truncated / bit-flipped replays of genuine datagrams on an ESTABLISHED session (post-seal damage)
		for _, ta := range []conn.Addr{targets[1], targets[0]} {
			b := ssUDPBody(ta, 0, []byte("q"))
			establishedCutSeeds(func(d []byte) { add(cfg|ssFixTS|ssCutWire, d) }, b, b, 77, 32+len(b)+16)
		}
		// extreme packet ids and session ids behind authentication: single packets and jumps of +-2^k within a session
		body := ssUDPBody(targets[0], 0, []byte("q"))
		for _, id := range extremeIDs {
			add(cfg|ssFixTS, dgram(7, id, body))
			add(cfg|ssFixTS, dgram(id, 3, body))
			add(cfg|ssFixTS, cat(dgram(7, 5, body), dgram(7, id, body), dgram(7, 6, body)))
			add(cfg|ssFixTS, cat(dgram(7, id, body), dgram(7, id+1, body), dgram(7, id-1, body)))
			add(cfg|ssFixTS, cat(dgram(7, 1<<40, body), dgram(7, 1<<40+id, body), dgram(7, 1<<40-id, body)))
		}
		for _, a := range hostileAddrs()[:60] {
			add(cfg|ssFixTS, dgram(9, 0, cat(make([]byte, 9), []byte{0, 0}, a, []byte("x"))))
		}
		add(cfg|ssFixTS, dgram(9, 0, nil))
		add(cfg|ssFixTS, dgram(9, 0, make([]byte, 10)))
		add(cfg|ssFixTS, dgram(9, 0, cat(make([]byte, 9), []byte{0xff, 0xff})))
		add(cfg|ssFixTS, dgram(9, 0, cat(make([]byte, 9), []byte{0, 5}, make([]byte, 5))))
		add(cfg|ssFixTS, dgram(9, 0, cat(make([]byte, 9), []byte{0, 0}, []byte{3, 255, 'a'})))
		add(cfg|ssFixTS, dgram(9, 0, cat([]byte{1}, make([]byte, 8), []byte{0, 0}, []byte{1, 1, 2, 3, 4, 0, 0})))
		add(cfg, dgram(9, 0, cat(make([]byte, 9), []byte{0, 0}, []byte{1, 1, 2, 3, 4, 0, 0}))) // timestamp 0
		add(cfg|ssRaw, []byte{0, 0})
		add(cfg|ssRaw, cat([]byte{0, 15}, make([]byte, 15)))
		add(cfg|ssRaw, cat([]byte{0, 16}, make([]byte, 16)))
		add(cfg|ssRaw, cat([]byte{0, 32}, make([]byte, 32)))
		add(cfg|ssRaw, cat([]byte{0, 47}, make([]byte, 47)))
		add(cfg|ssRaw, cat([]byte{0, 48}, make([]byte, 48), []byte{5, 220}, make([]byte, 1500)))
	}
	return
}

func FuzzSS2022UDPServer(f *testing.F) {
	sels, seeds := ssUDPServerSeeds()
	for _, i := range thin(len(seeds), 160) {
		f.Add(sels[i], seeds[i])
	}
	f.Fuzz(func(t *testing.T, sel uint8, data []byte) { oracleSS2022UDPServer(t, sel, data) })
}

// sealUDP builds a wire packet: block-encrypted separate header, optional identity header, AEAD body.
func sealUDP(blk cipher.Block, aead cipher.AEAD, eih []byte, sid, pid uint64, body []byte) []byte {
	sh := make([]byte, 16)
	ss2022.PutSessionIDAndPacketID(sh, sid, pid)
	out := make([]byte, 16, 16+len(eih)+len(body)+16)
	if eih != nil {
		ih := make([]byte, 16)
		subtle.XORBytes(ih, eih, sh)
		blk.Encrypt(ih, ih)
		out = append(out, ih...)
	}
	out = aead.Seal(out, sh[4:16], body, nil)
	blk.Encrypt(out[:16], sh)
	return out
}

// cutWire applies a post-seal damage header [cut u16][flip position u16][flip mask u8] to a wire packet: what an
// on-path observer can do to a captured genuine datagram without any key (truncate it, flip bits in it).
func cutWire(pkt, hdr []byte) []byte {
	pkt = append([]byte(nil), pkt...)
	if mask := hdr[4]; mask != 0 && len(pkt) > 0 {
		pkt[int(binary.BigEndian.Uint16(hdr[2:]))%len(pkt)] ^= mask
	}
	return pkt[:min(int(binary.BigEndian.Uint16(hdr)), len(pkt))]
}

func cutHdr(cut, flipPos int, mask byte) []byte {
	return []byte{byte(cut >> 8), byte(cut), byte(flipPos >> 8), byte(flipPos), mask}
}

// cutRec is a datagram record for ssCutWire inputs: [len][cut header][sid][pid][body].
func cutRec(cut, flipPos int, mask byte, sid, pid uint64, body []byte) []byte {
	d := dgram(sid, pid, body)[2:]
	rec := cat(cutHdr(cut, flipPos, mask), d)
	return cat(binary.BigEndian.AppendUint16(nil, uint16(len(rec))), rec)
}

// establishedCutSeeds: a genuine first datagram establishes the session, then a further genuine datagram of the same
// session (or the first one again) arrives cut to every length 0..len and, at every length from 16 up, with its last
// byte flipped. wireLen is an upper bound of the sealed packet length.
func establishedCutSeeds(add func(data []byte), first, next []byte, sid uint64, wireLen int) {
	full := func(pid uint64, body []byte) []byte { return cutRec(0xffff, 0, 0, sid, pid, body) }
	for l := 0; l <= wireLen; l++ {
		add(cat(full(0, first), cutRec(l, 0, 0, sid, 1, next)))
		if l >= 16 {
			add(cat(full(0, first), full(1, next), cutRec(l, l-1, 0x80, sid, 2, next)))
		}
		if l%4 == 0 {
			add(cat(full(0, first), cutRec(l, 0, 0, sid, 0, first))) // prefix of the very first datagram (replayed)
		}
	}
}

// ssUDPServerPacket builds one client->server datagram from a plaintext record [sid][pid][body].
func ssUDPServerPacket(sel uint8, pt []byte, ucc ss2022.UserCipherConfig, icc ss2022.ServerIdentityCipherConfig) ([]byte, error) {
	if sel&ssCutWire != 0 {
		hdr := take(&pt, 5)
		pkt, err := ssUDPServerPacket(sel&^ssCutWire, pt, ucc, icc)
		return cutWire(pkt, hdr), err
	}
	if sel&ssRaw != 0 {
		return pt, nil
	}
	k := ssKeysFor(sel)
	if len(pt) < 16 {
		pt = append(append([]byte(nil), pt...), make([]byte, 16-len(pt))...)
	}
	sid, pid := ss2022.ParseSessionIDAndPacketID(pt[:16])
	body := append([]byte(nil), pt[16:]...)
	if sel&ssFixTS != 0 && len(body) >= 9 {
		body[0] = ss2022.HeaderTypeClientPacket
		binary.BigEndian.PutUint64(body[1:], uint64(time.Now().Unix()))
	}
	aead, err := ucc.AEAD(binary.BigEndian.AppendUint64(nil, sid))
	if err != nil {
		return nil, err
	}
	if k.eih {
		h := ss2022.PSKHash(k.upsk)
		return sealUDP(icc.UDP(), aead, h[:], sid, pid, body), nil
	}
	return sealUDP(ucc.Block(), aead, nil, sid, pid, body), nil
}

// ssUDPKeys returns the server-side cipher configurations of configuration sel with UDP enabled.
func ssUDPKeys(sel uint8) (ucc ss2022.UserCipherConfig, icc ss2022.ServerIdentityCipherConfig, suc ss2022.ServerUserCipherConfig, err error) {
	k := ssKeysFor(sel)
	if k.eih {
		if icc, err = ss2022.NewServerIdentityCipherConfig(k.psk, true); err != nil {
			return
		}
		if suc, err = ss2022.NewServerUserCipherConfig("alice", k.upsk, true); err != nil {
			return
		}
		ucc = suc.UserCipherConfig
		return
	}
	ucc, err = ss2022.NewUserCipherConfig(k.psk, true)
	return
}

func oracleSS2022UDPServer(t failer, sel uint8, data []byte) (out oracleResult) {
	desc := func() string { return fmt.Sprintf("sel=%#x data=%s", sel, hexs(data)) }
	k := ssKeysFor(sel)
	var (
		ucc ss2022.UserCipherConfig
		icc ss2022.ServerIdentityCipherConfig
		err error
	)
	var server *ss2022.UDPServer
	if k.eih {
		icc, err = ss2022.NewServerIdentityCipherConfig(k.psk, true)
		if err != nil {
			t.Fatalf("harness: %v", err)
		}
		server = ss2022.NewUDPServer(0, ss2022.UserCipherConfig{}, icc, ss2022.PadPlainDNS)
		suc, err := ss2022.NewServerUserCipherConfig("alice", k.upsk, true)
		if err != nil {
			t.Fatalf("harness: %v", err)
		}
		ucc = suc.UserCipherConfig
		server.ReplaceUserLookupMap(ss2022.UserLookupMap{ss2022.PSKHash(k.upsk): suc})
	} else {
		ucc, err = ss2022.NewUserCipherConfig(k.psk, true)
		if err != nil {
			t.Fatalf("harness: %v", err)
		}
		server = ss2022.NewUDPServer(0, ucc, icc, ss2022.PadAll)
	}
	// service layout (service/server.go UDPRelay): front = max(0, clientPackerFront - serverUnpackerFront)
	info := server.Info()
	hr := zerocopy.UDPRelayHeadroom(relayHeadroomMax(), info.UnpackerHeadroom)
	recvSize := zerocopy.MaxPacketSizeForAddr(1500, netip.IPv4Unspecified())
	type sess struct {
		u    zerocopy.ServerUnpacker
		user string
	}
	table := map[uint64]*sess{}
	src := netip.MustParseAddrPort("127.0.0.1:40000")
	rest := data
	accepted := 0
	var cls string
	for i := 0; i < 3 && len(rest) >= 2; i++ {
		n := min(takeLen(&rest), len(rest), recvSize)
		pt := rest[:n]
		rest = rest[n:]
		pkt, err := ssUDPServerPacket(sel, pt, ucc, icc)
		if err != nil {
			t.Fatalf("harness: %v", err)
		}
		if len(pkt) > recvSize {
			pkt = pkt[:recvSize]
		}
		buf := make([]byte, hr.Front+recvSize+hr.Rear)
		copy(buf[hr.Front:], pkt)
		var (
			ta       conn.Addr
			ps, pl   int
			uerr     error
			username string
			packer   zerocopy.ServerPacker
		)
		guard(t, recSSUDPServer, "ss2022-udp-server-unpack", desc, func() {
			packet := buf[hr.Front : hr.Front+len(pkt)]
			csid, err := server.SessionInfo(packet)
			if err != nil {
				uerr = err
				return
			}
			e := table[csid]
			if e == nil {
				u, user, err := server.NewUnpacker(packet, csid)
				if err != nil {
					uerr = err
					return
				}
				e = &sess{u, user}
			}
			ta, ps, pl, uerr = e.u.UnpackInPlace(buf, src, hr.Front, len(pkt))
			if uerr != nil {
				return
			}
			table[csid] = e
			username = e.user
			if ps < hr.Front || pl < 0 || ps+pl > hr.Front+len(pkt) {
				t.Fatalf("SIG=C06/ss2022-udp-server-bounds VERIF-VIOLATION payload [%d,+%d) outside packet [%d,+%d): %s", ps, pl, hr.Front, len(pkt), desc())
			}
			packer, _ = e.u.NewPacker()
		})
		if uerr != nil || !ta.IsValid() {
			continue
		}
		accepted++
		cls = addrClass(ta)
		out = oracleResult{accepted: true, addr: ta, user: username, use: useAddr(t, recSSUDPServer, "ss2022-udp-server", ta, username, true)}
		// relay the payload in place with each upstream packer exactly where the service would
		relayInPlace(t, recSSUDPServer, desc, buf, ta, ps, pl)
		if packer != nil && ta.IsIP() {
			guard(t, recSSUDPServer, "ss2022-udp-server-reply", desc, func() {
				phr := packer.ServerPackerInfo().Headroom
				rb := make([]byte, phr.Front+pl+phr.Rear)
				_, _, _ = packer.PackInPlace(rb, ta.IPPort(), phr.Front, pl, 1472)
			})
		}
	}
	if accepted == 0 {
		recSSUDPServer.Case("", false, "rejected")
		return
	}
	recSSUDPServer.Case(fmt.Sprintf("%#x/%s/%d", sel&3, cls, accepted), true, "accepted", "class:"+cls, fmt.Sprintf("datagrams:%d", accepted))
	return
}

// relayHeadroomMax is the largest client packer headroom of the upstream clients the harness relays to
// (what service.Config.Manager computes as maxClientPackerHeadroom).
func relayHeadroomMax() zerocopy.Headroom {
	relayOnce.Do(buildRelays)
	h := zerocopy.MaxHeadroom(relayNone.ClientPackerInfo().Headroom, relaySocks5.ClientPackerInfo().Headroom)
	for _, p := range relaySS {
		if p != nil {
			h = zerocopy.MaxHeadroom(h, p.ClientPackerInfo().Headroom)
		}
	}
	return h
}

// relayInPlace packs the unpacked payload towards every upstream protocol in the same buffer, at the
// offsets the server unpacker returned (service/udp_*.go relayServerConnToNatConn*).
func relayInPlace(t failer, rec *ev.Recorder, desc func() string, buf []byte, ta conn.Addr, ps, pl int) {
	packers := []struct {
		name string
		p    zerocopy.ClientPacker
	}{{"none", relayNone}, {"socks5", relaySocks5}, {"ss2022", relaySS[0]}, {"ss2022eih", relaySS[1]}}
	cur := ""
	guard(t, rec, "relay-inplace", func() string { return desc() + " packer=" + cur }, func() {
		for _, pk := range packers {
			cur = pk.name
			b := append([]byte(nil), buf...)
			_, s, l, err := pk.p.PackInPlace(context.Background(), b, ta, ps, pl)
			if err == nil && (s < 0 || l < 0 || s+l > len(b)) {
				t.Fatalf("SIG=C06/relay-bounds VERIF-VIOLATION packer=%s start=%d len=%d buf=%d: %s", pk.name, s, l, len(b), desc())
			}
		}
	})
}

// ---------------------------------------------------------------- UDP client

var recSSUDPClient = ev.New(prop, "fuzz-ss2022-udp-client",
	"selector (method, identity headers, raw|sealed, fix-timestamp, fix client session id) + up to 4 datagrams as plaintext [ssid][spid][body...] "+
		"sealed with the real keys -> the real client session's ShadowPacketClientUnpacker.UnpackInPlace (server session changes included); "+
		"an accepted payload source is re-packed towards the local client by each server packer as the downlink relay does. "+
		"Non-trivial: packet authenticated and source produced; distinct key = config + accepted count")

func ssUDPServerBody(csid uint64, src netip.AddrPort, padding int, payload []byte) []byte {
	b := make([]byte, ss2022.UDPServerMessageHeaderFixedLength+padding+socks5.LengthOfAddrFromAddrPort(src))
	ss2022.PutUDPServerMessageHeader(b, time.Now(), csid, padding, src)
	return append(b, payload...)
}

func ssUDPClientSeeds() (sels []uint8, seeds [][]byte) {
	add := func(sel uint8, b []byte) { sels = append(sels, sel); seeds = append(seeds, b) }
	srcs := []netip.AddrPort{netip.MustParseAddrPort("1.2.3.4:53"), netip.MustParseAddrPort("[2001:db8::1]:0"), netip.MustParseAddrPort("[::ffff:1.2.3.4]:65535"), netip.MustParseAddrPort("0.0.0.0:0")}
	for _, cfg := range []uint8{0, ssM256, ssEIH} {
		for _, s := range srcs {
			add(cfg|ssFixTS|ssFixLen, cat(dgram(5, 0, ssUDPServerBody(0, s, 0, []byte("r"))), dgram(5, 1, ssUDPServerBody(0, s, 900, []byte("r"))), dgram(5, 1, ssUDPServerBody(0, s, 0, nil))))
			add(cfg|ssFixTS|ssFixLen, cat(dgram(5, 0, ssUDPServerBody(0, s, 0, []byte("r"))), dgram(6, 0, ssUDPServerBody(0, s, 1, []byte("r"))), dgram(5, 9, ssUDPServerBody(0, s, 0, nil)), dgram(7, 0, ssUDPServerBody(0, s, 0, nil))))
		}
		for _, src := range srcs[:2] {
			b := ssUDPServerBody(0, src, 0, []byte("r"))
			establishedCutSeeds(func(d []byte) { add(cfg|ssFixTS|ssFixLen|ssCutWire, d) }, b, b, 5, 16+len(b)+16)
		}
		sbody := ssUDPServerBody(0, srcs[0], 0, []byte("r"))
		for _, id := range extremeIDs {
			add(cfg|ssFixTS|ssFixLen, dgram(5, id, sbody))
			add(cfg|ssFixTS|ssFixLen, dgram(id, 3, sbody))
			add(cfg|ssFixTS|ssFixLen, cat(dgram(5, 5, sbody), dgram(5, id, sbody), dgram(5, 6, sbody), dgram(5, id+1, sbody)))
			add(cfg|ssFixTS|ssFixLen, cat(dgram(5, 1<<40, sbody), dgram(5, 1<<40+id, sbody), dgram(5, 1<<40-id, sbody)))
		}
		for _, a := range hostileAddrs()[:60] {
			add(cfg|ssFixTS|ssFixLen, dgram(5, 0, cat(make([]byte, 17), []byte{0, 0}, a, []byte("x"))))
		}
		add(cfg|ssFixTS|ssFixLen, dgram(5, 0, nil))
		add(cfg|ssFixTS|ssFixLen, dgram(5, 0, make([]byte, 18)))
		add(cfg|ssFixTS|ssFixLen, dgram(5, 0, cat(make([]byte, 17), []byte{0xff, 0xff})))
		add(cfg|ssFixTS|ssFixLen, dgram(5, 0, cat(make([]byte, 17), []byte{0, 3}, make([]byte, 3))))
		add(cfg|ssFixTS, dgram(5, 0, ssUDPServerBody(12345, srcs[0], 0, []byte("r")))) // foreign client session id
		add(cfg|ssFixLen, dgram(5, 0, cat(make([]byte, 17), []byte{0, 0}, []byte{1, 1, 2, 3, 4, 0, 0})))
		add(cfg|ssRaw, []byte{0, 0})
		add(cfg|ssRaw, cat([]byte{0, 31}, make([]byte, 31)))
		add(cfg|ssRaw, cat([]byte{0, 32}, make([]byte, 32)))
		add(cfg|ssRaw, cat([]byte{0, 33}, make([]byte, 33), []byte{5, 220}, make([]byte, 1500)))
	}
	return
}

func FuzzSS2022UDPClient(f *testing.F) {
	sels, seeds := ssUDPClientSeeds()
	for _, i := range thin(len(seeds), 160) {
		f.Add(sels[i], seeds[i])
	}
	f.Fuzz(func(t *testing.T, sel uint8, data []byte) { oracleSS2022UDPClient(t, sel, data) })
}

// ssUDPClientPacket builds one server->client datagram from a plaintext record [ssid][spid][body].
func ssUDPClientPacket(sel uint8, pt []byte, csid uint64, cc *ss2022.ClientCipherConfig) ([]byte, error) {
	if sel&ssCutWire != 0 {
		hdr := take(&pt, 5)
		pkt, err := ssUDPClientPacket(sel&^ssCutWire, pt, csid, cc)
		return cutWire(pkt, hdr), err
	}
	if sel&ssRaw != 0 {
		return pt, nil
	}
	if len(pt) < 16 {
		pt = append(append([]byte(nil), pt...), make([]byte, 16-len(pt))...)
	}
	ssid, spid := ss2022.ParseSessionIDAndPacketID(pt[:16])
	body := append([]byte(nil), pt[16:]...)
	if sel&ssFixTS != 0 && len(body) >= 9 {
		body[0] = ss2022.HeaderTypeServerPacket
		binary.BigEndian.PutUint64(body[1:], uint64(time.Now().Unix()))
	}
	if sel&ssFixLen != 0 && len(body) >= 17 {
		binary.BigEndian.PutUint64(body[9:], csid)
	}
	aead, err := cc.AEAD(binary.BigEndian.AppendUint64(nil, ssid))
	if err != nil {
		return nil, err
	}
	return sealUDP(cc.Block(), aead, nil, ssid, spid, body), nil
}

func oracleSS2022UDPClient(t failer, sel uint8, data []byte) {
	desc := func() string { return fmt.Sprintf("sel=%#x data=%s", sel, hexs(data)) }
	k := ssKeysFor(sel)
	var ipsks [][]byte
	psk := k.psk
	if k.eih {
		ipsks, psk = [][]byte{k.psk}, k.upsk
	}
	cc, err := ss2022.NewClientCipherConfig(psk, ipsks, true)
	if err != nil {
		t.Fatalf("harness: %v", err)
	}
	client := ss2022.NewUDPClient("c", "ip", conn.AddrFromIPPort(upstream), 1500, conn.DefaultUDPClientListenConfig, 0, cc, ss2022.PadPlainDNS)
	info, sess, err := client.NewSession(context.Background())
	if err != nil {
		t.Fatalf("harness: %v", err)
	}
	// learn the client session id the way a server does: from a packet the client packs
	probe := make([]byte, info.PackerHeadroom.Front+1+info.PackerHeadroom.Rear)
	_, ps, _, err := sess.Packer.PackInPlace(context.Background(), probe, conn.AddrFromIPPort(upstream), info.PackerHeadroom.Front, 1)
	if err != nil {
		t.Fatalf("harness: %v", err)
	}
	sh := make([]byte, 16)
	cc.UDPSeparateHeaderPackerCipher().Decrypt(sh, probe[ps:ps+16])
	csid := binary.BigEndian.Uint64(sh)

	relayOnce.Do(buildRelays)
	uhr := sess.Unpacker.ClientUnpackerInfo().Headroom
	srvPackers := []zerocopy.ServerPacker{srvPackNone, srvPackSocks5}
	recvSize := sess.MaxPacketSize
	rest := data
	accepted := 0
	for i := 0; i < 4 && len(rest) >= 2; i++ {
		n := min(takeLen(&rest), len(rest), recvSize)
		pt := rest[:n]
		rest = rest[n:]
		pkt, err := ssUDPClientPacket(sel, pt, csid, cc)
		if err != nil {
			t.Fatalf("harness: %v", err)
		}
		if len(pkt) > recvSize {
			pkt = pkt[:recvSize]
		}
		// downlink layout (service/udp_*.go relayNatConnToServerConn*): front = max(0, serverPackerFront - clientUnpackerFront)
		for _, sp := range srvPackers {
			hr := zerocopy.UDPRelayHeadroom(sp.ServerPackerInfo().Headroom, uhr)
			buf := make([]byte, hr.Front+recvSize+hr.Rear)
			copy(buf[hr.Front:], pkt)
			var (
				from   netip.AddrPort
				s, l   int
				uerr   error
				packed bool
			)
			guard(t, recSSUDPClient, "ss2022-udp-client-unpack", desc, func() {
				from, s, l, uerr = sess.Unpacker.UnpackInPlace(buf, upstream, hr.Front, len(pkt))
				if uerr != nil {
					return
				}
				if s < hr.Front || l < 0 || s+l > hr.Front+len(pkt) {
					t.Fatalf("SIG=C06/ss2022-udp-client-bounds VERIF-VIOLATION payload [%d,+%d) outside packet [%d,+%d): %s", s, l, hr.Front, len(pkt), desc())
				}
				_, _, _ = sp.PackInPlace(buf, from, s, l, 1472)
				packed = true
			})
			if packed {
				accepted++
			}
			break // the unpacker is stateful (replay filter): one delivery per datagram
		}
	}
	recSSUDPClient.Case(fmt.Sprintf("%#x/%d", sel&3, accepted), accepted > 0, map[bool]string{true: "accepted", false: "rejected"}[accepted > 0], fmt.Sprintf("datagrams:%d", accepted))
}
