package c06

import (
	"bytes"
	"context"
	"encoding/binary"
	"fmt"
	"net/netip"
	"strings"
	"testing"

	"github.com/database64128/shadowsocks-go/conn"
	"github.com/database64128/shadowsocks-go/direct"
	"github.com/database64128/shadowsocks-go/dns"
	"github.com/database64128/shadowsocks-go/domainset"
	"github.com/database64128/shadowsocks-go/netio"
	"github.com/database64128/shadowsocks-go/portset"
	"github.com/database64128/shadowsocks-go/prefixset"
	"github.com/database64128/shadowsocks-go/ssnone"
	"github.com/database64128/shadowsocks-go/zerocopy"
	"golang.org/x/net/dns/dnsmessage"

	"verif/internal/ev"
)

// ---------------------------------------------------------------- Shadowsocks "none" stream server

var recNone = ev.New(prop, "fuzz-ssnone-server",
	"client byte stream + fragmentation -> ssnone.StreamServer.HandleStream over an owned conn; the target is used and the "+
		"rest of the stream is read through the proceeded connection. Non-trivial: address produced and routed; distinct key = address class")

func ssnoneSeeds() [][]byte {
	var seeds [][]byte
	// the repo's own client encoder
	for _, ta := range []conn.Addr{
		conn.MustAddrFromDomainPort("example.com", 443),
		conn.MustAddrFromDomainPort(strings.Repeat("d", 255), 0),
		conn.AddrFromIPAndPort(netip.MustParseAddr("::ffff:10.0.0.1"), 0),
		{},
	} {
		rec := &scriptClient{record: true}
		c := (&ssnone.StreamClientConfig{InnerClient: rec, Addr: conn.AddrFromIPPort(upstream)}).NewStreamClient()
		if _, err := c.DialStream(context.Background(), ta, []byte("payload")); err == nil {
			seeds = append(seeds, rec.payloads[0])
		}
	}
	for _, a := range hostileAddrs() {
		seeds = append(seeds, cat(a, []byte("tail")))
	}
	return seeds
}

func FuzzSSNoneServer(f *testing.F) {
	seeds := ssnoneSeeds()
	for _, i := range thin(len(seeds), 150) {
		f.Add(uint16(i%3), seeds[i])
	}
	f.Fuzz(func(t *testing.T, frag uint16, data []byte) { oracleSSNone(t, frag, data) })
}

func oracleSSNone(t failer, frag uint16, data []byte) (out oracleResult) {
	desc := func() string { return fmt.Sprintf("frag=%#x data=%s", frag, hexs(data)) }
	srv, _ := hostileConn(data, frag, 0)
	var (
		req  netio.ConnRequest
		herr error
	)
	guard(t, recNone, "ssnone-server-handle", desc, func() { req, herr = ssnone.StreamServer{}.HandleStream(srv, debugLogger()) })
	if herr != nil {
		recNone.Case("", false, "rejected")
		return
	}
	if req.PendingConn == nil || !req.Addr.IsValid() {
		t.Fatalf("SIG=C06/ssnone-server-empty-request VERIF-VIOLATION HandleStream returned no error and no request: %s", desc())
	}
	res := useAddr(t, recNone, "ssnone-server", req.Addr, "", false)
	out = oracleResult{accepted: true, addr: req.Addr, user: "", use: res}
	guard(t, recNone, "ssnone-server-tunnel", desc, func() {
		if frag&0x4000 != 0 {
			_ = req.Abort(conn.DialResult{Code: conn.DialResultCodeEHOSTUNREACH})
			return
		}
		c, err := req.Proceed()
		if err != nil {
			return
		}
		buf := make([]byte, 9)
		for {
			if _, err := c.Read(buf); err != nil {
				break
			}
		}
		_, _ = c.Write([]byte("pong"))
	})
	cls := addrClass(req.Addr)
	recNone.Case(cls, res.routed > 0, "accepted", "class:"+cls)
	return
}

// ---------------------------------------------------------------- direct / none / socks5 packet unpackers

var recPacket = ev.New(prop, "fuzz-packet-unpackers",
	"selector (protocol: socks5 | none | direct; side: server | client; source matches upstream or not) + datagram -> the real "+
		"Unpacker.UnpackInPlace inside the service's buffer layout (headroom formula of service/server.go restated), then: server side - "+
		"target used, payload re-packed in place towards every upstream protocol, reply packed by NewPacker; client side - payload source "+
		"re-packed towards the local client by every server packer. Non-trivial: address produced and routed / re-packed; distinct key = protocol + side + class")

func packetSeeds() (sels []uint8, seeds [][]byte) {
	add := func(sel uint8, b []byte) { sels = append(sels, sel); seeds = append(seeds, b) }
	ctx := context.Background()
	targets := []conn.Addr{
		conn.MustAddrFromDomainPort("example.com", 53),
		conn.MustAddrFromDomainPort(strings.Repeat("d", 255), 0),
		conn.AddrFromIPAndPort(netip.MustParseAddr("::ffff:10.0.0.1"), 0),
		conn.AddrFromIPAndPort(netip.MustParseAddr("2001:db8::1"), 65535),
	}
	// the repo's own client packers (server side input) and server packers (client side input)
	for _, ta := range targets {
		for i, p := range []zerocopy.ClientPacker{direct.NewSocks5PacketClientPacker(upstream, 1472), direct.NewShadowsocksNonePacketClientPacker(upstream, 1472)} {
			hr := p.ClientPackerInfo().Headroom
			buf := make([]byte, hr.Front+5)
			copy(buf[hr.Front:], "hello")
			_, s, l, err := p.PackInPlace(ctx, buf, ta, hr.Front, 5)
			if err == nil {
				add(uint8(i), buf[s:s+l])
			}
		}
		if ta.IsIP() {
			for i, p := range []zerocopy.ServerPacker{direct.Socks5PacketServerPacker{}, direct.ShadowsocksNonePacketServerPacker{}} {
				hr := p.ServerPackerInfo().Headroom
				buf := make([]byte, hr.Front+5)
				copy(buf[hr.Front:], "hello")
				s, l, err := p.PackInPlace(buf, ta.IPPort(), hr.Front, 5, 1472)
				if err == nil {
					add(uint8(i)|4, buf[s:s+l])
					add(uint8(i)|4|8, buf[s:s+l])
				}
			}
		}
	}
	for _, a := range hostileAddrs() {
		add(0, cat([]byte{0, 0, 0}, a, []byte("x")))
		add(1, cat(a, []byte("x")))
		add(4, cat([]byte{0, 0, 0}, a, []byte("x")))
		add(5, cat(a, []byte("x")))
		add(0, cat([]byte{0, 0, 0}, a))
		add(1, a)
	}
	add(0, []byte{0, 0, 1, 1, 1, 2, 3, 4, 0, 0}) // FRAG != 0
	add(0, []byte{0xff, 0xff, 0, 1, 1, 2, 3, 4, 0, 0})
	add(0, []byte{0, 0})
	add(0, []byte{0, 0, 0})
	add(4, []byte{0, 0})
	add(4, []byte{0, 0, 0})
	add(4, []byte{0, 0, 0, 3, 1, 'a', 0, 0})
	add(2, []byte("raw datagram to a direct server"))
	add(6, []byte("raw datagram from a direct upstream"))
	add(2, nil)
	add(6, nil)
	add(1, bytes.Repeat([]byte{3}, 1472))
	add(0, bytes.Repeat([]byte{0}, 1472))
	return
}

func FuzzPacketUnpackers(f *testing.F) {
	sels, seeds := packetSeeds()
	for _, i := range thin(len(seeds), 200) {
		f.Add(sels[i], seeds[i])
	}
	// round 6: short datagrams in reused buffers (bit5), one representative per length and protocol/side
	for i, d := range shortDatagrams() {
		if i%23 == 0 || len(d) >= 7 && i%5 == 0 {
			f.Add(uint8(i%7)|32|uint8(i%3)<<6, d)
		}
	}
	f.Fuzz(func(t *testing.T, sel uint8, data []byte) { oraclePacket(t, sel, data) })
}

// ---- round 6: reused buffers
//
// The relays receive into pooled buffers (service/udp_nat*.go: queued packets from a sync.Pool, one buffer per downlink), so
// after the first packet the bytes behind a datagram are never zero: they are the tail of an earlier - usually valid - packet.
// sel bit5 puts the datagram into such a buffer, and decides the statement "the result is an error or a payload and address
// entirely inside the datagram" in two independent ways:
//   - a model of the wire format written from RFC 1928 section 5/7 (modelPacket): an accepted datagram must contain header and
//     address completely, and the payload must be exactly the rest of it;
//   - a metamorphic relation: the result (accepted or not, address, payload position) must not depend on what lies behind the
//     datagram in the buffer - the same datagram is unpacked again over a 0xAA fill and over a different earlier packet.

// stalePacket is an earlier valid packet of protocol proto (client->server or server->client form) as the relay's buffer still holds it.
func stalePacket(proto string, variant int) []byte {
	var addr []byte
	switch variant % 3 {
	case 0:
		addr = socksAddrIP(netip.MustParseAddr("127.0.0.1"), 8080)
	case 1:
		addr = socksAddrDomain(strings.Repeat("s", 255), 443)
	default:
		addr = socksAddrIP(netip.MustParseAddr("2001:db8::5"), 53)
	}
	tail := bytes.Repeat([]byte("earlier-payload "), 40)
	switch proto {
	case "socks5":
		return cat([]byte{0, 0, 0}, addr, tail)
	case "none":
		return cat(addr, tail)
	}
	return tail
}

// fillStale makes buf[front:] look like a reused receive buffer: fill 0 = an earlier valid packet (variant), fill 1 = 0xAA bytes,
// fill 2 = another earlier valid packet; then the datagram is copied over its beginning.
func fillStale(buf []byte, front int, proto string, clientSide bool, variant, fill int, data []byte) {
	area := buf[front:]
	if len(area) > 1024 {
		area = area[:1024] // the longest header + address is 3+1+1+255+2 bytes; what lies further behind cannot matter
	}
	switch fill {
	case 1:
		for i := range area {
			area[i] = 0xAA
		}
	default:
		v := variant
		if fill == 2 {
			v++
		}
		st := stalePacket(proto, v)
		if clientSide && v%3 == 1 { // server->client packets never carry a name
			st = stalePacket(proto, 0)
		}
		for i := 0; i < len(area); i += len(st) {
			copy(area[i:], st)
		}
		copy(area, st)
	}
	copy(area, data)
}

// modelPacket says, from the wire format alone, whether data can be a complete message of proto and where its payload starts.
func modelPacket(proto string, clientSide bool, data []byte) (payloadOff int, ok bool) {
	hdr := 0
	switch proto {
	case "socks5":
		hdr = 3
	case "none":
	default:
		return 0, true // direct: the datagram is the payload
	}
	if len(data) < hdr+1 {
		return 0, false
	}
	// FRAG (data[2]) is not part of the model: whether fragments are dropped or reassembled is the implementation's choice
	a := data[hdr:]
	var n int
	switch a[0] {
	case 1:
		n = 1 + 4 + 2
	case 4:
		n = 1 + 16 + 2
	case 3:
		if clientSide || len(a) < 2 || a[1] == 0 {
			return 0, false // a reply's source is always an IP address; RFC 1928: the name has 1..255 octets
		}
		n = 1 + 1 + int(a[1]) + 2
	default:
		return 0, false
	}
	if len(a) < n {
		return 0, false
	}
	return hdr + n, true
}

type unpackOutcome struct {
	ok     bool
	addr   string
	ps, pl int
}

// sel: bits0-1 protocol (0 socks5, 1 none, 2/3 direct), bit2 client side, bit3 packet from a foreign source, bit4 direct targetOnly,
// bit5 reused buffer (round 6), bits6-7 variant of the earlier packet in the reused buffer
func oraclePacket(t failer, sel uint8, data []byte) (out oracleResult) {
	desc := func() string { return fmt.Sprintf("sel=%#x data=%s", sel, hexs(data)) }
	proto := []string{"socks5", "none", "direct", "direct"}[sel&3]
	recvSize := zerocopy.MaxPacketSizeForAddr(1500, netip.IPv4Unspecified())
	if len(data) > recvSize {
		data = data[:recvSize]
	}
	if sel&4 == 0 {
		var natServer zerocopy.UDPNATServer
		switch proto {
		case "socks5":
			natServer = direct.Socks5UDPNATServer{}
		case "none":
			natServer = direct.ShadowsocksNoneUDPNATServer{}
		default:
			natServer = direct.NewDirectUDPNATServer(conn.AddrFromIPAndPort(netip.MustParseAddr("127.0.0.1"), 0), sel&16 != 0)
		}
		hr := zerocopy.UDPRelayHeadroom(relayHeadroomMax(), natServer.Info().UnpackerHeadroom)
		buf := make([]byte, hr.Front+recvSize+hr.Rear)
		copy(buf[hr.Front:], data)
		reused := sel&32 != 0
		if reused {
			variant := int(sel >> 6)
			fillStale(buf, hr.Front, proto, false, variant, 0, data)
			var first unpackOutcome
			b2 := make([]byte, len(buf))
			for fill := 0; fill < 3; fill++ {
				fillStale(b2, hr.Front, proto, false, variant, fill, data)
				var got unpackOutcome
				guard(t, recPacket, proto+"-server-unpack", desc, func() {
					u, err := natServer.NewUnpacker()
					if err != nil {
						return
					}
					a, s, l, err := u.UnpackInPlace(b2, netip.MustParseAddrPort("127.0.0.1:40000"), hr.Front, len(data))
					if err == nil {
						got = unpackOutcome{true, a.String(), s - hr.Front, l}
					}
				})
				off, mok := modelPacket(proto, false, data)
				if got.ok && (!mok || got.ps != off || got.pl != len(data)-off) {
					t.Fatalf("SIG=C06/packet-server-beyond-datagram VERIF-VIOLATION %s server unpacker accepted a %d-byte datagram in a reused buffer (fill %d) as target %q payload [%d,+%d); "+
						"by the wire format the datagram is complete=%v with payload offset %d: %s", proto, len(data), fill, got.addr, got.ps, got.pl, mok, off, desc())
				}
				if fill == 0 {
					first = got
				} else if got != first {
					t.Fatalf("SIG=C06/packet-server-depends-on-stale-bytes VERIF-VIOLATION %s server unpacker: the result for a %d-byte datagram depends on the bytes behind it in the buffer: %+v over an earlier packet, %+v with fill %d: %s",
						proto, len(data), first, got, fill, desc())
				}
			}
		}
		var (
			ta     conn.Addr
			ps, pl int
			uerr   error
			packer zerocopy.ServerPacker
		)
		guard(t, recPacket, proto+"-server-unpack", desc, func() {
			u, err := natServer.NewUnpacker()
			if err != nil {
				uerr = err
				return
			}
			ta, ps, pl, uerr = u.UnpackInPlace(buf, netip.MustParseAddrPort("127.0.0.1:40000"), hr.Front, len(data))
			if uerr != nil {
				return
			}
			if ps < hr.Front || pl < 0 || ps+pl > hr.Front+len(data) {
				t.Fatalf("SIG=C06/packet-server-bounds VERIF-VIOLATION payload [%d,+%d) outside packet [%d,+%d): %s", ps, pl, hr.Front, len(data), desc())
			}
			packer, _ = u.NewPacker()
		})
		if uerr != nil || !ta.IsValid() {
			if reused {
				short := "long"
				if len(data) <= 8 {
					short = fmt.Sprintf("short%d", len(data))
					recPacket.Label("reused:short-datagrams", 1)
				}
				// rejecting the datagram over an earlier valid packet is what this mode is about
				recPacket.Case(fmt.Sprintf("reused/%s/server/%s/v%d", proto, short, sel>>6), true, "rejected", "side:server", "reused:rejected", "reused:"+proto+"/server")
				return
			}
			recPacket.Case("", false, "rejected", "side:server")
			return
		}
		res := useAddr(t, recPacket, proto+"-packet-server", ta, "", true)
		out = oracleResult{accepted: true, addr: ta, user: "", use: res}
		relayInPlace(t, recPacket, desc, buf, ta, ps, pl)
		if packer != nil {
			guard(t, recPacket, proto+"-server-reply", desc, func() {
				phr := packer.ServerPackerInfo().Headroom
				rb := make([]byte, phr.Front+pl+phr.Rear)
				for _, from := range []netip.AddrPort{netip.MustParseAddrPort("127.0.0.1:0"), netip.MustParseAddrPort("[::ffff:127.0.0.1]:0"), netip.MustParseAddrPort("[2001:db8::1]:53")} {
					_, _, _ = packer.PackInPlace(rb, from, phr.Front, pl, 1472)
				}
			})
		}
		cls := addrClass(ta)
		labels := []string{"accepted", "side:server", "proto:" + proto, "class:" + cls}
		if reused {
			labels = append(labels, "reused:accepted", "reused:"+proto+"/server")
		}
		recPacket.Case(proto+"/server/"+cls+fmt.Sprint(reused), res.routed > 0, labels...)
		return
	}

	// client side: a datagram arrives on the NAT socket from the upstream proxy (or from anyone else)
	var u zerocopy.ClientUnpacker
	switch proto {
	case "socks5":
		u = direct.NewSocks5PacketClientUnpacker(upstream)
	case "none":
		u = direct.NewShadowsocksNonePacketClientUnpacker(upstream)
	default:
		u = direct.DirectPacketClientUnpacker{}
	}
	from := upstream
	if sel&8 != 0 {
		from = netip.MustParseAddrPort("[::ffff:127.0.0.1]:8388") // same endpoint in mapped form
	}
	if sel&24 == 24 {
		from = netip.MustParseAddrPort("9.9.9.9:0")
	}
	packers := []zerocopy.ServerPacker{direct.Socks5PacketServerPacker{}, direct.ShadowsocksNonePacketServerPacker{},
		direct.NewDirectPacketServerPackUnpacker(conn.MustAddrFromDomainPort("tunnel.example", 53), false)}
	accepted := false
	reused := sel&32 != 0
	if reused {
		variant := int(sel >> 6)
		hr := zerocopy.UDPRelayHeadroom(packers[0].ServerPackerInfo().Headroom, u.ClientUnpackerInfo().Headroom)
		var first unpackOutcome
		b2 := make([]byte, hr.Front+recvSize+hr.Rear)
		for fill := 0; fill < 3; fill++ {
			fillStale(b2, hr.Front, proto, true, variant, fill, data)
			var got unpackOutcome
			guard(t, recPacket, proto+"-client-unpack", desc, func() {
				a, s, l, err := u.UnpackInPlace(b2, from, hr.Front, len(data))
				if err == nil {
					got = unpackOutcome{true, a.String(), s - hr.Front, l}
				}
			})
			off, mok := modelPacket(proto, true, data)
			if got.ok && (!mok || got.ps != off || got.pl != len(data)-off) {
				t.Fatalf("SIG=C06/packet-client-beyond-datagram VERIF-VIOLATION %s client unpacker accepted a %d-byte datagram in a reused buffer (fill %d) as source %q payload [%d,+%d); "+
					"by the wire format the datagram is complete=%v with payload offset %d: %s", proto, len(data), fill, got.addr, got.ps, got.pl, mok, off, desc())
			}
			if fill == 0 {
				first = got
			} else if got != first {
				t.Fatalf("SIG=C06/packet-client-depends-on-stale-bytes VERIF-VIOLATION %s client unpacker: the result for a %d-byte datagram depends on the bytes behind it in the buffer: %+v over an earlier packet, %+v with fill %d: %s",
					proto, len(data), first, got, fill, desc())
			}
		}
	}
	for _, sp := range packers {
		hr := zerocopy.UDPRelayHeadroom(sp.ServerPackerInfo().Headroom, u.ClientUnpackerInfo().Headroom)
		buf := make([]byte, hr.Front+recvSize+hr.Rear)
		copy(buf[hr.Front:], data)
		if reused {
			fillStale(buf, hr.Front, proto, true, int(sel>>6), 0, data)
		}
		guard(t, recPacket, proto+"-client-unpack", desc, func() {
			src, s, l, err := u.UnpackInPlace(buf, from, hr.Front, len(data))
			if err != nil {
				return
			}
			if s < hr.Front || l < 0 || s+l > hr.Front+len(data) {
				t.Fatalf("SIG=C06/packet-client-bounds VERIF-VIOLATION payload [%d,+%d) outside packet [%d,+%d): %s", s, l, hr.Front, len(data), desc())
			}
			ps, pl, err := sp.PackInPlace(buf, src, s, l, 1472)
			if err == nil && (ps < 0 || pl < 0 || ps+pl > len(buf)) {
				t.Fatalf("SIG=C06/packet-client-bounds VERIF-VIOLATION reply [%d,+%d) outside buffer %d: %s", ps, pl, len(buf), desc())
			}
			accepted = true
		})
	}
	if reused {
		short := "long"
		if len(data) <= 8 {
			short = fmt.Sprintf("short%d", len(data))
			recPacket.Label("reused:short-datagrams", 1)
		}
		recPacket.Case(fmt.Sprintf("reused/%s/client/%s/v%d/%v", proto, short, sel>>6, accepted), true, map[bool]string{true: "accepted", false: "rejected"}[accepted],
			"side:client", "proto:"+proto, "reused:"+map[bool]string{true: "accepted", false: "rejected"}[accepted], "reused:"+proto+"/client")
		return
	}
	recPacket.Case(proto+"/client", accepted, map[bool]string{true: "accepted", false: "rejected"}[accepted], "side:client", "proto:"+proto)
	return
}

// shortDatagrams enumerates the datagrams of 0..8 bytes the reused-buffer sweep presents to every unpacker: every string of
// length 0..4 over the bytes that mean something to the parsers (0 = RSV/FRAG, 1/3/4 = ATYP, 0xff = longest name) and, for
// lengths 5..8, every prefix of a valid packet of each address type plus constant fills and "header + ATYP + length" stubs.
func shortDatagrams() [][]byte {
	alpha := []byte{0, 1, 3, 4, 0xff}
	var out [][]byte
	var rec func(prefix []byte, n int)
	rec = func(prefix []byte, n int) {
		out = append(out, append([]byte(nil), prefix...))
		if n == 0 {
			return
		}
		for _, c := range alpha {
			rec(append(prefix, c), n-1)
		}
	}
	rec(nil, 4)
	valid := [][]byte{
		cat([]byte{0, 0, 0}, socksAddrIP(netip.MustParseAddr("127.0.0.1"), 53), []byte("pl")),
		cat([]byte{0, 0, 0}, socksAddrIP(netip.MustParseAddr("::1"), 53)),
		cat([]byte{0, 0, 0}, socksAddrDomain("a", 53), []byte("pl")),
		cat([]byte{0, 0, 0}, socksAddrDomain("abc", 0)),
		cat(socksAddrIP(netip.MustParseAddr("127.0.0.1"), 0), []byte("pl")),
		socksAddrIP(netip.MustParseAddr("::1"), 53),
		cat(socksAddrDomain("a", 65535), []byte("payload")),
		socksAddrDomain("abcdef", 53),
	}
	for l := 5; l <= 8; l++ {
		for _, v := range valid {
			if len(v) >= l {
				out = append(out, v[:l])
			}
		}
		for _, c := range alpha {
			out = append(out, bytes.Repeat([]byte{c}, l))
		}
		for _, stub := range [][]byte{{0, 0, 0, 3, 0xff}, {0, 0, 0, 3, 1}, {0, 0, 0, 3, 0}, {0, 0, 0, 1}, {0, 0, 0, 4}, {3, 0xff}, {3, 1}, {3, 2}, {3, 0}, {1}, {4}, {0, 0, 1, 1}} {
			d := append(append([]byte(nil), stub...), bytes.Repeat([]byte{0x61}, 8)...)
			out = append(out, d[:l])
		}
	}
	return out
}

// ---------------------------------------------------------------- DNS responses

var recDNS = ev.New(prop, "fuzz-dns-response",
	"selector (raw | framed with length prefixes and matching transaction ids) + queried name taken from the wire + two TCP conversations "+
		"of response bytes + fragmentation -> dns.Resolver.Lookup / LookupIP over a scripted TCP client, twice (cache path). "+
		"Non-trivial: at least one response parsed far enough to complete a lookup (result or ErrDomainNoAssociatedIPs); distinct key = mode + outcome")

func dnsMsg(id uint16, name string, typ dnsmessage.Type, rcode dnsmessage.RCode, mut func(*dnsmessage.Message)) []byte {
	n, err := dnsmessage.NewName(name)
	if err != nil {
		n = dnsmessage.MustNewName("x.")
	}
	m := dnsmessage.Message{
		Header:    dnsmessage.Header{ID: id, Response: true, RecursionDesired: true, RecursionAvailable: true, RCode: rcode},
		Questions: []dnsmessage.Question{{Name: n, Type: typ, Class: dnsmessage.ClassINET}},
	}
	if rcode == dnsmessage.RCodeSuccess {
		if typ == dnsmessage.TypeA {
			m.Answers = append(m.Answers, dnsmessage.Resource{Header: dnsmessage.ResourceHeader{Name: n, Type: typ, Class: dnsmessage.ClassINET, TTL: 60}, Body: &dnsmessage.AResource{A: [4]byte{10, 0, 0, 1}}})
		} else {
			m.Answers = append(m.Answers, dnsmessage.Resource{Header: dnsmessage.ResourceHeader{Name: n, Type: typ, Class: dnsmessage.ClassINET, TTL: 0}, Body: &dnsmessage.AAAAResource{AAAA: [16]byte{0x20, 1, 0xd, 0xb8, 15: 1}}})
		}
	} else {
		m.Authorities = append(m.Authorities, dnsmessage.Resource{Header: dnsmessage.ResourceHeader{Name: n, Type: dnsmessage.TypeSOA, Class: dnsmessage.ClassINET, TTL: 1 << 31},
			Body: &dnsmessage.SOAResource{NS: n, MBox: n}})
	}
	if mut != nil {
		mut(&m)
	}
	b, err := m.Pack()
	if err != nil {
		return nil
	}
	return b
}

func framed(msgs ...[]byte) []byte {
	var out []byte
	for _, m := range msgs {
		out = binary.BigEndian.AppendUint16(out, uint16(len(m)))
		out = append(out, m...)
	}
	return out
}

func dnsSeeds() (sels []uint8, names []string, firsts, seconds [][]byte) {
	add := func(sel uint8, name string, a, b []byte) {
		sels = append(sels, sel)
		names = append(names, name)
		firsts = append(firsts, a)
		seconds = append(seconds, b)
	}
	ok4 := dnsMsg(4, "example.com.", dnsmessage.TypeA, dnsmessage.RCodeSuccess, nil)
	ok6 := dnsMsg(6, "example.com.", dnsmessage.TypeAAAA, dnsmessage.RCodeSuccess, nil)
	nx4 := dnsMsg(4, "example.com.", dnsmessage.TypeA, dnsmessage.RCodeNameError, nil)
	nx6 := dnsMsg(6, "example.com.", dnsmessage.TypeAAAA, dnsmessage.RCodeNameError, nil)
	sf := dnsMsg(4, "example.com.", dnsmessage.TypeA, dnsmessage.RCodeServerFailure, nil)
	cname := dnsMsg(4, "example.com.", dnsmessage.TypeA, dnsmessage.RCodeSuccess, func(m *dnsmessage.Message) {
		n := dnsmessage.MustNewName("alias.example.com.")
		m.Answers = append([]dnsmessage.Resource{{Header: dnsmessage.ResourceHeader{Name: n, Type: dnsmessage.TypeCNAME, Class: dnsmessage.ClassINET, TTL: 5}, Body: &dnsmessage.CNAMEResource{CNAME: n}}}, m.Answers...)
	})
	trunc := dnsMsg(6, "example.com.", dnsmessage.TypeAAAA, dnsmessage.RCodeSuccess, func(m *dnsmessage.Message) { m.Header.Truncated = true })
	noRA := dnsMsg(4, "example.com.", dnsmessage.TypeA, dnsmessage.RCodeSuccess, func(m *dnsmessage.Message) { m.Header.RecursionAvailable = false })
	notResp := dnsMsg(4, "example.com.", dnsmessage.TypeA, dnsmessage.RCodeSuccess, func(m *dnsmessage.Message) { m.Header.Response = false })
	add(0, "example.com", framed(ok4, ok6), nil)
	add(0, "example.com", framed(ok6), framed(ok4))
	add(0, "example.com", framed(nx4, nx6), nil)
	add(0, "example.com", framed(sf, ok6), framed(ok4))
	add(0, "example.com", framed(cname, trunc), nil)
	add(0, "example.com", framed(noRA), framed(notResp))
	add(0, "example.com", framed(ok4, ok4, ok4), framed(ok6))
	add(0, "example.com", framed(dnsMsg(5, "example.com.", dnsmessage.TypeA, dnsmessage.RCodeSuccess, nil)), nil)
	add(0, "example.com", framed(dnsMsg(4, "example.com.", dnsmessage.TypeA, dnsmessage.RCode(9), nil)), nil)
	add(0, "example.com", []byte{0, 0}, []byte{0})
	add(0, "example.com", []byte{0xff, 0xff, 1, 2, 3}, nil)
	add(0, "example.com", framed(ok4[:12]), framed(ok4[:len(ok4)-3]))
	add(0, "example.com", framed(cat(ok4[:12], bytes.Repeat([]byte{0xc0, 0x0c}, 40))), nil) // compression pointer loop
	add(0, "example.com", framed(cat(ok4[:6], []byte{0xff, 0xff, 0xff, 0xff, 0xff, 0xff}, ok4[12:])), nil)
	add(0, "example.com", nil, nil)
	for n := 1; n <= 13; n++ { // every header truncation, correctly framed
		add(0, "example.com", framed(ok4[:n]), framed(ok6[:n], ok4))
	}
	for n := 13; n < len(ok4); n += 3 { // truncation inside question / answer
		add(0, "example.com", framed(ok4[:n], ok6), nil)
	}
	// framed mode: the harness adds the length prefix and forces ids 4 and 6 on the two messages of a conversation
	add(1, "example.com", cat(binary.BigEndian.AppendUint16(nil, uint16(len(ok4))), ok4, binary.BigEndian.AppendUint16(nil, uint16(len(ok6))), ok6), nil)
	add(1, "example.com", cat(binary.BigEndian.AppendUint16(nil, uint16(len(cname))), cname, binary.BigEndian.AppendUint16(nil, uint16(len(nx6))), nx6), nil)
	// names as the wire can deliver them to the router's resolver
	for _, n := range []string{"a", strings.Repeat("a", 255), strings.Repeat("a", 254), strings.Repeat("a", 253), strings.Repeat("a", 63) + ".b", strings.Repeat("a", 64) + ".b",
		"", ".", "..", "a..b", "a.", "\x00", "\xff.\xfe", "a b", "127.0.0.1", "*.x", strings.Repeat("a.", 127)} {
		add(0, n, framed(ok4, ok6), nil)
		add(1, n, cat(binary.BigEndian.AppendUint16(nil, uint16(len(ok4))), ok4, binary.BigEndian.AppendUint16(nil, uint16(len(ok6))), ok6), nil)
	}
	return
}

func FuzzDNSResponse(f *testing.F) {
	sels, names, firsts, seconds := dnsSeeds()
	for i := range sels {
		f.Add(sels[i], uint16(i%3), names[i], firsts[i], seconds[i])
	}
	f.Fuzz(func(t *testing.T, sel uint8, frag uint16, name string, first, second []byte) {
		oracleDNS(t, sel, frag, name, first, second)
	})
}

// reframe reads [len u16][bytes] records from b, and re-emits them with correct length prefixes and
// transaction ids 4, 6, 4, 6... so that mutation of the body reaches the resource parsers.
func reframe(b []byte) []byte {
	var out []byte
	ids := []uint16{4, 6}
	for i := 0; len(b) >= 2 && i < 4; i++ {
		n := min(takeLen(&b), len(b))
		m := append([]byte(nil), b[:n]...)
		b = b[n:]
		if len(m) >= 4 {
			binary.BigEndian.PutUint16(m, ids[i%2])
			m[2] |= 0x80 // response
			m[3] |= 0x80 // recursion available
			m[3] &^= 0x0f
		}
		out = append(out, framed(m)...)
	}
	return out
}

func oracleDNS(t failer, sel uint8, frag uint16, name string, first, second []byte) {
	if len(name) > 300 {
		name = name[:300]
	}
	desc := func() string {
		return fmt.Sprintf("sel=%#x frag=%#x name=%q first=%s second=%s", sel, frag, name, hexs(first), hexs(second))
	}
	if sel&1 != 0 {
		first, second = reframe(first), reframe(second)
	}
	tcp := &scriptClient{name: "dns-tcp", frag: frag, reply: func(i int, _ conn.Addr, _ []byte) []byte {
		if i == 0 {
			return first
		}
		return second
	}}
	r := dns.NewResolver("fuzz", 4, netip.MustParseAddrPort("127.0.0.53:53"), tcp, nil, debugLogger())
	outcome := "error"
	guard(t, recDNS, "dns-lookup", desc, func() {
		ctx := context.Background()
		res, err := r.Lookup(ctx, name)
		if err == nil {
			outcome = "result"
			for ip := range res.A() {
				_ = ip.String()
			}
			for ip := range res.AAAA() {
				_ = ip.String()
			}
			_ = res.HasExpired()
		}
		// second lookup: cache hit, expired entry or serve-stale
		ip, err2 := r.LookupIP(ctx, name)
		if err2 == nil && !ip.IsValid() {
			t.Fatalf("SIG=C06/dns-invalid-ip VERIF-VIOLATION LookupIP returned no error and an invalid address: %s", desc())
		}
		if err2 == dns.ErrDomainNoAssociatedIPs {
			outcome = "no-ips"
		}
		_, _ = r.LookupIPs(ctx, name)
	})
	recDNS.Case(fmt.Sprintf("%d/%s", sel&1, outcome), outcome != "error", "outcome:"+outcome)
}

// ---------------------------------------------------------------- text parsers

var recParse = ev.New(prop, "fuzz-parsers",
	"strings -> conn.ParseAddr (the HTTP CONNECT target and Host forms reach it from the wire), portset.PortSet.Parse + every port 0..65535 "+
		"asked of the parsed set in all three representations' entry points, domainset.BuilderFromText + DomainSet.Match of wire names, "+
		"prefixset.PrefixSetFromText + Contains. Set/port/prefix texts are operator files, included because the loaded sets are then probed "+
		"with hostile names and addresses. Non-trivial: input parsed and the result used; distinct key = parser + outcome class")

func parseAddrSeeds() []string {
	return []string{"example.com:443", "example.com:0", "example.com:65535", "example.com:65536", "example.com:-1", "example.com:+1", "example.com:", "example.com", ":80", ":", "",
		"[::1]:0", "[::1]", "[::1%25lo]:80", "[fe80::1%lo]:80", "[::ffff:1.2.3.4]:0", "::1:80", "[:80", "]:80", "[]:80", "1.2.3.4:0", "0:0", "[::1]:80:80",
		strings.Repeat("a", 255) + ":1", strings.Repeat("a", 256) + ":1", strings.Repeat("a.", 127) + "b:0", "a b:80", "\x00:80", "\xff\xfe:80", "*:1", "/:1", "example.com:００"}
}

func FuzzParseAddr(f *testing.F) {
	for _, s := range parseAddrSeeds() {
		f.Add(s)
	}
	f.Fuzz(func(t *testing.T, s string) { oracleParseAddr(t, s) })
}

func oracleParseAddr(t failer, s string) {
	desc := func() string { return fmt.Sprintf("s=%q", s) }
	var (
		a   conn.Addr
		err error
	)
	guard(t, recParse, "conn-ParseAddr", desc, func() {
		a, err = conn.ParseAddr(s)
		var u conn.Addr
		_ = u.UnmarshalText([]byte(s))
	})
	if err != nil {
		recParse.Case("", false, "parseaddr:rejected")
		return
	}
	if !a.IsValid() {
		t.Fatalf("SIG=C06/parseaddr-zero VERIF-VIOLATION ParseAddr(%q) returned no error and the zero address", s)
	}
	res := useAddr(t, recParse, "parse-addr", a, "", len(s)%2 == 0)
	cls := addrClass(a)
	recParse.Case("parseaddr/"+cls, res.routed > 0, "parseaddr:accepted", "class:"+cls)
}

func portSetSeeds() []string {
	return []string{"80", "1-65535", "1-65534", "2-65535", "0", "0-1", "1-0", "65535", "65536", "1,2,3", "1-2,4-5", portRanges(16), portRanges(17), "1,,2", ",", "-", "1-", "-1", "1-2-3", " 1", "1 ", "+1", "0x10", "１", "63-64", "64-65", "65535-65535", "1-1", strings.Repeat("1,", 1000) + "1"}
}

func FuzzPortSetParse(f *testing.F) {
	for _, s := range portSetSeeds() {
		f.Add(s)
	}
	f.Fuzz(func(t *testing.T, s string) { oraclePortSet(t, s) })
}

func oraclePortSet(t failer, s string) {
	desc := func() string { return fmt.Sprintf("s=%q", s) }
	var (
		ps  portset.PortSet
		err error
	)
	guard(t, recParse, "portset-Parse", desc, func() { err = ps.Parse(s) })
	if err != nil {
		recParse.Case("", false, "portset:rejected")
		return
	}
	guard(t, recParse, "portset-use", desc, func() {
		_ = ps.Count()
		_ = ps.RangeCount()
		rs := ps.RangeSet()
		_ = ps.First()
		// ports 1..65535 are the documented domain of PortSet.Contains; the range set has no such restriction
		for _, p := range []uint16{1, 2, 63, 64, 65, 127, 128, 1023, 1024, 32767, 32768, 65534, 65535} {
			_ = ps.Contains(p)
			_ = rs.Contains(p)
		}
		_ = rs.Contains(0)
	})
	recParse.Case("portset/"+fmt.Sprint(min(ps.RangeCount(), 18)), ps.Count() > 0, "portset:accepted")
}

func domainSetSeeds() (texts, probes []string) {
	add := func(t, p string) { texts = append(texts, t); probes = append(probes, p) }
	for _, p := range []string{"example.com", "a.example.com", "exact.example", "a", "", ".", "..", "com", "com.", "x", ".x", "ad1.tracker.x", strings.Repeat("a", 255), "\x00", "\xff\xfe", "EXAMPLE.COM", "a..b.example.com", ".example.com", "example.com."} {
		add(domainSetText, p)
		add("suffix:\nsuffix:.\nsuffix:..\nsuffix:a.\nsuffix:.a\ndomain:\nkeyword:\nregexp:\n", p)
		add("regexp:(\nsuffix:a\n", p)
		add("regexp:^(a+)+$\nkeyword:a\n", p)
	}
	add("", "a")
	add("#\n", "a")
	add("# shadowsocks-go domain set capacity hint 1 1 1 1 DSKR\n", "a")
	add("# shadowsocks-go domain set capacity hint 1 1 1 DSKR\ndomain:a\n", "a")
	add("# shadowsocks-go domain set capacity hint -1 1 1 1 DSKR\ndomain:a\n", "a")
	add("# shadowsocks-go domain set capacity hint 1 1 1 1 XXXX\ndomain:a\n", "a")
	add("domain:a\r\nsuffix:b\r\n\r\nkeyword:c", "a")
	add("keyword", "a")
	add("keywor:x\n", "a")
	add("keyworx:x\n", "a")
	add("domain:a\nbogus\n", "a")
	return
}

func FuzzDomainSet(f *testing.F) {
	texts, probes := domainSetSeeds()
	for i := range texts {
		f.Add(texts[i], probes[i])
	}
	f.Fuzz(func(t *testing.T, text, probe string) { oracleDomainSet(t, text, probe) })
}

// bigHint reports a capacity hint line asking for more than a million entries: an operator-supplied
// allocation size, not network input, and not something this property is about.
func bigHint(text string) bool {
	const p = "capacity hint "
	i := strings.Index(text, p)
	if i < 0 {
		return false
	}
	run := 0
	for _, c := range text[i+len(p):] {
		switch {
		case c >= '0' && c <= '9':
			run++
			if run > 6 {
				return true
			}
		case c == '\n':
			return false
		default:
			run = 0
		}
	}
	return false
}

func oracleDomainSet(t failer, text, probe string) {
	if len(text) > 4096 || bigHint(text) {
		recParse.Case("", false, "domainset:skipped")
		return
	}
	if len(probe) > 255 {
		probe = probe[:255]
	}
	desc := func() string { return fmt.Sprintf("text=%q probe=%q", text, probe) }
	var (
		ds  domainset.DomainSet
		err error
	)
	guard(t, recParse, "domainset-load", desc, func() {
		var b domainset.Builder
		b, err = domainset.BuilderFromText(text)
		if err != nil {
			return
		}
		ds, err = b.DomainSet()
		if err != nil {
			return
		}
		// gob round trip as the converter / "gob" set type do
		var buf bytes.Buffer
		if b.WriteGob(&buf) == nil {
			if b2, err2 := domainset.BuilderFromGob(&buf); err2 == nil {
				if ds2, err3 := b2.DomainSet(); err3 == nil {
					ds = append(ds, ds2...)
				}
			}
		}
	})
	if err != nil {
		recParse.Case("", false, "domainset:rejected")
		return
	}
	// the network-facing part: names from the wire (any bytes, 1..255 long) are matched against the loaded set
	guard(t, recParse, "domainset-match", desc, func() {
		for _, p := range []string{probe, "a." + probe, probe + ".", strings.ToUpper(probe)} {
			if len(p) == 0 || len(p) > 255 {
				continue
			}
			_ = ds.Match(p)
		}
	})
	recParse.Case("domainset/"+fmt.Sprint(min(len(ds), 9)), len(probe) > 0, "domainset:accepted")
}

func prefixSetSeeds() []string {
	return []string{prefixSetText, "", "#", "10.0.0.0/8", "10.0.0.0/33", "10.0.0.0/-1", "10.0.0.0", "::/0", "::/129", "::ffff:1.2.3.4/96", "::ffff:1.2.3.4/128", "fe80::1%lo/64", "1.2.3.4/08", "0.0.0.0/0\n::/0\n", "10.0.0.1/8\n10.0.0.0/8\n", "a/8", "/8", "1.2.3.4/", "\r\n10.0.0.0/8\r\n\r\n"}
}

func FuzzPrefixSet(f *testing.F) {
	for _, s := range prefixSetSeeds() {
		f.Add(s, []byte{10, 0, 0, 1})
		f.Add(s, []byte{0, 0, 0, 0, 0, 0, 0, 0, 0, 0, 0xff, 0xff, 10, 0, 0, 1})
	}
	f.Fuzz(func(t *testing.T, text string, ip []byte) { oraclePrefixSet(t, text, ip) })
}

func oraclePrefixSet(t failer, text string, ip []byte) {
	if len(text) > 4096 {
		return
	}
	desc := func() string { return fmt.Sprintf("text=%q ip=%x", text, ip) }
	var addr netip.Addr
	switch {
	case len(ip) >= 16:
		addr = netip.AddrFrom16([16]byte(ip[:16]))
	case len(ip) >= 4:
		addr = netip.AddrFrom4([4]byte(ip[:4]))
	default:
		addr = netip.IPv4Unspecified()
	}
	ok := false
	guard(t, recParse, "prefixset", desc, func() {
		s, err := prefixset.PrefixSetFromText(text)
		if err != nil {
			return
		}
		// router criteria ask with the unmapped address (router/route.go); the raw form is asked too
		_ = s.Contains(addr.Unmap())
		_ = s.Contains(addr)
		_ = prefixset.PrefixSetToText(s)
		ok = true
	})
	recParse.Case("prefixset", ok, map[bool]string{true: "prefixset:accepted", false: "prefixset:rejected"}[ok])
}
