package c06

import (
	"net/netip"
	"testing"
)

func TestDbg(t *testing.T) {
	s := netip.MustParseAddrPort("1.2.3.4:53")
	d := cat(dgram(5, 0, ssUDPServerBody(0, s, 0, []byte("r"))), dgram(6, 0, ssUDPServerBody(0, s, 1, []byte("r"))), dgram(5, 9, ssUDPServerBody(0, s, 0, nil)), dgram(7, 0, ssUDPServerBody(0, s, 0, nil)))
	oracleSS2022UDPClient(t, ssFixTS|ssFixLen, d)
}
