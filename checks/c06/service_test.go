package c06

import (
	"context"
	"encoding/base64"
	"encoding/binary"
	"encoding/hex"
	"encoding/json"
	"errors"
	"fmt"
	"io"
	"net"
	"net/netip"
	"os"
	"path/filepath"
	"sort"
	"strconv"
	"strings"
	"sync"
	"sync/atomic"
	"testing"
	"time"

	"github.com/database64128/shadowsocks-go/conn"
	"github.com/database64128/shadowsocks-go/httpproxy"
	"github.com/database64128/shadowsocks-go/netio"
	"github.com/database64128/shadowsocks-go/service"
	"github.com/database64128/shadowsocks-go/socks5"
	"github.com/database64128/shadowsocks-go/ss2022"
	"github.com/database64128/shadowsocks-go/zerocopy"
	"go.uber.org/zap"
	"pgregory.net/rapid"

	"verif/internal/ev"
)

// Service level: a real service.Config (JSON) -> Manager -> Run on loopback with socks5 (plain and
// username/password), http (plain and basic auth), none, ss2022 (single-user aes-128, multi-user aes-256,
// fallback) and direct listeners, TCP and UDP, UDP in both batch modes, upstream clients pointing at a
// harness-owned hostile proxy (socks5 / http / ss2022 / none client reply parsing inside the service) and
// a plain DNS resolver pointing at a harness-owned hostile DNS server. A canary SOCKS5 tunnel to an echo
// server must keep echoing after every hostile input; a panic in any service goroutine kills this binary,
// so the plan of each case is journaled before it is executed (TestReplayService re-runs a journal).

var recSvc = ev.New(prop, "service-hostile",
	"rapid: batches of 20 operations against one long-lived service.Manager on loopback: hostile TCP streams (seed-corpus messages and well-formed requests for "+
		"boundary addresses, mutated, re-chunked, closed/half-closed/reset/left open) to every TCP listener; hostile datagrams to every UDP listener (batch modes no and sendmmsg); "+
		"requests routed to upstream clients whose server is the harness answering with hostile replies (socks5/http/ss2022 TCP, socks5/none/ss2022 UDP); requests whose route "+
		"needs a DNS lookup answered by hostile DNS-over-TCP replies. After every operation the canary tunnel must echo; after every batch a fresh SOCKS5 CONNECT, a direct-server "+
		"connection and a UDP exchange must work. Non-trivial: the operation reached a listener and (for via/dns) the hostile upstream was actually consulted; distinct key = kind + listener + build + close mode").
	Require("kind:http-origin", "origin-consulted", "reused:server-shorts", "reused:client-shorts").
	Require("kind:trunc", "kind:tcp", "kind:udp", "kind:via-tcp", "kind:via-udp", "kind:dns", "kind:flood", "flood:route-reject", "upstream-consulted", "dns-consulted",
		"udp-batch:no", "udp-batch:sendmmsg", "proto:s5", "proto:http", "proto:none", "proto:ss128", "proto:ss256", "proto:ssfb", "proto:direct")

// ---- plan (journaled as JSON)

type svcOp struct {
	Kind      string   `json:"kind"`            // tcp | udp | via-tcp | via-udp | dns | trunc | flood | http-origin
	Listener  string   `json:"listener"`        // key into env.ports
	Build     string   `json:"build"`           // raw | ss-tcp | ss-udp
	Sel       uint8    `json:"sel,omitempty"`   // ss2022 builder selector
	Data      []string `json:"data"`            // hex: stream (one entry) or datagrams
	Cuts      []int    `json:"cuts,omitempty"`  // stream chunk boundaries
	Close     string   `json:"close,omitempty"` // close | half | rst | linger
	Reply     string   `json:"reply,omitempty"` // hex: hostile upstream / DNS reply
	ReplyMode string   `json:"replyMode,omitempty"`
	ReplySel  uint8    `json:"replySel,omitempty"`
	Note      string   `json:"note,omitempty"`
	Shorts    []string `json:"shorts,omitempty"`  // trunc (round 6): hex datagrams of 0..8 bytes, each sent right after a genuine datagram on the same socket
	FloodMs   int      `json:"floodMs,omitempty"` // flood: duration
	Sockets   int      `json:"sockets,omitempty"` // flood: number of source sockets
}

type svcPlan struct {
	Type   string  `json:"type"` // "service-plan"
	Bitmap bool    `json:"bitmapRoute"`
	Ops    []svcOp `json:"ops"`
}

// ---- environment

type evilTCP struct {
	ln     *net.TCPListener
	mu     sync.Mutex
	script func(request []byte) []byte
	hits   atomic.Int64
}

func (e *evilTCP) setScript(f func([]byte) []byte) { e.mu.Lock(); e.script = f; e.mu.Unlock() }

func (e *evilTCP) serve() {
	for {
		c, err := e.ln.Accept()
		if err != nil {
			return
		}
		go func() {
			defer c.Close()
			e.hits.Add(1)
			_ = c.SetDeadline(time.Now().Add(3 * time.Second))
			buf := make([]byte, 70000)
			n, _ := c.Read(buf)
			e.mu.Lock()
			f := e.script
			e.mu.Unlock()
			if f != nil {
				_, _ = c.Write(f(buf[:n]))
			}
			_ = c.SetReadDeadline(time.Now().Add(150 * time.Millisecond))
			_, _ = io.Copy(io.Discard, c)
		}()
	}
}

type evilUDP struct {
	c      *net.UDPConn
	mu     sync.Mutex
	script func(request []byte) [][]byte
	hits   atomic.Int64
}

func (e *evilUDP) setScript(f func([]byte) [][]byte) { e.mu.Lock(); e.script = f; e.mu.Unlock() }

func (e *evilUDP) serve() {
	buf := make([]byte, 65536)
	for {
		n, from, err := e.c.ReadFromUDPAddrPort(buf)
		if err != nil {
			return
		}
		e.hits.Add(1)
		e.mu.Lock()
		f := e.script
		e.mu.Unlock()
		if f == nil {
			continue
		}
		for i, d := range f(append([]byte(nil), buf[:n]...)) {
			_, _ = e.c.WriteToUDPAddrPort(d, from)
			if i%32 == 31 {
				time.Sleep(time.Millisecond) // long reply sequences: do not overrun the receiving socket's buffer
			}
		}
	}
}

type svcEnv struct {
	ports   map[string]int
	echoTCP *net.TCPListener
	echoUDP *net.UDPConn
	evil    *evilTCP
	evilU   *evilUDP
	evilDNS *evilTCP
	cancel  context.CancelFunc
	done    chan bool
	bitmap  bool
	dir     string

	canary    net.Conn
	canaryCtr uint64
	lingering []net.Conn
	udpCan    map[string]*udpCanary
	failure   error
	failed    bool // a canary already reported a violation: do not spend the Stop bound as well

	ucc128 ss2022.UserCipherConfig
	ucc256 ss2022.UserCipherConfig
	icc256 ss2022.ServerIdentityCipherConfig
	ccEvil *ss2022.ClientCipherConfig
}

var tcpListeners = []string{"s5/tcp", "s5auth/tcp", "http/tcp", "httpauth/tcp", "none/tcp", "ss128/tcp", "ss256/tcp", "ssfb/tcp", "direct/tcp"}
var udpListeners = []string{"s5/udp", "s5/udpmm", "none/udp", "none/udpmm", "ss128/udp", "ss128/udpmm", "ss256/udp", "direct/udp", "direct/udpmm"}

// evil route ports: a request to 127.0.0.1:<port> is routed to the upstream client named by the route
const (
	portEvilS5   = 7001
	portEvilHTTP = 7002
	portEvilSS   = 7003
	portEvilNone = 7004
	portDNS      = 7005
	portDeadS5   = 7006  // routed to a SOCKS5 upstream whose TCP port is closed: every UDP session creation fails
	portDeadNone = 7007  // routed to an ss-none upstream whose name does not resolve
	portRejected = 20005 // inside the "few-ranges" route whose client is "reject"
)

func freePorts(n int) ([]int, error) {
	var ports []int
	var held []io.Closer
	defer func() {
		for _, h := range held {
			h.Close()
		}
	}()
	for len(ports) < n {
		l, err := net.ListenTCP("tcp4", &net.TCPAddr{IP: net.IPv4(127, 0, 0, 1)})
		if err != nil {
			return nil, err
		}
		p := l.Addr().(*net.TCPAddr).Port
		u, err := net.ListenUDP("udp4", &net.UDPAddr{IP: net.IPv4(127, 0, 0, 1), Port: p})
		if err != nil {
			l.Close()
			continue
		}
		held = append(held, l, u)
		ports = append(ports, p)
	}
	return ports, nil
}

func b64(b []byte) string { return base64.StdEncoding.EncodeToString(b) }

func startService(bitmap bool) (*svcEnv, error) {
	env := &svcEnv{ports: map[string]int{}, bitmap: bitmap, done: make(chan bool, 1)}
	base := os.Getenv("VERIF_WORK")
	if base == "" {
		base = os.TempDir()
	}
	dir, err := os.MkdirTemp(base, "c06-svc-")
	if err != nil {
		return nil, err
	}
	env.dir = dir
	// harness-owned peers
	// echo peers: TCP and UDP on the same port number (the direct server has one tunnelRemoteAddress for both)
	for try := 0; ; try++ {
		if env.echoTCP, err = net.ListenTCP("tcp4", &net.TCPAddr{IP: net.IPv4(127, 0, 0, 1)}); err != nil {
			return nil, err
		}
		env.echoUDP, err = net.ListenUDP("udp4", &net.UDPAddr{IP: net.IPv4(127, 0, 0, 1), Port: env.echoTCP.Addr().(*net.TCPAddr).Port})
		if err == nil {
			break
		}
		env.echoTCP.Close()
		if try > 20 {
			return nil, err
		}
	}
	go func() {
		for {
			c, err := env.echoTCP.Accept()
			if err != nil {
				return
			}
			go func() { defer c.Close(); _, _ = io.Copy(c, c) }()
		}
	}()
	go func() {
		buf := make([]byte, 65536)
		for {
			n, from, err := env.echoUDP.ReadFromUDPAddrPort(buf)
			if err != nil {
				return
			}
			_, _ = env.echoUDP.WriteToUDPAddrPort(buf[:n], from)
		}
	}()
	mkEvil := func() (*evilTCP, error) {
		l, err := net.ListenTCP("tcp4", &net.TCPAddr{IP: net.IPv4(127, 0, 0, 1)})
		if err != nil {
			return nil, err
		}
		e := &evilTCP{ln: l}
		go e.serve()
		return e, nil
	}
	if env.evil, err = mkEvil(); err != nil {
		return nil, err
	}
	if env.evilDNS, err = mkEvil(); err != nil {
		return nil, err
	}
	eu, err := net.ListenUDP("udp4", &net.UDPAddr{IP: net.IPv4(127, 0, 0, 1)})
	if err != nil {
		return nil, err
	}
	env.evilU = &evilUDP{c: eu}
	go env.evilU.serve()

	names := append(append([]string(nil), tcpListeners...), udpListeners...)
	ports, err := freePorts(len(names) + 1)
	if err != nil {
		return nil, err
	}
	for i, n := range names {
		env.ports[n] = ports[i]
	}
	closedPort := ports[len(names)] // bound and released: nothing listens there
	addr := func(k string) string { return fmt.Sprintf("127.0.0.1:%d", env.ports[k]) }
	tl := func(k string) []any { return []any{map[string]any{"network": "tcp4", "address": addr(k)}} }
	ul := func(nat string, ks ...string) []any {
		var out []any
		for _, k := range ks {
			mode := "no"
			if strings.HasSuffix(k, "mm") {
				mode = "sendmmsg"
			}
			out = append(out, map[string]any{"network": "udp4", "address": addr(k), "batchMode": mode, "natTimeout": nat})
		}
		return out
	}
	echoT := env.echoTCP.Addr().String()
	evilT := env.evil.ln.Addr().String()
	evilUAddr := env.evilU.c.LocalAddr().String()

	upskPath := filepath.Join(dir, "upsks.json")
	if err := os.WriteFile(upskPath, []byte(fmt.Sprintf(`{"alice": %q}`, b64(key32(77)))), 0o644); err != nil {
		return nil, err
	}
	users := []any{map[string]any{"username": "alice", "password": "secret"}, map[string]any{"username": "u", "password": "p"}}
	servers := []any{
		map[string]any{"name": "s5", "protocol": "socks5", "mtu": 1500, "tcpListeners": tl("s5/tcp"), "udpListeners": ul("3s", "s5/udp", "s5/udpmm")},
		map[string]any{"name": "s5auth", "protocol": "socks5", "tcpListeners": tl("s5auth/tcp"), "socks5": map[string]any{"users": users, "enableUserPassAuth": true}},
		map[string]any{"name": "http", "protocol": "http", "tcpListeners": tl("http/tcp")},
		map[string]any{"name": "httpauth", "protocol": "http", "tcpListeners": tl("httpauth/tcp"), "http": map[string]any{"users": users, "enableBasicAuth": true}},
		map[string]any{"name": "none", "protocol": "none", "mtu": 1500, "tcpListeners": tl("none/tcp"), "udpListeners": ul("3s", "none/udp", "none/udpmm")},
		map[string]any{"name": "ss128", "protocol": "2022-blake3-aes-128-gcm", "mtu": 1500, "psk": b64(key16(1)), "tcpListeners": tl("ss128/tcp"), "udpListeners": ul("60s", "ss128/udp", "ss128/udpmm")},
		map[string]any{"name": "ss256", "protocol": "2022-blake3-aes-256-gcm", "mtu": 1500, "psk": b64(key32(1)), "uPSKStorePath": upskPath, "paddingPolicy": "PadAll", "tcpListeners": tl("ss256/tcp"), "udpListeners": ul("60s", "ss256/udp")},
		map[string]any{"name": "ssfb", "protocol": "2022-blake3-aes-128-gcm", "psk": b64(key16(1)), "unsafeFallbackAddress": echoT, "rejectPolicy": "JustClose", "tcpListeners": tl("ssfb/tcp")},
		map[string]any{"name": "direct", "protocol": "direct", "mtu": 1500, "tunnelRemoteAddress": echoT, "tcpListeners": tl("direct/tcp"), "udpListeners": ul("3s", "direct/udp", "direct/udpmm")},
	}
	clients := []any{
		map[string]any{"name": "direct", "protocol": "direct", "enableTCP": true, "enableUDP": true, "mtu": 1500},
		map[string]any{"name": "evil-s5", "protocol": "socks5", "endpoint": evilT, "enableTCP": true, "enableUDP": true, "mtu": 1500},
		map[string]any{"name": "evil-http", "protocol": "http", "endpoint": evilT, "enableTCP": true},
		map[string]any{"name": "evil-ss", "protocol": "2022-blake3-aes-128-gcm", "tcpAddress": evilT, "udpAddress": evilUAddr, "psk": b64(key16(1)), "enableTCP": true, "enableUDP": true, "mtu": 1500},
		map[string]any{"name": "evil-none", "protocol": "none", "tcpAddress": evilT, "udpAddress": evilUAddr, "enableTCP": true, "enableUDP": true, "mtu": 1500},
		map[string]any{"name": "dead-s5", "protocol": "socks5", "endpoint": fmt.Sprintf("127.0.0.1:%d", closedPort), "enableTCP": true, "enableUDP": true, "mtu": 1500},
		map[string]any{"name": "dead-none", "protocol": "none", "endpoint": "nxdomain.test:9", "enableTCP": true, "enableUDP": true, "mtu": 1500},
	}
	routes := []any{
		map[string]any{"name": "to-evil-s5", "toPorts": []int{portEvilS5}, "client": "evil-s5"},
		map[string]any{"name": "to-evil-http", "network": "tcp", "toPorts": []int{portEvilHTTP}, "client": "evil-http"},
		map[string]any{"name": "to-evil-ss", "toPorts": []int{portEvilSS}, "client": "evil-ss"},
		map[string]any{"name": "to-evil-none", "toPorts": []int{portEvilNone}, "client": "evil-none"},
		map[string]any{"name": "to-dead-s5", "toPorts": []int{portDeadS5}, "client": "dead-s5"},
		map[string]any{"name": "to-dead-none", "toPorts": []int{portDeadNone}, "client": "dead-none"},
		map[string]any{"name": "resolved", "toPorts": []int{portDNS}, "toPrefixes": []string{"10.0.0.0/8"}, "resolver": "evildns", "client": "reject"},
		map[string]any{"name": "few-ranges", "toPortRanges": "20000-20010,20020-20030", "client": "reject"},
	}
	if bitmap {
		// the cell of DESIGN §6: more than 16 port ranges -> bitmap representation; any request to port 0 consults it
		routes = append(routes, map[string]any{"name": "many-ranges", "toPortRanges": portRanges(17), "client": "reject"})
	}
	doc := map[string]any{
		"servers": servers,
		"clients": clients,
		"dns":     []any{map[string]any{"name": "evildns", "addrPort": env.evilDNS.ln.Addr().String(), "tcpClientName": "direct", "cacheSize": 4}},
		"router":  map[string]any{"defaultTCPClientName": "direct", "defaultUDPClientName": "direct", "routes": routes},
	}
	raw, err := json.Marshal(doc)
	if err != nil {
		return nil, err
	}
	var cfg service.Config
	if err := json.Unmarshal(raw, &cfg); err != nil {
		return nil, fmt.Errorf("config JSON: %w", err)
	}
	logger := zap.NewNop()
	if lp := os.Getenv("VERIF_C06_SVC_LOG"); lp != "" { // development aid: see what the service made of the traffic
		zc := zap.NewDevelopmentConfig()
		zc.OutputPaths, zc.ErrorOutputPaths = []string{lp}, []string{lp}
		if l, err := zc.Build(); err == nil {
			logger = l
		}
	}
	m, err := cfg.Manager(logger)
	if err != nil {
		return nil, fmt.Errorf("Manager: %w", err)
	}
	ctx, cancel := context.WithCancel(context.Background())
	env.cancel = cancel
	go func() { env.done <- m.Run(ctx) }()
	// wait until every TCP listener accepts
	deadline := time.Now().Add(10 * time.Second)
	for _, k := range tcpListeners {
		for {
			select {
			case ok := <-env.done:
				env.done <- ok
				return nil, fmt.Errorf("Manager.Run returned %v during start-up (port collision?)", ok)
			default:
			}
			c, err := net.DialTimeout("tcp4", addr(k), time.Second)
			if err == nil {
				c.Close()
				break
			}
			if time.Now().After(deadline) {
				cancel()
				return nil, fmt.Errorf("listener %s did not come up: %v", k, err)
			}
			time.Sleep(20 * time.Millisecond)
		}
	}
	if env.ucc128, err = ss2022.NewUserCipherConfig(key16(1), true); err != nil {
		return nil, err
	}
	if env.ucc256, env.icc256, _, err = ssUDPKeys(ssM256 | ssEIH); err != nil {
		return nil, err
	}
	if env.ccEvil, err = ss2022.NewClientCipherConfig(key16(1), nil, true); err != nil {
		return nil, err
	}
	return env, nil
}

// stopBound bounds Manager.Run's return after cancellation. Every relay's Stop forces its sockets' deadlines into
// the past; observed values are tens of milliseconds. The ss2022 NAT timeout in this configuration is 60 s, so a Stop
// that waits for a session to idle out cannot hide below the bound either.
const stopBound = 30 * time.Second

// stop shuts the service down. A Stop that does not return is a violation of C06 (nobody is served any more and the
// process cannot even be restarted cleanly), reported through t unless a canary already failed.
func (env *svcEnv) stop(t interface{ Errorf(string, ...any) }) {
	for _, c := range env.lingering {
		c.Close()
	}
	if env.canary != nil {
		env.canary.Close()
	}
	for _, uc := range env.udpCan {
		uc.close()
	}
	if env.cancel != nil {
		env.cancel()
		bound := stopBound
		if env.failed {
			bound = time.Second
		}
		start := time.Now()
		select {
		case <-env.done:
			recSvc.Extra("last_stop_ms", time.Since(start).Milliseconds())
		case <-time.After(bound):
			if !env.failed && t != nil {
				t.Errorf("SIG=C06/service-stop-did-not-return VERIF-VIOLATION Manager.Run had not returned %s after its context was cancelled", bound)
			}
		}
	}
	env.echoTCP.Close()
	env.echoUDP.Close()
	env.evil.ln.Close()
	env.evilDNS.ln.Close()
	env.evilU.c.Close()
	os.RemoveAll(env.dir)
}

// ---- canary

func socks5Connect(proxy string, target []byte, timeout time.Duration) (net.Conn, error) {
	c, err := net.DialTimeout("tcp4", proxy, timeout)
	if err != nil {
		return nil, err
	}
	_ = c.SetDeadline(time.Now().Add(timeout))
	if _, err := c.Write(cat([]byte{5, 1, 0, 5, 1, 0}, target)); err != nil {
		c.Close()
		return nil, err
	}
	rep := make([]byte, 2+10)
	if _, err := io.ReadFull(c, rep); err != nil {
		c.Close()
		return nil, fmt.Errorf("reading SOCKS5 replies: %w", err)
	}
	if rep[1] != 0 || rep[3] != 0 {
		c.Close()
		return nil, fmt.Errorf("SOCKS5 refused: % x", rep)
	}
	_ = c.SetDeadline(time.Time{})
	return c, nil
}

func (env *svcEnv) echoTarget() []byte {
	return socksAddrIP(netip.MustParseAddr("127.0.0.1"), uint16(env.echoTCP.Addr().(*net.TCPAddr).Port))
}

func echoOnce(c net.Conn, ctr *uint64, timeout time.Duration) error {
	*ctr++
	msg := binary.BigEndian.AppendUint64([]byte("canary:"), *ctr)
	_ = c.SetDeadline(time.Now().Add(timeout))
	if _, err := c.Write(msg); err != nil {
		return err
	}
	got := make([]byte, len(msg))
	if _, err := io.ReadFull(c, got); err != nil {
		return err
	}
	if string(got) != string(msg) {
		return fmt.Errorf("echo mismatch: sent %x got %x", msg, got)
	}
	return nil
}

// canaryTick is run after every hostile operation: the long-lived TCP tunnel and one UDP exchange through every UDP
// listener (socks5 / none / ss2022-128 / ss2022-256 / direct, both batch modes), each with a bounded wait.
func (env *svcEnv) canaryTick() error {
	if env.failed { // already reported: the instance is dead for the rest of the process (keeps shrinking fast)
		return env.failure
	}
	if err := env.canaryTunnel(); err != nil {
		env.failed, env.failure = true, err
		return err
	}
	if err := env.udpCanaries(); err != nil {
		env.failed, env.failure = true, err
		return err
	}
	return nil
}

// canaryTunnel checks the long-lived tunnel; one reconnect is allowed per failure before it counts.
func (env *svcEnv) canaryTunnel() error {
	proxy := fmt.Sprintf("127.0.0.1:%d", env.ports["s5/tcp"])
	var first error
	for attempt := 0; attempt < 2; attempt++ {
		if env.canary == nil {
			c, err := socks5Connect(proxy, env.echoTarget(), 10*time.Second)
			if err != nil {
				if first == nil {
					first = err
				}
				time.Sleep(500 * time.Millisecond)
				continue
			}
			env.canary = c
		}
		err := echoOnce(env.canary, &env.canaryCtr, 10*time.Second)
		if err == nil {
			if attempt > 0 {
				return fmt.Errorf("long-lived canary tunnel was lost (%v) although a new one works", first)
			}
			return nil
		}
		if first == nil {
			first = err
		}
		env.canary.Close()
		env.canary = nil
	}
	return fmt.Errorf("canary dead: %v", first)
}

// ---- one UDP canary session per UDP listener

type udpCanary struct {
	key   string
	kind  string // none | s5 | direct | ss
	env   *svcEnv
	conn  *net.UDPConn
	info  zerocopy.UDPClientSessionInfo
	sess  zerocopy.UDPClientSession
	ctr   uint64
	since time.Time
}

func (u *udpCanary) close() {
	if u.conn != nil {
		u.conn.Close()
		u.conn = nil
	}
}

// open (re)creates the canary's socket and, for ss2022, a fresh client session with the real client code.
func (u *udpCanary) open() error {
	u.close()
	port := u.env.ports[u.key]
	c, err := net.DialUDP("udp4", nil, &net.UDPAddr{IP: net.IPv4(127, 0, 0, 1), Port: port})
	if err != nil {
		return err
	}
	u.conn = c
	u.since = time.Now()
	if u.kind == "ss" {
		var cc *ss2022.ClientCipherConfig
		if strings.HasPrefix(u.key, "ss256") {
			cc, err = ss2022.NewClientCipherConfig(key32(77), [][]byte{key32(1)}, true)
		} else {
			cc, err = ss2022.NewClientCipherConfig(key16(1), nil, true)
		}
		if err != nil {
			return err
		}
		srv := conn.AddrFromIPAndPort(netip.MustParseAddr("127.0.0.1"), uint16(port))
		cl := ss2022.NewUDPClient("canary", "ip", srv, 1500, conn.DefaultUDPClientListenConfig, 0, cc, ss2022.NoPadding)
		u.info, u.sess, err = cl.NewSession(context.Background())
		if err != nil {
			return err
		}
	}
	return nil
}

// exchange sends one echo request through the listener and waits for its reply, resending every 250 ms (UDP may drop,
// in particular right after a flood) until the bound expires.
func (u *udpCanary) exchange(bound time.Duration) error {
	if u.conn == nil {
		if err := u.open(); err != nil {
			return err
		}
	}
	u.ctr++
	payload := []byte(fmt.Sprintf("udp-canary %s #%d", u.key, u.ctr))
	echo := u.env.echoUDP.LocalAddr().(*net.UDPAddr).AddrPort()
	target := socksAddrIP(echo.Addr(), echo.Port())
	listener := netip.AddrPortFrom(netip.MustParseAddr("127.0.0.1"), uint16(u.env.ports[u.key]))
	deadline := time.Now().Add(bound)
	rbuf := make([]byte, 65536)
	for time.Now().Before(deadline) {
		var pkt []byte
		switch u.kind {
		case "none":
			pkt = cat(target, payload)
		case "s5":
			pkt = cat([]byte{0, 0, 0}, target, payload)
		case "direct":
			pkt = payload
		default:
			hr := u.info.PackerHeadroom
			buf := make([]byte, hr.Front+len(payload)+hr.Rear)
			copy(buf[hr.Front:], payload)
			_, ps, pl, err := u.sess.Packer.PackInPlace(context.Background(), buf, conn.AddrFromIPPort(echo), hr.Front, len(payload))
			if err != nil {
				return fmt.Errorf("canary packer: %w", err)
			}
			pkt = buf[ps : ps+pl]
		}
		_, _ = u.conn.Write(pkt)
		wait := time.Now().Add(250 * time.Millisecond)
		for {
			_ = u.conn.SetReadDeadline(wait)
			n, err := u.conn.Read(rbuf)
			if err != nil {
				break
			}
			got := rbuf[:n]
			if u.kind == "ss" {
				_, s, l, err := u.sess.Unpacker.UnpackInPlace(rbuf, listener, 0, n)
				if err != nil {
					continue
				}
				got = rbuf[s : s+l]
			}
			if len(got) >= len(payload) && string(got[len(got)-len(payload):]) == string(payload) {
				return nil
			}
		}
	}
	return fmt.Errorf("no echo through %s within %s", u.key, bound)
}

// udpCanaryBound: a healthy exchange takes a fraction of a millisecond. One miss is retried with a fresh socket and
// (ss2022) a fresh client session before it counts.
const udpCanaryBound = 12 * time.Second

func (env *svcEnv) udpCanaries() error {
	if env.udpCan == nil {
		env.udpCan = map[string]*udpCanary{}
		for _, k := range udpListeners {
			kind := strings.SplitN(k, "/", 2)[0]
			if strings.HasPrefix(kind, "ss") {
				kind = "ss"
			}
			env.udpCan[k] = &udpCanary{key: k, kind: kind, env: env}
		}
	}
	for _, k := range udpListeners {
		u := env.udpCan[k]
		err := u.exchange(udpCanaryBound)
		if err != nil {
			if oerr := u.open(); oerr != nil {
				return oerr
			}
			if err2 := u.exchange(udpCanaryBound); err2 != nil {
				return fmt.Errorf("listener %s stalled: %v; with a fresh socket and session: %v", k, err, err2)
			}
		}
	}
	return nil
}

// tcpListenerCanaries opens a fresh session through every TCP listener kind with the repo's own client code.
func (env *svcEnv) tcpListenerCanaries() error {
	echoAP := env.echoTCP.Addr().(*net.TCPAddr).AddrPort()
	echo := conn.AddrFromIPPort(echoAP)
	var ctr uint64 = 1 << 40
	dial := func(k string) (*net.TCPConn, error) {
		c, err := net.DialTimeout("tcp4", fmt.Sprintf("127.0.0.1:%d", env.ports[k]), 10*time.Second)
		if err != nil {
			return nil, err
		}
		_ = c.SetDeadline(time.Now().Add(10 * time.Second))
		return c.(*net.TCPConn), nil
	}
	for _, k := range tcpListeners {
		c, err := dial(k)
		if err != nil {
			return fmt.Errorf("%s: %w", k, err)
		}
		var tun netio.Conn = c
		switch strings.SplitN(k, "/", 2)[0] {
		case "s5":
			err = socks5.ClientConnect(c, echo)
		case "s5auth":
			err = socks5.ClientConnectUsernamePassword(c, socks5.UserInfo{Username: "alice", Password: "secret"}.AppendAuthMsg(nil), echo)
		case "http":
			tun, err = httpproxy.ClientConnect(c, echo, "")
		case "httpauth":
			tun, err = httpproxy.ClientConnect(c, echo, "\r\nProxy-Authorization: Basic "+b64([]byte("alice:secret")))
		case "none":
			_, err = c.Write(socksAddrIP(echoAP.Addr(), echoAP.Port()))
		case "ss128", "ss256":
			var cc *ss2022.ClientCipherConfig
			if k == "ss256/tcp" {
				cc, err = ss2022.NewClientCipherConfig(key32(77), [][]byte{key32(1)}, false)
			} else {
				cc, err = ss2022.NewClientCipherConfig(key16(1), nil, false)
			}
			if err == nil {
				inner := &fixedConnClient{c: c}
				tun, err = (&ss2022.StreamClientConfig{Name: "canary", InnerClient: inner, CipherConfig: cc}).NewStreamClient().DialStream(context.Background(), echo, nil)
			}
		case "ssfb":
			// unauthenticated bytes are forwarded to the fallback address (the echo peer) as they are
		case "direct":
		}
		if err == nil {
			err = echoOnce(tun, &ctr, 10*time.Second)
		}
		c.Close()
		if err != nil {
			return fmt.Errorf("fresh session through %s: %w", k, err)
		}
	}
	return nil
}

// fixedConnClient hands out one already established connection (and writes the initial payload to it).
type fixedConnClient struct{ c netio.Conn }

func (f *fixedConnClient) NewStreamDialer() (netio.StreamDialer, netio.StreamDialerInfo) {
	return f, netio.StreamDialerInfo{Name: "fixed"}
}

func (f *fixedConnClient) DialStream(ctx context.Context, addr conn.Addr, payload []byte) (netio.Conn, error) {
	if len(payload) > 0 {
		if _, err := f.c.Write(payload); err != nil {
			return nil, err
		}
	}
	return f.c, nil
}

// canaryFull also opens fresh sessions through other listeners, TCP and UDP.
func (env *svcEnv) canaryFull() error {
	if err := env.canaryTick(); err != nil {
		return err
	}
	var ctr uint64 = 1 << 32
	// fresh SOCKS5 CONNECT
	c, err := socks5Connect(fmt.Sprintf("127.0.0.1:%d", env.ports["s5/tcp"]), env.echoTarget(), 10*time.Second)
	if err != nil {
		return fmt.Errorf("fresh SOCKS5 CONNECT: %w", err)
	}
	err = echoOnce(c, &ctr, 10*time.Second)
	c.Close()
	if err != nil {
		return fmt.Errorf("fresh SOCKS5 echo: %w", err)
	}
	// direct server
	d, err := net.DialTimeout("tcp4", fmt.Sprintf("127.0.0.1:%d", env.ports["direct/tcp"]), 10*time.Second)
	if err != nil {
		return fmt.Errorf("direct server dial: %w", err)
	}
	err = echoOnce(d, &ctr, 10*time.Second)
	d.Close()
	if err != nil {
		return fmt.Errorf("direct server echo: %w", err)
	}
	// a fresh session through every TCP listener kind
	if err := env.tcpListenerCanaries(); err != nil {
		env.failed, env.failure = true, err
		return err
	}
	return nil
}

// ---- executing operations

func unhex(s string) []byte { b, _ := hex.DecodeString(s); return b }

func (env *svcEnv) buildStream(op svcOp) []byte {
	if op.Kind == "http-origin" {
		// a well-formed plain request (form op.Sel) for the harness-owned hostile origin; its port is only known at run time
		host := env.evil.ln.Addr().String()
		req := strings.ReplaceAll(originForms[op.Sel&7], "example.com", host)
		if strings.HasPrefix(op.Listener, "httpauth") {
			if op.Sel&7 == 5 {
				req = strings.Replace(req, "\r\n\r\n", "\r\n"+basic("alice", "secret")+"\r\n", 1)
			} else {
				req = strings.ReplaceAll(req, "\r\nHost: "+host+"\r\n", "\r\nHost: "+host+"\r\n"+basic("alice", "secret"))
			}
		}
		return []byte(req)
	}
	data := unhex(op.Data[0])
	if op.Build != "ss-tcp" {
		return data
	}
	var wire []byte
	switch {
	case strings.HasPrefix(op.Listener, "ss256"):
		wire, _, _ = ssServerWire(ssM256|ssEIH|op.Sel&(ssRaw|ssFixTS|ssFixLen), data, env.ucc256, env.icc256)
	default:
		wire, _, _ = ssServerWire(op.Sel&(ssRaw|ssFixTS|ssFixLen), data, env.ucc128, ss2022.ServerIdentityCipherConfig{})
	}
	return wire
}

func (env *svcEnv) buildDatagrams(op svcOp) [][]byte {
	var out [][]byte
	for _, h := range op.Data {
		d := unhex(h)
		if op.Build == "ss-udp" {
			var pkt []byte
			if strings.HasPrefix(op.Listener, "ss256") {
				pkt, _ = ssUDPServerPacket(ssM256|ssEIH|op.Sel&(ssRaw|ssFixTS), d, env.ucc256, env.icc256)
			} else {
				pkt, _ = ssUDPServerPacket(op.Sel&(ssRaw|ssFixTS), d, env.ucc128, ss2022.ServerIdentityCipherConfig{})
			}
			d = pkt
		}
		if len(d) > 60000 {
			d = d[:60000]
		}
		out = append(out, d)
	}
	return out
}

func (env *svcEnv) installReply(op svcOp) {
	reply := unhex(op.Reply)
	switch op.ReplyMode {
	case "ss-tcp":
		env.evil.setScript(func(req []byte) []byte {
			return ssClientWire(op.ReplySel&(ssRaw|ssFixTS|ssFixLen|ssFixSalt), reply, req, env.ccEvil)
		})
	default:
		env.evil.setScript(func([]byte) []byte { return reply })
	}
	env.evilDNS.setScript(func([]byte) []byte { return reply })
	switch op.ReplyMode {
	case "seq", "assoc-seq":
		// round 6: a sequence of reply datagrams ([len u16][bytes] records) - genuine replies alternating with datagrams of 0..8
		// bytes - so that each short one lands in the session's receive buffer right behind an earlier valid packet
		var seq [][]byte
		nshort := int64(0)
		for rest := reply; len(rest) >= 2; {
			n := min(takeLen(&rest), len(rest))
			seq = append(seq, rest[:n])
			if n <= 8 {
				nshort++
			}
			rest = rest[n:]
		}
		if op.ReplyMode == "assoc-seq" {
			ap := env.evilU.c.LocalAddr().(*net.UDPAddr).AddrPort()
			env.evil.setScript(func([]byte) []byte { return cat([]byte{5, 0, 5, 0, 0}, socksAddrIP(ap.Addr(), ap.Port())) })
		}
		env.evilU.setScript(func([]byte) [][]byte {
			recSvc.Label("reused:client-shorts", nshort)
			return seq
		})
	case "assoc": // a well-formed UDP ASSOCIATE reply pointing at the hostile UDP peer, which answers with the reply bytes
		ap := env.evilU.c.LocalAddr().(*net.UDPAddr).AddrPort()
		env.evil.setScript(func([]byte) []byte { return cat([]byte{5, 0, 5, 0, 0}, socksAddrIP(ap.Addr(), ap.Port())) })
		env.evilU.setScript(func([]byte) [][]byte { return [][]byte{reply, reply} })
	case "ss-udp":
		env.evilU.setScript(func(req []byte) [][]byte {
			if len(req) < 16 {
				return nil
			}
			sh := make([]byte, 16)
			env.ccEvil.UDPSeparateHeaderPackerCipher().Decrypt(sh, req[:16])
			csid := binary.BigEndian.Uint64(sh)
			var out [][]byte
			rest := reply
			for i := 0; i < 3 && len(rest) >= 2; i++ {
				n := min(takeLen(&rest), len(rest))
				pkt, err := ssUDPClientPacket(op.ReplySel&(ssRaw|ssFixTS|ssFixLen), rest[:n], csid, env.ccEvil)
				rest = rest[n:]
				if err == nil {
					out = append(out, pkt)
				}
			}
			return out
		})
	default:
		env.evilU.setScript(func([]byte) [][]byte { return [][]byte{reply} })
	}
}

// run executes one operation; it reports whether a listener was reached and whether the hostile upstream was consulted.
func (env *svcEnv) run(op svcOp) (reached, consulted bool) {
	port, ok := env.ports[op.Listener]
	if !ok {
		return
	}
	evilBefore := env.evil.hits.Load() + env.evilU.hits.Load() + env.evilDNS.hits.Load()
	if strings.HasPrefix(op.Kind, "via") || op.Kind == "dns" || op.Kind == "http-origin" {
		env.installReply(op)
	}
	switch op.Kind {
	case "tcp", "via-tcp", "dns", "http-origin":
		c, err := net.DialTimeout("tcp4", fmt.Sprintf("127.0.0.1:%d", port), 5*time.Second)
		if err != nil {
			return
		}
		reached = true
		tc := c.(*net.TCPConn)
		stream := env.buildStream(op)
		_ = tc.SetWriteDeadline(time.Now().Add(3 * time.Second))
		prev := 0
		cuts := append(append([]int(nil), op.Cuts...), len(stream))
		sort.Ints(cuts)
		for _, cut := range cuts {
			cut = min(max(cut, prev), len(stream))
			if cut > prev {
				if _, err := tc.Write(stream[prev:cut]); err != nil {
					break
				}
				prev = cut
				if len(cuts) > 1 {
					time.Sleep(time.Millisecond)
				}
			}
		}
		wait := 40 * time.Millisecond
		if op.Kind != "tcp" {
			wait = 400 * time.Millisecond // the service talks to the hostile upstream in the meantime
		}
		switch op.Close {
		case "linger":
			env.lingering = append(env.lingering, tc)
		case "rst":
			_ = tc.SetLinger(0)
			tc.Close()
		case "half":
			_ = tc.CloseWrite()
			_ = tc.SetReadDeadline(time.Now().Add(wait + 100*time.Millisecond))
			_, _ = io.Copy(io.Discard, tc)
			tc.Close()
		default:
			_ = tc.SetReadDeadline(time.Now().Add(wait))
			_, _ = io.Copy(io.Discard, tc)
			tc.Close()
		}
	case "trunc":
		// truncated replay on an established session: the first datagram is genuine and establishes the session (ss2022:
		// session id; socks5/none/direct: source address); then every prefix 0..len of the following genuine datagrams and
		// of the first one is sent from the same socket, and every prefix from 16 bytes up once more with its last byte flipped.
		pkts := env.buildDatagrams(op)
		if len(pkts) == 0 {
			return
		}
		u, err := net.DialUDP("udp4", nil, &net.UDPAddr{IP: net.IPv4(127, 0, 0, 1), Port: port})
		if err != nil {
			return
		}
		reached = true
		_, _ = u.Write(pkts[0])
		order := append(append([][]byte(nil), pkts[1:]...), pkts[0])
		sent := int64(1)
		for _, p := range order {
			for l := 0; l <= len(p); l++ {
				_, _ = u.Write(p[:l])
				sent++
				if l >= 16 {
					f := append([]byte(nil), p[:l]...)
					f[l-1] ^= 0x80
					_, _ = u.Write(f)
					sent++
				}
				if sent%64 == 0 {
					time.Sleep(time.Millisecond) // do not overrun the listener's socket buffer: every prefix should be looked at
				}
			}
		}
		// round 6: datagrams of 0..8 bytes, each right after a genuine datagram from the same socket: the listener's pooled
		// receive buffers hold valid packets of this very session when the short ones arrive
		for i, h := range op.Shorts {
			_, _ = u.Write(pkts[i%len(pkts)])
			_, _ = u.Write(unhex(h))
			sent += 2
			if i%32 == 31 {
				time.Sleep(time.Millisecond)
			}
		}
		recSvc.Label("reused:server-shorts", int64(len(op.Shorts)))
		recSvc.Label("trunc-datagrams", sent)
		_ = u.SetReadDeadline(time.Now().Add(30 * time.Millisecond))
		buf := make([]byte, 65536)
		for {
			if _, err := u.Read(buf); err != nil {
				break
			}
		}
		u.Close()
	case "flood":
		pkts := env.buildDatagrams(op)
		if len(pkts) == 0 {
			return
		}
		n := min(max(op.Sockets, 1), 4)
		deadline := time.Now().Add(time.Duration(min(max(op.FloodMs, 50), 5000)) * time.Millisecond)
		var wg sync.WaitGroup
		var sent atomic.Int64
		for i := 0; i < n; i++ {
			u, err := net.DialUDP("udp4", nil, &net.UDPAddr{IP: net.IPv4(127, 0, 0, 1), Port: port})
			if err != nil {
				continue
			}
			reached = true
			wg.Go(func() {
				defer u.Close()
				for k := 0; k < 400000; k++ {
					if k&255 == 0 && time.Now().After(deadline) {
						return
					}
					if _, err := u.Write(pkts[k%len(pkts)]); err == nil { // ECONNREFUSED / ENOBUFS are expected now and then
						sent.Add(1)
					}
				}
			})
		}
		wg.Wait()
		recSvc.Label("flood-datagrams", sent.Load())
	case "udp", "via-udp":
		u, err := net.DialUDP("udp4", nil, &net.UDPAddr{IP: net.IPv4(127, 0, 0, 1), Port: port})
		if err != nil {
			return
		}
		reached = true
		for _, d := range env.buildDatagrams(op) {
			_, _ = u.Write(d)
		}
		wait := 20 * time.Millisecond
		if op.Kind == "via-udp" {
			wait = 300 * time.Millisecond
		}
		_ = u.SetReadDeadline(time.Now().Add(wait))
		buf := make([]byte, 65536)
		for {
			if _, err := u.Read(buf); err != nil {
				break
			}
		}
		u.Close()
	}
	consulted = env.evil.hits.Load()+env.evilU.hits.Load()+env.evilDNS.hits.Load() > evilBefore
	return
}

// ---- generator

// svcAddr: addresses whose use cannot leave the machine (loopback / unspecified / names the owned resolver answers with 127.0.0.1 or NXDOMAIN)
func genSvcAddr(rt *rapid.T) []byte {
	port := rapid.SampledFrom([]uint16{0, 0, 1, 9, 65535, 20005, portEvilS5, portEvilHTTP, portEvilSS, portEvilNone, portDNS}).Draw(rt, "port")
	switch rapid.IntRange(0, 5).Draw(rt, "akind") {
	case 0:
		return socksAddrIP(netip.MustParseAddr("127.0.0.1"), port)
	case 1:
		return socksAddrIP(rapid.SampledFrom([]netip.Addr{netip.MustParseAddr("::ffff:127.0.0.1"), netip.MustParseAddr("0.0.0.0"), netip.MustParseAddr("::1"), netip.MustParseAddr("::"), netip.MustParseAddr("127.0.0.2")}).Draw(rt, "ip"), port)
	default:
		w := genWireAddr(rt)
		if w.name == "" {
			return socksAddrIP(netip.MustParseAddr("127.0.0.1"), port)
		}
		return socksAddrDomain(w.name, port)
	}
}

func mutate(rt *rapid.T, b []byte) []byte {
	b = append([]byte(nil), b...)
	n := rapid.IntRange(0, 3).Draw(rt, "nmut")
	for i := 0; i < n && len(b) > 0; i++ {
		pos := rapid.IntRange(0, len(b)-1).Draw(rt, "mpos")
		switch rapid.IntRange(0, 5).Draw(rt, "mop") {
		case 0:
			b[pos] ^= 1 << rapid.IntRange(0, 7).Draw(rt, "bit")
		case 1:
			b = b[:pos]
		case 2:
			b[pos] = rapid.SampledFrom([]byte{0, 1, 3, 4, 5, 0x7f, 0x80, 0xff}).Draw(rt, "val")
		case 3:
			b = append(b[:pos:pos], append([]byte{rapid.Byte().Draw(rt, "ins")}, b[pos:]...)...)
		case 4:
			b = append(b, b[pos:]...)
		default:
			b = append(b[:pos:pos], b[min(pos+rapid.IntRange(1, 8).Draw(rt, "del"), len(b)):]...)
		}
	}
	if len(b) > 70000 {
		b = b[:70000]
	}
	return b
}

type seedPools struct {
	s5, http, none, ss    [][]byte
	ssSel                 []uint8
	pktS5, pktNone        [][]byte
	ssU                   [][]byte
	ssUSel                []uint8
	s5c, httpc, ssc, dnsr [][]byte
	sscSel                []uint8
	pktClient, ssUC       [][]byte
	ssUCSel               []uint8
}

var (
	poolsOnce sync.Once
	pools     seedPools
)

func getPools() *seedPools {
	poolsOnce.Do(func() {
		_, pools.s5 = socks5ServerSeeds()
		_, c, _ := httpServerSeeds()
		pools.http = c
		pools.none = ssnoneSeeds()
		pools.ssSel, pools.ss = ssServerSeeds()
		sels, pk := packetSeeds()
		for i := range pk {
			switch sels[i] & 7 {
			case 0:
				pools.pktS5 = append(pools.pktS5, pk[i])
			case 1:
				pools.pktNone = append(pools.pktNone, pk[i])
			case 4, 5:
				pools.pktClient = append(pools.pktClient, pk[i])
			}
		}
		pools.ssUSel, pools.ssU = ssUDPServerSeeds()
		_, pools.s5c = socks5ClientSeeds()
		_, pools.httpc = httpClientSeeds()
		pools.sscSel, pools.ssc = ssClientSeeds()
		pools.ssUCSel, pools.ssUC = ssUDPClientSeeds()
		_, _, firsts, _ := dnsSeeds()
		pools.dnsr = firsts
	})
	return &pools
}

var (
	originOnce   sync.Once
	originFormsC []uint8
	originsC     [][]byte
)

var (
	originByClass    map[string][]int
	originClassNames []string
)

func originSeedsCached() ([]uint8, [][]byte) {
	originOnce.Do(func() {
		originFormsC, originsC = originSeeds()
		originByClass = map[string][]int{}
		for i := range originsC {
			for _, c := range originClasses(int(originFormsC[i]), originsC[i]) {
				if originByClass[c] == nil {
					originClassNames = append(originClassNames, c)
				}
				originByClass[c] = append(originByClass[c], i)
			}
		}
		sort.Strings(originClassNames)
	})
	return originFormsC, originsC
}

func pick(rt *rapid.T, pool [][]byte, label string) (int, []byte) {
	i := rapid.IntRange(0, len(pool)-1).Draw(rt, label)
	return i, pool[i]
}

// svcShorts is the list of 0..8-byte datagrams used at service level: every shortDatagrams entry of 5..8 bytes and every
// step-th one of the exhaustive 0..4-byte strings, starting at off.
func svcShorts(off, step int) [][]byte {
	var out [][]byte
	for i, d := range shortDatagrams() {
		if len(d) >= 5 || len(d) == 0 || (i+off)%step == 0 {
			out = append(out, d)
		}
	}
	return out
}

func hexAll(bs [][]byte) []string {
	out := make([]string, len(bs))
	for i, b := range bs {
		out[i] = hex.EncodeToString(b)
	}
	return out
}

// seqReply encodes a reply sequence for the hostile UDP upstream: a genuine reply of the protocol (source = src, an IP
// address as every reply carries), then a short datagram, and so on.
func seqReply(proto string, src []byte, shorts [][]byte) []byte {
	valid := cat(src, []byte("genuine reply"))
	if proto == "s5" {
		valid = cat([]byte{0, 0, 0}, valid)
	}
	var out []byte
	for _, d := range shorts {
		out = append(out, rawRec(valid)...)
		out = append(out, rawRec(d)...)
	}
	return out
}

// originOp builds a plain-HTTP request (form) through an HTTP proxy listener for the harness-owned hostile origin, which answers with reply.
func originOp(listener string, form uint8, reply []byte, closeMode string) svcOp {
	return svcOp{Kind: "http-origin", Listener: listener, Build: "raw", Sel: form & 7, Data: []string{""}, Reply: hex.EncodeToString(reply), Close: closeMode, Note: originFormNames[form&7]}
}

// truncOp builds a "truncated replay on established session" operation for a UDP listener: three genuine datagrams
// of one session to the echo peer (ss2022: sealed with the real keys at execution time, consecutive packet ids).
func truncOp(listener string, sid, pid uint64, target []byte) svcOp {
	op := svcOp{Kind: "trunc", Listener: listener, Build: "raw"}
	payload := []byte("established")
	for i := uint64(0); i < 3; i++ {
		var d []byte
		switch strings.SplitN(listener, "/", 2)[0] {
		case "s5":
			d = cat([]byte{0, 0, 0}, target, payload)
		case "none":
			d = cat(target, payload)
		case "ss128", "ss256":
			op.Build, op.Sel = "ss-udp", ssFixTS
			d = dgram(sid, pid+i, cat(make([]byte, 9), []byte{0, 0}, target, payload))[2:]
		default:
			d = payload
		}
		op.Data = append(op.Data, hex.EncodeToString(d))
	}
	return op
}

// genFlood: tens of thousands of datagrams from 1-3 source addresses to a target whose session can never be
// established (router says reject / SOCKS5 upstream refuses the TCP connection / ss-none upstream does not
// resolve), so sessions are created and torn down continuously while packets for them keep arriving.
func genFlood(rt *rapid.T, ms int) svcOp {
	op := svcOp{Kind: "flood", Build: "raw", FloodMs: ms}
	op.Listener = rapid.SampledFrom([]string{"none/udp", "s5/udp", "none/udp", "s5/udp", "none/udpmm", "s5/udpmm", "ss128/udp", "ss128/udpmm", "direct/udp"}).Draw(rt, "floodListener")
	port := rapid.SampledFrom([]uint16{portRejected, portRejected, portDeadS5, portDeadNone}).Draw(rt, "floodTarget")
	op.Note = map[uint16]string{portRejected: "route-reject", portDeadS5: "dead-s5", portDeadNone: "dead-none"}[port]
	op.Sockets = rapid.IntRange(1, 3).Draw(rt, "floodSockets")
	target := socksAddrIP(netip.MustParseAddr("127.0.0.1"), port)
	if rapid.IntRange(0, 3).Draw(rt, "floodName") == 0 {
		target = socksAddrDomain("echo.test", port)
	}
	payload := []byte("flood")
	switch strings.SplitN(op.Listener, "/", 2)[0] {
	case "s5":
		op.Data = []string{hex.EncodeToString(cat([]byte{0, 0, 0}, target, payload))}
	case "none":
		op.Data = []string{hex.EncodeToString(cat(target, payload))}
	case "ss128":
		op.Build, op.Sel = "ss-udp", ssFixTS
		sid := rapid.Uint64().Draw(rt, "floodSid")
		for pid := uint64(0); pid < 128; pid++ { // distinct packet ids: the replay filter of a live session would drop repeats
			op.Data = append(op.Data, hex.EncodeToString(dgram(sid, pid, cat(make([]byte, 9), []byte{0, 0}, target, payload))[2:]))
		}
	default: // direct: the tunnel target is fixed (the echo peer), the flood just loads the generic path
		op.Data = []string{hex.EncodeToString(payload)}
		op.Note = "direct"
	}
	return op
}

func genOp(rt *rapid.T) svcOp {
	p := getPools()
	op := svcOp{Build: "raw"}
	kind := rapid.SampledFrom([]string{"tcp", "tcp", "tcp", "tcp", "udp", "udp", "udp", "via-tcp", "via-tcp", "via-udp", "dns", "trunc", "http-origin", "http-origin"}).Draw(rt, "kind")
	op.Kind = kind
	if kind == "trunc" {
		l := rapid.SampledFrom([]string{"ss128/udp", "ss128/udpmm", "ss256/udp", "ss256/udp", "ss128/udp", "s5/udp", "s5/udpmm", "none/udp", "none/udpmm", "direct/udp", "s5/udp", "none/udpmm", "direct/udpmm"}).Draw(rt, "truncListener")
		op := truncOp(l, rapid.Uint64().Draw(rt, "truncSid"), rapid.SampledFrom([]uint64{0, 1, 200, 1 << 32, 1<<63 - 2}).Draw(rt, "truncPid"), genSvcAddr(rt))
		if !strings.HasPrefix(l, "ss") { // round 6: short datagrams behind genuine ones (plain-text protocols; ss2022 has the prefix sweep above)
			op.Shorts = hexAll(svcShorts(rapid.IntRange(0, 10).Draw(rt, "shortOff"), 11))
			for i := rapid.IntRange(0, 6).Draw(rt, "nRandShorts"); i > 0; i-- {
				op.Shorts = append(op.Shorts, hex.EncodeToString(rapid.SliceOfN(rapid.Byte(), 0, 8).Draw(rt, "randShort")))
			}
		}
		return op
	}
	if kind == "http-origin" {
		// round 6: a well-formed plain request through an HTTP proxy listener; the origin (harness) answers with a reply of the
		// hostile-origin seed list, as it is or mutated
		forms, origins := originSeedsCached()
		// class first, then a seed of that class: the rare classes (a redirect without Location, a body on 304, ...) are drawn as
		// often as the common ones
		cls := rapid.SampledFrom(originClassNames).Draw(rt, "originClass")
		i := rapid.SampledFrom(originByClass[cls]).Draw(rt, "origin")
		reply := origins[i]
		if len(reply) > 20000 {
			reply = reply[:20000]
		}
		if rapid.IntRange(0, 2).Draw(rt, "mutateOrigin") == 0 {
			reply = mutate(rt, reply)
		}
		form := forms[i]
		if rapid.IntRange(0, 3).Draw(rt, "otherForm") == 0 {
			form = uint8(rapid.IntRange(0, 7).Draw(rt, "form"))
		}
		return originOp(rapid.SampledFrom([]string{"http/tcp", "http/tcp", "httpauth/tcp"}).Draw(rt, "listener"), form, reply,
			rapid.SampledFrom([]string{"close", "half", "half", "rst"}).Draw(rt, "close"))
	}
	wellFormed := rapid.IntRange(0, 9).Draw(rt, "wellFormed") < 3
	switch kind {
	case "tcp":
		op.Listener = rapid.SampledFrom(tcpListeners).Draw(rt, "listener")
		var data []byte
		proto := strings.SplitN(op.Listener, "/", 2)[0]
		switch proto {
		case "s5":
			if wellFormed {
				data = cat([]byte{5, 1, 0, 5, rapid.SampledFrom([]byte{1, 3}).Draw(rt, "cmd"), 0}, genSvcAddr(rt), []byte("x"))
			} else {
				_, data = pick(rt, p.s5, "seed")
			}
		case "s5auth":
			if wellFormed {
				data = cat([]byte{5, 1, 2, 1, 1, 'u', 1, 'p', 5, 1, 0}, genSvcAddr(rt))
			} else {
				_, data = pick(rt, p.s5, "seed")
			}
		case "http", "httpauth":
			_, data = pick(rt, p.http, "seed")
		case "none":
			if wellFormed {
				data = cat(genSvcAddr(rt), []byte("x"))
			} else {
				_, data = pick(rt, p.none, "seed")
			}
		case "ss128", "ss256", "ssfb":
			op.Build = "ss-tcp"
			if wellFormed {
				op.Sel = ssFixTS | ssFixLen
				data = ssReq(make([]byte, 11), cat(genSvcAddr(rt), []byte{0, 1, 0}, []byte("x")), chunkRec(4, 4, 'z'))
			} else {
				i, d := pick(rt, p.ss, "seed")
				op.Sel, data = p.ssSel[i], d
			}
		default:
			_, data = pick(rt, p.http, "seed")
		}
		data = mutate(rt, data)
		op.Data = []string{hex.EncodeToString(data)}
		for i := rapid.IntRange(0, 3).Draw(rt, "ncuts"); i > 0; i-- {
			op.Cuts = append(op.Cuts, rapid.IntRange(0, 80).Draw(rt, "cut"))
		}
		op.Close = rapid.SampledFrom([]string{"close", "close", "half", "rst", "linger"}).Draw(rt, "close")
	case "udp":
		op.Listener = rapid.SampledFrom(udpListeners).Draw(rt, "listener")
		proto := strings.SplitN(op.Listener, "/", 2)[0]
		n := rapid.IntRange(1, 3).Draw(rt, "ndgram")
		for i := 0; i < n; i++ {
			var d []byte
			switch proto {
			case "s5":
				if wellFormed {
					d = cat([]byte{0, 0, 0}, genSvcAddr(rt), []byte("x"))
				} else {
					_, d = pick(rt, p.pktS5, "seed")
				}
			case "none":
				if wellFormed {
					d = cat(genSvcAddr(rt), []byte("x"))
				} else {
					_, d = pick(rt, p.pktNone, "seed")
				}
			case "ss128", "ss256":
				op.Build = "ss-udp"
				if wellFormed || rapid.Bool().Draw(rt, "ssWellFormed") {
					op.Sel = ssFixTS
					// session ids: a few live ones and extremes; packet ids: small, 2^k, edges of the 64-bit space (consecutive
					// datagrams of the operation then jump by arbitrary amounts within a session)
					sid := rapid.SampledFrom(append([]uint64{0, 1, 2, 3, 2, 3}, extremeIDs...)).Draw(rt, "sid")
					var pid uint64
					switch rapid.IntRange(0, 2).Draw(rt, "pidKind") {
					case 0:
						pid = rapid.Uint64Range(0, 300).Draw(rt, "pid")
					case 1:
						pid = rapid.SampledFrom(extremeIDs).Draw(rt, "pidX")
					default:
						pid = uint64(1)<<rapid.IntRange(0, 63).Draw(rt, "pidPow") + rapid.Uint64Range(0, 2).Draw(rt, "pidOff") - 1
					}
					d = dgram(sid, pid, cat(make([]byte, 9), []byte{0, 0}, genSvcAddr(rt), []byte("x")))[2:]
				} else {
					j, s := pick(rt, p.ssU, "seed")
					op.Sel = p.ssUSel[j]
					rest := s
					k := min(takeLen(&rest), len(rest))
					d = rest[:k]
				}
			default:
				_, d = pick(rt, p.pktNone, "seed")
			}
			op.Data = append(op.Data, hex.EncodeToString(mutate(rt, d)))
		}
	case "via-tcp":
		which := rapid.IntRange(0, 2).Draw(rt, "evil")
		op.Listener = rapid.SampledFrom([]string{"s5/tcp", "none/tcp"}).Draw(rt, "listener")
		port := []uint16{portEvilS5, portEvilHTTP, portEvilSS}[which]
		target := socksAddrIP(netip.MustParseAddr("127.0.0.1"), port)
		if op.Listener == "s5/tcp" {
			op.Data = []string{hex.EncodeToString(cat([]byte{5, 1, 0, 5, 1, 0}, target, []byte("hello upstream")))}
		} else {
			op.Data = []string{hex.EncodeToString(cat(target, []byte("hello upstream")))}
		}
		switch which {
		case 0:
			_, r := pick(rt, p.s5c, "reply")
			op.Reply = hex.EncodeToString(mutate(rt, r))
		case 1:
			_, r := pick(rt, p.httpc, "reply")
			op.Reply = hex.EncodeToString(mutate(rt, r))
		default:
			i, r := pick(rt, p.ssc, "reply")
			op.ReplyMode, op.ReplySel = "ss-tcp", p.sscSel[i]
			op.Reply = hex.EncodeToString(mutate(rt, r))
		}
		op.Close = rapid.SampledFrom([]string{"close", "half"}).Draw(rt, "close")
		op.Note = []string{"evil-s5", "evil-http", "evil-ss"}[which]
	case "via-udp":
		which := rapid.IntRange(0, 2).Draw(rt, "evil")
		op.Listener = rapid.SampledFrom([]string{"s5/udp", "s5/udpmm", "none/udp", "none/udpmm"}).Draw(rt, "listener")
		port := []uint16{portEvilS5, portEvilNone, portEvilSS}[which]
		target := socksAddrIP(netip.MustParseAddr("127.0.0.1"), port)
		d := cat(target, []byte("hello upstream"))
		if strings.HasPrefix(op.Listener, "s5") {
			d = cat([]byte{0, 0, 0}, d)
		}
		op.Data = []string{hex.EncodeToString(d), hex.EncodeToString(d)}
		if which < 2 && rapid.IntRange(0, 1).Draw(rt, "seq") == 0 {
			// round 6: genuine replies alternating with 0..8-byte datagrams into the session's one receive buffer
			shorts := svcShorts(rapid.IntRange(0, 10).Draw(rt, "shortOff"), 11)
			for i := rapid.IntRange(0, 6).Draw(rt, "nRandShorts"); i > 0; i-- {
				shorts = append(shorts, rapid.SliceOfN(rapid.Byte(), 0, 8).Draw(rt, "randShort"))
			}
			src := socksAddrIP(rapid.SampledFrom([]netip.Addr{netip.MustParseAddr("127.0.0.1"), netip.MustParseAddr("2001:db8::7"), netip.MustParseAddr("::ffff:10.0.0.1")}).Draw(rt, "replySrc"), rapid.SampledFrom([]uint16{0, 53, 65535}).Draw(rt, "replyPort"))
			if which == 0 {
				op.ReplyMode, op.Reply = "assoc-seq", hex.EncodeToString(seqReply("s5", src, shorts))
			} else {
				op.ReplyMode, op.Reply = "seq", hex.EncodeToString(seqReply("none", src, shorts))
			}
			op.Note = []string{"evil-s5", "evil-none"}[which] + "/seq"
			return op
		}
		switch which {
		case 0:
			if rapid.Bool().Draw(rt, "assocOK") {
				op.ReplyMode = "assoc"
				_, r := pick(rt, p.pktClient, "reply")
				op.Reply = hex.EncodeToString(mutate(rt, r))
			} else {
				_, r := pick(rt, p.s5c, "reply")
				op.Reply = hex.EncodeToString(mutate(rt, r))
			}
		case 1:
			_, r := pick(rt, p.pktClient, "reply")
			op.Reply = hex.EncodeToString(mutate(rt, r))
		default:
			i, r := pick(rt, p.ssUC, "reply")
			op.ReplyMode, op.ReplySel = "ss-udp", p.ssUCSel[i]
			op.Reply = hex.EncodeToString(mutate(rt, r))
		}
		op.Note = []string{"evil-s5", "evil-none", "evil-ss"}[which]
	default: // dns
		op.Listener = "s5/tcp"
		name := fmt.Sprintf("n%d.lookup.test", rapid.IntRange(0, 1<<20).Draw(rt, "name"))
		if rapid.IntRange(0, 4).Draw(rt, "hostileName") == 0 {
			w := genWireAddr(rt)
			if w.name != "" {
				name = w.name
			}
		}
		op.Data = []string{hex.EncodeToString(cat([]byte{5, 1, 0, 5, 1, 0}, socksAddrDomain(name, portDNS)))}
		_, r := pick(rt, p.dnsr, "reply")
		op.Reply = hex.EncodeToString(mutate(rt, r))
		op.Close = "close"
	}
	return op
}

// ---- the test

var (
	svcMu   sync.Mutex
	svcLive *svcEnv
)

func liveService(t failer, bitmap bool) *svcEnv {
	svcMu.Lock()
	defer svcMu.Unlock()
	if svcLive != nil {
		return svcLive
	}
	var lastErr error
	for attempt := 0; attempt < 3; attempt++ {
		env, err := startService(bitmap)
		if err == nil {
			svcLive = env
			return env
		}
		lastErr = err
	}
	t.Fatalf("harness: cannot start the service on loopback: %v", lastErr)
	return nil
}

func canarySig(err error) string {
	if err != nil && strings.Contains(err.Error(), "stalled") {
		return "C06/service-listener-stalled"
	}
	return "C06/service-canary"
}

func journalPath() string {
	w := os.Getenv("VERIF_WORK")
	if w == "" {
		return ""
	}
	return filepath.Join(w, "journal-service.json")
}

func executePlan(t failer, env *svcEnv, plan svcPlan) {
	if jp := journalPath(); jp != "" {
		plan.Type = "service-plan"
		b, _ := json.Marshal(plan)
		_ = os.WriteFile(jp, b, 0o644)
		defer os.Remove(jp)
	}
	for i, op := range plan.Ops {
		reached, consulted := env.run(op)
		labels := []string{"kind:" + op.Kind, "listener:" + op.Listener, "build:" + op.Build, "proto:" + strings.TrimSuffix(strings.SplitN(op.Listener, "/", 2)[0], "auth")}
		if strings.HasSuffix(op.Listener, "/udpmm") {
			labels = append(labels, "udp-batch:sendmmsg")
		} else if strings.HasSuffix(op.Listener, "/udp") {
			labels = append(labels, "udp-batch:no")
		}
		if consulted {
			switch op.Kind {
			case "dns":
				labels = append(labels, "dns-consulted")
			case "http-origin":
				labels = append(labels, "origin-consulted", "origin-req:"+op.Note)
				for _, c := range originClasses(int(op.Sel&7), unhex(op.Reply)) {
					labels = append(labels, "origin:"+c)
				}
			default:
				labels = append(labels, "upstream-consulted")
			}
		}
		if op.Kind == "trunc" && len(op.Shorts) > 0 {
			labels = append(labels, "trunc:with-shorts")
		}
		if strings.HasSuffix(op.ReplyMode, "seq") && consulted {
			labels = append(labels, "via-udp:reply-seq")
		}
		nontrivial := reached && (consulted || op.Kind == "tcp" || op.Kind == "udp" || op.Kind == "flood" || op.Kind == "trunc")
		if op.Kind == "flood" {
			labels = append(labels, "flood:"+op.Note)
		}
		recSvc.Case(fmt.Sprintf("%s/%s/%s/%s/%s", op.Kind, op.Listener, op.Build, op.Close, op.Note), nontrivial, labels...)
		if err := env.canaryTick(); err != nil {
			b, _ := json.Marshal(plan.Ops[:i+1])
			t.Fatalf("SIG=%s VERIF-VIOLATION after operation %d (%s on %s): %v\nplan so far: %s", canarySig(err), i, op.Kind, op.Listener, err, b)
		}
	}
	for _, c := range env.lingering {
		c.Close()
	}
	env.lingering = nil
	if err := env.canaryFull(); err != nil {
		b, _ := json.Marshal(plan)
		t.Fatalf("SIG=%s VERIF-VIOLATION after the batch: %v\nplan: %s", canarySig(err), err, b)
	}
}

func floodMs() int {
	if v, err := strconv.Atoi(os.Getenv("VERIF_C06_FLOOD_MS")); err == nil && v > 0 {
		return v
	}
	return 700
}

func TestServiceHostile(t *testing.T) {
	bitmap := !ev.IsKnown(prop, sigRouterPort0)
	if !bitmap {
		// a listed finding: the route that stores its ports as a bitmap is left out of the configuration, because the
		// first request to port 0 would end the process (and with it the rest of the search)
		recSvc.Excluded(1)
	}
	t.Cleanup(func() {
		svcMu.Lock()
		if svcLive != nil {
			svcLive.stop(t)
			svcLive = nil
		}
		svcMu.Unlock()
	})
	rapid.Check(t, func(rt *rapid.T) {
		env := liveService(rt, bitmap)
		if err := env.canaryFull(); err != nil {
			rt.Fatalf("SIG=%s VERIF-VIOLATION before the batch: %v", canarySig(err), err)
		}
		plan := svcPlan{Bitmap: bitmap}
		n := rapid.IntRange(20, 20).Draw(rt, "nops")
		for i := 0; i < n; i++ {
			plan.Ops = append(plan.Ops, genOp(rt))
		}
		// exactly one flood per batch, at a drawn position
		plan.Ops[rapid.IntRange(0, n-1).Draw(rt, "floodAt")] = genFlood(rt, floodMs())
		executePlan(rt, env, plan)
		recSvc.Sample(map[string]any{"ops": len(plan.Ops), "first": plan.Ops[0].Kind + " " + plan.Ops[0].Listener})
	})
}

// TestReplayService re-runs a journaled plan ($VERIF_REPLAY) against a fresh service instance.
func TestReplayService(t *testing.T) {
	p := os.Getenv("VERIF_REPLAY")
	if p == "" {
		t.Skip("VERIF_REPLAY not set")
	}
	b, err := os.ReadFile(p)
	if err != nil {
		t.Fatal(err)
	}
	var plan svcPlan
	if err := json.Unmarshal(b, &plan); err != nil || plan.Type != "service-plan" {
		t.Skip("not a service plan journal")
	}
	env, err := startService(plan.Bitmap)
	if err != nil {
		t.Fatalf("harness: %v", err)
	}
	defer env.stop(t)
	if err := env.canaryFull(); err != nil {
		t.Fatalf("SIG=C06/service-canary VERIF-VIOLATION before the plan: %v", err)
	}
	executePlan(t, env, plan)
}

var _ = errors.New

// TestServiceFlood is the deterministic form of the flood operation: every UDP listener of the session-creating
// protocols (both batch modes) x every way a session can fail to come up, one after the other, canary after each.
func TestServiceFlood(t *testing.T) {
	env, err := startService(!ev.IsKnown(prop, sigRouterPort0))
	if err != nil {
		t.Fatalf("harness: %v", err)
	}
	defer env.stop(t)
	if err := env.canaryFull(); err != nil {
		t.Fatalf("SIG=C06/service-canary VERIF-VIOLATION before the floods: %v", err)
	}
	var plan svcPlan
	plan.Bitmap = env.bitmap
	payload := []byte("flood")
	for _, l := range []string{"none/udp", "none/udpmm", "s5/udp", "s5/udpmm", "ss128/udp", "ss128/udpmm"} {
		for _, tgt := range []struct {
			port uint16
			note string
		}{{portRejected, "route-reject"}, {portDeadS5, "dead-s5"}, {portDeadNone, "dead-none"}} {
			op := svcOp{Kind: "flood", Listener: l, Build: "raw", FloodMs: floodMs(), Sockets: 2, Note: tgt.note}
			target := socksAddrIP(netip.MustParseAddr("127.0.0.1"), tgt.port)
			switch strings.SplitN(l, "/", 2)[0] {
			case "s5":
				op.Data = []string{hex.EncodeToString(cat([]byte{0, 0, 0}, target, payload))}
			case "none":
				op.Data = []string{hex.EncodeToString(cat(target, payload))}
			default:
				op.Build, op.Sel = "ss-udp", ssFixTS
				for pid := uint64(0); pid < 128; pid++ {
					op.Data = append(op.Data, hex.EncodeToString(dgram(uint64(tgt.port), pid, cat(make([]byte, 9), []byte{0, 0}, target, payload))[2:]))
				}
			}
			plan.Ops = append(plan.Ops, op)
		}
	}
	executePlan(t, env, plan)
}

// TestServiceExtremeIDs is the deterministic service-level form of "authenticated but extreme" ss2022 UDP traffic:
// through every ss2022 UDP listener, sessions whose packet ids sit at the edges of the 64-bit space and of the replay
// window's block arithmetic (and jump there and back), plus extreme session ids; every listener's canary after each.
// One receive goroutine per listener unpacks under the session-table lock: a packet that makes it spin stalls the
// listener for every user, which the per-listener UDP canary reports as C06/service-listener-stalled.
func TestServiceExtremeIDs(t *testing.T) {
	env, err := startService(!ev.IsKnown(prop, sigRouterPort0))
	if err != nil {
		t.Fatalf("harness: %v", err)
	}
	defer env.stop(t)
	if err := env.canaryFull(); err != nil {
		t.Fatalf("SIG=%s VERIF-VIOLATION before the plan: %v", canarySig(err), err)
	}
	plan := svcPlan{Bitmap: env.bitmap}
	target := socksAddrIP(netip.MustParseAddr("127.0.0.1"), uint16(env.echoUDP.LocalAddr().(*net.UDPAddr).Port))
	body := cat(make([]byte, 9), []byte{0, 0}, target, []byte("x"))
	h := func(sid, pid uint64) string { return hex.EncodeToString(dgram(sid, pid, body)[2:]) }
	for li, l := range []string{"ss128/udp", "ss128/udpmm", "ss256/udp"} {
		for i, id := range extremeIDs {
			sid := uint64(1000*(li+1) + i)
			plan.Ops = append(plan.Ops,
				svcOp{Kind: "udp", Listener: l, Build: "ss-udp", Sel: ssFixTS, Data: []string{h(sid, 5), h(sid, id), h(sid, 6), h(sid, id+1), h(sid, id-1)}, Note: "pid"},
				svcOp{Kind: "udp", Listener: l, Build: "ss-udp", Sel: ssFixTS, Data: []string{h(id, 0), h(id, 1<<40), h(id, 1<<40+id), h(id, 1<<40-id)}, Note: "sid"})
		}
	}
	// truncated replays on established sessions, every UDP listener (echo target: the sessions really come up)
	for i, l := range udpListeners {
		plan.Ops = append(plan.Ops, truncOp(l, uint64(9000+i), 0, target), truncOp(l, uint64(9100+i), 1<<32, target))
	}
	executePlan(t, env, plan)
}

// TestServiceOriginAndShorts (round 6) is the deterministic service-level form of two input classes:
//
//  1. hostile origin replies to plain-HTTP proxying: through both HTTP proxy listeners (plain and basic auth) one request per
//     reply class of the gap list (the first seed of originSeeds that shows the class), answered by the harness-owned origin the
//     request is routed to (default route, direct client); client side closed normally or half-closed right after the request;
//  2. datagrams of 0..8 bytes on reused buffers: every plain-text UDP listener (socks5 / none / direct, both batch modes) gets
//     genuine datagrams of one session alternating with short ones on the same socket (the listener's pooled receive buffers
//     then hold valid packets), and the socks5 / none upstream clients get genuine replies alternating with short ones from the
//     hostile upstream into the session's single downlink buffer.
//
// After every operation the canary tunnel and one exchange through every UDP listener must still work.
func TestServiceOriginAndShorts(t *testing.T) {
	env, err := startService(!ev.IsKnown(prop, sigRouterPort0))
	if err != nil {
		t.Fatalf("harness: %v", err)
	}
	defer env.stop(t)
	if err := env.canaryFull(); err != nil {
		t.Fatalf("SIG=%s VERIF-VIOLATION before the plan: %v", canarySig(err), err)
	}
	plan := svcPlan{Bitmap: env.bitmap}
	forms, origins := originSeeds()
	covered := map[string]bool{}
	n := 0
	for i := range origins {
		if len(origins[i]) > 20000 {
			continue
		}
		fresh := false
		for _, c := range originClasses(int(forms[i]), origins[i]) {
			if !covered[c] && !strings.HasPrefix(c, "status:2") && !strings.HasPrefix(c, "status:3") {
				fresh = true
			}
			covered[c] = true
		}
		if !fresh && i >= 8 {
			continue
		}
		plan.Ops = append(plan.Ops, originOp([]string{"http/tcp", "httpauth/tcp"}[n%2], forms[i], origins[i], []string{"half", "half", "close"}[n%3]))
		n++
	}
	echo := socksAddrIP(netip.MustParseAddr("127.0.0.1"), uint16(env.echoUDP.LocalAddr().(*net.UDPAddr).Port))
	for i, l := range []string{"s5/udp", "s5/udpmm", "none/udp", "none/udpmm", "direct/udp", "direct/udpmm"} {
		op := truncOp(l, 0, 0, echo)
		op.Shorts = hexAll(svcShorts(i, 5))
		plan.Ops = append(plan.Ops, op)
	}
	for i, l := range []string{"s5/udp", "none/udpmm", "none/udp", "s5/udpmm"} {
		which := i % 2 // evil-s5 (UDP ASSOCIATE, then datagrams) | evil-none
		port := []uint16{portEvilS5, portEvilNone}[which]
		d := cat(socksAddrIP(netip.MustParseAddr("127.0.0.1"), port), []byte("hello upstream"))
		if strings.HasPrefix(l, "s5") {
			d = cat([]byte{0, 0, 0}, d)
		}
		src := socksAddrIP(netip.MustParseAddr([]string{"127.0.0.1", "2001:db8::7"}[i/2]), 53)
		op := svcOp{Kind: "via-udp", Listener: l, Build: "raw", Data: []string{hex.EncodeToString(d), hex.EncodeToString(d)}, Note: []string{"evil-s5", "evil-none"}[which] + "/seq"}
		op.ReplyMode = []string{"assoc-seq", "seq"}[which]
		op.Reply = hex.EncodeToString(seqReply([]string{"s5", "none"}[which], src, svcShorts(i, 7)))
		plan.Ops = append(plan.Ops, op)
	}
	executePlan(t, env, plan)
	recSvc.Extra("origin_ops", n)
}
