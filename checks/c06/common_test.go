package c06

import (
	"context"
	"encoding/binary"
	"errors"
	"fmt"
	"io"
	"net"
	"net/netip"
	"runtime/debug"
	"strings"
	"sync"
	"sync/atomic"
	"time"

	"github.com/database64128/shadowsocks-go/conn"
	"github.com/database64128/shadowsocks-go/logging"
	"github.com/database64128/shadowsocks-go/netio"
	"github.com/database64128/shadowsocks-go/portset"
	"github.com/database64128/shadowsocks-go/zerocopy"
	"go.uber.org/zap"
	"go.uber.org/zap/zapcore"

	"verif/internal/ev"
	"verif/internal/xnet"
)

const prop = "C06"

// sigRouterPort0 is the signature of the defect recorded in DESIGN §6: a route whose port criterion is
// stored as a bitmap (more than 16 port ranges) is asked about wire port 0.
const sigRouterPort0 = "C06/router-port0-panic"

// failer is satisfied by *testing.T and *rapid.T.
type failer interface {
	Fatalf(format string, args ...any)
}

// guard runs f, which calls into the code under test (on a goroutine of its own, so that a call that never
// returns can be told from a slow one). The service has no
// recover() anywhere, so a panic here is the same event as the process dying: it is turned into a
// failure - never into a pass. The only exception is an exact signature listed as an open finding in
// known_findings.json, which is counted (KnownHit) so that the rest of the case can continue.
func guard(t failer, rec *ev.Recorder, stage string, desc func() string, f func()) (known bool) {
	type outcome struct {
		completed bool
		panicked  bool
		val       any
		stack     []byte
	}
	done := make(chan outcome, 1)
	go func() {
		var out outcome
		defer func() {
			if r := recover(); r != nil {
				out.panicked, out.val, out.stack = true, r, debug.Stack()
			}
			done <- out
		}()
		f()
		out.completed = true
	}()
	bound := completionBound
	if stallSeen.Load() {
		bound = completionBound / 8 // the process already carries a spinning goroutine: report (and shrink) fast
	}
	timer := time.NewTimer(bound)
	defer timer.Stop()
	select {
	case out := <-done:
		switch {
		case out.completed:
			return false
		case !out.panicked:
			// runtime.Goexit: a testing.T Fatalf issued inside f (already recorded as a failure)
			t.Fatalf("stage=%s stopped by the failure reported above; input=%s", stage, desc())
			return false
		}
		if fmt.Sprintf("%T", out.val) == "rapid.stopTest" {
			panic(out.val) // a rapid Fatalf issued inside f: not a panic of the code under test
		}
		sig := panicSig(stage, out.val)
		if ev.IsKnown(prop, sig) {
			rec.KnownHit(sig)
			return true
		}
		t.Fatalf("SIG=%s VERIF-VIOLATION stage=%s panic=%v input=%s\n%s", sig, stage, out.val, desc(), out.stack)
	case <-timer.C:
		// The work is microseconds; the bound is many orders of magnitude above it. A call that does not come back is
		// the same event for everybody else as a crash when it happens under a lock or on a listener's only receive
		// goroutine. The goroutine is abandoned (it may spin for the rest of the process).
		sig := "C06/" + stage + "-did-not-return"
		stallSeen.Store(true)
		if ev.IsKnown(prop, sig) {
			rec.KnownHit(sig)
			return true
		}
		t.Fatalf("SIG=%s VERIF-VIOLATION stage=%s did not return within %s input=%s", sig, stage, bound, desc())
	}
	return false
}

// completionBound is the generous bound on any single call into the code under test. Inside the fuzz engine it is
// shorter so that a stuck worker is reported as a failing input before the stage's -fuzztime ends.
var stallSeen atomic.Bool

var completionBound = func() time.Duration {
	if isFuzzWorker {
		return 6 * time.Second
	}
	return 20 * time.Second
}()

func panicSig(stage string, r any) string {
	if err, ok := r.(error); ok && errors.Is(err, portset.ErrZeroPort) && strings.HasPrefix(stage, "route") {
		return sigRouterPort0
	}
	return "C06/" + stage + "-panic"
}

// oracleResult is what an entry-point oracle reports back to a structure-aware caller.
type oracleResult struct {
	accepted bool      // the entry point produced an address
	addr     conn.Addr // the address it produced
	user     string
	use      useResult
	// plain-HTTP forwarding (oracleHTTPServer): the forwarding goroutines were started, did not finish within the bound,
	// what the origin side received of the request, and everything the proxy wrote back to the client
	forwarded bool
	stuck     bool
	originGot int64
	clientGot []byte
}

// thin returns the indexes of a seed list to hand to f.Add: the first 40 (valid messages built by the repo's own
// encoders come first in every list) and then a stride through the hostile constants, at most max in total. The
// whole list is always run by TestSeeds; the fuzz engine only needs representatives (its baseline-coverage pass
// executes every seed under instrumentation before it mutates anything).
func thin(n, max int) []int {
	var idx []int
	for i := 0; i < n && i < 40; i++ {
		idx = append(idx, i)
	}
	if n <= 40 {
		return idx
	}
	step := (n - 40 + (max - 40) - 1) / (max - 40)
	if step < 1 {
		step = 1
	}
	for i := 40; i < n; i += step {
		idx = append(idx, i)
	}
	return idx
}

// ---- loggers

var (
	debugLoggerOnce sync.Once
	debugLoggerVal  *zap.Logger
)

// debugLogger is the production console encoder of the repo at debug level writing to io.Discard, so
// every log statement (which formats attacker-controlled addresses, names and header fields) executes.
func debugLogger() *zap.Logger {
	debugLoggerOnce.Do(func() {
		enc := zapcore.NewConsoleEncoder(logging.NewProductionConsoleEncoderConfig(true, true))
		debugLoggerVal = zap.New(zapcore.NewCore(enc, zapcore.AddSync(io.Discard), zap.DebugLevel))
	})
	return debugLoggerVal
}

// ---- transports

// tcpConn gives an owned in-memory conn a *net.TCPAddr local address (the SOCKS5 UDP ASSOCIATE reply is
// built from it; the service always hands a *net.TCPConn to HandleStream).
type tcpConn struct {
	*xnet.Conn
	local net.TCPAddr
}

func (c *tcpConn) LocalAddr() net.Addr  { return &c.local }
func (c *tcpConn) RemoteAddr() net.Addr { return &net.TCPAddr{IP: net.IPv4(127, 0, 0, 1), Port: 40000} }

// fragPlan decodes a 16-bit fragmentation selector into a cyclic read plan for the owned transport.
// 0 = deliver as much as asked (coalesced); otherwise a cycle of 1-3 sizes from a boundary table.
func fragPlan(frag uint16) (plan []int, coalesce bool) {
	table := []int{0, 1, 2, 3, 4, 5, 7, 11, 16, 17, 18, 27, 32, 43, 64, 259}
	a, b, c := int(frag&0xF), int((frag>>4)&0xF), int((frag>>8)&0xF)
	coalesce = (frag>>12)&1 == 0
	if a == 0 && b == 0 && c == 0 {
		return nil, coalesce
	}
	for _, i := range []int{a, b, c} {
		if table[i] > 0 {
			plan = append(plan, table[i])
		}
	}
	return plan, coalesce
}

// hostileConn returns the server side of an owned connection on which `in` is pending followed by EOF.
// peer is the other end (the harness), whose Written()/Read side shows what the code under test wrote.
func hostileConn(in []byte, frag uint16, firstMin int) (srv *tcpConn, peer *xnet.Conn) {
	a, b := xnet.Pair()
	a.Inject(in)
	a.EndInput()
	plan, coalesce := fragPlan(frag)
	a.SetReadPlan(plan, firstMin, coalesce)
	return &tcpConn{Conn: a, local: net.TCPAddr{IP: net.IPv4(127, 0, 0, 1), Port: 1080}}, b
}

// written concatenates everything the code under test wrote on the server side of hostileConn.
func written(srv *tcpConn) []byte {
	var out []byte
	for _, f := range srv.Conn.Written() {
		out = append(out, f...)
	}
	return out
}

// scriptClient is a netio.StreamClient whose connections are owned conns that first record the dialer's
// initial payload and then serve a scripted byte string followed by EOF.
type scriptClient struct {
	name     string
	reply    func(dialIndex int, addr conn.Addr, payload []byte) []byte
	frag     uint16
	firstMin int
	record   bool // keep payloads/addrs/conns (off for the shared sinks of the use pipeline)
	mu       sync.Mutex
	dials    int
	payloads [][]byte
	addrs    []conn.Addr
	conns    []*xnet.Conn
}

func (c *scriptClient) NewStreamDialer() (netio.StreamDialer, netio.StreamDialerInfo) {
	return c, netio.StreamDialerInfo{Name: c.name}
}

func (c *scriptClient) DialStream(ctx context.Context, addr conn.Addr, payload []byte) (netio.Conn, error) {
	c.mu.Lock()
	idx := c.dials
	c.dials++
	if c.record {
		c.payloads = append(c.payloads, append([]byte(nil), payload...))
		c.addrs = append(c.addrs, addr)
	}
	c.mu.Unlock()
	a, _ := xnet.Pair()
	var in []byte
	if c.reply != nil {
		in = c.reply(idx, addr, payload)
	}
	a.Inject(in)
	a.EndInput()
	plan, coalesce := fragPlan(c.frag)
	a.SetReadPlan(plan, c.firstMin, coalesce)
	if c.record {
		c.mu.Lock()
		c.conns = append(c.conns, a)
		c.mu.Unlock()
	}
	return a, nil
}

// sinkUDPClient is a zerocopy.UDPClient the routers can hand out; it is never dialled.
type sinkUDPClient struct{ name string }

func (c *sinkUDPClient) Info() zerocopy.UDPClientInfo { return zerocopy.UDPClientInfo{Name: c.name} }
func (c *sinkUDPClient) NewSession(ctx context.Context) (zerocopy.UDPClientSessionInfo, zerocopy.UDPClientSession, error) {
	return zerocopy.UDPClientSessionInfo{Name: c.name}, zerocopy.UDPClientSession{}, errors.New("sink")
}

// ---- address helpers

// addrClass names the boundary classes of an address the wire produced.
func addrClass(a conn.Addr) string {
	if !a.IsValid() {
		return "zero"
	}
	var k string
	switch {
	case a.IsDomain():
		n := len(a.Domain())
		switch {
		case n == 1:
			k = "dom1"
		case n == 255:
			k = "dom255"
		case n >= 254:
			k = "dom254"
		case n >= 64:
			k = "dom64+"
		default:
			k = "dom"
		}
	case a.IP().Is4():
		k = "ip4"
	case a.IP().Is4In6():
		k = "ip4in6"
	default:
		k = "ip6"
	}
	switch a.Port() {
	case 0:
		k += "/p0"
	case 65535:
		k += "/p65535"
	}
	return k
}

// socksAddr encodes an address in SOCKS5 wire form with the harness's own encoder (so that forms the
// repo's encoders never produce - IPv4-mapped under ATYP 4, empty or arbitrary-byte names - exist too).
func socksAddrIP(ip netip.Addr, port uint16) []byte {
	var b []byte
	if ip.Is4() {
		a := ip.As4()
		b = append(b, 1)
		b = append(b, a[:]...)
	} else {
		a := ip.As16()
		b = append(b, 4)
		b = append(b, a[:]...)
	}
	return binary.BigEndian.AppendUint16(b, port)
}

func socksAddrDomain(name string, port uint16) []byte {
	b := []byte{3, byte(len(name))}
	b = append(b, name...)
	return binary.BigEndian.AppendUint16(b, port)
}

func hexs(b []byte) string {
	if len(b) > 600 {
		return fmt.Sprintf("%x...(%d bytes)", b[:600], len(b))
	}
	return fmt.Sprintf("%x", b)
}

func cat(parts ...[]byte) []byte {
	var out []byte
	for _, p := range parts {
		out = append(out, p...)
	}
	return out
}
