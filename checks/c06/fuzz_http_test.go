package c06

import (
	"bytes"
	"encoding/base64"
	"encoding/hex"
	"encoding/json"
	"fmt"
	"io"
	"net/netip"
	"os"
	"path/filepath"
	"strings"
	"sync"
	"testing"
	"time"

	"github.com/database64128/shadowsocks-go/conn"
	"github.com/database64128/shadowsocks-go/httpproxy"
	"github.com/database64128/shadowsocks-go/netio"

	"verif/internal/ev"
)

// ---------------------------------------------------------------- HTTP proxy server

var recHTTPServer = ev.New(prop, "fuzz-http-server",
	"selector (basic auth on/off, Proceed | Abort) + client byte stream + origin byte stream + fragmentation -> "+
		"httpproxy ProxyServer.HandleStream over an owned conn; the target is used; CONNECT is answered; for plain "+
		"requests Proceed starts the real forwarding goroutines and the harness plays the origin with the second byte "+
		"string. A panic in those goroutines kills the test binary (crasher saved by the fuzz engine / seed named by -v). "+
		"Non-trivial: request accepted, target produced and a reply or forwarded request written; distinct key = form + address class")

var httpUsers = []httpproxy.ServerUserCredentials{{Username: "alice", Password: "secret"}, {Username: "", Password: ""}}

func basic(u, p string) string {
	return "Proxy-Authorization: Basic " + base64.StdEncoding.EncodeToString([]byte(u+":"+p)) + "\r\n"
}

func httpServerSeeds() (sels []uint8, clients, origins [][]byte) {
	add := func(sel uint8, c, o string) {
		sels = append(sels, sel)
		clients = append(clients, []byte(c))
		origins = append(origins, []byte(o))
	}
	ok := "HTTP/1.1 200 OK\r\nContent-Length: 5\r\n\r\nhello"
	// the repo's own client encoder
	for _, ta := range []conn.Addr{
		conn.MustAddrFromDomainPort("example.com", 443),
		conn.MustAddrFromDomainPort(strings.Repeat("h", 255), 0),
		conn.AddrFromIPAndPort(netip.MustParseAddr("2001:db8::1"), 0),
		conn.AddrFromIPAndPort(netip.MustParseAddr("127.0.0.1"), 65535),
	} {
		b := captureClient([]byte("HTTP/1.1 200 OK\r\n\r\n"), func(c netio.Conn) { _, _ = httpproxy.ClientConnect(c, ta, "") })
		add(0, string(b)+"tunnel bytes", "")
		b = captureClient([]byte("HTTP/1.1 200 OK\r\n\r\n"), func(c netio.Conn) {
			_, _ = httpproxy.ClientConnect(c, ta, "\r\n"+strings.TrimSuffix(basic("alice", "secret"), "\r\n"))
		})
		add(1, string(b), "")
	}
	// hostile CONNECT targets
	for _, tgt := range []string{"example.com:0", "example.com:65535", "example.com:65536", "example.com:-1", "example.com:", "example.com", ":80", ":", "",
		"[::1]:0", "[::1]", "[::1%25lo]:80", "[fe80::1%lo]:80", "[::ffff:1.2.3.4]:0", "::1:80", "[:80", "]:80", "[]:80", "1.2.3.4:0", "0:0",
		strings.Repeat("a", 255) + ":1", strings.Repeat("a", 256) + ":1", strings.Repeat("a.", 127) + "b:0", "a b:80", "%00:80", "\xff\xfe:80", "*", "/", "http://x/:80"} {
		add(0, "CONNECT "+tgt+" HTTP/1.1\r\nHost: "+tgt+"\r\n\r\n", "")
		add(2, "CONNECT "+tgt+" HTTP/1.1\r\n\r\n", "")
	}
	// plain requests (no repo encoder exists for these; written by hand from RFC 9112)
	for _, host := range []string{"example.com", "example.com:0", "example.com:65535", "[::1]", "[::1]:0", "[", "]", "[]", ":", "a:b", "127.0.0.1:0",
		strings.Repeat("a", 255), strings.Repeat("a", 256), "[fe80::1%lo]", "a b", ""} {
		add(0, "GET http://"+host+"/ HTTP/1.1\r\nHost: "+host+"\r\n\r\n", ok)
		add(0, "GET / HTTP/1.1\r\nHost: "+host+"\r\nConnection: close\r\n\r\n", ok)
	}
	get := "GET http://example.com/a HTTP/1.1\r\nHost: example.com\r\nConnection: keep-alive, X-Hop\r\nX-Hop: 1\r\nUpgrade: websocket\r\n\r\n"
	add(0, get+get+get, ok+ok+ok)
	add(0, get+"GET http://other.example/ HTTP/1.1\r\nHost: other.example\r\n\r\n", ok+ok)
	add(0, get+"CONNECT x:1 HTTP/1.1\r\nHost: x:1\r\n\r\n", ok+ok)
	add(0, "POST http://example.com/ HTTP/1.1\r\nHost: example.com\r\nTransfer-Encoding: chunked\r\nTrailer: X-T\r\n\r\n5\r\nhello\r\n0\r\nX-T: 1\r\n\r\n", "HTTP/1.1 100 Continue\r\n\r\n"+ok)
	add(0, "POST http://example.com/ HTTP/1.1\r\nHost: example.com\r\nContent-Length: 100\r\nExpect: 100-continue\r\n\r\nshort", ok)
	add(0, "POST http://example.com/ HTTP/1.1\r\nHost: example.com\r\nTransfer-Encoding: chunked\r\n\r\nffffffffffffffff\r\n", ok)
	add(0, "HEAD http://example.com/ HTTP/1.0\r\n\r\n", "HTTP/1.0 200 OK\r\nContent-Length: 10\r\n\r\n")
	add(0, get, "HTTP/1.1 301 Moved\r\nLocation: http://elsewhere.example/\r\nContent-Length: 0\r\n\r\n")
	add(0, get, "HTTP/1.1 302 Found\r\nLocation: :%zz\r\nLocation: x\r\n\r\n")
	add(0, get, "HTTP/1.1 200 OK\r\nTransfer-Encoding: chunked\r\n\r\n5\r\nhello\r\n0\r\n\r\n")
	add(0, get, "HTTP/1.1 200 OK\r\nTransfer-Encoding: chunked\r\n\r\nzz\r\n")
	add(0, get, "HTTP/1.1 200 OK\r\nContent-Length: -1\r\n\r\n")
	add(0, get, "HTTP/1.1 200 OK\r\nContent-Length: 99999999999999999999\r\n\r\n")
	add(0, get, "HTTP/1.1 200 OK\r\n\r\nclose-delimited body")
	add(0, get, "HTTP/1.1 101 Switching Protocols\r\nUpgrade: x\r\nConnection: Upgrade\r\n\r\nraw")
	add(0, get, "HTTP/1.1 100 Continue\r\n\r\nHTTP/1.1 103 Early Hints\r\n\r\nHTTP/1.1 204 No Content\r\n\r\n")
	add(0, get, "HTTP/9.9 000 \r\n\r\n")
	add(0, get, "garbage\r\n\r\n")
	add(0, get, "")
	add(0, get, ok+ok) // payload after final response
	// auth
	add(1, "GET http://example.com/ HTTP/1.1\r\nHost: example.com\r\n\r\n"+"GET http://example.com/ HTTP/1.1\r\nHost: example.com\r\n"+basic("alice", "secret")+"\r\n", ok)
	add(1, "GET http://example.com/ HTTP/1.1\r\nHost: example.com\r\n"+basic("alice", "wrong")+"Connection: close\r\n\r\n", ok)
	add(1, "CONNECT example.com:443 HTTP/1.1\r\nProxy-Authorization: basic \r\n\r\n", "")
	add(1, "CONNECT example.com:443 HTTP/1.1\r\nProxy-Authorization: Basic\r\n\r\n", "")
	add(1, "CONNECT example.com:443 HTTP/1.1\r\nProxy-Authorization: BASIC "+base64.StdEncoding.EncodeToString([]byte(":"))+"\r\n\r\n", "")
	add(1, strings.Repeat("GET / HTTP/1.1\r\nHost: x\r\n\r\n", 20), ok)
	// malformed
	add(0, "GET", "")
	add(0, "\r\n\r\n", "")
	add(0, "GET / HTTP/1.1\r\nHost: a\r\nHost: b\r\n\r\n", ok)
	add(0, "GET / HTTP/1.1\r\n"+strings.Repeat("X: y\r\n", 2000)+"\r\n", ok)
	add(0, "GET http://[::1/ HTTP/1.1\r\n\r\n", ok)
	add(0, "PRI * HTTP/2.0\r\n\r\nSM\r\n\r\n", "")
	add(0, "GET / HTTP/1.1\r\nHost: x\r\nContent-Length: 5\r\nContent-Length: 6\r\n\r\nhello", ok)
	return
}

func FuzzHTTPServer(f *testing.F) {
	sels, clients, origins := httpServerSeeds()
	for _, i := range thin(len(clients), 160) {
		f.Add(sels[i]|uint8(i%5/4)<<2, uint16(i%3), clients[i], origins[i])
	}
	f.Fuzz(func(t *testing.T, sel uint8, frag uint16, client, origin []byte) {
		oracleHTTPServer(t, sel, frag, client, origin)
	})
}

// sel: bit0 basic auth enabled, bit1 unused (kept for seed diversity), bit2 Abort instead of Proceed
func oracleHTTPServer(t failer, sel uint8, frag uint16, client, origin []byte) (out oracleResult) {
	desc := func() string {
		return fmt.Sprintf("sel=%#x frag=%#x client=%q origin=%q", sel, frag, trunc(client), trunc(origin))
	}
	cfg := httpproxy.ServerConfig{Users: httpUsers, EnableBasicAuth: sel&1 != 0}
	server, err := cfg.NewProxyServer()
	if err != nil {
		t.Fatalf("harness: %v", err)
	}
	srv, peer := hostileConn(client, frag, 0)
	var (
		req  netio.ConnRequest
		herr error
	)
	guard(t, recHTTPServer, "http-server-handle", desc, func() { req, herr = server.HandleStream(srv, debugLogger()) })
	if herr != nil {
		recHTTPServer.Case("", false, "rejected")
		return
	}
	if req.PendingConn == nil || !req.Addr.IsValid() {
		t.Fatalf("SIG=C06/http-server-empty-request VERIF-VIOLATION HandleStream returned no error and no request: %s", desc())
	}
	res := useAddr(t, recHTTPServer, "http-server", req.Addr, req.Username, false)
	out = oracleResult{accepted: true, addr: req.Addr, user: req.Username, use: res}
	form := "plain"
	if bytes.HasPrefix(bytes.TrimLeft(client, "\r\n"), []byte("CONNECT")) {
		form = "connect"
	}
	wrote := false
	stuck := false
	guard(t, recHTTPServer, "http-server-answer", desc, func() {
		before := len(written(srv))
		if sel&4 != 0 {
			_ = req.Abort(conn.DialResult{Code: conn.DialResultCodeECONNREFUSED})
			wrote = len(written(srv)) > before
			return
		}
		c, err := req.Proceed()
		if err != nil {
			return
		}
		if pc, ok := c.(*netio.PipeConn); ok {
			// plain request: we are the origin behind the dialled connection. The forwarding runs on goroutines of the
			// code under test: a panic there ends the process, so the case is journaled first (outside the fuzz engine,
			// which saves its own crashers).
			if done := journalHTTP(sel, frag, client, origin); done != nil {
				defer done()
			}
			got := make(chan int64, 1)
			go func() {
				n, _ := io.Copy(io.Discard, pc)
				got <- n
			}()
			_, _ = pc.Write(origin)
			_ = pc.CloseWrite()
			// the forwarding goroutines close the client conn when they are done
			done := make(chan struct{})
			go func() {
				_, _ = io.Copy(io.Discard, peer)
				close(done)
			}()
			select {
			case <-done:
			case <-time.After(completionBound / 3):
				stuck = true
			}
			_ = pc.Close()
			_ = srv.Close()
			select {
			case n := <-got:
				wrote = n > 0
				out.originGot = n
			case <-time.After(completionBound / 3):
				stuck = true
			}
			out.forwarded, out.stuck = true, stuck
			if !stuck {
				out.clientGot = written(srv)
			}
			return
		}
		// CONNECT: 200 was written, tunnel bytes follow
		buf := make([]byte, 32)
		for {
			if _, err := c.Read(buf); err != nil {
				break
			}
		}
		_, _ = c.Write(origin)
		wrote = len(written(srv)) > before
	})
	labels := []string{"accepted", "form:" + form}
	if stuck {
		// not a crash: recorded, never a failure of C06
		labels = append(labels, "forwarding-stuck-20s")
	}
	cls := addrClass(req.Addr)
	recHTTPServer.Case(fmt.Sprintf("%s/%d/%s", form, sel&1, cls), res.routed > 0 && wrote, append(labels, "class:"+cls)...)
	return
}

type httpJournal struct {
	Type   string `json:"type"`
	Sel    uint8  `json:"sel"`
	Frag   uint16 `json:"frag"`
	Client string `json:"client"`
	Origin string `json:"origin"`
}

var isFuzzWorker = func() bool {
	for _, a := range os.Args {
		if strings.HasPrefix(a, "-test.fuzzworker") {
			return true
		}
	}
	return false
}()

// httpRing: the journal holds the last few forwarding cases, not only the current one, and is removed half a second after
// the last case ended rather than at once. Reason (found in round 6 with a seeded panic in serverForwardResponses): a panic on the
// forwarding goroutine first runs that goroutine's deferred c.rw.Close() and only then prints the panic and ends the process;
// the deferred Close makes the harness see "client connection closed", finish the case and - with the old scheme - remove the
// journal within the tens of milliseconds the dying process still had (observed on a loaded machine in 3 of 36 runs: the driver
// then had a crash but no replay file). With the ring the crashing case is still among the journaled ones.
var httpRing struct {
	mu    sync.Mutex
	cases []httpJournal
	timer *time.Timer
}

type httpRingDoc struct {
	Type  string        `json:"type"` // "http-forward-ring"
	Cases []httpJournal `json:"cases"`
}

func journalHTTP(sel uint8, frag uint16, client, origin []byte) func() {
	w := os.Getenv("VERIF_WORK")
	if w == "" || isFuzzWorker {
		return nil
	}
	p := filepath.Join(w, fmt.Sprintf("journal-http-%d.json", os.Getpid()))
	httpRing.mu.Lock()
	defer httpRing.mu.Unlock()
	if httpRing.timer != nil {
		httpRing.timer.Stop()
		httpRing.timer = nil
	}
	httpRing.cases = append(httpRing.cases, httpJournal{"http-forward", sel, frag, hex.EncodeToString(client), hex.EncodeToString(origin)})
	if len(httpRing.cases) > 4 {
		httpRing.cases = httpRing.cases[len(httpRing.cases)-4:]
	}
	b, _ := json.Marshal(httpRingDoc{"http-forward-ring", httpRing.cases})
	if os.WriteFile(p+".tmp", b, 0o644) != nil || os.Rename(p+".tmp", p) != nil {
		return nil
	}
	return func() {
		httpRing.mu.Lock()
		defer httpRing.mu.Unlock()
		if httpRing.timer != nil {
			httpRing.timer.Stop()
		}
		var self *time.Timer
		self = time.AfterFunc(500*time.Millisecond, func() {
			httpRing.mu.Lock()
			defer httpRing.mu.Unlock()
			if httpRing.timer == self {
				os.Remove(p)
				httpRing.timer = nil
				httpRing.cases = nil
			}
		})
		httpRing.timer = self
	}
}

// TestReplayHTTP re-runs journaled plain-HTTP forwarding cases ($VERIF_REPLAY): a ring of the last cases before the process
// died (oldest first; the last one or two are the candidates), or a single case in the format used before round 6.
func TestReplayHTTP(t *testing.T) {
	p := os.Getenv("VERIF_REPLAY")
	if p == "" {
		t.Skip("VERIF_REPLAY not set")
	}
	b, err := os.ReadFile(p)
	if err != nil {
		t.Fatal(err)
	}
	var ring httpRingDoc
	if json.Unmarshal(b, &ring) != nil {
		t.Skip("not an http-forward journal")
	}
	switch ring.Type {
	case "http-forward":
		var j httpJournal
		if json.Unmarshal(b, &j) != nil {
			t.Skip("not an http-forward journal")
		}
		ring.Cases = []httpJournal{j}
	case "http-forward-ring":
	default:
		t.Skip("not an http-forward journal")
	}
	for _, j := range ring.Cases {
		c, _ := hex.DecodeString(j.Client)
		o, _ := hex.DecodeString(j.Origin)
		oracleHTTPServer(t, j.Sel, j.Frag, c, o)
	}
	time.Sleep(300 * time.Millisecond) // a panic on a forwarding goroutine ends the process a moment after the case returned
}

func trunc(b []byte) []byte {
	if len(b) > 400 {
		return b[:400]
	}
	return b
}

// ---------------------------------------------------------------- HTTP CONNECT client (reply parsing)

var recHTTPClient = ev.New(prop, "fuzz-http-client",
	"selector (target, read path) + server byte stream + fragmentation -> httpproxy.ClientConnect over an owned conn; "+
		"an established tunnel is then drained through Read or WriteTo (server-speaks-first bytes buffered by the reply parser). "+
		"Non-trivial: 2xx accepted and tunnel bytes delivered; distinct key = target kind + read path + buffered/unbuffered")

func httpClientSeeds() (sels []uint8, seeds [][]byte) {
	add := func(sel uint8, s string) { sels = append(sels, sel); seeds = append(seeds, []byte(s)) }
	// the repo's own server's replies
	for i, reqs := range []string{"CONNECT example.com:443 HTTP/1.1\r\nHost: example.com:443\r\n\r\n", "CONNECT example.com:x HTTP/1.1\r\n\r\n", "GET / HTTP/1.1\r\n\r\n"} {
		server, _ := (&httpproxy.ServerConfig{}).NewProxyServer()
		srv, _ := hostileConn([]byte(reqs), 0, 0)
		req, err := server.HandleStream(srv, debugLogger())
		if err == nil {
			if i == 0 {
				_, _ = req.Proceed()
			} else {
				_ = req.Abort(conn.DialResult{})
			}
		}
		add(0, string(written(srv))+"server speaks first")
		add(1, string(written(srv)))
	}
	for _, s := range []string{
		"HTTP/1.1 200 OK\r\n\r\n", "HTTP/1.1 200 OK\r\n\r\nhello", "HTTP/1.0 200 Connection established\r\nProxy-Agent: x\r\n\r\n",
		"HTTP/1.1 299 \r\n\r\n", "HTTP/1.1 199 x\r\n\r\n", "HTTP/1.1 300 x\r\n\r\n", "HTTP/1.1 407 Proxy Authentication Required\r\nProxy-Authenticate: Basic\r\n\r\n",
		"HTTP/1.1 502 Bad Gateway\r\nConnection: close\r\n\r\n", "HTTP/1.1 200 OK\r\nContent-Length: 5\r\n\r\nhello", "HTTP/1.1 200 OK\r\nTransfer-Encoding: chunked\r\n\r\n5\r\nhello\r\n0\r\n\r\n",
		"HTTP/1.1 200 OK\r\nContent-Length: -5\r\n\r\n", "HTTP/1.1 2000 OK\r\n\r\n", "HTTP/1.1 -200 OK\r\n\r\n", "HTTP/1.1 200\r\n\r\n", "HTTP/1.1  200 OK\r\n\r\n",
		"HTTP/2.0 200 OK\r\n\r\n", "HTTP/1.1 100 Continue\r\n\r\nHTTP/1.1 200 OK\r\n\r\n", "ICY 200 OK\r\n\r\n", "\r\n\r\n", "", "HTTP/1.1 200 OK\r\n" + strings.Repeat("A: b\r\n", 5000) + "\r\n",
		"HTTP/1.1 200 OK\r\nA:" + strings.Repeat("x", 70000) + "\r\n\r\n", "HTTP/1.1 200 OK\r\n\r\n" + strings.Repeat("z", 9000),
	} {
		add(0, s)
		add(5, s)
	}
	return
}

func FuzzHTTPClient(f *testing.F) {
	sels, seeds := httpClientSeeds()
	for _, i := range thin(len(seeds), 160) {
		f.Add(sels[i], uint16(i%3), seeds[i])
	}
	f.Fuzz(func(t *testing.T, sel uint8, frag uint16, data []byte) { oracleHTTPClient(t, sel, frag, data) })
}

// sel: bit0 drain with WriteTo (else Read), bits1-2 target kind
func oracleHTTPClient(t failer, sel uint8, frag uint16, data []byte) {
	desc := func() string { return fmt.Sprintf("sel=%#x frag=%#x data=%q", sel, frag, trunc(data)) }
	targets := []conn.Addr{
		conn.MustAddrFromDomainPort("example.com", 443),
		conn.AddrFromIPAndPort(netip.MustParseAddr("::ffff:1.2.3.4"), 0),
		conn.MustAddrFromDomainPort(strings.Repeat("n", 255), 65535),
		conn.MustAddrFromDomainPort("a b\r\nX: y", 1),
	}
	tk := int(sel>>1) & 3
	srv, _ := hostileConn(data, frag, 0)
	var (
		c   netio.Conn
		err error
	)
	guard(t, recHTTPClient, "http-client-connect", desc, func() {
		c, err = httpproxy.ClientConnect(srv, targets[tk], "\r\nProxy-Authorization: Basic dTpw")
	})
	if err != nil {
		recHTTPClient.Case("", false, "rejected")
		return
	}
	if c == nil {
		t.Fatalf("SIG=C06/http-client-nil-conn VERIF-VIOLATION ClientConnect returned neither conn nor error: %s", desc())
	}
	var n int64
	guard(t, recHTTPClient, "http-client-tunnel", desc, func() {
		if wt, ok := c.(io.WriterTo); ok && sel&1 != 0 {
			n, _ = wt.WriteTo(io.Discard)
			return
		}
		buf := make([]byte, 7)
		for {
			k, err := c.Read(buf)
			n += int64(k)
			if err != nil {
				break
			}
		}
		_, _ = c.Write([]byte("x"))
	})
	recHTTPClient.Case(fmt.Sprintf("%d/%d/%v", tk, sel&1, c != netio.Conn(srv)), n > 0, "accepted")
}
