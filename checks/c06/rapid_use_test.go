package c06

import (
	"context"
	"encoding/binary"
	"fmt"
	"math/rand/v2"
	"net/netip"
	"reflect"
	"strings"
	"testing"

	"github.com/database64128/shadowsocks-go/conn"
	"github.com/database64128/shadowsocks-go/dns"
	"github.com/database64128/shadowsocks-go/domainset"
	"github.com/database64128/shadowsocks-go/netio"
	"github.com/database64128/shadowsocks-go/prefixset"
	"github.com/database64128/shadowsocks-go/router"
	"github.com/database64128/shadowsocks-go/zerocopy"
	"golang.org/x/net/dns/dnsmessage"
	"pgregory.net/rapid"

	"verif/internal/ev"
)

// TestAddrUse is the structure-aware half of C06: every address the wire can express is pushed through a
// real entry point (stream handshake or datagram of every server protocol), and what the service computes
// from it afterwards is executed: routing through a freshly generated router whose port criteria are forced
// into each of the three representations (plus the 24 fixed cells of useAddr), name resolution through a real
// dns.Resolver fed scripted replies, answering and relaying.

var recUse = ev.New(prop, "addr-use",
	"rapid: address (IPv4 | IPv6 | IPv4-mapped under ATYP 4 | name of length {1,2,63,64,253,254,255,random} with DNS-like, rule-matching or arbitrary bytes) x "+
		"port {0,1,53,80,443,65535,random} x entry point {socks5 CONNECT no-auth/auth, socks5 UDP ASSOCIATE, ss-none TCP, ss2022 TCP (4 configs, sealed), HTTP CONNECT, "+
		"HTTP plain, socks5/none/ss2022 UDP datagram} x fragmentation x generated router (1-4 routes; port criterion on source or destination in representation "+
		"single | <=16 ranges | >16 ranges (bitmap), inverted or not; domain / domain-set / prefix / resolved-prefix / user criteria; real dns.Resolver with scripted "+
		"replies first in the resolver list) -> HandleStream/UnpackInPlace, GetTCPClient/GetUDPClient, Proceed/Abort, upstream re-encoding. "+
		"Non-trivial: the entry point produced exactly the generated address and both the generated router and the fixed cells returned a decision; "+
		"distinct key = entry + address class + representations present + outcome").
	Require("gen dom/p0 to:bitmap", "gen dom/p0 to:bitmap/inv", "gen dom/p65535 to:bitmap", "gen dom/p65535 to:bitmap/inv",
		"gen src/p0 from:bitmap", "gen src/p0 from:bitmap/inv", "gen src/p65535 from:bitmap", "gen src/p0 from:ranges", "gen src/p0 from:single").
	Require("port0/bitmap", "port0/ranges", "port0/single", "class:dom255", "class:dom1", "class:ip4in6", "entry:socks5-connect", "entry:socks5-udp",
		"entry:ssnone", "entry:ss2022-tcp", "entry:ss2022-udp", "entry:http-connect", "entry:none-udp", "entry:socks5-assoc", "dns:answered", "gen:inverted-port")

type wireAddr struct {
	enc  []byte // SOCKS5 wire form written by the harness
	ip   netip.Addr
	name string
	port uint16
}

func (w wireAddr) hostPort() string {
	if w.name != "" {
		return fmt.Sprintf("%s:%d", w.name, w.port)
	}
	return netip.AddrPortFrom(w.ip, w.port).String()
}

var vocabNames = []string{"example.com", "a.example.com", "exact.example", "ad1.tracker.x", "a", "localhost", "x", "com.", "b.example.com."}

func genWireAddr(rt *rapid.T) wireAddr {
	var w wireAddr
	if rapid.IntRange(0, 9).Draw(rt, "portKind") < 7 {
		w.port = rapid.SampledFrom([]uint16{0, 0, 1, 53, 80, 443, 65535}).Draw(rt, "port")
	} else {
		w.port = rapid.Uint16().Draw(rt, "portAny")
	}
	switch rapid.IntRange(0, 9).Draw(rt, "kind") {
	case 0, 1:
		w.ip = rapid.SampledFrom([]netip.Addr{netip.MustParseAddr("127.0.0.1"), netip.MustParseAddr("10.0.0.1"), netip.MustParseAddr("0.0.0.0"), netip.MustParseAddr("255.255.255.255"), netip.MustParseAddr("192.0.2.7")}).Draw(rt, "ip4")
	case 2:
		w.ip = rapid.SampledFrom([]netip.Addr{netip.MustParseAddr("::1"), netip.MustParseAddr("::"), netip.MustParseAddr("2001:db8::1"), netip.MustParseAddr("fe80::1")}).Draw(rt, "ip6")
	case 3:
		w.ip = rapid.SampledFrom([]netip.Addr{netip.MustParseAddr("::ffff:10.0.0.1"), netip.MustParseAddr("::ffff:127.0.0.1"), netip.MustParseAddr("::ffff:0.0.0.0")}).Draw(rt, "ip4in6")
	default:
		n := rapid.SampledFrom([]int{1, 1, 2, 63, 64, 253, 254, 255, 255, 0}).Draw(rt, "nameLen")
		if n == 0 {
			n = rapid.IntRange(3, 62).Draw(rt, "nameLenAny")
		}
		style := rapid.IntRange(0, 3).Draw(rt, "nameStyle")
		seed := rapid.Uint64().Draw(rt, "nameSeed")
		r := rand.New(rand.NewPCG(seed, 1))
		b := make([]byte, n)
		switch style {
		case 0: // vocabulary name (matches router rules), padded on the left with a label when longer
			v := vocabNames[int(seed%uint64(len(vocabNames)))]
			if len(v) >= n {
				b = []byte(v[len(v)-n:])
			} else {
				for i := range b {
					b[i] = 'p'
				}
				copy(b[n-len(v):], v)
				if n-len(v) >= 1 {
					b[n-len(v)-1] = '.'
				}
			}
		case 1: // DNS-like labels
			for i := range b {
				if i%17 == 16 {
					b[i] = '.'
				} else {
					b[i] = "abcdefghijklmnopqrstuvwxyz0123456789-"[r.IntN(37)]
				}
			}
		case 2: // arbitrary bytes
			for i := range b {
				b[i] = byte(r.IntN(256))
			}
		default: // hostile text
			src := []string{"127.0.0.1", "::1", "[::1]", "fe80::1%lo", "a..b", ".", "..", "%s%n", "a b", "\r\n", "\x00", "xn--nxasmq6b"}[r.IntN(12)]
			for i := range b {
				b[i] = src[i%len(src)]
			}
		}
		w.name = string(b)
	}
	if w.name != "" {
		w.enc = socksAddrDomain(w.name, w.port)
	} else {
		w.enc = socksAddrIP(w.ip, w.port)
	}
	return w
}

// httpSafe reports whether the host can be written into an HTTP request line / Host field at all.
func httpSafe(w wireAddr) bool {
	if w.name == "" {
		return true
	}
	for i := 0; i < len(w.name); i++ {
		c := w.name[i]
		if c <= ' ' || c >= 0x7f || strings.IndexByte(":[]/?#@%\\\"<>^`{|}", c) >= 0 {
			return false
		}
	}
	return true
}

// scripted upstream for the real dns.Resolver of the generated router
type dnsScript struct {
	mode     int
	cut      int
	answered int
}

func (d *dnsScript) reply(_ int, _ conn.Addr, queries []byte) []byte {
	var out []byte
	for len(queries) >= 2 {
		n := min(takeLen(&queries), len(queries))
		q := queries[:n]
		queries = queries[n:]
		var p dnsmessage.Parser
		h, err := p.Start(q)
		if err != nil {
			continue
		}
		qs, err := p.AllQuestions()
		if err != nil || len(qs) != 1 {
			continue
		}
		m := dnsmessage.Message{Header: dnsmessage.Header{ID: h.ID, Response: true, RecursionDesired: true, RecursionAvailable: true}, Questions: qs}
		switch d.mode {
		case 0: // addresses inside the router's prefixes
			if qs[0].Type == dnsmessage.TypeA {
				m.Answers = []dnsmessage.Resource{{Header: dnsmessage.ResourceHeader{Name: qs[0].Name, Type: dnsmessage.TypeA, Class: dnsmessage.ClassINET, TTL: 30}, Body: &dnsmessage.AResource{A: [4]byte{10, 1, 2, 3}}}}
			}
		case 1: // IPv4-mapped AAAA and an A outside
			if qs[0].Type == dnsmessage.TypeAAAA {
				m.Answers = []dnsmessage.Resource{{Header: dnsmessage.ResourceHeader{Name: qs[0].Name, Type: dnsmessage.TypeAAAA, Class: dnsmessage.ClassINET, TTL: 0}, Body: &dnsmessage.AAAAResource{AAAA: [16]byte{10: 0xff, 11: 0xff, 12: 10, 15: 9}}}}
			} else {
				m.Answers = []dnsmessage.Resource{{Header: dnsmessage.ResourceHeader{Name: qs[0].Name, Type: dnsmessage.TypeA, Class: dnsmessage.ClassINET, TTL: 1 << 31}, Body: &dnsmessage.AResource{A: [4]byte{192, 0, 2, 1}}}}
			}
		case 2:
			m.Header.RCode = dnsmessage.RCodeNameError
		case 3:
			m.Header.RCode = dnsmessage.RCodeServerFailure
		case 4: // the query echoed back as a "response", cut short at a drawn length (0..40 bytes)
			g := append([]byte(nil), q...)
			if len(g) > 2 {
				g[2] |= 0x80
			}
			out = append(out, framed(g[:min(len(g), d.cut)])...)
			continue
		default: // silence then EOF
			continue
		}
		b, err := m.Pack()
		if err != nil {
			continue
		}
		d.answered++
		out = append(out, framed(b)...)
	}
	return out
}

type genRouter struct {
	r       *router.Router
	portRep map[string]bool // "single", "ranges", "bitmap" present on the destination port
	crit    map[string]bool // round 6: "to:bitmap", "to:bitmap/inv", "from:ranges", ... present in some route
	inv     bool
	nRoutes int
	dnsS    *dnsScript
}

func genPortList(rt *rapid.T, rep string) (ports []uint16, ranges string) {
	switch rep {
	case "single":
		return []uint16{rapid.SampledFrom([]uint16{1, 53, 443, 65535}).Draw(rt, "single")}, ""
	}
	var k int
	if rep == "ranges" {
		k = rapid.IntRange(1, 16).Draw(rt, "nRanges")
	} else {
		k = rapid.IntRange(17, 40).Draw(rt, "nRangesBig")
	}
	off := rapid.IntRange(1, 60).Draw(rt, "off")
	step := rapid.SampledFrom([]int{4, 64, 100, 1500}).Draw(rt, "step")
	w := rapid.IntRange(0, 2).Draw(rt, "width")
	var parts []string
	for i := 0; i < k; i++ {
		from := off + i*step
		if from+w > 65535 {
			break
		}
		if w == 0 {
			parts = append(parts, fmt.Sprint(from))
		} else {
			parts = append(parts, fmt.Sprintf("%d-%d", from, from+w))
		}
	}
	if k == 1 && w == 0 {
		parts = append(parts, "65535") // a second member so the set is not collapsed to the single-port form
	}
	return nil, strings.Join(parts, ",")
}

func genRouterFor(rt *rapid.T, t failer, target wireAddr) *genRouter {
	routerCells(t) // makes sure the set files exist
	g := &genRouter{portRep: map[string]bool{}, crit: map[string]bool{}, dnsS: &dnsScript{mode: rapid.IntRange(0, 5).Draw(rt, "dnsMode"), cut: rapid.IntRange(0, 40).Draw(rt, "dnsCut")}}
	n := rapid.IntRange(1, 4).Draw(rt, "nRoutes")
	g.nRoutes = n
	cfg := router.Config{
		DefaultTCPClientName: rapid.SampledFrom([]string{"c2", "reject"}).Draw(rt, "defTCP"),
		DefaultUDPClientName: rapid.SampledFrom([]string{"c2", "reject"}).Draw(rt, "defUDP"),
	}
	useSet := map[string]bool{} // set files are loaded (mmap) per router: only reference the ones a route names
	pfx := []netip.Prefix{netip.MustParsePrefix("10.0.0.0/8"), netip.MustParsePrefix("2001:db8::/32"), netip.MustParsePrefix("127.0.0.1/32"), netip.MustParsePrefix("::ffff:0:0/96")}
	for i := 0; i < n; i++ {
		rc := router.RouteConfig{Name: fmt.Sprintf("r%d", i), Client: rapid.SampledFrom([]string{"c1", "c1", "reject"}).Draw(rt, "client")}
		rc.Network = rapid.SampledFrom([]string{"", "", "tcp", "udp"}).Draw(rt, "network")
		crit := 0
		if rapid.IntRange(0, 9).Draw(rt, "hasPort") < 8 {
			rep := rapid.SampledFrom([]string{"single", "ranges", "bitmap", "bitmap"}).Draw(rt, "rep")
			ports, ranges := genPortList(rt, rep)
			inv := rapid.IntRange(0, 3).Draw(rt, "invPort") == 0
			side := "to:"
			if rapid.IntRange(0, 4).Draw(rt, "portField") == 0 {
				rc.FromPorts, rc.FromPortRanges, rc.InvertFromPorts = ports, ranges, inv
				side = "from:"
			} else {
				rc.ToPorts, rc.ToPortRanges, rc.InvertToPorts = ports, ranges, inv
				g.portRep[rep] = true
			}
			if inv {
				g.crit[side+rep+"/inv"] = true
			} else {
				g.crit[side+rep] = true
			}
			g.inv = g.inv || inv
			crit++
		}
		if rapid.IntRange(0, 9).Draw(rt, "hasDomain") < 4 {
			switch rapid.IntRange(0, 2).Draw(rt, "domKind") {
			case 0:
				rc.ToDomains = []string{"example.com", "a", "localhost"}
				if target.name != "" && rapid.Bool().Draw(rt, "ownName") {
					rc.ToDomains = append(rc.ToDomains, target.name)
				}
			case 1:
				rc.ToDomainSets = []string{"ds"}
				useSet["ds"] = true
			default:
				rc.ToDomainSets = []string{"dsgob"}
				useSet["dsgob"] = true
				rc.ToMatchedDomainExpectedPrefixes = pfx[:2]
				rc.InvertToMatchedDomainExpectedPrefixes = rapid.Bool().Draw(rt, "invExp")
			}
			rc.InvertToDomains = rapid.IntRange(0, 3).Draw(rt, "invDom") == 0
			crit++
		}
		if rapid.IntRange(0, 9).Draw(rt, "hasPrefix") < 4 {
			rc.ToPrefixes = pfx[:rapid.IntRange(1, 4).Draw(rt, "nPfx")]
			if rapid.Bool().Draw(rt, "pfxSet") {
				rc.ToPrefixSets = []string{"ps"}
				useSet["ps"] = true
			}
			rc.DisableNameResolutionForIPRules = rapid.IntRange(0, 3).Draw(rt, "noResolve") == 0
			rc.InvertToPrefixes = rapid.IntRange(0, 3).Draw(rt, "invPfx") == 0
			rc.Resolver = rapid.SampledFrom([]string{"", "", "real", "fake"}).Draw(rt, "resolver")
			crit++
		}
		if rapid.IntRange(0, 9).Draw(rt, "hasFrom") < 2 {
			rc.FromPrefixes = pfx[2:]
			rc.FromUsers = []string{"alice", "u"}
			rc.InvertFromUsers = rapid.Bool().Draw(rt, "invUsers")
			crit++
		}
		_ = crit
		cfg.Routes = append(cfg.Routes, rc)
	}
	if useSet["ds"] {
		cfg.DomainSets = append(cfg.DomainSets, domainset.Config{Name: "ds", Path: setFiles.ds})
	}
	if useSet["dsgob"] {
		cfg.DomainSets = append(cfg.DomainSets, domainset.Config{Name: "dsgob", Type: "gob", Path: setFiles.gob})
	}
	if useSet["ps"] {
		cfg.PrefixSets = append(cfg.PrefixSets, prefixset.Config{Name: "ps", Path: setFiles.ps})
	}
	tcp := &scriptClient{name: "dns-tcp", frag: uint16(rapid.IntRange(0, 0x0fff).Draw(rt, "dnsFrag")), reply: g.dnsS.reply}
	real := dns.NewResolver("real", 8, netip.MustParseAddrPort("127.0.0.53:53"), tcp, nil, debugLogger())
	fake := fakeResolver{rapid.IntRange(0, 4).Draw(rt, "fakeK")}
	r, err := cfg.Router(debugLogger(),
		[]dns.SimpleResolver{real, fake}, map[string]dns.SimpleResolver{"real": real, "fake": fake},
		map[string]netio.StreamClient{"c1": c1TCP, "c2": c2TCP},
		map[string]zerocopy.UDPClient{"c1": c1UDP, "c2": c2UDP},
		map[string]int{"s0": 0, "s1": 1})
	if err != nil {
		t.Fatalf("harness: generated router config rejected: %v (%+v)", err, cfg.Routes)
	}
	g.r = r
	// cross-check the claimed representations against what was built (observation by reflect only)
	built := routeCriterionTypes(r)
	for rep, typ := range map[string]string{"single": "router.DestPortCriterion", "ranges": "router.DestPortRangeSetCriterion", "bitmap": "*router.DestPortSetCriterion"} {
		if g.portRep[rep] && !strings.Contains(built, typ) {
			t.Fatalf("harness: generated router claims destination-port representation %s but built criteria are %s", rep, built)
		}
	}
	for rep, typ := range map[string]string{"single": "router.SourcePortCriterion", "ranges": "router.SourcePortRangeSetCriterion", "bitmap": "*router.SourcePortSetCriterion"} {
		if (g.crit["from:"+rep] || g.crit["from:"+rep+"/inv"]) && !strings.Contains(built, typ) {
			t.Fatalf("harness: generated router claims source-port representation %s but built criteria are %s", rep, built)
		}
	}
	return g
}

func routeCriterionTypes(r *router.Router) (s string) {
	defer func() {
		if recover() != nil {
			s = "?"
		}
	}()
	var walk func(v reflect.Value)
	var names []string
	walk = func(v reflect.Value) {
		for v.Kind() == reflect.Interface {
			v = v.Elem()
		}
		names = append(names, v.Type().String())
		if v.Type().String() == "router.InvertedCriterion" {
			walk(v.Field(0))
		}
	}
	routes := reflect.ValueOf(r).Elem().FieldByName("routes")
	for i := 0; i < routes.Len(); i++ {
		crit := routes.Index(i).FieldByName("criteria")
		for j := 0; j < crit.Len(); j++ {
			walk(crit.Index(j))
		}
	}
	return strings.Join(names, " ")
}

func TestAddrUse(t *testing.T) {
	rapid.Check(t, func(rt *rapid.T) {
		w := genWireAddr(rt)
		frag := uint16(rapid.IntRange(0, 0x1fff).Draw(rt, "frag"))
		entry := rapid.IntRange(0, 10).Draw(rt, "entry")
		if (entry == 5 || entry == 6) && !httpSafe(w) {
			entry = 0
		}
		var (
			out   oracleResult
			name  string
			isUDP bool
		)
		switch entry {
		case 0:
			name = "socks5-connect"
			out = oracleSocks5Server(rt, 0b0110|uint8(rapid.IntRange(0, 15).Draw(rt, "answer"))<<3, frag, cat([]byte{5, 2, 9, 0, 5, 1, 0}, w.enc, []byte("payload")))
		case 1:
			name = "socks5-connect"
			u := s5Users[rapid.IntRange(0, 2).Draw(rt, "user")]
			out = oracleSocks5Server(rt, 0b0111|uint8(rapid.IntRange(0, 15).Draw(rt, "answer"))<<3, frag, cat([]byte{5, 1, 2}, u.AppendAuthMsg(nil), []byte{5, 1, 0}, w.enc))
		case 2:
			name, isUDP = "socks5-assoc", true
			out = oracleSocks5Server(rt, 0b0110, frag, cat([]byte{5, 1, 0, 5, 3, 0}, w.enc))
		case 3:
			name = "ssnone"
			out = oracleSSNone(rt, frag, cat(w.enc, []byte("payload")))
		case 4, 10:
			name = "ss2022-tcp"
			cfg := rapid.SampledFrom([]uint8{0, ssM256, ssEIH, ssM256 | ssEIH | ssPrefix, ssSegment}).Draw(rt, "ssCfg")
			pad := rapid.SampledFrom([]int{0, 1, 900}).Draw(rt, "pad")
			payload := rapid.SampledFrom([]int{0, 1, 700}).Draw(rt, "payload")
			if pad == 0 && payload == 0 {
				pad = 1
			}
			vh := cat(w.enc, binary.BigEndian.AppendUint16(nil, uint16(pad)), make([]byte, pad+payload))
			data := ssReq(make([]byte, 11), vh, cat(chunkRec(5, 5, 'x'), chunkRec(70, 70, 'y')))
			out = oracleSS2022Server(rt, cfg|ssFixTS|ssFixLen, uint8(rapid.IntRange(0, 31).Draw(rt, "ssMode")), frag, data)
		case 5:
			name = "http-connect"
			hp := w.hostPort()
			out = oracleHTTPServer(rt, uint8(rapid.IntRange(0, 1).Draw(rt, "abort"))<<2, frag, []byte("CONNECT "+hp+" HTTP/1.1\r\nHost: "+hp+"\r\n\r\ntunnel"), nil)
		case 6:
			name = "http-plain"
			hp := w.hostPort()
			out = oracleHTTPServer(rt, 0, frag, []byte("GET http://"+hp+"/x HTTP/1.1\r\nHost: "+hp+"\r\nConnection: close\r\n\r\n"), []byte("HTTP/1.1 200 OK\r\nContent-Length: 2\r\n\r\nok"))
		case 7:
			name, isUDP = "socks5-udp", true
			out = oraclePacket(rt, 0, cat([]byte{0, 0, 0}, w.enc, []byte("dgram")))
		case 8:
			name, isUDP = "none-udp", true
			out = oraclePacket(rt, 1, cat(w.enc, []byte("dgram")))
		default:
			name, isUDP = "ss2022-udp", true
			cfg := rapid.SampledFrom([]uint8{0, ssM256, ssEIH, ssM256 | ssEIH}).Draw(rt, "ssCfg")
			pad := rapid.SampledFrom([]int{0, 1, 900}).Draw(rt, "pad")
			body := cat(make([]byte, 9), binary.BigEndian.AppendUint16(nil, uint16(pad)), make([]byte, pad), w.enc, []byte("dgram"))
			// packet / session ids: edges of the 64-bit space, 2^k, and a second packet a jump of +-2^k away
			id := func(label string) uint64 {
				switch rapid.IntRange(0, 3).Draw(rt, label+"Kind") {
				case 0:
					return rapid.SampledFrom(extremeIDs).Draw(rt, label)
				case 1:
					return uint64(1) << rapid.IntRange(0, 63).Draw(rt, label+"Pow")
				case 2:
					return rapid.Uint64Range(0, 600).Draw(rt, label+"Small")
				default:
					return rapid.Uint64().Draw(rt, label+"Any")
				}
			}
			sid, pid := id("sid"), id("pid")
			jump := uint64(1) << rapid.IntRange(0, 63).Draw(rt, "jump")
			data := dgram(sid, pid, body)
			switch rapid.IntRange(0, 2).Draw(rt, "second") {
			case 1:
				data = cat(data, dgram(sid, pid+jump, body))
			case 2:
				data = cat(data, dgram(sid, pid-jump, body), dgram(sid, pid+1, body))
			}
			out = oracleSS2022UDPServer(rt, cfg|ssFixTS, data)
		}
		if !out.accepted {
			rt.Fatalf("SIG=C06/harness-entry-rejected entry %s rejected a well-formed request for %q (%x)", name, w.hostPort(), w.enc)
		}
		// harness sanity: the entry point produced the address that was put on the wire
		if w.name != "" {
			if !out.addr.IsDomain() || out.addr.Domain() != w.name || out.addr.Port() != w.port {
				// HTTP normalises nothing here either; any difference would make the evidence lie
				if !(strings.HasPrefix(name, "http") && out.addr.IsIP()) { // a name that is an IP literal is parsed as IP by the HTTP path
					rt.Fatalf("SIG=C06/harness-address-mismatch entry %s: sent %q got %q", name, w.hostPort(), out.addr.String())
				}
			}
		} else if !out.addr.IsIP() || out.addr.IP().Unmap() != w.ip.Unmap() || out.addr.Port() != w.port {
			rt.Fatalf("SIG=C06/harness-address-mismatch entry %s: sent %s got %s", name, w.hostPort(), out.addr.String())
		}

		// the generated router
		g := genRouterFor(rt, rt, w)
		src := netip.AddrPortFrom(
			rapid.SampledFrom([]netip.Addr{netip.MustParseAddr("127.0.0.1"), netip.MustParseAddr("::ffff:127.0.0.1"), netip.MustParseAddr("2001:db8::9")}).Draw(rt, "srcIP"),
			rapid.SampledFrom([]uint16{1, 61, 40000, 65535, 0}).Draw(rt, "srcPort"))
		if src.Port() == 0 && !isUDP {
			// a datagram carries whatever source port its sender wrote (0 included); a TCP connection cannot have source port 0
			src = netip.AddrPortFrom(src.Addr(), 65535)
		}
		info := router.RequestInfo{ServerIndex: rapid.IntRange(0, 1).Draw(rt, "srv"), Username: out.user, SourceAddrPort: src, TargetAddr: out.addr}
		decision := "?"
		known := guard(rt, recUse, "route-generated", func() string {
			return fmt.Sprintf("entry=%s addr=%q src=%s routes=%s", name, out.addr.String(), src, routeCriterionTypes(g.r))
		}, func() {
			var err error
			var got any
			if isUDP {
				var c zerocopy.UDPClient
				c, err = g.r.GetUDPClient(context.Background(), info)
				got = c
				if c == nil && err == nil {
					rt.Fatalf("SIG=C06/route-no-result VERIF-VIOLATION GetUDPClient returned neither client nor error")
				}
			} else {
				var c netio.StreamClient
				c, err = g.r.GetTCPClient(context.Background(), info)
				got = c
				if c == nil && err == nil {
					rt.Fatalf("SIG=C06/route-no-result VERIF-VIOLATION GetTCPClient returned neither client nor error")
				}
			}
			switch {
			case err == router.ErrRejected:
				decision = "rejected"
				_ = router.DialResultFromError(err)
			case err != nil:
				decision = "error"
				_ = router.DialResultFromError(err)
			default:
				_ = got
				decision = "client"
			}
		})
		_ = g.r.Close()

		cls := addrClass(out.addr)
		labels := []string{"entry:" + name, "class:" + strings.SplitN(cls, "/", 2)[0], "decision:" + decision}
		var reps []string
		for _, rep := range []string{"single", "ranges", "bitmap"} {
			if g.portRep[rep] {
				labels = append(labels, "gen:"+rep)
				reps = append(reps, rep)
				if w.port == 0 {
					labels = append(labels, "port0/"+rep)
				}
			}
		}
		if g.inv {
			labels = append(labels, "gen:inverted-port")
		}
		for _, k := range []string{"to:single", "to:single/inv", "to:ranges", "to:ranges/inv", "to:bitmap", "to:bitmap/inv"} {
			if g.crit[k] && w.name != "" && out.addr.IsDomain() {
				switch w.port {
				case 0:
					labels = append(labels, "gen dom/p0 "+k)
				case 65535:
					labels = append(labels, "gen dom/p65535 "+k)
				}
			}
		}
		for _, k := range []string{"from:single", "from:single/inv", "from:ranges", "from:ranges/inv", "from:bitmap", "from:bitmap/inv"} {
			if g.crit[k] {
				switch src.Port() {
				case 0:
					labels = append(labels, "gen src/p0 "+k)
				case 65535:
					labels = append(labels, "gen src/p65535 "+k)
				}
			}
		}
		if g.dnsS.answered > 0 {
			labels = append(labels, "dns:answered")
		}
		if known || out.use.known {
			labels = append(labels, "known-finding-hit")
		}
		nontrivial := out.use.routed > 0 && (decision != "?" || known)
		recUse.Case(fmt.Sprintf("%s/%s/%v/%s", name, cls, reps, decision), nontrivial, labels...)
		if nontrivial {
			recUse.Sample(map[string]any{"entry": name, "addr": fmt.Sprintf("%q", out.addr.String()), "class": cls, "routes": routeCriterionTypes(g.r), "decision": decision, "known": known})
		}
	})
}
