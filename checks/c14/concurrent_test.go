package c14

import (
	"encoding/json"
	"fmt"
	"net/http"
	"runtime"
	"sync"
	"sync/atomic"
	"testing"

	"github.com/database64128/shadowsocks-go/api/ssm"
	"github.com/database64128/shadowsocks-go/stats"
	"pgregory.net/rapid"

	"verif/internal/ev"
)

// ---- plan -----------------------------------------------------------------------------------

type recPlan struct {
	Calls []call `json:"calls"`
	Loop  int    `json:"loop"` // the list is executed Loop times (keeps the drawn plan small while the recording window is long)
}

// snapshot kinds
const (
	skSnapshot      = iota // Collector.Snapshot()
	skReset                // Collector.SnapshotAndReset()
	skAPIGet               // GET /servers/s/stats
	skAPIClear             // GET /servers/s/stats?clear
	skAPIClearTrue         // GET /servers/s/stats?clear=true
	skAPIClearFalse        // GET /servers/s/stats?clear=false
	nSnapKinds
)

var snapKindNames = [nSnapKinds]string{"snapshot", "reset", "api-get", "api-clear", "api-clear-true", "api-clear-false"}

func isReset(k int) bool { return k == skReset || k == skAPIClear || k == skAPIClearTrue }

type snapPlan struct {
	Kind  int `json:"kind"`
	Reps  int `json:"reps"`
	After int `json:"after"` // start when this many per-mille of the phase's calls have been made
}

type phasePlan struct {
	Rec       []recPlan  `json:"rec"`
	Snaps     []snapPlan `json:"snaps"`
	Quiescent int        `json:"quiescent"` // snapshot kind used at the barrier after the phase
}

type plan struct {
	Phases   []phasePlan    `json:"phases"`
	NewUsers map[string]int `json:"new_users"` // user -> first phase in which it may appear
}

var baseUsers = []string{"", "u1", "u2", "u3", "u4", "u5"}

var amounts = []uint64{0, 1, 2, 17, 1440, 65535, 1 << 20, 1 << 32, 1<<40 - 1}

func drawAmount(rt *rapid.T, label string) uint64 {
	if rapid.IntRange(0, 3).Draw(rt, label+"k") == 0 {
		return rapid.Uint64Range(0, 1<<24).Draw(rt, label)
	}
	return rapid.SampledFrom(amounts).Draw(rt, label)
}

func drawPlan(rt *rapid.T) plan {
	nPhases := rapid.IntRange(1, 4).Draw(rt, "phases")
	p := plan{NewUsers: map[string]int{}}
	nNew := rapid.IntRange(0, 3).Draw(rt, "newUsers")
	for i := 0; i < nNew; i++ {
		p.NewUsers[fmt.Sprintf("n%d", i+1)] = rapid.IntRange(0, nPhases-1).Draw(rt, "firstPhase")
	}
	for ph := 0; ph < nPhases; ph++ {
		users := append([]string(nil), baseUsers...)
		for i := 0; i < nNew; i++ {
			u := fmt.Sprintf("n%d", i+1)
			if p.NewUsers[u] <= ph {
				users = append(users, u)
			}
		}
		nRec := rapid.IntRange(2, 16).Draw(rt, "recorders")
		pp := phasePlan{Rec: make([]recPlan, nRec)}
		for g := range pp.Rec {
			pp.Rec[g].Loop = rapid.SampledFrom([]int{1, 1, 2, 8, 40}).Draw(rt, "loop")
		}
		// sessions: a TCP session is one call; a UDP session is one uplink call and one downlink
		// call, made by (possibly) different goroutines, as the relays do.
		nSess := rapid.IntRange(0, 40).Draw(rt, "sessions")
		for s := 0; s < nSess; s++ {
			user := rapid.SampledFrom(users).Draw(rt, "user")
			g := rapid.IntRange(0, nRec-1).Draw(rt, "g")
			if rapid.Bool().Draw(rt, "tcp") {
				pp.Rec[g].Calls = append(pp.Rec[g].Calls, call{Kind: 0, User: user, A: drawAmount(rt, "down"), B: drawAmount(rt, "up")})
				continue
			}
			// both halves of a UDP session run in goroutines with the same Loop so the session
			// count stays well defined (Loop sessions)
			g2 := g
			if rapid.Bool().Draw(rt, "split") {
				for _, cand := range rapid.Permutation(seq(nRec)).Draw(rt, "perm") {
					if pp.Rec[cand].Loop == pp.Rec[g].Loop {
						g2 = cand
						break
					}
				}
			}
			pp.Rec[g].Calls = append(pp.Rec[g].Calls, call{Kind: 2, User: user, A: drawAmount(rt, "upP"), B: drawAmount(rt, "upB")})
			pp.Rec[g2].Calls = append(pp.Rec[g2].Calls, call{Kind: 1, User: user, A: drawAmount(rt, "downP"), B: drawAmount(rt, "downB")})
		}
		nSnap := rapid.IntRange(0, 3).Draw(rt, "snapshotters")
		for s := 0; s < nSnap; s++ {
			pp.Snaps = append(pp.Snaps, snapPlan{
				Kind:  rapid.IntRange(0, nSnapKinds-1).Draw(rt, "skind"),
				Reps:  rapid.SampledFrom([]int{1, 2, 5, 30}).Draw(rt, "reps"),
				After: rapid.SampledFrom([]int{0, 1, 250, 500, 900, 1000}).Draw(rt, "after"),
			})
		}
		pp.Quiescent = rapid.IntRange(0, nSnapKinds-1).Draw(rt, "qkind")
		p.Phases = append(p.Phases, pp)
	}
	return p
}

func seq(n int) []int {
	s := make([]int, n)
	for i := range s {
		s[i] = i
	}
	return s
}

// ---- execution ------------------------------------------------------------------------------

type taken struct {
	kind          int
	s             snap
	err           error
	before, after int64
}

func takeSnapshot(kind int, col stats.Collector, mux *http.ServeMux) (snap, error) {
	switch kind {
	case skSnapshot:
		return fromServer(col.Snapshot()), nil
	case skReset:
		return fromServer(col.SnapshotAndReset()), nil
	}
	target := apiBase + "/servers/s/stats"
	switch kind {
	case skAPIClear:
		target += "?clear"
	case skAPIClearTrue:
		target += "?clear=true"
	case skAPIClearFalse:
		target += "?clear=false"
	}
	code, body, _ := do(mux, http.MethodGet, target, nil)
	if code != http.StatusOK {
		return snap{}, fmt.Errorf("GET %s: status %d body %q", target, code, body)
	}
	sn, err := decodeStats(body)
	if err != nil {
		return snap{}, fmt.Errorf("GET %s: %v (body %q)", target, err, body)
	}
	return sn, nil
}

var recConc = ev.New("C14", "concurrent-conservation",
	"rapid: 1-4 phases; per phase 2-16 recorder goroutines run drawn lists of Collector calls (TCP sessions; UDP sessions as one uplink + one downlink call, "+
		"possibly in different goroutines) over users {anonymous, u1..u5, n1..n3 first allowed from a drawn phase}, list repeated 1-40 times, all released by one start gate; "+
		"0-3 snapshotters start when a drawn fraction of the phase's calls is done and take 1-30 snapshots of a drawn kind "+
		"(Snapshot, SnapshotAndReset, GET stats, GET stats?clear, ?clear=true, ?clear=false through the real ssm handlers); a snapshot of a drawn kind at every barrier. "+
		"Oracle: ledger written from the Collector documentation: at each barrier (state before phase + phase ledger - resets taken in the phase) = snapshot, exactly, per user and field; "+
		"every concurrent snapshot <= state before phase + phase ledger and total >= sum(users). "+
		"Non-trivial: >=1 reset taken while recording was in progress and >=1 user first recorded after a reset; distinct key = whole plan").
	Require("reset-overlaps-recording", "new-user-after-reset", "api-reset", "direct-reset", "anonymous-traffic")

func TestStatsConcurrent(t *testing.T) {
	rapid.Check(t, func(rt *rapid.T) {
		p := drawPlan(rt)
		col := stats.Config{Enabled: true}.Collector()
		mux := newAPI(map[string]ssm.Server{"s": {StatsCollector: col}}, []string{"s"})

		state := ledger{} // exact expected collector content at the last barrier
		var labels = map[string]bool{}
		resetSeen := false
		overlap, newAfterReset := false, false
		seenUsers := map[string]bool{}

		for phi, pp := range p.Phases {
			// phase ledger
			phaseLedger := ledger{}
			var totalCalls int64
			for _, r := range pp.Rec {
				for _, c := range r.Calls {
					e := c.effect()
					for range r.Loop {
						phaseLedger.add(c.User, e)
					}
					if c.User == "" {
						labels["anonymous-traffic"] = true
					} else if !seenUsers[c.User] {
						seenUsers[c.User] = true
						if resetSeen {
							newAfterReset = true
						}
					}
				}
				totalCalls += int64(len(r.Calls) * r.Loop)
			}

			var (
				gate     = make(chan struct{})
				opsDone  atomic.Int64
				wg       sync.WaitGroup
				takenMu  sync.Mutex
				takenAll []taken
			)
			for _, r := range pp.Rec {
				wg.Go(func() {
					<-gate
					for range r.Loop {
						for _, c := range r.Calls {
							c.apply(col)
							opsDone.Add(1)
						}
					}
				})
			}
			for _, sp := range pp.Snaps {
				wg.Go(func() {
					<-gate
					threshold := totalCalls * int64(sp.After) / 1000
					for opsDone.Load() < threshold {
						runtime.Gosched()
					}
					for range sp.Reps {
						b := opsDone.Load()
						s, err := takeSnapshot(sp.Kind, col, mux)
						a := opsDone.Load()
						takenMu.Lock()
						takenAll = append(takenAll, taken{kind: sp.Kind, s: s, err: err, before: b, after: a})
						takenMu.Unlock()
					}
				})
			}
			close(gate)
			wg.Wait()

			upper := state.clone()
			for u, v := range phaseLedger {
				upper.add(u, v)
			}
			expect := upper.clone()
			for _, tk := range takenAll {
				if tk.err != nil {
					rt.Fatalf("SIG=C14/api-stats-error phase=%d kind=%s: %v", phi, snapKindNames[tk.kind], tk.err)
				}
				if tk.s.Dup != "" {
					rt.Fatalf("SIG=C14/duplicate-user-in-snapshot phase=%d kind=%s user=%q snapshot: %s", phi, snapKindNames[tk.kind], tk.s.Dup, tk.s)
				}
				got, ok := tk.s.asLedger()
				if !ok {
					rt.Fatalf("SIG=C14/total-less-than-users phase=%d kind=%s snapshot: %s", phi, snapKindNames[tk.kind], tk.s)
				}
				for u, v := range got {
					if !v.leq(upper[u]) {
						rt.Fatalf("SIG=C14/snapshot-exceeds-recorded phase=%d kind=%s user=%q got=%v recorded-at-most=%v", phi, snapKindNames[tk.kind], u, v, upper[u])
					}
				}
				labels[snapKindNames[tk.kind]] = true
				if isReset(tk.kind) {
					resetSeen = true
					if tk.kind == skReset {
						labels["direct-reset"] = true
					} else {
						labels["api-reset"] = true
					}
					if (tk.before > 0 || tk.after > tk.before) && tk.before < totalCalls {
						overlap = true
					}
					for u, v := range got {
						x, ok := expect[u].sub(v)
						if !ok {
							rt.Fatalf("SIG=C14/resets-exceed-recorded phase=%d user=%q resets so far exceed what was recorded (%v): double count", phi, u, upper[u])
						}
						expect[u] = x
					}
				}
			}

			// barrier snapshot: exact
			qs, err := takeSnapshot(pp.Quiescent, col, mux)
			if err != nil {
				rt.Fatalf("SIG=C14/api-stats-error phase=%d barrier kind=%s: %v", phi, snapKindNames[pp.Quiescent], err)
			}
			if qs.Dup != "" {
				rt.Fatalf("SIG=C14/duplicate-user-in-snapshot phase=%d barrier user=%q snapshot: %s", phi, qs.Dup, qs)
			}
			got, ok := qs.asLedger()
			if !ok {
				rt.Fatalf("SIG=C14/total-less-than-users phase=%d barrier kind=%s snapshot: %s", phi, snapKindNames[pp.Quiescent], qs)
			}
			if d := diffLedger(got, expect); d != "" {
				sig := "C14/conservation"
				if len(takenAll) == 0 {
					sig = "C14/sequential-totals"
				}
				rt.Fatalf("SIG=%s phase=%d barrier kind=%s: %s\n (state before phase + recorded in phase - %d concurrent snapshots of which resets were subtracted)\n snapshot: %s",
					sig, phi, snapKindNames[pp.Quiescent], d, len(takenAll), qs)
			}
			labels["barrier-"+snapKindNames[pp.Quiescent]] = true
			if isReset(pp.Quiescent) {
				resetSeen = true
				state = ledger{}
				if pp.Quiescent == skReset {
					labels["direct-reset"] = true
				} else {
					labels["api-reset"] = true
				}
			} else {
				state = expect
			}
		}

		if overlap {
			labels["reset-overlaps-recording"] = true
		}
		if newAfterReset {
			labels["new-user-after-reset"] = true
		}
		ls := make([]string, 0, len(labels))
		for l := range labels {
			ls = append(ls, l)
		}
		nt := overlap && newAfterReset
		key, _ := json.Marshal(p)
		recConc.Case(string(key), nt, ls...)
		if nt {
			recConc.Sample(summarize(p))
		}
	})
}

func summarize(p plan) map[string]any {
	type ph struct {
		Recorders int      `json:"recorders"`
		Calls     int      `json:"calls"`
		Snaps     []string `json:"snapshotters"`
		Barrier   string   `json:"barrier"`
	}
	var phs []ph
	for _, pp := range p.Phases {
		x := ph{Recorders: len(pp.Rec), Barrier: snapKindNames[pp.Quiescent]}
		for _, r := range pp.Rec {
			x.Calls += len(r.Calls) * r.Loop
		}
		for _, s := range pp.Snaps {
			x.Snaps = append(x.Snaps, fmt.Sprintf("%s x%d @%d/1000", snapKindNames[s.Kind], s.Reps, s.After))
		}
		phs = append(phs, x)
	}
	return map[string]any{"phases": phs, "new_users_first_phase": p.NewUsers}
}
