package c14

import (
	"bytes"
	"encoding/base64"
	"encoding/json"
	"fmt"
	"net/http"
	"os"
	"path/filepath"
	"sort"
	"strings"
	"testing"

	"github.com/database64128/shadowsocks-go/api/ssm"
	"github.com/database64128/shadowsocks-go/cred"
	"github.com/database64128/shadowsocks-go/stats"
	"go.uber.org/zap"
	"pgregory.net/rapid"

	"verif/internal/ev"
)

const sigUserEndpoint = "C14/user-endpoint-returns-server-totals"

var recAPI = ev.New("C14", "api-sequence",
	"rapid: sequential request sequences (5-40 steps) against the real ssm handlers for two servers (s1 with a credential manager holding u1..u5, s2 without): "+
		"record a TCP/UDP session for a drawn user (anonymous, u1..u5, n1..n2 added mid-run through POST users, x1 unknown to the credential store) directly on the server's collector; "+
		"GET servers; GET server; GET stats[?clear|?clear=true|?clear=false]; GET users/{u}; POST users; DELETE users/{u}; unknown server. "+
		"Oracle: per-server ledger since the last clear; stats body = ledger (total, every user, anonymous remainder); user body = that user's ledger row + its credential. "+
		"Non-trivial: a per-user GET for a user with traffic on a server where somebody else also has traffic, after at least one clear; distinct key = step list").
	Require("get-user-with-other-traffic", "get-stats-after-clear", "user-added-mid-run", "get-user-zero-traffic")

type apiStep struct {
	Op     string `json:"op"`
	Server string `json:"server,omitempty"`
	User   string `json:"user,omitempty"`
	Call   *call  `json:"call,omitempty"`
	Query  string `json:"query,omitempty"`
}

func psk(name string) []byte {
	b := make([]byte, 16)
	copy(b, "psk-"+name+"-0123456789abcdef")
	return b
}

func newManagedServer(t *testing.T, dir string) *cred.ManagedServer {
	store := map[string][]byte{}
	for _, u := range storeUsers {
		store[u] = psk(u)
	}
	b, _ := json.Marshal(store)
	path := filepath.Join(dir, "upsks.json")
	if err := os.WriteFile(path, b, 0o644); err != nil {
		t.Fatalf("harness: %v", err)
	}
	cms, err := cred.NewManager(zap.NewNop()).RegisterServer("s1", path, 16, nil, nil)
	if err != nil {
		t.Fatalf("harness: RegisterServer: %v", err)
	}
	return cms
}

var storeUsers = []string{"u1", "u2", "u3", "u4", "u5"}

// resetManagedServer brings the credential manager back to the content of the store file
// (u1..u5) without touching the file system: one ManagedServer is shared by all cases because
// registering one costs a file read, and the machine's disk is shared with many builds.
func resetManagedServer(rt *rapid.T, cms *cred.ManagedServer) {
	have := map[string]bool{}
	for _, c := range cms.Credentials() {
		have[c.Name] = true
	}
	for _, u := range storeUsers {
		if !have[u] {
			if err := cms.AddCredential(u, psk(u)); err != nil {
				rt.Fatalf("harness: restore %s: %v", u, err)
			}
		}
		delete(have, u)
	}
	for u := range have {
		if err := cms.DeleteCredential(u); err != nil {
			rt.Fatalf("harness: remove %s: %v", u, err)
		}
	}
}

func TestStatsAPISequence(t *testing.T) {
	dir := os.Getenv("VERIF_WORK")
	if dir == "" {
		dir = t.TempDir()
	} else {
		dir = filepath.Join(dir, fmt.Sprintf("c14-api-%d", os.Getpid()))
		if err := os.MkdirAll(dir, 0o755); err != nil {
			t.Fatal(err)
		}
		defer os.RemoveAll(dir)
	}
	cms := newManagedServer(t, dir)
	rapid.Check(t, func(rt *rapid.T) {
		resetManagedServer(rt, cms)
		cols := map[string]stats.Collector{
			"s1": stats.Config{Enabled: true}.Collector(),
			"s2": stats.Config{Enabled: true}.Collector(),
		}
		mux := newAPI(map[string]ssm.Server{
			"s1": {CredentialManager: cms, StatsCollector: cols["s1"]},
			"s2": {StatsCollector: cols["s2"]},
		}, []string{"s1", "s2"})

		model := map[string]ledger{"s1": {}, "s2": {}}
		creds := map[string][]byte{}
		for _, u := range []string{"u1", "u2", "u3", "u4", "u5"} {
			creds[u] = psk(u)
		}
		cleared := map[string]bool{}
		labels := map[string]bool{}
		nt := false
		var steps []apiStep

		recUsers := []string{"", "u1", "u2", "u3", "u4", "u5", "n1", "n2", "x1"}
		getUsers := []string{"u1", "u2", "u3", "u4", "u5", "n1", "n2", "x1"}

		checkStats := func(server, query string) {
			target := apiBase + "/servers/" + server + "/stats" + query
			code, body, hdr := do(mux, http.MethodGet, target, nil)
			if code != 200 {
				rt.Fatalf("SIG=C14/api-stats-status steps=%s GET %s: status %d body %q", js(steps), target, code, body)
			}
			if ct := hdr.Get("Content-Type"); !strings.HasPrefix(ct, "application/json") {
				rt.Fatalf("SIG=C14/api-content-type steps=%s GET %s: Content-Type %q", js(steps), target, ct)
			}
			sn, err := decodeStats(body)
			if err != nil {
				rt.Fatalf("SIG=C14/api-stats-body steps=%s GET %s: %v body %q", js(steps), target, err, body)
			}
			if sn.Dup != "" {
				rt.Fatalf("SIG=C14/duplicate-user-in-snapshot steps=%s GET %s: user %q twice: %s", js(steps), target, sn.Dup, body)
			}
			got, ok := sn.asLedger()
			if !ok {
				rt.Fatalf("SIG=C14/total-less-than-users steps=%s GET %s: %s", js(steps), target, body)
			}
			if d := diffLedger(got, model[server]); d != "" {
				rt.Fatalf("SIG=C14/api-stats-figures steps=%s GET %s: %s\n body %s", js(steps), target, d, body)
			}
			if cleared[server] && !model[server].total().isZero() {
				labels["get-stats-after-clear"] = true
			}
			if query == "?clear" || query == "?clear=true" {
				model[server] = ledger{}
				cleared[server] = true
			}
		}

		n := rapid.IntRange(5, 40).Draw(rt, "steps")
		for i := 0; i < n; i++ {
			server := rapid.SampledFrom([]string{"s1", "s1", "s1", "s2"}).Draw(rt, "server")
			switch op := rapid.SampledFrom([]string{"rec", "rec", "rec", "stats", "stats", "user", "user", "user", "servers", "server", "add", "delete", "nosuch"}).Draw(rt, "op"); op {
			case "rec":
				c := call{Kind: rapid.IntRange(0, 2).Draw(rt, "kind"), User: rapid.SampledFrom(recUsers).Draw(rt, "user"),
					A: drawAmount(rt, "a"), B: drawAmount(rt, "b")}
				steps = append(steps, apiStep{Op: op, Server: server, Call: &c})
				c.apply(cols[server])
				model[server].add(c.User, c.effect())

			case "stats":
				q := rapid.SampledFrom([]string{"", "", "?clear", "?clear=true", "?clear=false"}).Draw(rt, "query")
				steps = append(steps, apiStep{Op: op, Server: server, Query: q})
				checkStats(server, q)

			case "user":
				u := rapid.SampledFrom(getUsers).Draw(rt, "user")
				steps = append(steps, apiStep{Op: op, Server: server, User: u})
				target := apiBase + "/servers/" + server + "/users/" + u
				code, body, _ := do(mux, http.MethodGet, target, nil)
				want, known := creds[u]
				if server == "s2" || !known {
					if code != 404 {
						rt.Fatalf("SIG=C14/api-user-status steps=%s GET %s: status %d want 404 (no such user / no credential manager), body %q", js(steps), target, code, body)
					}
					labels["get-user-404"] = true
					break
				}
				if code != 200 {
					rt.Fatalf("SIG=C14/api-user-status steps=%s GET %s: status %d want 200, body %q", js(steps), target, code, body)
				}
				var au apiUser
				if err := json.Unmarshal(body, &au); err != nil {
					rt.Fatalf("SIG=C14/api-user-body steps=%s GET %s: %v body %q", js(steps), target, err, body)
				}
				if au.Name == nil || *au.Name != u || au.UPSK == nil || !bytes.Equal(*au.UPSK, want) {
					rt.Fatalf("SIG=C14/api-user-credential steps=%s GET %s: body %s want username %q uPSK %s", js(steps), target, body, u, base64.StdEncoding.EncodeToString(want))
				}
				got, err := au.apiTraffic.vec()
				if err != nil {
					rt.Fatalf("SIG=C14/api-user-body steps=%s GET %s: %v body %q", js(steps), target, err, body)
				}
				mine := model[server][u]
				total := model[server].total()
				if mine.isZero() {
					labels["get-user-zero-traffic"] = true
				}
				if !mine.isZero() && mine != total {
					labels["get-user-with-other-traffic"] = true
					if cleared[server] {
						nt = true
					}
				}
				if got != mine {
					if got == total {
						if ev.IsKnown("C14", sigUserEndpoint) {
							recAPI.KnownHit(sigUserEndpoint)
							break
						}
						rt.Fatalf("SIG=%s steps=%s GET %s returned the server totals %v instead of the figures of user %q %v\n body %s",
							sigUserEndpoint, js(steps), target, got, u, mine, body)
					}
					rt.Fatalf("SIG=C14/api-user-figures steps=%s GET %s: got %v want %v (server total %v)\n body %s", js(steps), target, got, mine, total, body)
				}

			case "servers":
				steps = append(steps, apiStep{Op: op})
				code, body, _ := do(mux, http.MethodGet, apiBase+"/servers", nil)
				var names []string
				if code != 200 || json.Unmarshal(body, &names) != nil || len(names) != 2 || names[0] != "s1" || names[1] != "s2" {
					rt.Fatalf("SIG=C14/api-list-servers steps=%s status %d body %q", js(steps), code, body)
				}

			case "server":
				steps = append(steps, apiStep{Op: op, Server: server})
				code, body, _ := do(mux, http.MethodGet, apiBase+"/servers/"+server, nil)
				var info map[string]any
				if code != 200 || json.Unmarshal(body, &info) != nil || info["apiVersion"] != "v1" {
					rt.Fatalf("SIG=C14/api-server-info steps=%s status %d body %q", js(steps), code, body)
				}

			case "add":
				u := rapid.SampledFrom([]string{"n1", "n2"}).Draw(rt, "user")
				steps = append(steps, apiStep{Op: op, Server: server, User: u})
				body, _ := json.Marshal(map[string]any{"username": u, "uPSK": psk(u)})
				code, resp, _ := do(mux, http.MethodPost, apiBase+"/servers/"+server+"/users", body)
				_, exists := creds[u]
				switch {
				case server == "s2":
					if code != 404 {
						rt.Fatalf("SIG=C14/api-add-user steps=%s status %d want 404 body %q", js(steps), code, resp)
					}
				case exists:
					if code != 400 {
						rt.Fatalf("SIG=C14/api-add-user steps=%s status %d want 400 (exists) body %q", js(steps), code, resp)
					}
				default:
					if code != 201 {
						rt.Fatalf("SIG=C14/api-add-user steps=%s status %d want 201 body %q", js(steps), code, resp)
					}
					creds[u] = psk(u)
					labels["user-added-mid-run"] = true
				}

			case "delete":
				u := rapid.SampledFrom(getUsers).Draw(rt, "user")
				steps = append(steps, apiStep{Op: op, Server: server, User: u})
				code, resp, _ := do(mux, http.MethodDelete, apiBase+"/servers/"+server+"/users/"+u, nil)
				_, exists := creds[u]
				switch {
				case server == "s2" || !exists:
					if code != 404 {
						rt.Fatalf("SIG=C14/api-delete-user steps=%s status %d want 404 body %q", js(steps), code, resp)
					}
				default:
					if code != 204 {
						rt.Fatalf("SIG=C14/api-delete-user steps=%s status %d want 204 body %q", js(steps), code, resp)
					}
					delete(creds, u) // the collector keeps the user's traffic: stats are about sessions, not credentials
					labels["user-deleted"] = true
				}

			case "nosuch":
				steps = append(steps, apiStep{Op: op})
				for _, p := range []string{"/servers/zz", "/servers/zz/stats", "/servers/zz/users/u1"} {
					if code, body, _ := do(mux, http.MethodGet, apiBase+p, nil); code != 404 {
						rt.Fatalf("SIG=C14/api-unknown-server steps=%s GET %s status %d body %q", js(steps), p, code, body)
					}
				}
			}
		}
		// final: both servers' stats equal the ledger
		steps = append(steps, apiStep{Op: "final-stats"})
		checkStats("s1", "")
		checkStats("s2", "")

		ls := make([]string, 0, len(labels))
		for l := range labels {
			ls = append(ls, l)
		}
		sort.Strings(ls)
		recAPI.Case(js(steps), nt, ls...)
		if nt {
			recAPI.Sample(map[string]any{"steps": steps})
		}
	})
}

func js(v any) string {
	b, _ := json.Marshal(v)
	return string(b)
}

var recReg = ev.New("C14", "regression-user-endpoint",
	"fixed replay of the shrunk failing sequence found by api-sequence on the unfixed tree: anonymous TCP session on s1, a session of u2, then GET users/u1 and users/u2")

// TestRegressionUserEndpoint freezes the shrunk failing case of the per-user endpoint defect
// (C14/user-endpoint-returns-server-totals) as a plain test that does not depend on rapid.
func TestRegressionUserEndpoint(t *testing.T) {
	cms := newManagedServer(t, t.TempDir())
	col := stats.Config{Enabled: true}.Collector()
	mux := newAPI(map[string]ssm.Server{"s1": {CredentialManager: cms, StatsCollector: col}}, []string{"s1"})
	col.CollectTCPSession("", 10, 20)
	col.CollectTCPSession("u2", 3, 4)
	want := map[string]vec{"u1": {}, "u2": {0, 3, 0, 4, 1, 0}}
	for _, u := range []string{"u1", "u2"} {
		code, body, _ := do(mux, http.MethodGet, apiBase+"/servers/s1/users/"+u, nil)
		var au apiUser
		if code != 200 || json.Unmarshal(body, &au) != nil {
			t.Fatalf("SIG=C14/api-user-status GET users/%s: status %d body %q", u, code, body)
		}
		got, err := au.apiTraffic.vec()
		if err != nil {
			t.Fatalf("SIG=C14/api-user-body GET users/%s: %v body %q", u, err, body)
		}
		if got != want[u] {
			if ev.IsKnown("C14", sigUserEndpoint) {
				recReg.KnownHit(sigUserEndpoint)
				recReg.Case("regression", true, "known-defect-reproduced")
				return
			}
			t.Fatalf("SIG=%s after CollectTCPSession(\"\",10,20) and CollectTCPSession(\"u2\",3,4): GET users/%s shows %v, want %v (server totals are [0 13 0 24 2 0])\n body %s",
				sigUserEndpoint, u, got, want[u], body)
		}
	}
	recReg.Case("regression", true, "user-figures-correct")
}
