package c14

import (
	"bytes"
	"encoding/json"
	"fmt"
	"net/http"
	"net/http/httptest"
	"sort"
	"sync"

	"github.com/database64128/shadowsocks-go/api/ssm"
	"github.com/database64128/shadowsocks-go/stats"
)

// ---- ledger (reference model, written from the Collector interface documentation) -----------
//
// A TCP session (user, down, up) adds down to downlinkBytes, up to uplinkBytes and one to
// tcpSessions. A UDP session is reported by the relays through exactly one uplink call
// (packets, bytes) and exactly one downlink call (packets, bytes) (service/udp_nat.go,
// service/udp_session.go); together they add the four packet/byte figures and one udpSessions.
// The user "" is the anonymous user: its traffic is part of the server total but of no user.

const nField = 6

var fieldNames = [nField]string{"downlinkPackets", "downlinkBytes", "uplinkPackets", "uplinkBytes", "tcpSessions", "udpSessions"}

type vec [nField]uint64

func (v *vec) add(o vec) {
	for i := range v {
		v[i] += o[i]
	}
}

func (v vec) sub(o vec) (r vec, ok bool) {
	ok = true
	for i := range v {
		if v[i] < o[i] {
			ok = false
		}
		r[i] = v[i] - o[i]
	}
	return
}

func (v vec) leq(o vec) bool {
	for i := range v {
		if v[i] > o[i] {
			return false
		}
	}
	return true
}

func (v vec) isZero() bool { return v == vec{} }

func fromTraffic(t stats.Traffic) vec {
	return vec{t.DownlinkPackets, t.DownlinkBytes, t.UplinkPackets, t.UplinkBytes, t.TCPSessions, t.UDPSessions}
}

// call is one Collector call.
type call struct {
	Kind int    `json:"k"` // 0 CollectTCPSession(user, A=downBytes, B=upBytes); 1 CollectUDPSessionDownlink(user, A=pkts, B=bytes); 2 CollectUDPSessionUplink(user, A=pkts, B=bytes)
	User string `json:"u"`
	A    uint64 `json:"a"`
	B    uint64 `json:"b"`
}

// effect is what the documentation says the call adds.
func (c call) effect() (v vec) {
	switch c.Kind {
	case 0:
		v[1], v[3], v[4] = c.A, c.B, 1
	case 1:
		v[0], v[1], v[5] = c.A, c.B, 1 // the session is counted once; the model counts it with its downlink report
	case 2:
		v[2], v[3] = c.A, c.B
	}
	return
}

func (c call) apply(col stats.Collector) {
	switch c.Kind {
	case 0:
		col.CollectTCPSession(c.User, c.A, c.B)
	case 1:
		col.CollectUDPSessionDownlink(c.User, c.A, c.B)
	case 2:
		col.CollectUDPSessionUplink(c.User, c.A, c.B)
	}
}

// ledger: per user (and "" for anonymous) totals.
type ledger map[string]vec

func (l ledger) add(user string, v vec) {
	x := l[user]
	x.add(v)
	l[user] = x
}

func (l ledger) total() (t vec) {
	for _, v := range l {
		t.add(v)
	}
	return
}

func (l ledger) clone() ledger {
	c := make(ledger, len(l))
	for k, v := range l {
		c[k] = v
	}
	return c
}

// snap is a snapshot decoded independently of the repo's types (field names are the API's).
type snap struct {
	Total vec
	Users map[string]vec
	Order []string
	Dup   string // a username that appeared twice
}

func fromServer(s stats.Server) snap {
	sn := snap{Total: fromTraffic(s.Traffic), Users: map[string]vec{}}
	for _, u := range s.Users {
		if _, ok := sn.Users[u.Name]; ok {
			sn.Dup = u.Name
		}
		sn.Users[u.Name] = fromTraffic(u.Traffic)
		sn.Order = append(sn.Order, u.Name)
	}
	return sn
}

type apiTraffic struct {
	DownlinkPackets *uint64 `json:"downlinkPackets"`
	DownlinkBytes   *uint64 `json:"downlinkBytes"`
	UplinkPackets   *uint64 `json:"uplinkPackets"`
	UplinkBytes     *uint64 `json:"uplinkBytes"`
	TCPSessions     *uint64 `json:"tcpSessions"`
	UDPSessions     *uint64 `json:"udpSessions"`
}

func (a apiTraffic) vec() (v vec, err error) {
	ps := [nField]*uint64{a.DownlinkPackets, a.DownlinkBytes, a.UplinkPackets, a.UplinkBytes, a.TCPSessions, a.UDPSessions}
	for i, p := range ps {
		if p == nil {
			return v, fmt.Errorf("field %s missing", fieldNames[i])
		}
		v[i] = *p
	}
	return v, nil
}

type apiUser struct {
	Name *string `json:"username"`
	UPSK *[]byte `json:"uPSK"`
	apiTraffic
}

type apiStats struct {
	apiTraffic
	Users []apiUser `json:"users"`
}

func decodeStats(body []byte) (snap, error) {
	var a apiStats
	d := json.NewDecoder(bytes.NewReader(body))
	if err := d.Decode(&a); err != nil {
		return snap{}, err
	}
	t, err := a.apiTraffic.vec()
	if err != nil {
		return snap{}, fmt.Errorf("server: %w", err)
	}
	sn := snap{Total: t, Users: map[string]vec{}}
	for _, u := range a.Users {
		if u.Name == nil {
			return snap{}, fmt.Errorf("user without username")
		}
		v, err := u.apiTraffic.vec()
		if err != nil {
			return snap{}, fmt.Errorf("user %q: %w", *u.Name, err)
		}
		if _, ok := sn.Users[*u.Name]; ok {
			sn.Dup = *u.Name
		}
		sn.Users[*u.Name] = v
		sn.Order = append(sn.Order, *u.Name)
	}
	return sn, nil
}

// anonymous returns total - sum(users): how the collector represents anonymous traffic.
func (s snap) anonymous() (vec, bool) {
	var sum vec
	for _, v := range s.Users {
		sum.add(v)
	}
	return s.Total.sub(sum)
}

// asLedger converts a snapshot into per-user figures plus "" for the anonymous remainder.
func (s snap) asLedger() (ledger, bool) {
	l := ledger{}
	for u, v := range s.Users {
		l[u] = v
	}
	a, ok := s.anonymous()
	l[""] = a
	return l, ok
}

func (s snap) String() string {
	names := make([]string, 0, len(s.Users))
	for u := range s.Users {
		names = append(names, u)
	}
	sort.Strings(names)
	var b bytes.Buffer
	fmt.Fprintf(&b, "total=%v", s.Total)
	for _, u := range names {
		fmt.Fprintf(&b, " %s=%v", u, s.Users[u])
	}
	return b.String()
}

// diffLedger returns a description of the first difference between got and want (zero entries
// are equivalent to absent ones).
func diffLedger(got, want ledger) string {
	keys := map[string]bool{}
	for k := range got {
		keys[k] = true
	}
	for k := range want {
		keys[k] = true
	}
	ks := make([]string, 0, len(keys))
	for k := range keys {
		ks = append(ks, k)
	}
	sort.Strings(ks)
	for _, k := range ks {
		g, w := got[k], want[k]
		for i := range g {
			if g[i] != w[i] {
				name := k
				if name == "" {
					name = "<anonymous>"
				}
				return fmt.Sprintf("user %s field %s: got %d want %d", name, fieldNames[i], g[i], w[i])
			}
		}
	}
	return ""
}

// ---- mounting the real ssm handlers from outside the module ---------------------------------
//
// ssm.ServerManager.RegisterHandlers wants a func(method, path string, h restapi.HandlerFunc)
// where restapi is internal. A generic function is instantiated by inference at the call site,
// so the internal type never has to be named here. Patterns are built like api.Config.NewServer
// does ("<METHOD> /api/ssm/v1<path>").

const apiBase = "/api/ssm/v1"

var (
	muxMu  sync.Mutex
	curMux *http.ServeMux
)

func register[H ~func(http.ResponseWriter, *http.Request) (int, error)](method, path string, h H) {
	curMux.Handle(method+" "+apiBase+path, http.HandlerFunc(func(w http.ResponseWriter, r *http.Request) {
		_, _ = h(w, r)
	}))
}

func newAPI(serverByName map[string]ssm.Server, names []string) *http.ServeMux {
	muxMu.Lock()
	defer muxMu.Unlock()
	curMux = http.NewServeMux()
	ssm.NewServerManager(serverByName, names).RegisterHandlers(register)
	m := curMux
	curMux = nil
	return m
}

func do(mux *http.ServeMux, method, target string, body []byte) (int, []byte, http.Header) {
	var rd *bytes.Reader
	if body != nil {
		rd = bytes.NewReader(body)
	} else {
		rd = bytes.NewReader(nil)
	}
	req := httptest.NewRequest(method, target, rd)
	rec := httptest.NewRecorder()
	mux.ServeHTTP(rec, req)
	return rec.Code, rec.Body.Bytes(), rec.Header()
}
