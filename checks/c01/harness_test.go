package c01

import (
	"os"
	"context"
	"crypto/aes"
	"crypto/cipher"
	"encoding/binary"
	"errors"
	"fmt"
	"io"
	"net/netip"
	"strings"

	"github.com/database64128/shadowsocks-go/conn"
	"github.com/database64128/shadowsocks-go/netio"
	"github.com/database64128/shadowsocks-go/ss2022"
	"lukechampine.com/blake3"

	"verif/internal/xnet"
)

// ---------- deterministic content

// stream returns n bytes that are a pure function of (seed, dir); position-dependent so that
// loss, duplication and reordering all change the content.
func stream(seed uint64, dir byte, n int) []byte {
	b := make([]byte, n)
	x := seed*0x9E3779B97F4A7C15 + uint64(dir)*0xBF58476D1CE4E5B9 + 1
	for i := 0; i < n; i += 8 {
		x ^= x << 13
		x ^= x >> 7
		x ^= x << 17
		var w [8]byte
		binary.LittleEndian.PutUint64(w[:], x)
		copy(b[i:], w[:])
	}
	return b
}

func keyBytes(seed uint64, which byte, n int) []byte { return stream(seed^0xA5A5A5A5, which, n) }

// ---------- configuration classes

type cfgClass struct {
	KeyLen     int  `json:"keyLen"`     // 16 | 32
	EIH        int  `json:"eih"`        // 0..3 identity headers
	ReqPrefix  int  `json:"reqPrefix"`  // bytes
	RespPrefix int  `json:"respPrefix"` // bytes
	Segmented  bool `json:"segmented"`  // AllowSegmentedFixedLengthHeader
	User       int  `json:"user"`       // which of the 3 users the client is (EIH only)
}

func (c cfgClass) key() string {
	pc := func(n int) string {
		switch {
		case n == 0:
			return "0"
		case n <= 64:
			return "s"
		}
		return "L"
	}
	return fmt.Sprintf("k%d/e%d/p%s%s/seg%v", c.KeyLen, c.EIH, pc(c.ReqPrefix), pc(c.RespPrefix), c.Segmented)
}

var userNames = [3]string{"alice", "bob", "carol"}

type endpoint struct {
	client   *ss2022.StreamClient
	server   *ss2022.StreamServer
	dialer   *pairDialer
	cls      cfgClass
	upsk     []byte
	ipsks    [][]byte
	username string
	reqPfx   []byte
	respPfx  []byte
}

// pairDialer is the innermost netio.StreamClient: each DialStream creates an owned transport
// pair, hands the server end to the harness and writes the request bytes into the client end.
type pairDialer struct {
	ends      chan *xnet.Conn
	clientEnd *xnet.Conn
	srvEnd    *xnet.Conn
	prep      func(clientEnd, serverEnd *xnet.Conn)
}

func (d *pairDialer) NewStreamDialer() (netio.StreamDialer, netio.StreamDialerInfo) {
	return d, netio.StreamDialerInfo{Name: "pair", NativeInitialPayload: true}
}

func (d *pairDialer) DialStream(ctx context.Context, _ conn.Addr, payload []byte) (netio.Conn, error) {
	c, s := xnet.Pair()
	if d.prep != nil {
		d.prep(c, s)
	}
	d.clientEnd = c
	d.srvEnd = s
	if len(payload) > 0 {
		if _, err := c.Write(payload); err != nil {
			return nil, err
		}
	}
	d.ends <- s
	return c, nil
}

func (d *pairDialer) serverEnd() *xnet.Conn { return d.srvEnd }

func newEndpoint(cls cfgClass, seed uint64, inst byte) (*endpoint, error) {
	ep := &endpoint{cls: cls}
	ep.reqPfx = stream(seed, 0x70+inst, cls.ReqPrefix)
	ep.respPfx = stream(seed, 0x78+inst, cls.RespPrefix)
	var upsks [3][]byte
	for i := range upsks {
		upsks[i] = keyBytes(seed, 0x10+inst*8+byte(i), cls.KeyLen)
	}
	for i := 0; i < cls.EIH; i++ {
		ep.ipsks = append(ep.ipsks, keyBytes(seed, 0x40+inst*8+byte(i), cls.KeyLen))
	}
	u := 0
	if cls.EIH > 0 {
		u = cls.User % 3
		ep.username = userNames[u]
	}
	ep.upsk = upsks[u]
	ccc, err := ss2022.NewClientCipherConfig(ep.upsk, ep.ipsks, false)
	if err != nil {
		return nil, err
	}
	ep.dialer = &pairDialer{ends: make(chan *xnet.Conn, 1)}
	ep.client = (&ss2022.StreamClientConfig{
		Name:                            "c",
		InnerClient:                     ep.dialer,
		Addr:                            conn.AddrFromIPAndPort(netip.IPv6Loopback(), 20220),
		AllowSegmentedFixedLengthHeader: cls.Segmented,
		CipherConfig:                    ccc,
		UnsafeRequestStreamPrefix:       ep.reqPfx,
		UnsafeResponseStreamPrefix:      ep.respPfx,
	}).NewStreamClient()

	sc := ss2022.StreamServerConfig{
		AllowSegmentedFixedLengthHeader: cls.Segmented,
		UnsafeRequestStreamPrefix:       ep.reqPfx,
		UnsafeResponseStreamPrefix:      ep.respPfx,
	}
	var ulm ss2022.UserLookupMap
	if cls.EIH == 0 {
		sc.UserCipherConfig, err = ss2022.NewUserCipherConfig(ep.upsk, false)
		if err != nil {
			return nil, err
		}
	} else {
		sc.IdentityCipherConfig, err = ss2022.NewServerIdentityCipherConfig(ep.ipsks[cls.EIH-1], false)
		if err != nil {
			return nil, err
		}
		ulm = ss2022.UserLookupMap{}
		for i, k := range upsks {
			ucc, err := ss2022.NewServerUserCipherConfig(userNames[i], k, false)
			if err != nil {
				return nil, err
			}
			ulm[ss2022.PSKHash(k)] = ucc
		}
	}
	ep.server = sc.NewStreamServer()
	if ulm != nil {
		ep.server.ReplaceUserLookupMap(ulm)
	}
	return ep, nil
}

// relayStrip plays the intermediate relays of the identity-header scheme for EIH depth >= 2: the
// repo's server consumes exactly one identity header, so the outer headers are verified and
// stripped here with the *server-side* primitive (ServerIdentityCipherConfig.TCP) keyed with the
// outer iPSKs. Returns the rewritten first frame or an error describing the mismatch.
func (ep *endpoint) relayStrip(frame []byte) ([]byte, error) {
	k := ep.cls.EIH
	if k < 2 {
		return frame, nil
	}
	pl, sl := ep.cls.ReqPrefix, ep.cls.KeyLen
	if len(frame) < pl+sl+16*k {
		return nil, fmt.Errorf("first frame too short for %d identity headers: %d", k, len(frame))
	}
	salt := frame[pl : pl+sl]
	for i := 0; i < k-1; i++ {
		icc, err := ss2022.NewServerIdentityCipherConfig(ep.ipsks[i], false)
		if err != nil {
			return nil, err
		}
		blk, err := icc.TCP(salt)
		if err != nil {
			return nil, err
		}
		var plain [16]byte
		blk.Decrypt(plain[:], frame[pl+sl+16*i:pl+sl+16*(i+1)])
		want := ss2022.PSKHash(ep.ipsks[i+1])
		if plain != want {
			return nil, fmt.Errorf("identity header %d does not decrypt to the hash of iPSK %d", i, i+1)
		}
	}
	out := append([]byte(nil), frame[:pl+sl]...)
	out = append(out, frame[pl+sl+16*(k-1):]...)
	return out, nil
}

// firstMinServer is the number of bytes the server needs in its first read when segmented
// headers are not allowed (documented requirement).
func (ep *endpoint) firstMinServer() int {
	n := ep.cls.ReqPrefix + ep.cls.KeyLen + 11 + 16
	if ep.cls.EIH > 0 {
		n += 16
	}
	return n
}

func (ep *endpoint) firstMinClient() int {
	return ep.cls.RespPrefix + ep.cls.KeyLen + 11 + ep.cls.KeyLen + 16
}

// ---------- independent wire decoder (written from the SIP022 layout in the code comments)

type wireReport struct {
	VarHeaderLen int
	PaddingLen   int
	InitialLen   int
	Chunks       []int
	Plain        []byte // initial payload ++ chunk payloads
	AddrBytes    []byte
}

func sessionAEAD(psk, salt []byte) (cipher.AEAD, error) {
	km := append(append([]byte(nil), psk...), salt...)
	key := make([]byte, len(psk))
	blake3.DeriveKey(key, "shadowsocks 2022 session subkey", km)
	blk, err := aes.NewCipher(key)
	if err != nil {
		return nil, err
	}
	return cipher.NewGCM(blk)
}

type nonceCtr [12]byte

func (n *nonceCtr) next() []byte {
	cur := append([]byte(nil), n[:]...)
	for i := range n {
		n[i]++
		if n[i] != 0 {
			break
		}
	}
	return cur
}

// decodeRequestStream parses the complete client->server byte stream as the server would see
// it after the intermediate relays (exactly one or zero identity headers). When the data chunks
// after the request header do not parse to the end, the report of what did parse is returned
// together with the error (used to find chunk boundaries in a stream that is still being written).
func decodeRequestStream(b []byte, psk []byte, prefixLen, idHeaders int, addrLen int) (*wireReport, error) {
	rep := &wireReport{}
	sl := len(psk)
	p := prefixLen
	if len(b) < p+sl+16*idHeaders+11+16 {
		return nil, errors.New("stream shorter than fixed part")
	}
	salt := b[p : p+sl]
	p += sl + 16*idHeaders
	aead, err := sessionAEAD(psk, salt)
	if err != nil {
		return nil, err
	}
	var nc nonceCtr
	fixed, err := aead.Open(nil, nc.next(), b[p:p+11+16], nil)
	if err != nil {
		return nil, fmt.Errorf("fixed header does not open with nonce 0: %w", err)
	}
	p += 11 + 16
	if fixed[0] != 0 {
		return nil, fmt.Errorf("request type byte %d", fixed[0])
	}
	vhl := int(binary.BigEndian.Uint16(fixed[9:]))
	rep.VarHeaderLen = vhl
	if len(b) < p+vhl+16 {
		return nil, errors.New("stream shorter than variable header")
	}
	vh, err := aead.Open(nil, nc.next(), b[p:p+vhl+16], nil)
	if err != nil {
		return nil, fmt.Errorf("variable header does not open with nonce 1: %w", err)
	}
	p += vhl + 16
	if len(vh) < addrLen+2 {
		return nil, errors.New("variable header shorter than address+padding length")
	}
	rep.AddrBytes = vh[:addrLen]
	pad := int(binary.BigEndian.Uint16(vh[addrLen:]))
	rep.PaddingLen = pad
	if addrLen+2+pad > len(vh) {
		return nil, errors.New("padding exceeds variable header")
	}
	rep.InitialLen = len(vh) - addrLen - 2 - pad
	rep.Plain = append(rep.Plain, vh[addrLen+2+pad:]...)
	for p < len(b) {
		if len(b) < p+2+16 {
			return rep, fmt.Errorf("trailing %d bytes are not a length chunk", len(b)-p)
		}
		lc, err := aead.Open(nil, nc.next(), b[p:p+18], nil)
		if err != nil {
			return rep, fmt.Errorf("length chunk %d does not open: %w", len(rep.Chunks), err)
		}
		p += 18
		l := int(binary.BigEndian.Uint16(lc))
		if len(b) < p+l+16 {
			return rep, fmt.Errorf("payload chunk %d truncated", len(rep.Chunks))
		}
		pc, err := aead.Open(nil, nc.next(), b[p:p+l+16], nil)
		if err != nil {
			return rep, fmt.Errorf("payload chunk %d does not open: %w", len(rep.Chunks), err)
		}
		p += l + 16
		rep.Chunks = append(rep.Chunks, l)
		rep.Plain = append(rep.Plain, pc...)
	}
	return rep, nil
}

// decodeResponseStream parses the complete server->client byte stream.
func decodeResponseStream(b []byte, psk []byte, prefixLen int, reqSalt []byte) (*wireReport, error) {
	rep := &wireReport{}
	sl := len(psk)
	p := prefixLen
	hl := 1 + 8 + sl + 2
	if len(b) < p+sl+hl+16 {
		return nil, errors.New("stream shorter than response header")
	}
	salt := b[p : p+sl]
	p += sl
	aead, err := sessionAEAD(psk, salt)
	if err != nil {
		return nil, err
	}
	var nc nonceCtr
	h, err := aead.Open(nil, nc.next(), b[p:p+hl+16], nil)
	if err != nil {
		return nil, fmt.Errorf("response header does not open: %w", err)
	}
	p += hl + 16
	if h[0] != 1 {
		return nil, fmt.Errorf("response type byte %d", h[0])
	}
	if string(h[9:9+sl]) != string(reqSalt) {
		return nil, errors.New("response header does not carry the request salt")
	}
	l := int(binary.BigEndian.Uint16(h[9+sl:]))
	first := true
	for {
		if !first {
			if p == len(b) {
				break
			}
			if len(b) < p+18 {
				return rep, fmt.Errorf("trailing %d bytes are not a length chunk", len(b)-p)
			}
			lc, err := aead.Open(nil, nc.next(), b[p:p+18], nil)
			if err != nil {
				return rep, fmt.Errorf("length chunk %d does not open: %w", len(rep.Chunks), err)
			}
			p += 18
			l = int(binary.BigEndian.Uint16(lc))
		}
		first = false
		if len(b) < p+l+16 {
			return rep, fmt.Errorf("payload chunk %d truncated", len(rep.Chunks))
		}
		pc, err := aead.Open(nil, nc.next(), b[p:p+l+16], nil)
		if err != nil {
			return rep, fmt.Errorf("payload chunk %d does not open: %w", len(rep.Chunks), err)
		}
		p += l + 16
		rep.Chunks = append(rep.Chunks, l)
		rep.Plain = append(rep.Plain, pc...)
	}
	return rep, nil
}

// ---------- app-side copy paths

const (
	pathRW  = 0 // plain Write / Read calls
	pathRF  = 1 // writer: conn.ReadFrom(source) ; reader: conn.WriteTo(sink)
	numPath = 2
)

// planReader yields the data in the planned chunk sizes (each Read returns at most one chunk).
type planReader struct {
	data   []byte
	sizes  []int
	idx    int
	served int
	// eofWithData makes the final chunk come back together with io.EOF (as io.Reader permits and
	// e.g. HTTP bodies with Content-Length or iotest.DataErrReader do) instead of a separate (0, EOF).
	eofWithData bool
	// zeroEvery > 0 makes every zeroEvery-th Read return (0, nil) before any data (io.Reader
	// permits it; e.g. a pipe whose peer flushed with an empty write); the first Read is one of them.
	zeroEvery int
	calls     int
}

func (r *planReader) Read(p []byte) (int, error) {
	r.calls++
	if r.zeroEvery > 0 && (r.calls-1)%r.zeroEvery == 0 && r.calls < 4*r.zeroEvery+2 {
		return 0, nil
	}
	for r.idx < len(r.sizes) && r.sizes[r.idx] == 0 {
		r.idx++
	}
	if r.idx >= len(r.sizes) || len(r.data) == 0 {
		return 0, io.EOF
	}
	n := min(r.sizes[r.idx], len(p), len(r.data))
	copy(p, r.data[:n])
	r.data = r.data[n:]
	r.sizes[r.idx] -= n
	r.served += n
	if r.eofWithData && len(r.data) == 0 {
		return n, io.EOF
	}
	return n, nil
}

type sink struct {
	b     []byte
	limit int
}

var errTooMuch = errors.New("reader delivered more bytes than the peer ever wrote")

func (s *sink) Write(p []byte) (int, error) {
	s.b = append(s.b, p...)
	if len(s.b) > s.limit {
		return len(p), errTooMuch
	}
	return len(p), nil
}

// writeAll sends data through c in the planned write sizes using the given path and then
// closes the write side.
func writeAll(c netio.Conn, data []byte, sizes []int, path int, eofWithData bool, zeroEvery int) (err error) {
	// always end the direction, also after an error, so that a concurrently running reader of a
	// duplex plan terminates and the first failure is reported instead of a watchdog timeout
	defer func() {
		if err != nil {
			c.CloseWrite()
		}
	}()
	switch path {
	case pathRF:
		rf, ok := c.(io.ReaderFrom)
		if !ok {
			return errors.New("conn has no ReadFrom")
		}
		pr := &planReader{data: data, sizes: append([]int(nil), sizes...), eofWithData: eofWithData, zeroEvery: zeroEvery}
		n, err := rf.ReadFrom(pr)
		if err != nil {
			return fmt.Errorf("ReadFrom: %w", err)
		}
		if int(n) != len(data) {
			return fmt.Errorf("ReadFrom reported %d bytes, source had %d", n, len(data))
		}
	default:
		off := 0
		for _, s := range sizes {
			n, err := c.Write(data[off : off+s])
			if err != nil {
				return fmt.Errorf("Write(%d): %w", s, err)
			}
			if n != s {
				return fmt.Errorf("Write(%d) reported %d", s, n)
			}
			off += s
		}
	}
	return c.CloseWrite()
}

// Mixed writer: the write side of one connection is driven by a sequence of *different* write-side
// operations, as real callers do (a handler writes a greeting and then io.Copy's a body; io.Copy from
// a body that turns out to be empty, or whose Read times out before any byte, followed by more
// output). Modes per segment:
const (
	mixWrite          = 0 // Write(segment)
	mixReadFrom       = 1 // ReadFrom(source holding the segment)
	mixEmptyThenWrite = 2 // ReadFrom(source that is at EOF at once), then Write(segment)
	mixFailThenWrite  = 3 // ReadFrom(source whose first Read fails with a timeout), then Write(segment)
	mixEmptyThenRF    = 4 // ReadFrom(empty source), then ReadFrom(source holding the segment)
	mixFailThenRF     = 5 // ReadFrom(failing source), then ReadFrom(source holding the segment)
	numMix            = 6
)

type failingSource struct{}

func (failingSource) Read([]byte) (int, error) { return 0, os.ErrDeadlineExceeded }

type emptySource struct{}

func (emptySource) Read([]byte) (int, error) { return 0, io.EOF }

// writeMixed sends data through c segment by segment; segment i uses modes[i] (segments beyond
// len(modes) use Write or ReadFrom according to path) and then closes the write side.
func writeMixed(c netio.Conn, data []byte, sizes []int, modes []int, path int, eofWithData bool) (err error) {
	defer func() {
		if err != nil {
			c.CloseWrite()
		}
	}()
	rf, ok := c.(io.ReaderFrom)
	if !ok {
		return errors.New("conn has no ReadFrom")
	}
	off := 0
	for i, s := range sizes {
		mode := mixWrite
		if path == pathRF {
			mode = mixReadFrom
		}
		if i < len(modes) {
			mode = modes[i]
		}
		seg := data[off : off+s]
		off += s
		switch mode {
		case mixEmptyThenWrite, mixEmptyThenRF:
			if n, err := rf.ReadFrom(emptySource{}); err != nil || n != 0 {
				return fmt.Errorf("segment %d: ReadFrom(empty source) = %d, %v", i, n, err)
			}
		case mixFailThenWrite, mixFailThenRF:
			// the source's error belongs to the caller; the connection itself must stay usable
			if n, _ := rf.ReadFrom(failingSource{}); n != 0 {
				return fmt.Errorf("segment %d: ReadFrom(failing source) reported %d bytes", i, n)
			}
		}
		switch mode {
		case mixWrite, mixEmptyThenWrite, mixFailThenWrite:
			n, err := c.Write(seg)
			if err != nil {
				return fmt.Errorf("segment %d: Write(%d): %w", i, s, err)
			}
			if n != s {
				return fmt.Errorf("segment %d: Write(%d) reported %d", i, s, n)
			}
		default:
			pr := &planReader{data: seg, sizes: []int{s}, eofWithData: eofWithData}
			n, err := rf.ReadFrom(pr)
			if err != nil {
				return fmt.Errorf("segment %d: ReadFrom: %w", i, err)
			}
			if int(n) != s {
				return fmt.Errorf("segment %d: ReadFrom reported %d bytes, source had %d", i, n, s)
			}
		}
	}
	return c.CloseWrite()
}

// readAll drains c with the given path until EOF and returns everything read.
func readAll(c netio.Conn, bufs []int, path int, limit int) ([]byte, error) {
	switch path {
	case pathRF:
		wt, ok := c.(io.WriterTo)
		if !ok {
			return nil, errors.New("conn has no WriteTo")
		}
		s := sink{limit: limit}
		n, err := wt.WriteTo(&s)
		if err != nil {
			return s.b, fmt.Errorf("WriteTo: %w", err)
		}
		if int(n) != len(s.b) {
			return s.b, fmt.Errorf("WriteTo reported %d bytes, sink got %d", n, len(s.b))
		}
		return s.b, nil
	default:
		var out []byte
		maxb := 1
		for _, b := range bufs {
			maxb = max(maxb, b)
		}
		buf := make([]byte, maxb)
		for i := 0; ; i++ {
			sz := bufs[i%len(bufs)]
			n, err := c.Read(buf[:sz])
			if n < 0 || n > sz {
				return out, fmt.Errorf("Read returned n=%d for buffer %d", n, sz)
			}
			out = append(out, buf[:n]...)
			if len(out) > limit {
				return out, errTooMuch
			}
			if err == io.EOF {
				// end-of-stream is sticky: a further Read must report EOF again and no data
				// (a reader must never see already-delivered bytes a second time)
				n2, err2 := c.Read(buf[:sz])
				if n2 != 0 || err2 != io.EOF {
					return out, fmt.Errorf("Read after EOF returned n=%d err=%v, want 0, EOF", n2, err2)
				}
				return out, nil
			}
			if err != nil {
				return out, fmt.Errorf("Read: %w", err)
			}
			if n == 0 && sz > 0 {
				// a zero-byte read without error is legal for io.Reader but must not repeat forever
				if i > 1<<22 {
					return out, errors.New("Read keeps returning 0, nil")
				}
			}
		}
	}
}

func firstDiff(a, b []byte) string {
	n := min(len(a), len(b))
	for i := 0; i < n; i++ {
		if a[i] != b[i] {
			return fmt.Sprintf("first difference at offset %d (got len %d, want len %d)", i, len(a), len(b))
		}
	}
	return fmt.Sprintf("common prefix %d bytes, got len %d, want len %d", n, len(a), len(b))
}

func sizesStr(s []int) string {
	var sb strings.Builder
	for i, v := range s {
		if i > 0 {
			sb.WriteByte(',')
		}
		fmt.Fprint(&sb, v)
	}
	return sb.String()
}
