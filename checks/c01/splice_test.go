package c01

import (
	"bytes"
	"context"
	"fmt"
	"io"
	"time"

	"github.com/database64128/shadowsocks-go/conn"
	"github.com/database64128/shadowsocks-go/netio"
	"go.uber.org/zap"
	"pgregory.net/rapid"

	"verif/internal/ev"
	"verif/internal/xnet"
)

// Round 6: relays that do something with their two tunnel connections BEFORE they splice them, and
// relays that splice two connections of the same role.
//
//	topoChain   left app = client A   | relay: server conn A <=> client conn B | right app = server B
//	topoServers left app = client A   | relay: server conn A <=> server conn B | right app = client B   (rendezvous of two inbound tunnels)
//	topoClients left app = server A   | relay: client conn A <=> client conn B | right app = server B   (relay dialed both tunnels)
//
// Direction "up" is left -> right, "down" is right -> left. Per direction the relay first runs a
// prelude on (source conn, destination conn) and then joins them with one of the copy calls.
const (
	topoChain   = 0
	topoServers = 1
	topoClients = 2

	joinBiCopyLR = 0 // netio.BidirectionalCopy(left conn, right conn)
	joinBiCopyRL = 1 // netio.BidirectionalCopy(right conn, left conn)
	joinReadFrom = 2 // per direction, own goroutine: dst.ReadFrom(src); dst.CloseWrite()
	joinIOCopy   = 3 // per direction, own goroutine: io.Copy(dst, src); dst.CloseWrite()
	numJoin      = 4

	fwdConsume  = 0 // the relay keeps what it pre-read (a reply of a nested handshake, a banner it swallows)
	fwdWrite    = 1 // the relay forwards every pre-read chunk with dst.Write
	fwdReadFrom = 2 // the relay forwards every pre-read chunk with dst.ReadFrom(generic source)
)

// preludeSpec is what the relay does on one direction before the splice starts.
type preludeSpec struct {
	// Greet > 0: the relay writes that many bytes of its own into the destination first
	// (GreetMode 0: Write, 1: ReadFrom from a generic source).
	Greet     int `json:"greet,omitempty"`
	GreetMode int `json:"greetMode,omitempty"`
	// PreRead > 0: the relay takes that many whole chunks from the source through plain Read calls
	// (buffer sizes cycle through PreBufs; every chunk is read to its end, so nothing is left
	// buffered in the source when the splice starts) and forwards or consumes them.
	PreRead int   `json:"preRead,omitempty"`
	PreBufs []int `json:"preBufs,omitempty"`
	Forward int   `json:"forward,omitempty"`
}

type spliceSpec struct {
	Topo int `json:"topo"`
	Join int `json:"join"`
	// P2: initial payload of the second tunnel's dial (topoServers: dialed by the right app;
	// topoClients: dialed by the relay). Unused for topoChain (the relay dials with request A's payload).
	P2   int         `json:"p2,omitempty"`
	Up   preludeSpec `json:"up"`
	Down preludeSpec `json:"down"`
}

// normalised returns the spec that is actually executed. netio.BidirectionalCopy starts both
// directions together, after both preludes; in a plan whose application side is sequential a
// pre-read on the direction whose data is only written later would wait for ever (the relay
// program itself would be wrong, not the tunnel), so that pre-read is dropped.
func (s spliceSpec) normalised(p plan) spliceSpec {
	if (s.Join == joinBiCopyLR || s.Join == joinBiCopyRL) && !p.Duplex {
		if p.Order == 0 {
			s.Down.PreRead = 0
		} else {
			s.Up.PreRead = 0
		}
	}
	for _, pr := range []*preludeSpec{&s.Up, &s.Down} {
		if pr.PreRead > 0 && len(pr.PreBufs) == 0 {
			pr.PreBufs = []int{maxChunk + 16}
		}
		if pr.PreRead == 0 {
			pr.PreBufs = nil
			pr.Forward = 0
		}
		if pr.Greet == 0 {
			pr.GreetMode = 0
		}
	}
	if s.Topo == topoChain {
		s.P2 = 0
	}
	return s
}

func drawPrelude(rt *rapid.T, name string, destCap int) (pr preludeSpec) {
	if rapid.Bool().Draw(rt, name+"HasGreet") {
		pr.Greet, _ = boundaryLen(rt, name+"Greet", []int{1, 2, 17, 18, 4096, destCap, maxChunk}, 70000)
		if pr.Greet == 0 {
			pr.Greet = 1
		}
		pr.GreetMode = rapid.IntRange(0, 1).Draw(rt, name+"GreetMode")
	}
	pr.PreRead = rapid.SampledFrom([]int{0, 0, 0, 1, 1, 2, 3}).Draw(rt, name+"PreRead")
	if pr.PreRead > 0 {
		bufGen := rapid.OneOf(rapid.SampledFrom([]int{1, 2, 17, 18, 4096, maxChunk, maxChunk + 16, maxChunk + 16, 70000}), rapid.IntRange(1, 70000))
		pr.PreBufs = rapid.SliceOfN(bufGen, 1, 3).Draw(rt, name+"PreBufs")
		pr.Forward = rapid.SampledFrom([]int{fwdConsume, fwdConsume, fwdWrite, fwdReadFrom}).Draw(rt, name+"Forward")
	}
	return
}

func drawSplice(rt *rapid.T, p *plan) *spliceSpec {
	s := &spliceSpec{
		Topo: rapid.SampledFrom([]int{topoChain, topoChain, topoChain, topoServers, topoClients}).Draw(rt, "spliceTopo"),
		Join: rapid.IntRange(0, numJoin-1).Draw(rt, "spliceJoin"),
	}
	if s.Topo != topoChain && rapid.Bool().Draw(rt, "spliceHasP2") {
		room := maxChunk - len(p.Target.wireAddr()) - 2
		s.P2, _ = boundaryLen(rt, "spliceP2", []int{1, 900, room, maxChunk}, 140000)
	}
	// destination of "up" is the right conn (tunnel B), of "down" the left conn (tunnel A)
	s.Up = drawPrelude(rt, "spliceUp", firstWriteCap(p.Cls2))
	s.Down = drawPrelude(rt, "spliceDown", firstWriteCap(p.Cls))
	// Shape the writing application's plan now and then so that the chunk the splice has to move
	// first (the one after the pre-read ones) is a full-size one: k one-chunk writes, then 65535.
	shape := func(name string, pr preludeSpec, sizes *[]int) {
		if pr.PreRead == 0 || rapid.IntRange(0, 3).Draw(rt, name+"Shape") != 0 {
			return
		}
		w := rapid.SliceOfN(rapid.SampledFrom([]int{1, 2, 17, 18, 900, 4096}), pr.PreRead, pr.PreRead).Draw(rt, name+"ShapeHead")
		w = append(w, maxChunk)
		if rapid.Bool().Draw(rt, name+"ShapeTail") {
			w = append(w, rapid.IntRange(0, 70000).Draw(rt, name+"ShapeTailLen"))
		}
		*sizes = w
	}
	shape("spliceDown", s.Down, &p.S2C)
	shape("spliceUp", s.Up, &p.C2S)
	return s
}

// ---------- static description of one splice direction (labels, known-finding gate)

type spliceDir struct {
	name      string // up | down
	pair      string // c>s | s>c | s>s | c>c  (role of the source conn > role of the destination conn)
	destState string // fresh | written
	srcState  string // fresh | read
}

func (d spliceDir) String() string {
	return fmt.Sprintf("%s/dest-%s/src-%s", d.pair, d.destState, d.srcState)
}

// spliceDirs derives, from the plan alone, the state of source and destination at the moment the
// splice starts. srcLen is the number of bytes the source will ever deliver to the relay on that
// direction, initLen the initial-payload bytes the relay has to pass on first (topoServers).
func spliceDirs(p plan) (up, down spliceDir) {
	s := p.Splice.normalised(p)
	room := maxChunk - len(p.Target.wireAddr()) - 2
	excess := func(n int) int { return max(0, n-room) }
	var upSrc, downSrc, upInit, downInit int
	switch s.Topo {
	case topoChain:
		up.pair, down.pair = "s>c", "c>s"
		upSrc, downSrc = excess(p.Payload)+sum(p.C2S), sum(p.S2C)
	case topoServers:
		up.pair, down.pair = "s>s", "s>s"
		upSrc, downSrc = excess(p.Payload)+sum(p.C2S), excess(s.P2)+sum(p.S2C)
		upInit, downInit = min(p.Payload, room), min(s.P2, room)
	default:
		up.pair, down.pair = "c>c", "c>c"
		upSrc, downSrc = sum(p.C2S), sum(p.S2C)
	}
	st := func(d *spliceDir, name string, pr preludeSpec, srcLen, initLen int) {
		d.name = name
		d.srcState, d.destState = "fresh", "fresh"
		if pr.PreRead > 0 && srcLen > 0 {
			d.srcState = "read"
		}
		if initLen > 0 || pr.Greet > 0 || (pr.PreRead > 0 && srcLen > 0 && pr.Forward != fwdConsume) {
			d.destState = "written"
		}
	}
	st(&up, "up", s.Up, upSrc, upInit)
	st(&down, "down", s.Down, downSrc, downInit)
	return
}

func joinName(j int) string {
	switch j {
	case joinBiCopyLR, joinBiCopyRL:
		return "bicopy"
	case joinReadFrom:
		return "readfrom"
	}
	return "iocopy"
}

// panicSig is the signature of "the splice of this direction panicked".
func (d spliceDir) panicSig() string {
	return "C01/splice-panic/" + d.String()
}

// ---------- execution

type tunnel struct {
	ep          *endpoint
	cconn       netio.Conn // the client's connection
	sconn       netio.Conn // the server's connection
	req         netio.ConnRequest
	dialPayload []byte // what DialStream was given
	initial     []byte // copy of the payload the server found inside the request
}

type relayMsg struct {
	dir string
	o   *outcome
}

// srcChunkSizes decodes, with the harness's own decoder, what the peer of src has put on the
// transport so far and returns the sizes of the data chunks a reader of src gets through Read.
func srcChunkSizes(t *tunnel, srcIsServer bool, addrLen int) []int {
	ep := t.ep
	cframes := ep.dialer.clientEnd.Written()
	if len(cframes) == 0 {
		return nil
	}
	first, err := ep.relayStrip(cframes[0])
	if err != nil {
		return nil
	}
	if srcIsServer {
		all := append([]byte(nil), first...)
		for _, f := range cframes[1:] {
			all = append(all, f...)
		}
		rep, _ := decodeRequestStream(all, ep.upsk, ep.cls.ReqPrefix, min(ep.cls.EIH, 1), addrLen)
		if rep == nil {
			return nil
		}
		return rep.Chunks
	}
	if len(first) < ep.cls.ReqPrefix+ep.cls.KeyLen {
		return nil
	}
	reqSalt := first[ep.cls.ReqPrefix : ep.cls.ReqPrefix+ep.cls.KeyLen]
	var sall []byte
	for _, f := range ep.dialer.serverEnd().Written() {
		sall = append(sall, f...)
	}
	rep, _ := decodeResponseStream(sall, ep.upsk, ep.cls.RespPrefix, reqSalt)
	if rep == nil {
		return nil
	}
	return rep.Chunks
}

type dirRun struct {
	d           spliceDir
	pr          preludeSpec
	src, dst    netio.Conn
	srcTunnel   *tunnel
	srcIsServer bool
	init        []byte // initial payload the relay passes on before anything else
	greet       []byte
	// results
	consumed  []byte // everything the pre-read took from the source
	preChunks int    // whole chunks the pre-read took
}

func relayWrite(dst netio.Conn, b []byte, mode int, what string) *outcome {
	if len(b) == 0 {
		return nil
	}
	if mode == 0 {
		n, err := dst.Write(b)
		if err != nil || n != len(b) {
			return fail("C01/relay-write-error", "%s: Write(%d) = %d, %v", what, len(b), n, err)
		}
		return nil
	}
	rf, ok := dst.(io.ReaderFrom)
	if !ok {
		return fail("C01/relay-write-error", "%s: destination has no ReadFrom", what)
	}
	n, err := rf.ReadFrom(&planReader{data: b, sizes: []int{len(b)}})
	if err != nil || int(n) != len(b) {
		return fail("C01/relay-write-error", "%s: ReadFrom(source of %d) = %d, %v", what, len(b), n, err)
	}
	return nil
}

// prelude runs the relay's pre-splice program of one direction.
func (r *dirRun) prelude(addrLen int) *outcome {
	if o := relayWrite(r.dst, r.init, 0, r.d.name+": passing on the initial payload"); o != nil {
		return o
	}
	if o := relayWrite(r.dst, r.greet, r.pr.GreetMode, r.d.name+": greeting"); o != nil {
		return o
	}
	if r.pr.PreRead == 0 {
		return nil
	}
	maxb := 1
	for _, b := range r.pr.PreBufs {
		maxb = max(maxb, b)
	}
	buf := make([]byte, maxb)
	bi, total, zeros := 0, 0, 0
	readSome := func(limit int) (n int, eof bool, o *outcome) {
		sz := r.pr.PreBufs[bi%len(r.pr.PreBufs)]
		bi++
		if limit > 0 {
			sz = min(sz, limit)
		}
		n, err := r.src.Read(buf[:sz])
		if n < 0 || n > sz {
			return 0, false, fail("C01/relay-preread-error", "%s: Read returned n=%d for buffer %d", r.d.name, n, sz)
		}
		r.consumed = append(r.consumed, buf[:n]...)
		total += n
		if err == io.EOF {
			return n, true, nil
		}
		if err != nil {
			return n, false, fail("C01/relay-preread-error", "%s: Read after %d bytes: %v", r.d.name, total, err)
		}
		if n == 0 {
			if zeros++; zeros > 1<<16 {
				return 0, false, fail("C01/relay-preread-error", "%s: Read keeps returning 0, nil", r.d.name)
			}
		}
		return n, false, nil
	}
	for r.preChunks < r.pr.PreRead {
		start := total
		n, eof, o := readSome(0)
		if o != nil {
			return o
		}
		if eof {
			break
		}
		if n == 0 {
			continue
		}
		// where does the chunk end that these bytes belong to? Ask the independent decoder
		// (the chunk had to be on the transport completely before any of it could be authenticated).
		end, found := 0, false
		for _, c := range srcChunkSizes(r.srcTunnel, r.srcIsServer, addrLen) {
			end += c
			if end >= total {
				found = true
				break
			}
		}
		if !found {
			return fail("C01/relay-preread-not-on-wire", "%s: Read delivered %d bytes in total but the ciphertext written so far holds only %d", r.d.name, total, end)
		}
		for total < end {
			_, eof, o := readSome(end - total)
			if o != nil {
				return o
			}
			if eof {
				return fail("C01/relay-preread-error", "%s: end of stream %d bytes before the end of a chunk", r.d.name, end-total)
			}
		}
		r.preChunks++
		if r.pr.Forward != fwdConsume {
			mode := 0
			if r.pr.Forward == fwdReadFrom {
				mode = 1
			}
			if o := relayWrite(r.dst, r.consumed[start:total], mode, r.d.name+": forwarding a pre-read chunk"); o != nil {
				return o
			}
		}
	}
	return nil
}

func (r *dirRun) copyOnce(join int) (err error) {
	switch join {
	case joinReadFrom:
		rf, ok := r.dst.(io.ReaderFrom)
		if !ok {
			return fmt.Errorf("destination has no ReadFrom")
		}
		_, err = rf.ReadFrom(r.src)
	default:
		_, err = io.Copy(r.dst, r.src)
	}
	r.dst.CloseWrite()
	return err
}

func runSplicePlan(p plan) (res *outcome, labels []string) {
	s := p.Splice.normalised(p)
	ctx := context.Background()
	logger := zap.NewNop()
	target := p.Target.addr()
	wireAddr := p.Target.wireAddr()
	room := maxChunk - len(wireAddr) - 2
	P := stream(p.Seed, 1, p.Payload)
	U := stream(p.Seed, 2, sum(p.C2S))
	D := stream(p.Seed, 3, sum(p.S2C))
	P2 := stream(p.Seed, 6, s.P2)
	dUp, dDown := spliceDirs(p)

	var filterErr error
	var allEnds []*xnet.Conn
	defer func() {
		// unblock whatever is still waiting when the case ends early
		for _, e := range allEnds {
			e.Close()
		}
	}()
	tun := [2]*tunnel{}
	for i, cls := range []cfgClass{p.Cls, p.Cls2} {
		ep, err := newEndpoint(cls, p.Seed, byte(i))
		if err != nil {
			return fail("C01/harness-config", "endpoint %d: %v", i, err), nil
		}
		ep.dialer.prep = func(cEnd, sEnd *xnet.Conn) {
			allEnds = append(allEnds, cEnd, sEnd)
			fm := 0
			if !ep.cls.Segmented {
				fm = ep.firstMinServer()
			}
			sEnd.SetReadPlan(p.FragC2S, fm, p.Coalesce)
			fm = 0
			if !ep.cls.Segmented {
				fm = ep.firstMinClient()
			}
			cEnd.SetReadPlan(p.FragS2C, fm, p.Coalesce)
			if ep.cls.EIH >= 2 {
				cEnd.SetWriteFilter(func(idx int, frame []byte) [][]byte {
					if idx != 0 {
						return [][]byte{frame}
					}
					out, err := ep.relayStrip(frame)
					if err != nil {
						filterErr = err
						return nil
					}
					return [][]byte{out}
				})
			}
		}
		tun[i] = &tunnel{ep: ep}
	}
	wantAddr := target
	if wantAddr.IsIP() {
		wantAddr = conn.AddrFromIPAndPort(wantAddr.IP().Unmap(), wantAddr.Port())
	}
	var cancels []context.CancelFunc
	defer func() {
		for _, c := range cancels {
			c()
		}
	}()
	open := func(i int, dialAddr conn.Addr, payload []byte) *outcome {
		t := tun[i]
		hop := fmt.Sprintf("tunnel %c", 'A'+i)
		t.dialPayload = bytes.Clone(payload)
		dialCtx, cancel := context.WithCancel(ctx)
		cancels = append(cancels, cancel)
		c, err := t.ep.client.DialStream(dialCtx, dialAddr, payload)
		if p.CancelDialCtx {
			cancel()
		}
		if err != nil {
			return fail("C01/dial-error", "%s: DialStream: %v", hop, err)
		}
		if filterErr != nil {
			return fail("C01/identity-header-chain", "%v", filterErr)
		}
		t.cconn = c
		sEnd := <-t.ep.dialer.ends
		req, err := t.ep.server.HandleStream(sEnd, logger)
		if err != nil {
			return fail("C01/handshake-rejected", "%s: HandleStream: %v", hop, err)
		}
		if !req.Addr.Equals(wantAddr) {
			return fail("C01/target-mismatch", "%s: server saw target %s, client dialed %s", hop, req.Addr, target)
		}
		if req.Username != t.ep.username {
			return fail("C01/username-mismatch", "%s: server saw user %q, want %q", hop, req.Username, t.ep.username)
		}
		wantLen := min(len(t.dialPayload), room)
		if len(req.Payload) != wantLen {
			return fail("C01/request-payload-length", "%s: request carried %d payload bytes, want min(%d, %d)=%d", hop, len(req.Payload), len(t.dialPayload), room, wantLen)
		}
		if !bytes.Equal(req.Payload, t.dialPayload[:wantLen]) {
			return fail("C01/request-payload-content", "%s: request payload differs: %s", hop, firstDiff(req.Payload, t.dialPayload[:wantLen]))
		}
		t.req = req
		t.initial = bytes.Clone(req.Payload)
		return nil
	}
	if o := open(0, target, P); o != nil {
		return o, nil
	}
	switch s.Topo {
	case topoChain:
		// like service/tcp.go: the request's payload goes into the next dial, then the pending conn proceeds
		if o := open(1, tun[0].req.Addr, tun[0].req.Payload); o != nil {
			return o, nil
		}
	default:
		if o := open(1, target, P2); o != nil {
			return o, nil
		}
	}
	for _, t := range tun {
		t.sconn, _ = t.req.Proceed()
	}

	var leftApp, rightApp, L, R netio.Conn
	var leftFirst, rightFirst []byte // request payload an application-side server found (it is part of what it "read")
	up := &dirRun{d: dUp, pr: s.Up, greet: stream(p.Seed, 4, s.Up.Greet)}
	down := &dirRun{d: dDown, pr: s.Down, greet: stream(p.Seed, 5, s.Down.Greet)}
	pRoom := min(len(P), room)
	p2Room := min(len(P2), room)
	var upSrc, downSrc []byte   // what the relay's source conn delivers on that direction
	var upHead, downHead []byte // what reaches the reading application before the relay's greeting
	switch s.Topo {
	case topoChain:
		leftApp, L, R, rightApp = tun[0].cconn, tun[0].sconn, tun[1].cconn, tun[1].sconn
		rightFirst = tun[1].initial
		up.srcTunnel, up.srcIsServer = tun[0], true
		down.srcTunnel, down.srcIsServer = tun[1], false
		upSrc, downSrc = append(bytes.Clone(P[pRoom:]), U...), D
		upHead = P[:pRoom]
	case topoServers:
		leftApp, L, R, rightApp = tun[0].cconn, tun[0].sconn, tun[1].sconn, tun[1].cconn
		up.srcTunnel, up.srcIsServer = tun[0], true
		down.srcTunnel, down.srcIsServer = tun[1], true
		up.init, down.init = tun[0].initial, tun[1].initial
		upSrc, downSrc = append(bytes.Clone(P[pRoom:]), U...), append(bytes.Clone(P2[p2Room:]), D...)
		upHead, downHead = P[:pRoom], P2[:p2Room]
	default:
		leftApp, L, R, rightApp = tun[0].sconn, tun[0].cconn, tun[1].cconn, tun[1].sconn
		leftFirst, rightFirst = tun[0].initial, tun[1].initial
		up.srcTunnel, up.srcIsServer = tun[0], false
		down.srcTunnel, down.srcIsServer = tun[1], false
		upSrc, downSrc = U, D
		upHead, downHead = P2, P
	}
	up.src, up.dst = L, R
	down.src, down.dst = R, L

	// ---- the relay
	relayDone := make(chan relayMsg, 4)
	relayN := 0
	guard := func(dir string, d spliceDir, f func() *outcome) {
		defer func() {
			if rv := recover(); rv != nil {
				relayDone <- relayMsg{dir, fail(d.panicSig(), "%s: the relay's copy goroutine panicked: %v", dir, rv)}
			}
		}()
		relayDone <- relayMsg{dir, f()}
	}
	switch s.Join {
	case joinBiCopyLR, joinBiCopyRL:
		relayN = 1
		// a panic inside BidirectionalCopy's own goroutine cannot be recovered here and ends the
		// process: the journaled plan is the replay. The inline direction is guarded.
		inline := dDown
		if s.Join == joinBiCopyRL {
			inline = dUp
		}
		go guard("both", inline, func() *outcome {
			if o := up.prelude(len(wireAddr)); o != nil {
				return o
			}
			if o := down.prelude(len(wireAddr)); o != nil {
				return o
			}
			var err error
			if s.Join == joinBiCopyLR {
				_, _, err = netio.BidirectionalCopy(L, R)
			} else {
				_, _, err = netio.BidirectionalCopy(R, L)
			}
			if err != nil {
				return fail("C01/relay-copy-error", "BidirectionalCopy (%s, %s): %v", dUp, dDown, err)
			}
			return nil
		})
	default:
		relayN = 2
		for _, r := range []*dirRun{up, down} {
			go guard(r.d.name, r.d, func() *outcome {
				if o := r.prelude(len(wireAddr)); o != nil {
					return o
				}
				if err := r.copyOnce(s.Join); err != nil {
					return fail("C01/relay-copy-error", "%s (%s, %s): %v", r.d.name, joinName(s.Join), r.d, err)
				}
				return nil
			})
		}
	}

	// ---- the applications
	limit := len(P) + len(P2) + len(U) + len(D) + s.Up.Greet + s.Down.Greet + 1024
	var gotRight, gotLeft []byte
	upW := func() *outcome {
		var err error
		if p.MixC2S != nil {
			err = writeMixed(leftApp, U, p.C2S, p.MixC2S, p.WPathC, p.EOFWithData)
		} else {
			err = writeAll(leftApp, U, p.C2S, p.WPathC, p.EOFWithData, p.ZeroEvery)
		}
		if err != nil {
			return fail("C01/client-write-error", "left application: %v", err)
		}
		return nil
	}
	upR := func() *outcome {
		got, err := readAll(rightApp, p.C2SBufs, p.RPathS, limit)
		gotRight = append(bytes.Clone(rightFirst), got...)
		if err != nil {
			return fail("C01/server-read-error", "right application after %d bytes: %v", len(gotRight), err)
		}
		return nil
	}
	downW := func() *outcome {
		var err error
		if p.MixS2C != nil {
			err = writeMixed(rightApp, D, p.S2C, p.MixS2C, p.WPathS, p.EOFWithData)
		} else {
			err = writeAll(rightApp, D, p.S2C, p.WPathS, p.EOFWithData, p.ZeroEvery)
		}
		if err != nil {
			return fail("C01/server-write-error", "right application: %v", err)
		}
		return nil
	}
	downR := func() *outcome {
		got, err := readAll(leftApp, p.S2CBufs, p.RPathC, limit)
		gotLeft = append(bytes.Clone(leftFirst), got...)
		if err != nil {
			return fail("C01/client-read-error", "left application after %d bytes: %v", len(gotLeft), err)
		}
		return nil
	}
	var steps []func() *outcome
	if p.Order == 0 {
		steps = []func() *outcome{upW, upR, downW, downR}
	} else {
		steps = []func() *outcome{downW, downR, upW, upR}
	}
	appDone := make(chan *outcome, len(steps))
	appN := 0
	if p.Duplex {
		appN = len(steps)
		for _, st := range steps {
			go func() { appDone <- st() }()
		}
	} else {
		appN = 1
		go func() {
			for _, st := range steps {
				if o := st(); o != nil {
					appDone <- o
					return
				}
			}
			appDone <- nil
		}()
	}
	// A relay failure (in particular a recovered panic) is reported at once: the applications
	// may be waiting for data that will never come.
	var appFail *outcome
	for appN > 0 || relayN > 0 {
		select {
		case m := <-relayDone:
			relayN--
			if m.o != nil {
				return m.o, nil
			}
		case o := <-appDone:
			appN--
			if o != nil && appFail == nil {
				appFail = o
			}
		}
		if appFail != nil && appN == 0 {
			// give the relay's verdict (the likelier root cause) a moment to arrive first
			select {
			case m := <-relayDone:
				if m.o != nil {
					return m.o, nil
				}
				relayN--
			case <-time.After(200 * time.Millisecond):
			}
			return appFail, nil
		}
	}

	// ---- ledger
	keep := func(r *dirRun, src []byte) ([]byte, *outcome) {
		if len(r.consumed) > len(src) || !bytes.Equal(r.consumed, src[:len(r.consumed)]) {
			return nil, fail("C01/relay-preread-mismatch", "%s (%s): the relay's pre-read of %d chunks: %s", r.d.name, r.d, r.preChunks, firstDiff(r.consumed, src[:min(len(src), len(r.consumed))]))
		}
		if r.pr.Forward == fwdConsume {
			return src[len(r.consumed):], nil
		}
		return src, nil
	}
	upKept, o := keep(up, upSrc)
	if o != nil {
		return o, nil
	}
	downKept, o := keep(down, downSrc)
	if o != nil {
		return o, nil
	}
	wantRight := append(append(bytes.Clone(upHead), up.greet...), upKept...)
	wantLeft := append(append(bytes.Clone(downHead), down.greet...), downKept...)
	if !bytes.Equal(gotRight, wantRight) {
		return fail("C01/c2s-stream-mismatch", "left->right through %s joined by %s: %s", dUp, joinName(s.Join), firstDiff(gotRight, wantRight)), nil
	}
	if !bytes.Equal(gotLeft, wantLeft) {
		return fail("C01/s2c-stream-mismatch", "right->left through %s joined by %s: %s", dDown, joinName(s.Join), firstDiff(gotLeft, wantLeft)), nil
	}
	for i, t := range tun {
		if !t.req.Addr.Equals(wantAddr) {
			return fail("C01/target-changed-after-traffic", "tunnel %c: request address reads %q after the data phases, client dialed %s", 'A'+i, t.req.Addr.String(), target), nil
		}
	}
	labels = append(labels, "addr-rechecked-after-server-write")

	// ---- independent wire decoding: per tunnel exactly one request and at most one response
	// stream, each carrying exactly the bytes that direction is supposed to carry
	var wantReq, wantResp [2][]byte
	fullUp := append(bytes.Clone(P), U...)
	switch s.Topo {
	case topoChain:
		wantReq[0], wantResp[0] = fullUp, wantLeft
		wantReq[1], wantResp[1] = wantRight, D
	case topoServers:
		wantReq[0], wantResp[0] = fullUp, wantLeft
		wantReq[1], wantResp[1] = append(bytes.Clone(P2), D...), wantRight
	default:
		wantReq[0], wantResp[0] = wantLeft, U
		wantReq[1], wantResp[1] = wantRight, D
	}
	multiChunk := false
	var respChunks [2][]int
	for i, t := range tun {
		ep := t.ep
		frames := ep.dialer.clientEnd.Written()
		if len(frames) == 0 {
			return fail("C01/wire-empty", "tunnel %c: client wrote nothing", 'A'+i), nil
		}
		first, err := ep.relayStrip(frames[0])
		if err != nil {
			return fail("C01/identity-header-chain", "tunnel %c: %v", 'A'+i, err), nil
		}
		all := append([]byte(nil), first...)
		for _, f := range frames[1:] {
			all = append(all, f...)
		}
		rep, err := decodeRequestStream(all, ep.upsk, ep.cls.ReqPrefix, min(ep.cls.EIH, 1), len(wireAddr))
		if err != nil {
			return fail("C01/wire-request-undecodable", "tunnel %c: %v", 'A'+i, err), nil
		}
		if !bytes.Equal(rep.AddrBytes, wireAddr) {
			return fail("C01/wire-address", "tunnel %c: address bytes on the wire differ from the SOCKS5 encoding of the target", 'A'+i), nil
		}
		if !bytes.Equal(rep.Plain, wantReq[i]) {
			return fail("C01/wire-c2s-plaintext", "tunnel %c: decrypted request stream: %s", 'A'+i, firstDiff(rep.Plain, wantReq[i])), nil
		}
		if rep.InitialLen != min(len(t.dialPayload), room) {
			return fail("C01/wire-initial-payload", "tunnel %c: %d payload bytes inside the request, want %d", 'A'+i, rep.InitialLen, min(len(t.dialPayload), room)), nil
		}
		if rep.PaddingLen > 900 || rep.PaddingLen+rep.InitialLen == 0 {
			return fail("C01/wire-padding", "tunnel %c: padding %d with %d payload bytes", 'A'+i, rep.PaddingLen, rep.InitialLen), nil
		}
		for _, c := range rep.Chunks {
			if c == 0 || c > maxChunk {
				return fail("C01/wire-chunk-size", "tunnel %c: chunk of %d bytes", 'A'+i, c), nil
			}
		}
		if len(rep.Chunks) > 1 {
			multiChunk = true
		}
		var sall []byte
		for _, f := range ep.dialer.serverEnd().Written() {
			sall = append(sall, f...)
		}
		if len(wantResp[i]) == 0 {
			if len(sall) != 0 {
				return fail("C01/wire-response-nonempty", "tunnel %c: server conn wrote %d bytes although nothing was to be sent through it", 'A'+i, len(sall)), nil
			}
			continue
		}
		reqSalt := all[ep.cls.ReqPrefix : ep.cls.ReqPrefix+ep.cls.KeyLen]
		rrep, err := decodeResponseStream(sall, ep.upsk, ep.cls.RespPrefix, reqSalt)
		if err != nil {
			return fail("C01/wire-response-undecodable", "tunnel %c: %v", 'A'+i, err), nil
		}
		if !bytes.Equal(rrep.Plain, wantResp[i]) {
			return fail("C01/wire-s2c-plaintext", "tunnel %c: decrypted response stream: %s", 'A'+i, firstDiff(rrep.Plain, wantResp[i])), nil
		}
		for _, c := range rrep.Chunks {
			if c == 0 || c > maxChunk {
				return fail("C01/wire-chunk-size", "tunnel %c: response chunk of %d bytes", 'A'+i, c), nil
			}
		}
		if len(rrep.Chunks) > 1 {
			multiChunk = true
		}
		respChunks[i] = rrep.Chunks
	}
	if multiChunk {
		labels = append(labels, "multi-chunk")
	}

	// ---- what was exercised (measured, not predicted)
	for _, r := range []*dirRun{up, down} {
		d := r.d
		measured := "fresh"
		if len(r.consumed) > 0 {
			measured = "read"
		}
		if measured != d.srcState {
			// the static description must agree with what happened, otherwise labels (and the
			// known-finding gate) would talk about a different case
			return fail("C01/harness-splice-state", "%s: predicted source state %s, measured %s", d.name, d.srcState, measured), nil
		}
		labels = append(labels,
			"splice/"+d.String(),
			"splice/"+d.pair+"/dest-"+d.destState,
			"splice/"+d.pair+"/src-"+d.srcState,
			"splice/"+d.pair+"/join-"+joinName(s.Join))
		if r.pr.Greet > 0 {
			labels = append(labels, fmt.Sprintf("splice/greeting-via-%s", []string{"write", "readfrom"}[r.pr.GreetMode]))
		}
		if len(r.consumed) > 0 {
			labels = append(labels, fmt.Sprintf("splice/preread-%s", []string{"consumed", "forwarded-write", "forwarded-readfrom"}[r.pr.Forward]))
		}
		if d.pair == "c>s" {
			// first chunk the splice itself has to move: the source is tunnel B's response stream
			chunks := respChunks[1]
			cls := "none"
			if r.preChunks < len(chunks) {
				c := chunks[r.preChunks]
				switch {
				case c == maxChunk || (r.preChunks == 0 && c >= firstWriteCap(p.Cls2)):
					cls = "max"
				case c < 1024:
					cls = "small"
				default:
					cls = "mid"
				}
			}
			labels = append(labels, "splice/"+d.String()+"/first-"+cls)
		}
	}
	return nil, labels
}

// spliceKnownExcluded reports whether the plan is certain to run into a listed (open) finding
// whose symptom is a process-killing panic, so that it has to be left out instead of executed.
func spliceKnownExcluded(p plan) (string, bool) {
	if p.Splice == nil {
		return "", false
	}
	up, down := spliceDirs(p)
	for _, d := range []spliceDir{up, down} {
		if ev.IsKnown("C01", d.panicSig()) {
			return d.panicSig(), true
		}
	}
	return "", false
}

// ---------- dedicated property: every plan is a relay with a prelude / same-role splice

var recSplice = ev.New("C01", "splice-ledger",
	"rapid plans as in tunnel-ledger (no long bursts), always through a relay that holds two ss2022 conns and runs a generated pre-splice program per direction: "+
		"optional greeting written into the destination (Write | generic ReadFrom; sizes 1,2,17,18,4096,first-write capacity,65535 +-3 or log-uniform), optional pre-read of 1-3 whole chunks from the source through Read "+
		"(buffer cycle 1,2,17,18,4096,65535,65551,70000,random; chunk ends found with the independent decoder, so nothing stays buffered) that are consumed | forwarded by Write | forwarded by ReadFrom; "+
		"then joined by netio.BidirectionalCopy(l,r) | (r,l) | dst.ReadFrom(src) | io.Copy(dst,src). Topologies: server conn<=>client conn (relay chain), server conn<=>server conn (two inbound tunnels; each request's initial payload is passed on first), "+
		"client conn<=>client conn (relay dialed both, each with an own initial payload). Oracle: byte ledger at both applications and at the relay's pre-read, independent decoding of all four recorded ciphertext streams "+
		"(exactly one salt and one response header per direction per tunnel, plaintext equality), no panic. Non-trivial: bytes>0 both ways. Distinct key: config classes + topology + join + per-direction (dest state, source state) + paths + length classes").
	Require(spliceRequired()...)

func spliceRequired() []string {
	var req []string
	for _, dest := range []string{"fresh", "written"} {
		for _, src := range []string{"fresh", "read"} {
			req = append(req, "splice/"+spliceDir{pair: "s>c", destState: dest, srcState: src}.String())
			d := spliceDir{pair: "c>s", destState: dest, srcState: src}
			if ev.IsKnown("C01", d.panicSig()) {
				continue // a listed finding: plans of this class are excluded, not executed
			}
			for _, first := range []string{"none", "small", "max"} {
				req = append(req, "splice/"+d.String()+"/first-"+first)
			}
		}
		for _, pair := range []string{"s>s", "c>c"} {
			req = append(req, "splice/"+pair+"/dest-"+dest)
		}
	}
	for _, pair := range []string{"s>s", "c>c"} {
		req = append(req, "splice/"+pair+"/src-read")
		for _, j := range []string{"bicopy", "readfrom", "iocopy"} {
			req = append(req, "splice/"+pair+"/join-"+j)
		}
	}
	req = append(req, "splice/greeting-via-write", "splice/greeting-via-readfrom",
		"splice/preread-consumed", "splice/preread-forwarded-write", "splice/preread-forwarded-readfrom")
	return req
}
