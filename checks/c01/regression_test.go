package c01

import (
	"encoding/json"
	"fmt"
	"os"
	"testing"

	"verif/internal/ev"
)

// Plain regression tests (no rapid, no fuzz engine) for defects this check has shown on the real tree.

var recReg = ev.New("C01", "regressions", "frozen minimal plans of confirmed defects, run through the same engine and oracles as the generated plans; every case is non-trivial by construction; distinct key = case name")

// TestRegressionSpliceFreshDestAfterPreRead (found in round 6, signature
// C01/splice-panic/c>s/dest-fresh/src-read): a relay holds server conn A, which has not written
// yet, and client conn B. The upstream answers; the relay takes the first chunk of the answer
// through plain Read and keeps it (the reply of a handshake nested in the tunnel, as
// socks5.StreamClient does over an arbitrary inner client), then joins the two conns.
// ShadowStreamClientConn.writeToServerConn saw "source has done its first read" and went straight
// to the chunk re-encryption loop, which seals with the destination's write cipher - nil, because
// the destination's first write (salt + response header) never happened: nil dereference in
// ShadowStreamConn.write, in a real relay the end of the process. The property demands that the
// remaining bytes arrive (exactly one salt + response header on tunnel A, checked by the decoder).
func TestRegressionSpliceFreshDestAfterPreRead(t *testing.T) {
	sig := spliceDir{pair: "c>s", destState: "fresh", srcState: "read"}.panicSig()
	if ev.IsKnown("C01", sig) {
		recReg.KnownHit(sig)
		t.Skip("listed as an open finding: the plan would end the process")
	}
	cls := cfgClass{KeyLen: 16, Segmented: true}
	for _, join := range []int{joinBiCopyLR, joinBiCopyRL, joinReadFrom, joinIOCopy} {
		for _, v := range []struct {
			name    string
			s2c     []int
			preRead int
			preBufs []int
		}{
			{"one-byte-chunks/big-buffer", []int{1, 1}, 1, []int{maxChunk + 16}},
			{"one-byte-chunks/small-buffer", []int{1, 1}, 1, []int{1}},
			{"two-chunks-kept/full-size-chunk-follows", []int{17, 18, maxChunk, 5}, 2, []int{4, 70000}},
			{"everything-kept/nothing-follows", []int{900}, 3, []int{2, 4096}},
		} {
			p := plan{
				Cls: cls, Relay: 1, Cls2: cfgClass{KeyLen: 32, Segmented: true, EIH: 1, User: 1},
				Target:  targetSpec{Kind: "v4", Port: 443, IPSeed: 7},
				Payload: 3, C2S: []int{5}, S2C: v.s2c,
				C2SBufs: []int{4096}, S2CBufs: []int{4096},
				Order: 1, Seed: 20260924,
				Splice: &spliceSpec{Topo: topoChain, Join: join, Down: preludeSpec{PreRead: v.preRead, PreBufs: v.preBufs, Forward: fwdConsume}},
			}
			name := fmt.Sprintf("splice-fresh-dest-after-preread/%s/%s", joinName(join), v.name)
			if _, down := spliceDirs(p); down.String() != "c>s/dest-fresh/src-read" {
				t.Fatalf("harness: %s is classified %s", name, down)
			}
			journal := ""
			if w := os.Getenv("VERIF_WORK"); w != "" {
				// a panic in netio.BidirectionalCopy's own goroutine ends the process: leave the plan behind
				journal = fmt.Sprintf("%s/journal-c01-regression-%d.json", w, os.Getpid())
				js, _ := json.Marshal(p)
				os.WriteFile(journal, js, 0o644)
			}
			o, _ := runPlan(p)
			if journal != "" {
				os.Remove(journal)
			}
			if o != nil {
				js, _ := json.Marshal(p)
				t.Fatalf("SIG=%s %s: %s\nplan=%s", o.sig, name, o.detail, js)
			}
			recReg.Case(name, true, "splice-fresh-dest-after-preread")
		}
	}
}
