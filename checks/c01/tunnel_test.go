package c01

import (
	"bytes"
	"context"
	"encoding/binary"
	"encoding/json"
	"fmt"
	"io"
	"net/netip"
	"os"
	"strings"
	"testing"
	"time"

	"github.com/database64128/shadowsocks-go/conn"
	"github.com/database64128/shadowsocks-go/netio"
	"go.uber.org/zap"
	"pgregory.net/rapid"

	"verif/internal/ev"
	"verif/internal/xnet"
)

func TestMain(m *testing.M) { ev.Main(m) }

type targetSpec struct {
	Kind   string `json:"kind"` // v4 | v4mapped | v6 | domain
	DomLen int    `json:"domLen,omitempty"`
	Port   uint16 `json:"port"`
	IPSeed uint64 `json:"ipSeed"`
}

func (t targetSpec) addr() conn.Addr {
	s := stream(t.IPSeed, 0x33, 16)
	switch t.Kind {
	case "v4":
		return conn.AddrFromIPAndPort(netip.AddrFrom4([4]byte(s[:4])), t.Port)
	case "v4mapped":
		var a [16]byte
		a[10], a[11] = 0xff, 0xff
		copy(a[12:], s[:4])
		return conn.AddrFromIPAndPort(netip.AddrFrom16(a), t.Port)
	case "v6":
		a := [16]byte(s)
		a[0] = 0x20 // keep it a plain global address, not an IPv4-mapped one
		return conn.AddrFromIPAndPort(netip.AddrFrom16(a), t.Port)
	default:
		const alpha = "abcdefghijklmnopqrstuvwxyz0123456789-."
		raw := stream(t.IPSeed, 0x34, t.DomLen)
		d := make([]byte, t.DomLen)
		for i := range d {
			d[i] = alpha[int(raw[i])%len(alpha)]
		}
		return conn.MustAddrFromDomainPort(string(d), t.Port)
	}
}

// wireAddr is the harness's own SOCKS5 encoding of the address the server must observe.
func (t targetSpec) wireAddr() []byte {
	a := t.addr()
	var b []byte
	if a.IsIP() {
		ip := a.IP().Unmap()
		if ip.Is4() {
			b = append(b, 1)
		} else {
			b = append(b, 4)
		}
		b = append(b, ip.AsSlice()...)
	} else {
		b = append(b, 3, byte(len(a.Domain())))
		b = append(b, a.Domain()...)
	}
	return binary.BigEndian.AppendUint16(b, t.Port)
}

type plan struct {
	Cls      cfgClass   `json:"cls"`
	Relay    int        `json:"relay"` // 0 plain; 1 relay joined by netio.BidirectionalCopy; 2 relay joined by explicit ReadFrom
	Cls2     cfgClass   `json:"cls2"`
	Target   targetSpec `json:"target"`
	Payload  int        `json:"payload"`
	C2S      []int      `json:"c2s"`
	S2C      []int      `json:"s2c"`
	C2SBufs  []int      `json:"c2sBufs"`
	S2CBufs  []int      `json:"s2cBufs"`
	WPathC   int        `json:"wPathC"`
	RPathS   int        `json:"rPathS"`
	WPathS   int        `json:"wPathS"`
	RPathC   int        `json:"rPathC"`
	FragC2S  []int      `json:"fragC2S"`
	FragS2C  []int      `json:"fragS2C"`
	Coalesce bool       `json:"coalesce"`
	Order    int        `json:"order"`  // 0: client data first; 1: server speaks first
	Duplex   bool       `json:"duplex"` // the four application-side activities run concurrently
	// EOFWithData: ReadFrom sources return their last chunk together with io.EOF
	EOFWithData bool `json:"eofWithData"`
	// ZeroEvery > 0: ReadFrom sources interleave (0, nil) reads, starting with the very first Read
	ZeroEvery int `json:"zeroEvery,omitempty"`
	// CancelDialCtx: the context passed to DialStream is cancelled right after DialStream returned
	// (callers routinely do `defer cancel()`); the tunnel must keep working
	CancelDialCtx bool   `json:"cancelDialCtx,omitempty"`
	// MixC2S / MixS2C: per-segment write-side operation (see writeMixed); nil = one path for the
	// whole direction as before
	MixC2S []int `json:"mixC2S,omitempty"`
	MixS2C []int `json:"mixS2C,omitempty"`
	// Splice (round 6): the relay is not a bare copy between server conn A and client conn B but
	// runs a pre-splice program per direction and/or joins two conns of the same role; see
	// splice_test.go. nil = the plain relay (or no relay) as before.
	Splice *spliceSpec `json:"splice,omitempty"`
	Seed   uint64      `json:"seed"`
}

const maxChunk = 0xFFFF

func drawCls(rt *rapid.T, name string) cfgClass {
	pfx := func(l string) int {
		switch rapid.IntRange(0, 9).Draw(rt, l) {
		case 0, 1, 2, 3, 4:
			return 0
		case 5, 6, 7, 8:
			return rapid.IntRange(1, 16).Draw(rt, l+"Len")
		}
		return 70000
	}
	return cfgClass{
		KeyLen:     rapid.SampledFrom([]int{16, 32}).Draw(rt, name+"KeyLen"),
		EIH:        rapid.IntRange(0, 3).Draw(rt, name+"EIH"),
		ReqPrefix:  pfx(name + "ReqPrefix"),
		RespPrefix: pfx(name + "RespPrefix"),
		Segmented:  rapid.Bool().Draw(rt, name+"Segmented"),
		User:       rapid.IntRange(0, 2).Draw(rt, name+"User"),
	}
}

func drawTarget(rt *rapid.T) targetSpec {
	t := targetSpec{
		Kind:   rapid.SampledFrom([]string{"v4", "v4mapped", "v6", "domain", "domain"}).Draw(rt, "addrKind"),
		IPSeed: rapid.Uint64().Draw(rt, "addrSeed"),
	}
	if rapid.Bool().Draw(rt, "portBoundary") {
		t.Port = rapid.SampledFrom([]uint16{0, 1, 53, 80, 443, 65535}).Draw(rt, "port")
	} else {
		t.Port = rapid.Uint16().Draw(rt, "port")
	}
	if t.Kind == "domain" {
		if rapid.IntRange(0, 2).Draw(rt, "domBoundary") > 0 {
			t.DomLen = rapid.SampledFrom([]int{1, 2, 63, 64, 253, 254, 255}).Draw(rt, "domLen")
		} else {
			t.DomLen = rapid.IntRange(1, 255).Draw(rt, "domLen")
		}
	}
	return t
}

// boundaryLen draws a length that is either near one of the structural constants or log-uniform.
func boundaryLen(rt *rapid.T, name string, consts []int, maxLen int) (n int, near bool) {
	if rapid.IntRange(0, 9).Draw(rt, name+"Mode") < 7 {
		c := consts[rapid.IntRange(0, len(consts)-1).Draw(rt, name+"Const")]
		d := rapid.IntRange(-3, 3).Draw(rt, name+"Delta")
		n = c + d
		if n < 0 {
			n = 0
		}
		if n > maxLen {
			n = maxLen
		}
		return n, true
	}
	bits := rapid.IntRange(0, 17).Draw(rt, name+"Bits")
	n = rapid.IntRange(0, (1<<bits)-1+1).Draw(rt, name+"Log")
	if n > maxLen {
		n = maxLen
	}
	return n, false
}

func firstWriteCap(c cfgClass) int {
	// generator hint only (where the server's first-write buffer ends); not used by any oracle
	start := c.RespPrefix + c.KeyLen + 11 + c.KeyLen + 16
	writeBufCap := 2 + 16 + maxChunk + 16
	if start+4096+16 > writeBufCap {
		return 4096
	}
	return min(maxChunk, writeBufCap-16-start)
}

func drawPlan(rt *rapid.T) (p plan, nearConst bool) { return drawPlanMode(rt, false) }

// drawPlanMode: with forceSplice every plan goes through a relay with a splice program and the
// long nonce-carry bursts are left out (they are the business of the plain property).
func drawPlanMode(rt *rapid.T, forceSplice bool) (p plan, nearConst bool) {
	p.Cls = drawCls(rt, "a")
	if forceSplice {
		p.Relay = rapid.SampledFrom([]int{1, 2}).Draw(rt, "relay")
	} else {
		p.Relay = rapid.SampledFrom([]int{0, 0, 0, 1, 2}).Draw(rt, "relay")
	}
	if p.Relay != 0 {
		p.Cls2 = drawCls(rt, "b")
	}
	p.Target = drawTarget(rt)
	addrLen := len(p.Target.wireAddr())
	room := maxChunk - addrLen - 2
	var near bool
	p.Payload, near = boundaryLen(rt, "payload", []int{0, 1, 900, room, 65494, 65462, maxChunk, 2 * maxChunk}, 140000)
	nearConst = nearConst || near
	wconsts := []int{0, 1, 17, 18, maxChunk, 2 * maxChunk, firstWriteCap(p.Cls), 4096}
	if p.Relay != 0 {
		wconsts = append(wconsts, firstWriteCap(p.Cls2))
	}
	nw := rapid.IntRange(0, 4).Draw(rt, "nC2S")
	for i := 0; i < nw; i++ {
		n, near := boundaryLen(rt, fmt.Sprintf("c2s%d", i), wconsts, 140000)
		nearConst = nearConst || near && n > 18
		p.C2S = append(p.C2S, n)
	}
	nw = rapid.IntRange(0, 4).Draw(rt, "nS2C")
	for i := 0; i < nw; i++ {
		n, near := boundaryLen(rt, fmt.Sprintf("s2c%d", i), wconsts, 140000)
		nearConst = nearConst || near && n > 18
		p.S2C = append(p.S2C, n)
	}
	// mixed write-side operations on one connection (before the bursts are appended: the bursts keep
	// the direction's plain path)
	if rapid.IntRange(0, 3).Draw(rt, "mix") == 0 {
		mixGen := rapid.SampledFrom([]int{mixWrite, mixReadFrom, mixEmptyThenWrite, mixFailThenWrite, mixEmptyThenRF, mixFailThenRF, mixEmptyThenWrite, mixFailThenWrite})
		if len(p.C2S) > 0 && rapid.Bool().Draw(rt, "mixC") {
			p.MixC2S = rapid.SliceOfN(mixGen, len(p.C2S), len(p.C2S)).Draw(rt, "mixC2S")
		}
		if len(p.S2C) > 0 {
			p.MixS2C = rapid.SliceOfN(mixGen, len(p.S2C), len(p.S2C)).Draw(rt, "mixS2C")
		}
	}
	// long sessions: many tiny writes in one direction so the per-direction nonce counter passes
	// 255 (first carry) and, rarely, 65535 (second carry); two seals per chunk
	burst := rapid.IntRange(0, 63).Draw(rt, "burst")
	if forceSplice {
		burst = 63
	}
	switch burst {
	case 0, 1, 2, 3, 4, 5:
		n := rapid.IntRange(130, 400).Draw(rt, "burstN")
		tiny := make([]int, n)
		for i := range tiny {
			tiny[i] = 1 + i%3
		}
		if rapid.Bool().Draw(rt, "burstDir") {
			p.C2S = append(p.C2S, tiny...)
		} else {
			p.S2C = append(p.S2C, tiny...)
		}
	case 6:
		tiny := make([]int, 33000)
		for i := range tiny {
			tiny[i] = 1
		}
		if rapid.Bool().Draw(rt, "burstDir") {
			p.C2S = append(p.C2S, tiny...)
		} else {
			p.S2C = append(p.S2C, tiny...)
		}
	}
	bufGen := rapid.OneOf(rapid.SampledFrom([]int{1, 2, 17, 18, 4096, maxChunk, maxChunk + 16, 70000}), rapid.IntRange(1, 70000))
	p.C2SBufs = rapid.SliceOfN(bufGen, 1, 4).Draw(rt, "c2sBufs")
	p.S2CBufs = rapid.SliceOfN(bufGen, 1, 4).Draw(rt, "s2cBufs")
	p.WPathC = rapid.IntRange(0, numPath-1).Draw(rt, "wPathC")
	p.RPathS = rapid.IntRange(0, numPath-1).Draw(rt, "rPathS")
	p.WPathS = rapid.IntRange(0, numPath-1).Draw(rt, "wPathS")
	p.RPathC = rapid.IntRange(0, numPath-1).Draw(rt, "rPathC")
	fragGen := rapid.OneOf(rapid.SampledFrom([]int{-1, -1, 1, 2, 17, 18, 19, 34, 35, 1460, maxChunk + 15, maxChunk + 16, maxChunk + 17, maxChunk + 34}), rapid.IntRange(1, 70000))
	p.FragC2S = rapid.SliceOfN(fragGen, 0, 5).Draw(rt, "fragC2S")
	p.FragS2C = rapid.SliceOfN(fragGen, 0, 5).Draw(rt, "fragS2C")
	p.Coalesce = rapid.Bool().Draw(rt, "coalesce")
	p.Order = rapid.IntRange(0, 1).Draw(rt, "order")
	p.Duplex = rapid.IntRange(0, 3).Draw(rt, "duplex") == 0
	p.EOFWithData = rapid.Bool().Draw(rt, "eofWithData")
	if rapid.IntRange(0, 3).Draw(rt, "zeroReads") == 0 {
		p.ZeroEvery = rapid.IntRange(1, 3).Draw(rt, "zeroEvery")
	}
	p.CancelDialCtx = rapid.Bool().Draw(rt, "cancelDialCtx")
	p.Seed = rapid.Uint64().Draw(rt, "seed")
	if p.Relay != 0 && (forceSplice || rapid.Bool().Draw(rt, "splice")) {
		p.Splice = drawSplice(rt, &p)
	}
	return p, nearConst
}

// hangBudget is the watchdog for one plan. It only exists to turn a genuine deadlock into a
// shrinkable failure instead of a test-binary timeout; it scales with the amount of work so that
// a long session on a loaded machine (or under the race detector) is never mistaken for a hang.
func hangBudget(p plan) time.Duration {
	writes := len(p.C2S) + len(p.S2C)
	bytes := p.Payload + sum(p.C2S) + sum(p.S2C)
	if p.Splice != nil {
		bytes += p.Splice.P2 + p.Splice.Up.Greet + p.Splice.Down.Greet
	}
	return 90*time.Second + time.Duration(writes)*20*time.Millisecond + time.Duration(bytes/1024)*10*time.Millisecond
}

func b2i(b bool) int {
	if b {
		return 1
	}
	return 0
}

func sum(s []int) (n int) {
	for _, v := range s {
		n += v
	}
	return
}

type outcome struct {
	sig    string
	detail string
	labels []string
	nt     bool
	key    string
}

func fail(sig, format string, a ...any) *outcome {
	return &outcome{sig: sig, detail: fmt.Sprintf(format, a...)}
}

// dribble reports whether the plan cuts ciphertext inside an 18-byte length chunk
func cutsInsideLengthChunk(frag []int) bool {
	for _, f := range frag {
		if f > 0 && f < 18 {
			return true
		}
	}
	return false
}

func smallBuf(bufs []int) bool {
	for _, b := range bufs {
		if b < maxChunk+16 {
			return true
		}
	}
	return false
}

// runPlan executes one plan against the real client and server and returns nil if the
// property held, or the violation.
func runPlan(p plan) (res *outcome, labels []string) {
	if p.Splice != nil {
		return runSplicePlan(p)
	}
	ctx := context.Background()
	logger := zap.NewNop()
	target := p.Target.addr()
	wireAddr := p.Target.wireAddr()
	room := maxChunk - len(wireAddr) - 2
	P := stream(p.Seed, 1, p.Payload)
	c2s := stream(p.Seed, 2, sum(p.C2S))
	s2c := stream(p.Seed, 3, sum(p.S2C))
	wantUp := append(append([]byte(nil), P...), c2s...)

	hops := []cfgClass{p.Cls}
	if p.Relay != 0 {
		hops = append(hops, p.Cls2)
	}
	eps := make([]*endpoint, len(hops))
	var filterErr error
	for i, cls := range hops {
		ep, err := newEndpoint(cls, p.Seed, byte(i))
		if err != nil {
			return fail("C01/harness-config", "endpoint %d: %v", i, err), nil
		}
		ep.dialer.prep = func(cEnd, sEnd *xnet.Conn) {
			fm := 0
			if !ep.cls.Segmented {
				fm = ep.firstMinServer()
			}
			sEnd.SetReadPlan(p.FragC2S, fm, p.Coalesce)
			fm = 0
			if !ep.cls.Segmented {
				fm = ep.firstMinClient()
			}
			cEnd.SetReadPlan(p.FragS2C, fm, p.Coalesce)
			if ep.cls.EIH >= 2 {
				cEnd.SetWriteFilter(func(idx int, frame []byte) [][]byte {
					if idx != 0 {
						return [][]byte{frame}
					}
					out, err := ep.relayStrip(frame)
					if err != nil {
						filterErr = err
						return nil
					}
					return [][]byte{out}
				})
			}
		}
		eps[i] = ep
	}

	// ---- hop A handshake
	dialCtx, cancelDial := context.WithCancel(ctx)
	defer cancelDial()
	connA, err := eps[0].client.DialStream(dialCtx, target, P)
	if p.CancelDialCtx {
		cancelDial()
	}
	if err != nil {
		return fail("C01/dial-error", "DialStream A: %v", err), nil
	}
	if filterErr != nil {
		return fail("C01/identity-header-chain", "%v", filterErr), nil
	}
	sEndA := <-eps[0].dialer.ends
	reqA, err := eps[0].server.HandleStream(sEndA, logger)
	if err != nil {
		return fail("C01/handshake-rejected", "HandleStream A: %v", err), nil
	}
	checkReq := func(hop string, ep *endpoint, req netio.ConnRequest) *outcome {
		got := req.Addr
		want := target
		if want.IsIP() {
			want = conn.AddrFromIPAndPort(want.IP().Unmap(), want.Port())
		}
		if !got.Equals(want) {
			return fail("C01/target-mismatch", "%s: server saw target %s, client dialed %s", hop, got, target)
		}
		if req.Username != ep.username {
			return fail("C01/username-mismatch", "%s: server saw user %q, want %q", hop, req.Username, ep.username)
		}
		wantLen := min(len(P), room)
		if len(req.Payload) != wantLen {
			return fail("C01/request-payload-length", "%s: request carried %d payload bytes, want min(%d, %d)=%d", hop, len(req.Payload), len(P), room, wantLen)
		}
		if !bytes.Equal(req.Payload, P[:wantLen]) {
			return fail("C01/request-payload-content", "%s: request payload differs: %s", hop, firstDiff(req.Payload, P[:wantLen]))
		}
		return nil
	}
	if o := checkReq("hop A", eps[0], reqA); o != nil {
		return o, nil
	}

	heldReqs := []netio.ConnRequest{reqA}
	var appClient netio.Conn = connA
	var appServer netio.Conn
	var firstPayload []byte
	relayDone := make(chan string, 2)
	relayN := 0

	if p.Relay == 0 {
		firstPayload = bytes.Clone(reqA.Payload)
		appServer, _ = reqA.Proceed()
	} else {
		scA, _ := reqA.Proceed()
		dialCtxB, cancelDialB := context.WithCancel(ctx)
		defer cancelDialB()
		connB, err := eps[1].client.DialStream(dialCtxB, reqA.Addr, reqA.Payload)
		if p.CancelDialCtx {
			cancelDialB()
		}
		if err != nil {
			return fail("C01/dial-error", "DialStream B: %v", err), nil
		}
		if filterErr != nil {
			return fail("C01/identity-header-chain", "%v", filterErr), nil
		}
		switch p.Relay {
		case 1:
			relayN = 1
			go func() {
				_, _, err := netio.BidirectionalCopy(scA, connB)
				if err != nil {
					relayDone <- "BidirectionalCopy: " + err.Error()
				} else {
					relayDone <- ""
				}
			}()
		default:
			relayN = 2
			go func() {
				_, err := connB.(io.ReaderFrom).ReadFrom(scA)
				connB.CloseWrite()
				if err != nil {
					relayDone <- "clientB.ReadFrom(serverA): " + err.Error()
				} else {
					relayDone <- ""
				}
			}()
			go func() {
				_, err := scA.(io.ReaderFrom).ReadFrom(connB)
				scA.CloseWrite()
				if err != nil {
					relayDone <- "serverA.ReadFrom(clientB): " + err.Error()
				} else {
					relayDone <- ""
				}
			}()
		}
		sEndB := <-eps[1].dialer.ends
		reqB, err := eps[1].server.HandleStream(sEndB, logger)
		if err != nil {
			return fail("C01/handshake-rejected", "HandleStream B: %v", err), nil
		}
		if o := checkReq("hop B", eps[1], reqB); o != nil {
			return o, nil
		}
		firstPayload = bytes.Clone(reqB.Payload)
		heldReqs = append(heldReqs, reqB)
		appServer, _ = reqB.Proceed()
	}

	// ---- data phases (sequential on the application side; the transport never blocks writers)
	upW := func() *outcome {
		var err error
		if p.MixC2S != nil {
			err = writeMixed(appClient, c2s, p.C2S, p.MixC2S, p.WPathC, p.EOFWithData)
		} else {
			err = writeAll(appClient, c2s, p.C2S, p.WPathC, p.EOFWithData, p.ZeroEvery)
		}
		if err != nil {
			return fail("C01/client-write-error", "%v", err)
		}
		return nil
	}
	upR := func() *outcome {
		got, err := readAll(appServer, p.C2SBufs, p.RPathS, len(wantUp)+1024)
		got = append(firstPayload, got...)
		if err != nil {
			return fail("C01/server-read-error", "after %d of %d bytes: %v", len(got), len(wantUp), err)
		}
		if !bytes.Equal(got, wantUp) {
			return fail("C01/c2s-stream-mismatch", "client->server: %s", firstDiff(got, wantUp))
		}
		return nil
	}
	downW := func() *outcome {
		var err error
		if p.MixS2C != nil {
			err = writeMixed(appServer, s2c, p.S2C, p.MixS2C, p.WPathS, p.EOFWithData)
		} else {
			err = writeAll(appServer, s2c, p.S2C, p.WPathS, p.EOFWithData, p.ZeroEvery)
		}
		if err != nil {
			return fail("C01/server-write-error", "%v", err)
		}
		return nil
	}
	downR := func() *outcome {
		got, err := readAll(appClient, p.S2CBufs, p.RPathC, len(s2c)+1024)
		if err != nil {
			return fail("C01/client-read-error", "after %d of %d bytes: %v", len(got), len(s2c), err)
		}
		if !bytes.Equal(got, s2c) {
			return fail("C01/s2c-stream-mismatch", "server->client: %s", firstDiff(got, s2c))
		}
		return nil
	}
	var steps []func() *outcome
	if p.Order == 0 {
		steps = []func() *outcome{upW, upR, downW, downR}
	} else {
		steps = []func() *outcome{downW, downR, upW, upR}
	}
	if p.Duplex {
		// full duplex: the four application-side activities run concurrently (the verdict is
		// still a pure function of the plan: contents and EOF positions do not depend on timing)
		res := make(chan *outcome, len(steps))
		for _, st := range steps {
			go func() { res <- st() }()
		}
		var first *outcome
		for range steps {
			if o := <-res; o != nil && first == nil {
				first = o
			}
		}
		if first != nil {
			return first, nil
		}
	} else {
		for _, st := range steps {
			if o := st(); o != nil {
				return o, nil
			}
		}
	}
	// The request the server handed out must still name the client's target after the server
	// connection has been written to (it must not alias a buffer the connection reuses).
	for hop, req := range heldReqs {
		want := target
		if want.IsIP() {
			want = conn.AddrFromIPAndPort(want.IP().Unmap(), want.Port())
		}
		if !req.Addr.Equals(want) {
			return fail("C01/target-changed-after-traffic", "hop %d: request address reads %q after the data phases, client dialed %s", hop, req.Addr.String(), target), nil
		}
	}
	if sum(p.S2C) > 0 {
		labels = append(labels, "addr-rechecked-after-server-write")
	}
	for i := 0; i < relayN; i++ {
		select {
		case msg := <-relayDone:
			if msg != "" {
				return fail("C01/relay-copy-error", "%s", msg), nil
			}
		case <-time.After(20 * time.Second):
			return fail("C01/relay-did-not-finish", "relay copy still running 20s after both directions reached EOF"), nil
		}
	}

	// ---- independent wire decoding of what each hop put on the transport
	multiChunk := false
	for i, ep := range eps {
		frames := ep.dialer.clientEnd.Written()
		if len(frames) == 0 {
			return fail("C01/wire-empty", "hop %d: client wrote nothing", i), nil
		}
		first, err := ep.relayStrip(frames[0])
		if err != nil {
			return fail("C01/identity-header-chain", "hop %d: %v", i, err), nil
		}
		all := append([]byte(nil), first...)
		for _, f := range frames[1:] {
			all = append(all, f...)
		}
		rep, err := decodeRequestStream(all, ep.upsk, ep.cls.ReqPrefix, min(ep.cls.EIH, 1), len(wireAddr))
		if err != nil {
			return fail("C01/wire-request-undecodable", "hop %d: %v", i, err), nil
		}
		if !bytes.Equal(rep.AddrBytes, wireAddr) {
			return fail("C01/wire-address", "hop %d: address bytes on the wire differ from the SOCKS5 encoding of the target", i), nil
		}
		if !bytes.Equal(rep.Plain, wantUp) {
			return fail("C01/wire-c2s-plaintext", "hop %d: decrypted request stream: %s", i, firstDiff(rep.Plain, wantUp)), nil
		}
		if rep.InitialLen != min(len(P), room) {
			return fail("C01/wire-initial-payload", "hop %d: %d payload bytes inside the request, want %d", i, rep.InitialLen, min(len(P), room)), nil
		}
		if rep.PaddingLen > 900 || rep.PaddingLen+rep.InitialLen == 0 {
			return fail("C01/wire-padding", "hop %d: padding %d with %d payload bytes", i, rep.PaddingLen, rep.InitialLen), nil
		}
		for _, c := range rep.Chunks {
			if c == 0 || c > maxChunk {
				return fail("C01/wire-chunk-size", "hop %d: chunk of %d bytes", i, c), nil
			}
		}
		if len(rep.Chunks) > 1 {
			multiChunk = true
		}
		// response direction
		sframes := serverEndWritten(ep)
		var sall []byte
		for _, f := range sframes {
			sall = append(sall, f...)
		}
		if len(s2c) == 0 {
			if len(sall) != 0 {
				return fail("C01/wire-response-nonempty", "hop %d: server wrote %d bytes although the application wrote none", i, len(sall)), nil
			}
			continue
		}
		reqSalt := all[ep.cls.ReqPrefix : ep.cls.ReqPrefix+ep.cls.KeyLen]
		rrep, err := decodeResponseStream(sall, ep.upsk, ep.cls.RespPrefix, reqSalt)
		if err != nil {
			return fail("C01/wire-response-undecodable", "hop %d: %v", i, err), nil
		}
		if !bytes.Equal(rrep.Plain, s2c) {
			return fail("C01/wire-s2c-plaintext", "hop %d: decrypted response stream: %s", i, firstDiff(rrep.Plain, s2c)), nil
		}
		for _, c := range rrep.Chunks {
			if c == 0 || c > maxChunk {
				return fail("C01/wire-chunk-size", "hop %d: response chunk of %d bytes", i, c), nil
			}
		}
		if len(rrep.Chunks) > 1 {
			multiChunk = true
		}
	}
	if multiChunk {
		labels = append(labels, "multi-chunk")
	}
	return nil, labels
}

// serverEndWritten returns the frames the server side of a hop wrote. The server end is the
// peer of clientEnd; xnet records per writer, so fetch it through the dialer's pair.
func serverEndWritten(ep *endpoint) [][]byte { return ep.dialer.serverEnd().Written() }

var rec = ev.New("C01", "tunnel-ledger",
	"rapid plans: {aes-128,aes-256} x {0..3 identity headers, outer ones stripped by a harness relay using the server-side primitive} x request/response prefix {none, 1-16 B, 70000 B} x segmented-header {allowed, not} "+
		"x target {IPv4, IPv4-mapped, IPv6, domain of boundary/random length, boundary/random port} x initial payload length (boundary table: 0,1,900,65535-addrLen-2,65494,65462,65535,131070 each +-3; else log-uniform <=140000) "+
		"x 0-4 writes per direction (boundary table incl. first-write capacity) x read-buffer size cycle {1,2,17,18,4096,65535,65551,70000,random} x copy path per side {Write/Read, ReadFrom(source)/WriteTo(sink)}, in a quarter of the plans a per-segment mix of Write, ReadFrom, and ReadFrom from an empty or failing source followed by data "+
		"x transport fragmentation cycle per direction (1,2,17,18,19,34,35,1460,chunk+tag+-1,random, unlimited; coalescing on/off) x order {client data first, server speaks first} "+
		"x topology {client<->server, relay chain clientA->serverA<=>clientB->serverB joined by netio.BidirectionalCopy or explicit ReadFrom; for half of the relay plans the relay runs a pre-splice program per direction (greeting into the destination, pre-read of whole chunks from the source, consumed or forwarded) and joins server<=>client, server<=>server or client<=>client conns by BidirectionalCopy / ReadFrom / io.Copy, see splice-ledger}. "+
		"Oracle: byte ledger (Payload++reads == P++writes both ways, EOF only at the end), server-observed target/user/in-request payload length, and an independent decoder of the recorded ciphertext (own BLAKE3 subkey + AES-GCM + nonce counter) "+
		"checking address bytes, initial-payload split, padding bound, chunk sizes 1..65535 and plaintext equality. "+
		"Non-trivial: bytes>0 both ways AND (a length within +-3 of a structural constant, or a read buffer smaller than a chunk, or a fragment boundary inside a length chunk, or relay topology). "+
		"Distinct key: config class + topology + paths + order + boundary classes of payload/write lengths").
	Require("relay", "eih>=2", "prefix>64KiB", "payload-over-room", "leftover-read", "frag-inside-length-chunk", "path-readfrom", "path-writeto", "server-first", "duplex", "readfrom-source-zero-length-reads", "dial-context-cancelled-after-dial", "dial-context-cancelled-after-excess-payload-write", "nonce-first-carry(>255 seals)", "nonce-second-carry(>65535 seals)", "readfrom-source-eof-with-data", "addr-rechecked-after-server-write", "multi-chunk", "not-segmented", "domain>=254",
		"mixed-write-side-operations", "server-first-op-is-empty-readfrom-then-data", "server-first-op-is-failing-readfrom-then-data", "client-first-op-is-dataless-readfrom-then-data",
		"relay-acts-before-splice", "relay-joins-same-role-conns")

// compactPlan shortens very long write lists for the evidence samples.
func compactPlan(p plan) map[string]any {
	b, _ := json.Marshal(p)
	var m map[string]any
	json.Unmarshal(b, &m)
	for _, k := range []string{"c2s", "s2c"} {
		if l, ok := m[k].([]any); ok && len(l) > 12 {
			m[k] = append(append([]any{}, l[:12]...), fmt.Sprintf("... %d writes in total", len(l)))
		}
	}
	return m
}

func lenClass(n int) string {
	switch {
	case n == 0:
		return "0"
	case n < 900:
		return "<900"
	case n < 4096:
		return "<4k"
	case n < 65400:
		return "<64k"
	case n <= maxChunk+3:
		return "~64k"
	case n < 2*maxChunk-3:
		return "<128k"
	}
	return ">=128k"
}

func planKey(p plan) string {
	var sb strings.Builder
	fmt.Fprintf(&sb, "%s|r%d", p.Cls.key(), p.Relay)
	if p.Relay != 0 {
		sb.WriteString("|" + p.Cls2.key())
	}
	if p.Splice != nil {
		up, down := spliceDirs(p)
		fmt.Fprintf(&sb, "|splice:t%d/%s/%s/%s/P%s", p.Splice.Topo, joinName(p.Splice.Join), up, down, lenClass(p.Splice.P2))
	}
	fmt.Fprintf(&sb, "|%s%d|P%s|w%d%d%d%d|o%d|c%v|", p.Target.Kind, p.Target.DomLen/64, lenClass(p.Payload), p.WPathC, p.RPathS, p.WPathS, p.RPathC, p.Order*2+b2i(p.Duplex), p.Coalesce)
	for i, w := range p.C2S {
		if i >= 6 {
			fmt.Fprintf(&sb, "+%d", len(p.C2S)-6)
			break
		}
		sb.WriteString(lenClass(w) + ",")
	}
	sb.WriteByte('/')
	for i, w := range p.S2C {
		if i >= 6 {
			fmt.Fprintf(&sb, "+%d", len(p.S2C)-6)
			break
		}
		sb.WriteString(lenClass(w) + ",")
	}
	return sb.String()
}

func classify(p plan, near bool, extra []string) (labels []string, nt bool) {
	labels = append(labels, extra...)
	room := maxChunk - len(p.Target.wireAddr()) - 2
	add := func(c bool, l string) {
		if c {
			labels = append(labels, l)
		}
	}
	add(p.Relay != 0, "relay")
	if p.Splice != nil {
		s := p.Splice.normalised(p)
		add(s.Up.Greet > 0 || s.Down.Greet > 0 || s.Up.PreRead > 0 || s.Down.PreRead > 0, "relay-acts-before-splice")
		add(s.Topo != topoChain, "relay-joins-same-role-conns")
	}
	add(p.Cls.EIH >= 2 || (p.Relay != 0 && p.Cls2.EIH >= 2), "eih>=2")
	add(p.Cls.ReqPrefix > 65536 || p.Cls.RespPrefix > 65536, "prefix>64KiB")
	add(p.Payload > room, "payload-over-room")
	add(p.Payload > 0 && p.Payload < 900, "payload<900")
	add(p.Payload == 0, "payload-0")
	left := (p.RPathS == pathRW && smallBuf(p.C2SBufs)) || (p.RPathC == pathRW && smallBuf(p.S2CBufs))
	add(left, "leftover-read")
	cut := cutsInsideLengthChunk(p.FragC2S) || cutsInsideLengthChunk(p.FragS2C)
	add(cut, "frag-inside-length-chunk")
	add(p.WPathC == pathRF || p.WPathS == pathRF, "path-readfrom")
	add(p.RPathC == pathRF || p.RPathS == pathRF, "path-writeto")
	add(p.Order == 1, "server-first")
	add(p.Duplex, "duplex")
	add(p.ZeroEvery > 0 && (p.WPathC == pathRF || p.WPathS == pathRF), "readfrom-source-zero-length-reads")
	add(p.CancelDialCtx, "dial-context-cancelled-after-dial")
	add(p.CancelDialCtx && p.Payload > maxChunk-len(p.Target.wireAddr())-2, "dial-context-cancelled-after-excess-payload-write")
	add(len(p.C2S) >= 130 || len(p.S2C) >= 130, "nonce-first-carry(>255 seals)")
	add(len(p.C2S) >= 33000 || len(p.S2C) >= 33000, "nonce-second-carry(>65535 seals)")
	add(p.EOFWithData && (p.WPathC == pathRF && sum(p.C2S) > 0 || p.WPathS == pathRF && sum(p.S2C) > 0), "readfrom-source-eof-with-data")
	add(!p.Cls.Segmented, "not-segmented")
	mixFirst := func(sizes, modes []int, want ...int) bool {
		// the first write-side operation of the direction is an empty / failing ReadFrom and data follows
		if len(modes) == 0 || sum(sizes) == 0 {
			return false
		}
		for _, w := range want {
			if modes[0] == w {
				return true
			}
		}
		return false
	}
	add(p.MixC2S != nil || p.MixS2C != nil, "mixed-write-side-operations")
	add(mixFirst(p.S2C, p.MixS2C, mixEmptyThenWrite, mixEmptyThenRF), "server-first-op-is-empty-readfrom-then-data")
	add(mixFirst(p.S2C, p.MixS2C, mixFailThenWrite, mixFailThenRF), "server-first-op-is-failing-readfrom-then-data")
	add(mixFirst(p.C2S, p.MixC2S, mixEmptyThenWrite, mixEmptyThenRF, mixFailThenWrite, mixFailThenRF), "client-first-op-is-dataless-readfrom-then-data")
	add(p.Target.Kind == "domain" && p.Target.DomLen >= 254, "domain>=254")
	add(p.Target.Kind == "v4mapped", "v4mapped")
	add(near, "near-constant")
	first := 0
	for _, w := range p.S2C {
		if w > 0 {
			first = w
			break
		}
	}
	add(first > firstWriteCap(p.Cls), "first-write>capacity")
	both := p.Payload+sum(p.C2S) > 0 && sum(p.S2C) > 0
	if p.Splice != nil && p.Splice.Topo == topoClients {
		// the relay dialed both tunnels: the applications' own bytes are the writes only
		both = sum(p.C2S) > 0 && sum(p.S2C) > 0
	}
	nt = both && (near || left || cut || p.Relay != 0)
	return
}

func TestTunnelLedger(t *testing.T) { rapid.Check(t, tunnelProp) }

// TestSpliceLedger: the same property with every plan going through a relay that acts on its two
// tunnel conns before splicing them, or splices two conns of the same role (round 6).
func TestSpliceLedger(t *testing.T) {
	rapid.Check(t, func(rt *rapid.T) { ledgerProp(rt, true, recSplice) })
}

// FuzzTunnel drives the same property with Go's coverage-guided fuzzer (thorough tier).
func FuzzTunnel(f *testing.F) { f.Fuzz(rapid.MakeFuzz(tunnelProp)) }

func tunnelProp(rt *rapid.T) { ledgerProp(rt, false, rec) }

func ledgerProp(rt *rapid.T, forceSplice bool, rec *ev.Recorder) {
	{
		p, near := drawPlanMode(rt, forceSplice)
		if _, excl := spliceKnownExcluded(p); excl {
			// would only re-trigger a listed finding whose symptom can end the process
			rec.Excluded(1)
			return
		}
		type result struct {
			o      *outcome
			labels []string
		}
		done := make(chan result, 1)
		journal := ""
		if w := os.Getenv("VERIF_WORK"); w != "" {
			journal = fmt.Sprintf("%s/journal-c01-%d.json", w, os.Getpid())
			js, _ := json.Marshal(p)
			os.WriteFile(journal, js, 0o644)
		}
		go func() {
			o, l := runPlan(p)
			done <- result{o, l}
		}()
		var r result
		select {
		case r = <-done:
		case <-time.After(hangBudget(p)):
			r.o = fail("C01/hang", "plan did not complete within %s", hangBudget(p))
		}
		if journal != "" {
			os.Remove(journal)
		}
		if r.o != nil {
			if ev.IsKnown("C01", r.o.sig) {
				rec.KnownHit(r.o.sig)
				return
			}
			js, _ := json.Marshal(p)
			rt.Fatalf("SIG=%s %s\nplan=%s", r.o.sig, r.o.detail, js)
		}
		labels, nt := classify(p, near, r.labels)
		rec.Case(planKey(p), nt, labels...)
		if nt {
			rec.Sample(compactPlan(p))
		}
	}
}

// TestReplayPlan re-runs a JSON plan (VERIF_REPLAY) outside rapid.
func TestReplayPlan(t *testing.T) {
	path := os.Getenv("VERIF_REPLAY")
	if path == "" {
		t.Skip("VERIF_REPLAY not set")
	}
	b, err := os.ReadFile(path)
	if err != nil {
		t.Fatal(err)
	}
	var p plan
	if err := json.Unmarshal(b, &p); err != nil {
		t.Fatal(err)
	}
	if o, _ := runPlan(p); o != nil {
		t.Fatalf("SIG=%s %s", o.sig, o.detail)
	}
}
