package c03

import (
	"encoding/json"
	"fmt"
	"os"
	"path/filepath"
	"sort"
	"strconv"
	"strings"
	"sync"
	"testing"
	"testing/synctest"
	"time"

	"github.com/database64128/shadowsocks-go/conn"
	"github.com/database64128/shadowsocks-go/cred"
	"go.uber.org/zap"
	"pgregory.net/rapid"

	"verif/internal/ev"
	"verif/internal/sstcp"
	"verif/internal/xnet"
)

// Signatures of what can fail.
const (
	sigReplay           = "C03/replay-accepted-within-validity" // same salt accepted twice, 60 s or more after the first acceptance (timestamp outlived the salt retention)
	sigReplayEarly      = "C03/replay-accepted-within-60s"      // same, less than 60 s after the first acceptance
	sigOutside          = "C03/accepted-outside-window"         // accepted although ts-floor(now) is not in (-30, 30]
	sigRefused          = "C03/fresh-request-refused"           // never-accepted, in-window genuine request refused
	sigExtremeTS        = "C03/extreme-timestamp-accepted"      // a request whose timestamp is astronomically far from the server clock accepted
	sigForged           = "C03/unauthenticated-accepted"        // garbage / forged / foreign-key request accepted
	sigConcDup          = "C03/concurrent-duplicates-accepted"  // k concurrent copies: more than one success
	sigConcNone         = "C03/fresh-request-refused-concurrent"
	sigWrongReq         = "C03/accepted-with-wrong-target"
	sigStallDup         = "C03/stalled-duplicate-accepted"                   // same bytes accepted twice where at least one of the two presentations arrived in parts (stalled)
	sigStallRefused     = "C03/stalled-request-refused"                      // a presentation that arrived in parts, valid when its fixed-length header arrived and first of its bytes, refused
	sigStallRefusedLate = "C03/stalled-request-refused-after-validity-ended" // same, and its last byte arrived when the timestamp would no longer have passed
	sigIncomplete       = "C03/incomplete-request-accepted"                  // accepted although some of its bytes never arrived
	sigHarness          = "C03/harness"                                      // the harness itself could not build the case (never a property verdict)
	window              = 30                                                 // seconds, from the property text
	baseServerAdv       = 40 * time.Second
)

// ---- plan ------------------------------------------------------------------------------------

const (
	stAdv       = iota // advance the server clock by D
	stPresent          // present request Req once
	stForge            // present an unauthenticated variant derived from request Req
	stConc             // present K copies of request Req concurrently
	stOpen             // open connection Conn for request Req: HandleStream starts on a transport that is still empty
	stDeliver          // the bytes of its request arrive on the idle connection Conn; wait for the verdict
	stCred             // a credential-store operation (managed servers only), see credOps
	stPart             // the next part of its request arrives on the idle connection Conn: everything up to the cut (class Pos, variation K), no EOF
	stAbort            // the client of the idle connection Conn goes away: EOF without the bytes that are still missing
	stFinishAll        // the missing bytes of the idle connections Conns arrive at once (no waiting in between); wait for all verdicts
)

const (
	fgGarbage    = iota // random bytes of the same length
	fgFlipFixed         // one bit flipped in the sealed fixed-length header (ciphertext or tag)
	fgFlipEIH           // one bit flipped in the identity header (or in the tag when there is none)
	fgSaltRandom        // genuine salt followed by random bytes
	fgTruncated         // genuine bytes cut before the fixed-length header is complete
	fgFlipPrefix        // one bit flipped in the stream prefix (or the header type/timestamp ciphertext when there is none)
	fgForeignKey        // a request made by a client holding a different key (Req must be a foreign spec)
	fgRestamp           // made by a key holder: same salt, fixed header re-sealed with an absurd timestamp (tsPatterns[Pos])
	fgKinds
)

// credential-store operations of a server whose users are managed by cred.Manager (the user under test is
// never touched; the store file always contains it)
const (
	crEditReloadAll = iota // rewrite the store file with a different set of other users, then Manager.ReloadAll
	crEditLoad             // same, then ManagedServer.LoadFromFile
	crAdd                  // AddCredential of a new user
	crDelete               // DeleteCredential of another user
	crUpdate               // UpdateCredential (new uPSK) of another user
	crReloadSame           // ReloadAll with unchanged file content
	crOps
)

var crNames = [...]string{"edit+ReloadAll", "edit+LoadFromFile", "AddCredential", "DeleteCredential", "UpdateCredential", "ReloadAll(unchanged)"}

type reqSpec struct {
	At      time.Duration `json:"at"`      // client-clock instant (since the bubble epoch) at which the real client builds it
	Foreign bool          `json:"foreign"` // built under keys the server does not hold; only ever presented as forged traffic
}

type step struct {
	Kind  int           `json:"kind"`
	D     time.Duration `json:"d,omitempty"`
	Req   int           `json:"req,omitempty"`
	Forge int           `json:"forge,omitempty"`
	Pos   int           `json:"pos,omitempty"`
	K     int           `json:"k,omitempty"`
	Conn  int           `json:"conn,omitempty"`
	Conns []int         `json:"conns,omitempty"`
}

type plan struct {
	Class   sstcp.Class   `json:"class"`
	Seed    uint64        `json:"seed"`
	Dribble bool          `json:"dribble"`
	Managed bool          `json:"managed"` // identity-header classes: users come from a store file through cred.Manager
	Start   time.Duration `json:"start"`   // server clock at the first step
	Reqs    []reqSpec     `json:"reqs"`
	Steps   []step        `json:"steps"`
}

// stepsString renders only the steps.
func (p plan) stepsString() string {
	s := p.String()
	if i := strings.LastIndex(s, ";"); i >= 0 {
		return strings.TrimSpace(s[i+1:])
	}
	return s
}

func (p plan) String() string {
	var sb strings.Builder
	fmt.Fprintf(&sb, "class=%v seed=%d dribble=%v managed=%v serverStart=%v;", p.Class, p.Seed, p.Dribble, p.Managed, p.Start)
	for i, r := range p.Reqs {
		if len(p.Reqs) > 60 && i >= 8 && i < len(p.Reqs)-24 {
			if i == 8 {
				fmt.Fprintf(&sb, " ...(%d requests)...", len(p.Reqs)-32)
			}
			continue
		}
		fmt.Fprintf(&sb, " r%d@client=%v", i, r.At)
		if r.Foreign {
			sb.WriteString("(foreign key)")
		}
	}
	sb.WriteString(";")
	for i, s := range p.Steps {
		if len(p.Steps) > 90 && i >= 10 && i < len(p.Steps)-40 {
			if i == 10 {
				fmt.Fprintf(&sb, " ...(%d steps)...", len(p.Steps)-50)
			}
			continue
		}
		switch s.Kind {
		case stCred:
			fmt.Fprintf(&sb, " cred(%s)", crNames[s.K%crOps])
		case stAdv:
			fmt.Fprintf(&sb, " +%v", s.D)
		case stPresent:
			fmt.Fprintf(&sb, " present(r%d)", s.Req)
		case stForge:
			if s.Forge == fgRestamp {
				fmt.Fprintf(&sb, " extreme-ts(r%d,%s)", s.Req, tsPatterns[s.Pos%len(tsPatterns)].name)
			} else {
				fmt.Fprintf(&sb, " forge(r%d,kind=%d,pos=%d)", s.Req, s.Forge, s.Pos)
			}
		case stConc:
			fmt.Fprintf(&sb, " concurrent(r%d x%d)", s.Req, s.K)
		case stOpen:
			fmt.Fprintf(&sb, " open(conn%d for r%d, no bytes yet)", s.Conn, s.Req)
		case stDeliver:
			fmt.Fprintf(&sb, " deliver(conn%d)", s.Conn)
		case stPart:
			fmt.Fprintf(&sb, " part(conn%d,up to %s)", s.Conn, cutName(s.Pos, s.K))
		case stAbort:
			fmt.Fprintf(&sb, " abort(conn%d)", s.Conn)
		case stFinishAll:
			fmt.Fprintf(&sb, " deliver-at-once(conns %v)", s.Conns)
		}
	}
	return sb.String()
}

// ---- reference model -------------------------------------------------------------------------

// The bubble epoch (2000-01-01T00:00:00Z) is a whole second, so floor(unix time) of an instant
// d after the epoch is epoch + floor(d / 1s); only differences matter.
func sec(d time.Duration) int64 { return int64(d / time.Second) }

// validAt: the documented acceptance condition on whole seconds, -30 < ts - floor(now) <= 30 with
// ts = floor(client instant) (ss2022/header.go ValidateUnixEpochTimestamp, docs/FIXES.md adaf1bd): within 30
// seconds as the property says, and a timestamp exactly 30 whole seconds old already counts as expired, so
// that in real time a request validates during [ts-30s, ts+30s), never longer than salts are remembered.
func validAt(clientAt, now time.Duration) bool {
	diff := sec(clientAt) - sec(now)
	return diff > -window && diff <= window
}

// ---- execution -------------------------------------------------------------------------------

type presentation struct {
	at       time.Duration
	valid    bool
	accepted bool
}

type outcome struct {
	violation string // first violation ("" = none); starts with SIG=
	known     int    // number of reproductions of the listed finding
	labels    map[string]bool
	nontriv   bool
	key       string
}

var nop = zap.NewNop()

func (p plan) target(i int) conn.Addr { return sstcp.Target(i, p.Seed+uint64(i)*977) }

// execute builds the requests on the client clock (bubble A) and presents them on the server
// clock (bubble B) as the plan says, judging every presentation against the reference model.
// It never fails the test itself.
func executeUnbounded(t *testing.T, p plan) (out outcome) {
	out.labels = map[string]bool{}
	w, err := sstcp.NewWorld(p.Class, p.Seed, p.Seed^0xA5A5)
	if err != nil {
		out.violation = "SIG=" + sigHarness + " world: " + err.Error()
		return
	}
	foreign, err := sstcp.NewWorld(p.Class, p.Seed, p.Seed^0x5A5A5A)
	if err != nil {
		out.violation = "SIG=" + sigHarness + " world: " + err.Error()
		return
	}

	// Bubble A: the client clock. Requests are built in order of their client instants.
	wire := make([][]byte, len(p.Reqs))
	var buildErr string
	order := make([]int, len(p.Reqs))
	for i := range order {
		order[i] = i
	}
	sort.SliceStable(order, func(a, b int) bool { return p.Reqs[order[a]].At < p.Reqs[order[b]].At })
	synctest.Test(t, func(*testing.T) {
		var cur time.Duration
		for _, i := range order {
			if d := p.Reqs[i].At - cur; d > 0 {
				time.Sleep(d)
				cur = p.Reqs[i].At
			}
			world := w
			if p.Reqs[i].Foreign {
				world = foreign
			}
			payload := sstcp.Bytes(int((p.Seed+uint64(i))%48), p.Seed+uint64(i))
			_, link, err := world.Dial(p.target(i), payload)
			if err != nil {
				buildErr = fmt.Sprintf("dial r%d: %v", i, err)
				return
			}
			stream, ok := world.Relay(sstcp.Join(link.C.Written()))
			if !ok {
				buildErr = fmt.Sprintf("relay refused genuine r%d", i)
				return
			}
			wire[i] = stream
		}
	})
	if buildErr != "" {
		out.violation = "SIG=" + sigHarness + " " + buildErr
		return
	}

	fixedEnd := w.ServerFixedEnd()
	pfx := len(w.ReqPrefix)
	saltLen := p.Class.KeyLen
	eihLen := 0
	if p.Class.NIPSK > 0 {
		eihLen = sstcp.IdentityLen
	}

	restamped := map[[2]int][]byte{} // (request, pattern) -> bytes, so that a later step presents the very same bytes
	restampedOn := map[int]bool{}
	forge := func(s step, now time.Duration) []byte {
		g := wire[s.Req]
		if s.Forge == fgRestamp {
			k := [2]int{s.Req, s.Pos % len(tsPatterns)}
			if b, ok := restamped[k]; ok {
				return b
			}
			b, err := restamp(w, g, tsPatterns[k[1]].ts(uint64(bubbleEpochUnix+sec(now))))
			if err != nil {
				b = nil
			}
			restamped[k] = b
			return b
		}
		b := append([]byte(nil), g...)
		pos := s.Pos
		if pos < 0 {
			pos = -pos
		}
		flip := func(lo, hi int) {
			i := lo + pos%(hi-lo)
			b[i] ^= 1 << (uint(pos/7) % 8)
		}
		switch s.Forge {
		case fgGarbage:
			sstcp.Fill(b, p.Seed^uint64(pos)^0x77)
		case fgFlipFixed:
			flip(pfx+saltLen+eihLen, fixedEnd)
		case fgFlipEIH:
			if eihLen > 0 {
				flip(pfx+saltLen, pfx+saltLen+eihLen)
			} else {
				flip(fixedEnd-sstcp.TagSize, fixedEnd)
			}
		case fgSaltRandom:
			sstcp.Fill(b[pfx+saltLen:], p.Seed^uint64(pos)^0x99)
		case fgTruncated:
			b = b[:1+pos%(fixedEnd-1)]
		case fgFlipPrefix:
			if pfx > 0 {
				flip(0, pfx)
			} else {
				flip(pfx+saltLen+eihLen, pfx+saltLen+eihLen+sstcp.FixedReqLen)
			}
		case fgForeignKey:
			// wire[s.Req] already is a foreign-key request
		}
		return b
	}

	accepted := map[int]time.Duration{} // model: request -> instant it was accepted
	forgedOn := map[int]bool{}          // forged traffic derived from this request was presented
	refusedInvalid := map[int]bool{}    // request was presented while its timestamp did not validate
	pres := map[int][]presentation{}    // per request
	var acceptLog []time.Duration       // instants of all accepted presentations
	acceptWho := []int{}
	var keyParts []string

	violate := func(sig, format string, a ...any) {
		if out.violation == "" {
			out.violation = "SIG=" + sig + " " + fmt.Sprintf(format, a...) + " | history: " + p.String()
		}
	}

	// managed servers: the users live in a store file that a cred.Manager loads into the server's CredStore
	var storePath string
	if p.Managed && p.Class.NIPSK > 0 {
		dir, err := os.MkdirTemp(os.Getenv("VERIF_WORK"), "c03-cred-")
		if err != nil {
			out.violation = "SIG=" + sigHarness + " temp dir: " + err.Error()
			return
		}
		defer os.RemoveAll(dir)
		storePath = filepath.Join(dir, "upsks.json")
	}
	writeStore := func(gen int) error {
		m := map[string][]byte{w.UserName: w.UPSK, "bob": sstcp.Bytes(p.Class.KeyLen, p.Seed^0xB0B)}
		for i := 0; i < gen%4; i++ {
			m[fmt.Sprintf("extra-%d-%d", gen, i)] = sstcp.Bytes(p.Class.KeyLen, p.Seed^uint64(gen*16+i)^0xE7)
		}
		b, err := json.MarshalIndent(m, "", strings.Repeat(" ", 1+gen%3))
		if err != nil {
			return err
		}
		return os.WriteFile(storePath, b, 0o644)
	}
	credChanged := map[int]bool{} // request accepted, then a credential operation happened

	// Bubble B: the server clock.
	synctest.Test(t, func(*testing.T) {
		server := w.NewServer()
		var ms *cred.ManagedServer
		var mgr *cred.Manager
		storeGen := 0
		if storePath != "" {
			err := writeStore(storeGen)
			if err == nil {
				mgr = cred.NewManager(nop)
				ms, err = mgr.RegisterServer("s", storePath, p.Class.KeyLen, &server.CredStore, nil)
			}
			if err != nil {
				out.violation = "SIG=" + sigHarness + " credential manager: " + err.Error()
				return
			}
			out.labels["managed-server"] = true
		}
		time.Sleep(p.Start)
		now := p.Start

		newConn := func() *xnet.Conn {
			_, c := xnet.Pair()
			switch {
			case !p.Class.Segmented:
				c.SetReadPlan(nil, fixedEnd, false)
			case p.Dribble:
				c.SetReadPlan([]int{1, 2, 5}, 0, false)
			}
			return c
		}
		handle := func(c *xnet.Conn, want conn.Addr) (ok, wrong bool) {
			req, err := server.HandleStream(c, nop)
			if err != nil || req.Addr.Equals(sstcp.FallbackAddr) {
				return false, false
			}
			return true, !req.Addr.Equals(want)
		}
		present := func(b []byte, want conn.Addr) (ok, wrong bool) {
			c := newConn()
			c.Inject(b)
			c.EndInput()
			return handle(c, want)
		}

		// idle connections: HandleStream is already running (blocked in a read) while the clock moves. The bytes of the
		// request arrive later: all at once (stDeliver right after stOpen) or in parts (stPart ... stDeliver), possibly never
		// completely (stAbort, or the end of the case).
		type idleConn struct {
			id       int
			req      int
			c        *xnet.Conn
			openedAt time.Duration
			done     chan [2]bool
			finished bool // HandleStream has returned (its verdict has been judged)
			// stalled presentations
			sent       int           // bytes of the request delivered so far
			parts      int           // partial deliveries so far
			partSeq    int           // order of the first partial delivery among all connections
			planDone   bool          // the plan has delivered the rest / given up (whatever the server did before that)
			judgedPart bool          // ... with a part (not with the final delivery)
			judged     bool          // the fixed-length header has arrived, at judgedAt: the instant the timestamp is judged
			judgedAt   time.Duration //
			valid      bool          // timestamp valid at judgedAt
			demand     bool          // valid, and at judgedAt the same bytes had neither been accepted nor had their header judged valid on another connection
			copyDuring bool          // a complete copy of the same bytes was presented while this one was stalled after its fixed-length header
		}
		idle := map[int]*idleConn{}
		var idleOrder []*idleConn
		defer func() {
			// no goroutine may outlive the case (and the bubble must not end with blocked goroutines)
			for _, ic := range idleOrder {
				if !ic.finished {
					ic.c.EndInput()
					<-ic.done
				}
			}
		}()
		touched := map[int]bool{}    // some presentation of these bytes had its fixed-length header arrive while the timestamp was valid: the salt is spoken for
		accStalled := map[int]bool{} // the accepted presentation of these bytes arrived in parts
		abandoned := false           // a stalled presentation whose fixed-length header had been judged valid was given up
		partSeq := 0
		stalledOpen := func(r int) (n int) { // stalled presentations (of request r, or of any request if r < 0) the plan has not completed yet
			for _, ic := range idleOrder {
				if ic.parts > 0 && !ic.planDone && (r < 0 || ic.req == r) {
					n++
				}
			}
			return
		}
		// judge: the bytes delivered on ic now cover the fixed-length header - the reference rule judges the timestamp at this instant
		judge := func(ic *idleConn) {
			ic.judged, ic.judgedAt = true, now
			ic.valid = validAt(p.Reqs[ic.req].At, now)
			_, was := accepted[ic.req]
			ic.demand = ic.valid && !was && !touched[ic.req]
			if ic.valid {
				touched[ic.req] = true
			}
		}
		// member: one presentation of a request whose verdict is in; several members = they completed together
		type member struct {
			ic            *idleConn     // nil: the bytes arrived all at once on a fresh connection
			jat           time.Duration // instant its fixed-length header arrived
			valid, demand bool
			ok, wrong     bool
		}
		atOnce := func(r int) member {
			_, was := accepted[r]
			v := validAt(p.Reqs[r].At, now)
			return member{jat: now, valid: v, demand: v && !was && !touched[r]}
		}
		ofConn := func(ic *idleConn, res [2]bool) member {
			return member{ic: ic, jat: ic.judgedAt, valid: ic.valid, demand: ic.demand, ok: res[0], wrong: res[1]}
		}
		// conclude judges the verdicts of presentations of request r that completed at this instant against the reference model.
		conclude := func(si, r int, ms []member) {
			k := len(ms)
			acceptedAt, was := accepted[r]
			succ, anyValid, anyDemand, demandStalled := 0, false, false, false
			stalledCase := accStalled[r]
			var winner *member
			cls := "n"
			for i := range ms {
				m := &ms[i]
				if m.ok {
					succ++
					if winner == nil {
						winner = m
					}
				}
				if m.wrong {
					violate(sigWrongReq, "step %d: r%d accepted but the request does not carry its target", si, r)
				}
				if m.valid {
					touched[r] = true
					anyValid = true
				}
				stalled := m.ic != nil && m.ic.parts > 0
				if m.demand {
					anyDemand = true
					demandStalled = demandStalled || stalled
				}
				stalledCase = stalledCase || stalled
				jat := m.jat
				if ic := m.ic; ic != nil && !stalled {
					// the bytes arrived all at once, now, on a connection opened earlier
					out.labels["idle-connection"] = true
					if now-ic.openedAt >= time.Second {
						out.labels["idle>=1s-before-bytes-arrive"] = true
					}
					if now-ic.openedAt >= 31*time.Second {
						out.labels["idle>=31s-before-bytes-arrive"] = true
					}
					if was && ic.openedAt <= acceptedAt {
						out.labels["idle-connection-opened-before-earlier-acceptance"] = true
						if now-acceptedAt >= 60*time.Second {
							out.labels["idle-connection-opened-before-acceptance-delivered-after-retention"] = true
						}
					}
				}
				if ic := m.ic; stalled {
					out.labels["stalled-presentation-completed"] = true
					if ic.parts >= 2 {
						out.labels["request-in-three-parts"] = true
					}
					if ic.judgedPart {
						if ic.valid && !validAt(p.Reqs[r].At, now) {
							out.labels["stalled-after-fixed-header-completed-after-validity-ended"] = true
						}
						if ic.valid && now-ic.judgedAt >= 60*time.Second {
							out.labels["stalled-after-fixed-header-completed->=60s-later"] = true
							for ai, at := range acceptLog {
								if acceptWho[ai] != r && at >= ic.judgedAt+60*time.Second {
									out.labels["stalled-completed-after-retention-with-accept-between"] = true
									if ic.copyDuring {
										out.labels["stalled-completed-after-retention-with-copy-and-accept-between"] = true
									}
								}
							}
						}
					} else {
						out.labels["stalled-before-fixed-header-completed"] = true
						if was {
							out.labels["stalled-before-fixed-header-completed-after-copy-accepted"] = true
						}
					}
				}
				if m.ic == nil {
					for _, ic := range idleOrder {
						if ic.req == r && ic.parts > 0 && !ic.planDone {
							if ic.judged {
								ic.copyDuring = true
								out.labels["identical-copy-while-stalled-after-fixed-header"] = true
							} else {
								out.labels["identical-copy-while-stalled-before-fixed-header"] = true
							}
						}
					}
				}
				skew := sec(p.Reqs[r].At) - sec(jat)
				// classification for the evidence
				switch {
				case !m.valid:
					cls = "x"
					out.labels["presented-outside-window"] = true
				case was:
					cls = "d"
					out.labels["replay-in-window"] = true
					if credChanged[r] {
						out.labels["replay-in-window-after-credential-change"] = true
					}
				default:
					if forgedOn[r] {
						out.labels["fresh-after-forged-same-salt"] = true
					}
					if restampedOn[r] {
						out.labels["fresh-after-extreme-timestamp-same-salt"] = true
					}
					if refusedInvalid[r] {
						out.labels["valid-after-refused-as-outside-window"] = true
					}
				}
				if was && jat-acceptedAt >= 60*time.Second {
					// 60 s is the documented retention of salts; whether the timestamp still validates here is the crux
					out.labels["re-presented-60s-after-accept"] = true
					if jat-acceptedAt < 61*time.Second {
						out.labels["re-presented-60s-to-61s-after-accept"] = true
					}
					for ai, at := range acceptLog {
						if acceptWho[ai] != r && at >= acceptedAt+60*time.Second {
							out.labels["re-presented-after-retention-with-accept-between"] = true
						}
					}
				}
				if m.valid && (skew == window || skew == -window+1) {
					out.labels["skew-at-limit"] = true
				}
				if now >= 24*time.Hour {
					out.labels["uptime>=1day"] = true
				}
				if now >= (1<<32)*time.Millisecond {
					out.labels["uptime>=2^32ms"] = true
				}
				if was && m.valid && jat >= (1<<31)*time.Millisecond {
					out.labels["replay-in-window-after-long-uptime"] = true
					if fa := acceptLog[0]; acceptedAt-fa < (1<<32)*time.Millisecond && jat-fa >= (1<<32)*time.Millisecond-61*time.Second {
						out.labels["replay-in-window-across-2^32ms-of-pool-uptime"] = true
					}
				}
				if !m.valid && (skew == window+1 || skew == -window) {
					out.labels["skew-just-outside"] = true
				}
			}
			if stalledCase && ms[0].ic != nil && ms[0].ic.parts > 0 {
				keyParts = append(keyParts, fmt.Sprintf("%s%ds%d", cls, k, ms[0].ic.parts))
			} else {
				keyParts = append(keyParts, fmt.Sprintf("%s%d", cls, k))
			}
			how := func(m *member) string {
				if m.ic == nil || m.ic.parts == 0 {
					return "bytes arrived at once"
				}
				return fmt.Sprintf("conn%d, bytes in %d parts: fixed-length header complete at server instant %v (ts-floor(now) = %d then), last byte at %v",
					m.ic.id, m.ic.parts+1, m.jat, sec(p.Reqs[r].At)-sec(m.jat), now)
			}

			// verdicts
			switch {
			case succ > 1 && stalledCase:
				violate(sigStallDup, "step %d: %d of %d presentations of r%d (client instant %v) that completed together at server instant %v accepted", si, succ, k, r, p.Reqs[r].At, now)
			case succ > 1:
				violate(sigConcDup, "step %d: %d of %d concurrent copies of r%d accepted at server instant %v", si, succ, k, r, now)
			case succ == 1 && was && stalledCase:
				violate(sigStallDup, "step %d: r%d (client instant %v) had been accepted (its fixed-length header arrived at server instant %v) and the same bytes were accepted again at %v (%s); "+
					"both timestamps were judged inside the validity of the request (valid now: %v)", si, r, p.Reqs[r].At, acceptedAt, now, how(winner), winner.valid)
			case succ == 1 && was && now-acceptedAt < 60*time.Second:
				violate(sigReplayEarly, "step %d: r%d (client instant %v) accepted at server instant %v and again only %v later at %v",
					si, r, p.Reqs[r].At, acceptedAt, now-acceptedAt, now)
			case succ == 1 && was:
				if ev.IsKnown("C03", sigReplay) {
					out.known++
				} else {
					violate(sigReplay, "step %d: r%d (client instant %v) accepted at server instant %v and again at %v (%v later, i.e. after the 60s salt retention); ts-floor(now) is now %d",
						si, r, p.Reqs[r].At, acceptedAt, now, now-acceptedAt, sec(p.Reqs[r].At)-sec(now))
				}
			case succ == 1 && !winner.valid:
				if winner.ic != nil && winner.ic.parts > 0 {
					violate(sigOutside, "step %d: r%d (client instant %v, ts=floor) accepted (%s): ts-floor(now) = %d was not in (-30, 30] when its fixed-length header arrived",
						si, r, p.Reqs[r].At, how(winner), sec(p.Reqs[r].At)-sec(winner.jat))
				} else {
					violate(sigOutside, "step %d: r%d (client instant %v, ts=floor) accepted at server instant %v: ts-floor(now) = %d is not in (-30, 30]", si, r, p.Reqs[r].At, now, sec(p.Reqs[r].At)-sec(now))
				}
			case succ == 0 && !was && anyDemand && demandStalled:
				dm := &ms[0]
				for i := range ms {
					if ms[i].demand && ms[i].ic != nil && ms[i].ic.parts > 0 {
						dm = &ms[i]
						break
					}
				}
				sig, why := sigStallRefused, ""
				if !validAt(p.Reqs[r].At, now) {
					// rests on the reference rule "the timestamp is judged when the fixed-length header has arrived": by the time the
					// last byte arrived the timestamp would no longer pass
					sig, why = sigStallRefusedLate, "; when its last byte arrived the timestamp would no longer have passed, but it is judged when the fixed-length header arrives"
				}
				violate(sig, "step %d: r%d (client instant %v) never accepted before and no other presentation of its bytes ahead of it, refused (%s)%s", si, r, p.Reqs[r].At, how(dm), why)
			case succ == 0 && !was && anyDemand:
				sig := sigRefused
				if k > 1 {
					sig = sigConcNone
				}
				violate(sig, "step %d: r%d (client instant %v) never accepted before, whole-second diff %d at server instant %v, refused (forged traffic on its salt before: %v)",
					si, r, p.Reqs[r].At, sec(p.Reqs[r].At)-sec(now), now, forgedOn[r])
			}
			var lastAt time.Duration = -1
			for i := range ms {
				m := &ms[i]
				if !m.valid && !m.ok {
					refusedInvalid[r] = true
				}
				if m.jat != lastAt {
					pres[r] = append(pres[r], presentation{m.jat, m.valid, succ > 0})
					lastAt = m.jat
				}
			}
			_ = anyValid
			if succ > 0 {
				if !was {
					accepted[r] = winner.jat
					accStalled[r] = winner.ic != nil && winner.ic.parts > 0
					if stalledOpen(-1) > stalledOpen(r) {
						out.labels["fresh-accepted-while-another-request-is-stalled"] = true
					}
					if abandoned {
						out.labels["fresh-accepted-after-a-stalled-presentation-was-abandoned"] = true
					}
				}
				acceptLog = append(acceptLog, winner.jat)
				acceptWho = append(acceptWho, r)
			}
		}
		// planned: bookkeeping (labels only) when the plan completes or gives up the connection ic
		planned := func(ic *idleConn) {
			ic.planDone = true
			if ic.parts == 0 {
				return
			}
			copies, first := 0, time.Duration(-1)
			for _, o := range idleOrder {
				if o.req != ic.req || o.parts == 0 {
					continue
				}
				copies++
				if o.judged && (first < 0 || o.judgedAt < first) {
					first = o.judgedAt
				}
				if o != ic && !o.planDone && o.partSeq < ic.partSeq {
					out.labels["stalled-copies-completed-out-of-order"] = true
				}
			}
			if copies >= 2 && first >= 0 && now-first >= 60*time.Second {
				out.labels["stalled-copies-completed->=60s-after-first-fixed-header"] = true
			}
			if ic.judged && ic.judgedAt < now && !ic.valid && validAt(p.Reqs[ic.req].At, now) {
				out.labels["fixed-header-arrived-outside-window-rest-arrived-inside"] = true
			}
		}
		for si, s := range p.Steps {
			if out.violation != "" {
				return
			}
			progressStep.Store(int64(si))
			progressWhat.Store(plan{Steps: []step{s}}.stepsString())
			switch s.Kind {
			case stAdv:
				if stalledOpen(-1) > 0 {
					if l, ok := stallAdvLabel[s.D]; ok {
						out.labels[l] = true
					}
				}
				time.Sleep(s.D)
				now += s.D
			case stForge:
				if stalledOpen(-1) > 0 {
					out.labels["unauthenticated-traffic-during-a-stall"] = true
					if stalledOpen(s.Req) > 0 {
						out.labels["unauthenticated-traffic-on-the-salt-of-a-stalled-presentation"] = true
					}
				}
				fb := forge(s, now)
				if fb == nil {
					violate(sigHarness, "step %d: could not build the forged request", si)
					continue
				}
				ok, _ := present(fb, p.target(s.Req))
				forgedOn[s.Req] = true
				out.labels[fmt.Sprintf("forge-%d", s.Forge)] = true
				keyParts = append(keyParts, fmt.Sprintf("f%d", s.Forge))
				if s.Forge == fgRestamp {
					pat := tsPatterns[s.Pos%len(tsPatterns)]
					out.labels[pat.class] = true
					restampedOn[s.Req] = true
					if _, was := accepted[s.Req]; was {
						out.labels["extreme-timestamp-on-an-accepted-salt"] = true
					}
					if ok {
						violate(sigExtremeTS, "step %d: r%d's salt with the fixed header re-sealed for timestamp %s (= %d, server unix time %d) accepted at server instant %v",
							si, s.Req, pat.name, pat.ts(uint64(bubbleEpochUnix+sec(now))), bubbleEpochUnix+sec(now), now)
					}
				} else if ok {
					violate(sigForged, "step %d: forged kind %d derived from r%d accepted at server instant %v", si, s.Forge, s.Req, now)
				}
			case stCred:
				if ms == nil {
					continue
				}
				var err error
				op := s.K % crOps
				switch op {
				case crEditReloadAll, crEditLoad:
					storeGen++
					if err = writeStore(storeGen); err == nil {
						if op == crEditReloadAll {
							mgr.ReloadAll()
						} else {
							err = ms.LoadFromFile()
						}
					}
					if err != nil {
						violate(sigHarness, "step %d: reload failed: %v", si, err)
					}
					out.labels["cred-reload"] = true
				case crAdd:
					_ = ms.AddCredential(fmt.Sprintf("dyn-%d", si), sstcp.Bytes(p.Class.KeyLen, p.Seed^uint64(si)^0xADD))
					out.labels["cred-add"] = true
				case crDelete:
					_ = ms.DeleteCredential("bob") // may already be gone; a reload brings bob back
					out.labels["cred-delete"] = true
				case crUpdate:
					_ = ms.UpdateCredential("bob", sstcp.Bytes(p.Class.KeyLen, p.Seed^uint64(si)^0x0BD))
					out.labels["cred-update"] = true
				case crReloadSame:
					mgr.ReloadAll()
				}
				if op != crReloadSame {
					for r := range accepted {
						credChanged[r] = true
					}
				}
				keyParts = append(keyParts, fmt.Sprintf("c%d", op))
			case stOpen:
				ic := &idleConn{id: s.Conn, req: s.Req, c: newConn(), openedAt: now, done: make(chan [2]bool, 1)}
				if old := idle[s.Conn]; old != nil && !old.finished { // a plan edited by hand could reuse an id: the old one is given up
					old.c.EndInput()
					<-old.done
					old.finished, old.planDone = true, true
				}
				idle[s.Conn] = ic
				idleOrder = append(idleOrder, ic)
				want := p.target(s.Req)
				go func() {
					ok, wrong := handle(ic.c, want)
					ic.done <- [2]bool{ok, wrong}
				}()
				synctest.Wait() // HandleStream has reached its blocking first read at this instant
				keyParts = append(keyParts, "o")
			case stPart:
				ic := idle[s.Conn]
				if ic == nil || ic.planDone {
					continue
				}
				g := wire[ic.req]
				cut := cutOffset(s.Pos, s.K, pfx, saltLen, fixedEnd, len(g), p.Class.Segmented)
				if cut <= ic.sent || cut >= len(g) {
					continue
				}
				if ic.parts == 0 {
					ic.partSeq = partSeq
					partSeq++
				}
				ic.parts++
				out.labels[cutLabel(cut, pfx, saltLen, fixedEnd, len(g))] = true
				switch n := stalledOpen(ic.req); {
				case n >= 4:
					out.labels["stalled-copies>=4"] = true
					fallthrough
				case n >= 3:
					out.labels["stalled-copies>=3"] = true
					fallthrough
				case n >= 2:
					out.labels["stalled-copies>=2"] = true
				}
				keyParts = append(keyParts, "p"+cutKey(cut, pfx, saltLen, fixedEnd, len(g)))
				if ic.finished {
					ic.sent = cut
					continue
				}
				ic.c.Inject(g[ic.sent:cut])
				ic.sent = cut
				if !ic.judged && cut >= fixedEnd {
					judge(ic)
					ic.judgedPart = true
				}
				synctest.Wait() // the server has consumed what it can and is blocked in a read again - or has returned
				select {
				case res := <-ic.done:
					ic.finished = true
					if !ic.judged {
						judge(ic) // gave up a request whose fixed-length header had not even arrived: judged as a refusal now
					}
					conclude(si, ic.req, []member{ofConn(ic, res)})
				default:
				}
			case stAbort:
				ic := idle[s.Conn]
				if ic == nil || ic.planDone {
					continue
				}
				planned(ic)
				if ic.parts > 0 {
					out.labels["stalled-presentation-abandoned"] = true
					if ic.judged && ic.valid {
						abandoned = true
					}
				}
				keyParts = append(keyParts, "a")
				if ic.finished {
					continue
				}
				ic.c.EndInput()
				res := <-ic.done
				ic.finished = true
				if res[0] {
					violate(sigIncomplete, "step %d: r%d accepted on conn%d although only %d of its %d bytes ever arrived", si, ic.req, ic.id, ic.sent, len(wire[ic.req]))
				}
			case stFinishAll:
				var ics []*idleConn
				for _, id := range s.Conns {
					ic := idle[id]
					if ic == nil || ic.planDone {
						continue
					}
					planned(ic)
					if !ic.finished {
						ics = append(ics, ic)
					}
				}
				if len(ics) >= 2 {
					out.labels["stalled-copies-completed-at-once"] = true
				}
				for _, ic := range ics {
					ic.c.Inject(wire[ic.req][ic.sent:])
					ic.sent = len(wire[ic.req])
					ic.c.EndInput()
					if !ic.judged {
						judge(ic)
					}
				}
				var reqOrder []int
				groups := map[int][]member{}
				for _, ic := range ics {
					res := <-ic.done
					ic.finished = true
					if _, ok := groups[ic.req]; !ok {
						reqOrder = append(reqOrder, ic.req)
					}
					groups[ic.req] = append(groups[ic.req], ofConn(ic, res))
				}
				for _, r := range reqOrder {
					conclude(si, r, groups[r])
				}
			case stDeliver:
				ic := idle[s.Conn]
				if ic == nil || ic.planDone {
					continue
				}
				planned(ic)
				if ic.finished {
					continue
				}
				// the verdict is judged at the instant the fixed-length header arrived: now, unless earlier parts covered it already
				ic.c.Inject(wire[ic.req][ic.sent:])
				ic.sent = len(wire[ic.req])
				ic.c.EndInput()
				if !ic.judged {
					judge(ic)
				}
				res := <-ic.done
				ic.finished = true
				conclude(si, ic.req, []member{ofConn(ic, res)})
			case stPresent, stConc:
				k := 1
				if s.Kind == stConc {
					k = s.K
				}
				r := s.Req
				ms := make([]member, k)
				for j := range ms {
					ms[j] = atOnce(r)
				}
				if k == 1 {
					ms[0].ok, ms[0].wrong = present(wire[r], p.target(r))
				} else {
					start := make(chan struct{})
					var wg sync.WaitGroup
					for j := 0; j < k; j++ {
						wg.Go(func() {
							<-start
							ms[j].ok, ms[j].wrong = present(wire[r], p.target(r))
						})
					}
					close(start)
					wg.Wait()
					out.labels["concurrent"] = true
				}
				conclude(si, r, ms)
			}
		}
	})

	// non-trivial: some request presented at least twice inside its validity window with a
	// successful *other* request in between
	for r, ps := range pres {
		for i := 0; i < len(ps); i++ {
			for j := i + 1; j < len(ps); j++ {
				if !ps[i].valid || !ps[j].valid {
					continue
				}
				for ai, at := range acceptLog {
					if acceptWho[ai] != r && at >= ps[i].at && at <= ps[j].at {
						out.nontriv = true
					}
				}
			}
		}
	}
	out.key = p.Class.String() + "|" + strings.Join(keyParts, ",")
	return
}

// ---- generator -------------------------------------------------------------------------------

var advAlphabet = []time.Duration{0, time.Nanosecond, time.Second - time.Nanosecond, time.Second, 29 * time.Second, 30 * time.Second,
	31 * time.Second, 59 * time.Second, 60 * time.Second, 61 * time.Second}
var fineAlphabet = []time.Duration{0, 0, time.Nanosecond, -time.Nanosecond, time.Millisecond, -time.Millisecond}
var skewAlphabet = []time.Duration{0, 30 * time.Second, -30 * time.Second, 31 * time.Second, -31 * time.Second, 29 * time.Second, -29 * time.Second,
	time.Second, -time.Second}
var phaseAlphabet = []time.Duration{0, 0, time.Nanosecond, -time.Nanosecond, time.Millisecond, -time.Millisecond, 500 * time.Millisecond,
	time.Second - time.Nanosecond}

type rawStep struct{ Kind, A, B, C, D, E int }

const rawKinds = 28 // raw step kinds 0..27, see drawPlanKinds

// rawGenOf draws raw steps whose Kind is an index into a list of n raw kinds.
func rawGenOf(n int) *rapid.Generator[rawStep] {
	return rapid.Custom(func(t *rapid.T) rawStep {
		return rawStep{
			Kind: rapid.IntRange(0, n-1).Draw(t, "kind"),
			A:    rapid.IntRange(0, 63).Draw(t, "a"),
			B:    rapid.IntRange(0, 63).Draw(t, "b"),
			C:    rapid.IntRange(0, 63).Draw(t, "c"),
			D:    rapid.IntRange(0, 4095).Draw(t, "d"),
			E:    rapid.IntRange(0, 1<<16-1).Draw(t, "e"),
		}
	})
}

var allKinds = func() (ks []int) {
	for i := 0; i < rawKinds; i++ {
		ks = append(ks, i)
	}
	return
}()
var rawGenAll = rawGenOf(rawKinds)

func at[T any](xs []T, i int) T { return xs[i%len(xs)] }

// long uptimes: wrap points of 31/32/33-bit millisecond counters and of a 32-bit second counter, and a plain long time
var uptimeAlphabet = []time.Duration{(1 << 32) * time.Millisecond, (1 << 32) * time.Millisecond, (1 << 31) * time.Millisecond, (1 << 33) * time.Millisecond, 400 * 24 * time.Hour,
	2 * (1 << 32) * time.Millisecond, (1 << 32) * time.Second / 1024, 24 * time.Hour}
var uptimeFine = []time.Duration{0, time.Millisecond, -time.Millisecond, 30 * time.Second, -30 * time.Second, 60 * time.Second, -60 * time.Second, time.Nanosecond, 500 * time.Millisecond}

func drawClass(rt *rapid.T) sstcp.Class {
	return sstcp.Class{
		KeyLen:    at([]int{16, 32}, rapid.IntRange(0, 1).Draw(rt, "keylen")),
		NIPSK:     at([]int{0, 1, 0, 1, 2}, rapid.IntRange(0, 4).Draw(rt, "nipsk")),
		Prefix:    at([]int{0, 1, 0, 1, 0, 1, 1, 2}, rapid.IntRange(0, 7).Draw(rt, "prefix")),
		Segmented: rapid.Bool().Draw(rt, "segmented"),
		Fallback:  rapid.Bool().Draw(rt, "fallback"),
	}
}

// drawPlan draws a history: a list of independent raw steps (so that rapid can delete steps while
// shrinking) which is then interpreted against the reference model, so that clock advances can be
// aimed at the interesting instants of an existing request (start/end of its validity, 60 s and
// 61 s after it was accepted).
func drawPlan(rt *rapid.T) plan { return drawPlanKinds(rt, allKinds, rawGenAll, 14) }

// drawPlanKinds: the raw step kinds are taken from kinds (a list with repetitions = weights).
func drawPlanKinds(rt *rapid.T, kinds []int, gen *rapid.Generator[rawStep], maxSteps int) plan {
	p := plan{Class: drawClass(rt), Seed: rapid.Uint64().Draw(rt, "seed")}
	p.Dribble = rapid.Bool().Draw(rt, "dribble") && p.Class.Prefix != sstcp.PrefixBig
	p.Managed = rapid.Bool().Draw(rt, "managed") && p.Class.NIPSK > 0
	p.Start = baseServerAdv + at([]time.Duration{0, time.Nanosecond, 500 * time.Millisecond, time.Second - time.Nanosecond, 0}, rapid.IntRange(0, 4).Draw(rt, "startphase"))
	raws := rapid.SliceOfN(gen, 1, maxSteps).Draw(rt, "steps")
	now := p.Start
	accepted := map[int]time.Duration{}
	var genuine []int // indices of genuine specs
	type pend struct{ conn, req int }
	var pending []pend // idle connections whose bytes have not arrived yet
	nextConn := 0
	openIdle := func(r int) int {
		c := nextConn
		nextConn++
		p.Steps = append(p.Steps, step{Kind: stOpen, Req: r, Conn: c})
		pending = append(pending, pend{c, r})
		return c
	}
	newReq := func(foreign bool, a, b int) int {
		skew := at(skewAlphabet, a) + at(phaseAlphabet, b)
		p.Reqs = append(p.Reqs, reqSpec{At: now + skew, Foreign: foreign})
		i := len(p.Reqs) - 1
		if !foreign {
			genuine = append(genuine, i)
		}
		return i
	}
	firstAccept := time.Duration(-1) // instant of the first acceptance of the history (the salt pool's "epoch")
	note := func(r int) {            // what the model expects of a genuine presentation
		if _, was := accepted[r]; !was && validAt(p.Reqs[r].At, now) {
			accepted[r] = now
			if firstAccept < 0 {
				firstAccept = now
			}
		}
	}
	dropPending := func(c int) {
		for i := range pending {
			if pending[i].conn == c {
				pending = append(pending[:i:i], pending[i+1:]...)
				return
			}
		}
	}
	fresh := func() { // a request made now is presented (and, being valid, accepted: its Add prunes the pool)
		p.Reqs = append(p.Reqs, reqSpec{At: now})
		f := len(p.Reqs) - 1
		genuine = append(genuine, f)
		p.Steps = append(p.Steps, step{Kind: stPresent, Req: f})
		note(f)
	}
	adv := func(d time.Duration) {
		p.Steps = append(p.Steps, step{Kind: stAdv, D: d})
		now += d
	}
	for _, s := range raws {
		switch kind := kinds[s.Kind%len(kinds)]; {
		case kind <= 1: // plain advance
			d := at(advAlphabet, s.A) + at(fineAlphabet, s.B)
			if d < 0 {
				d = 0
			}
			p.Steps = append(p.Steps, step{Kind: stAdv, D: d})
			now += d
		case kind <= 3 && len(genuine) > 0: // advance aimed at a request's boundary
			r := at(genuine, s.A)
			ts := time.Duration(sec(p.Reqs[r].At)) * time.Second
			anchors := []time.Duration{ts + window*time.Second, ts - window*time.Second, ts + (window+1)*time.Second}
			if t0, ok := accepted[r]; ok {
				anchors = []time.Duration{t0 + 60*time.Second, ts + window*time.Second, t0 + 61*time.Second, ts - window*time.Second, t0 + 60*time.Second, ts + (window+1)*time.Second}
			}
			d := at(anchors, s.B) + at(fineAlphabet, s.C) - now
			if d < 0 {
				d = at(advAlphabet, s.C)
			}
			p.Steps = append(p.Steps, step{Kind: stAdv, D: d})
			now += d
		case kind <= 5 || len(genuine) == 0: // new genuine request, presented now
			r := newReq(false, s.A, s.B)
			p.Steps = append(p.Steps, step{Kind: stPresent, Req: r})
			note(r)
		case kind <= 7: // present an existing request again
			r := at(genuine, s.A)
			p.Steps = append(p.Steps, step{Kind: stPresent, Req: r})
			note(r)
		case kind <= 9: // unauthenticated traffic
			fk := s.C % fgKinds
			var r int
			switch {
			case fk == fgForeignKey:
				r = newReq(true, s.A, s.B)
			case s.C/fgKinds%2 == 1:
				// derived from a request the server has not seen yet; the genuine one may follow later
				r = newReq(false, s.A, s.B)
			default:
				r = at(genuine, s.A)
			}
			p.Steps = append(p.Steps, step{Kind: stForge, Req: r, Forge: fk, Pos: s.D})
		case kind <= 11: // concurrent copies of a new or an existing request
			var r int
			if s.C%2 == 1 {
				r = newReq(false, s.A, s.B)
			} else {
				r = at(genuine, s.A)
			}
			p.Steps = append(p.Steps, step{Kind: stConc, Req: r, K: 2 + s.D%7})
			note(r)
		case kind <= 13:
			// retention probe: (accept a request,) move the clock to an instant chosen relative to the moment
			// it was accepted, optionally let another request be accepted, then present the same bytes again
			var r int
			if s.C%3 == 0 {
				r = at(genuine, s.A)
			} else {
				skew := at([]time.Duration{30 * time.Second, -29 * time.Second, 0, -30 * time.Second, 29 * time.Second, 31 * time.Second, -31 * time.Second}, s.A) + at(phaseAlphabet, s.B)
				p.Reqs = append(p.Reqs, reqSpec{At: now + skew})
				r = len(p.Reqs) - 1
				genuine = append(genuine, r)
				p.Steps = append(p.Steps, step{Kind: stPresent, Req: r})
				note(r)
			}
			t0, ok := accepted[r]
			if !ok {
				t0 = now
			}
			d := t0 + at([]time.Duration{60 * time.Second, 60*time.Second + time.Nanosecond, 61*time.Second - time.Nanosecond, 61 * time.Second,
				60*time.Second - time.Nanosecond, 60*time.Second + 500*time.Millisecond, 30 * time.Second, 59 * time.Second}, s.D) - now
			if d < 0 {
				d = 0
			}
			p.Steps = append(p.Steps, step{Kind: stAdv, D: d})
			now += d
			if s.D/8%4 != 0 {
				p.Reqs = append(p.Reqs, reqSpec{At: now})
				f := len(p.Reqs) - 1
				genuine = append(genuine, f)
				p.Steps = append(p.Steps, step{Kind: stPresent, Req: f})
				note(f)
			}
			if s.D/32%3 == 0 {
				p.Steps = append(p.Steps, step{Kind: stConc, Req: r, K: 2 + s.D/128%5})
			} else {
				p.Steps = append(p.Steps, step{Kind: stPresent, Req: r})
			}
			note(r)
		case kind <= 14: // open a connection for a new or an existing request; its bytes arrive later (or never)
			var r int
			if s.C%2 == 1 {
				r = newReq(false, s.A, s.B)
			} else {
				r = at(genuine, s.A)
			}
			openIdle(r)
		case kind <= 15 && len(pending) > 0: // the bytes arrive on an idle connection
			i := s.A % len(pending)
			p.Steps = append(p.Steps, step{Kind: stDeliver, Conn: pending[i].conn})
			note(pending[i].req)
			pending = append(pending[:i:i], pending[i+1:]...)
		case kind == 23:
			// the next part of a request arrives on a connection (a pending one, or a new one for a new / an existing request)
			var c int
			if len(pending) > 0 && s.C%3 != 0 {
				c = pending[s.A%len(pending)].conn
			} else if s.C%2 == 1 {
				c = openIdle(newReq(false, s.A, s.B))
			} else {
				c = openIdle(at(genuine, s.A))
			}
			p.Steps = append(p.Steps, step{Kind: stPart, Conn: c, Pos: s.D % cutClasses, K: s.E})
		case kind == 26 && len(pending) > 0: // the client of a pending connection goes away
			i := s.A % len(pending)
			p.Steps = append(p.Steps, step{Kind: stAbort, Conn: pending[i].conn})
			pending = append(pending[:i:i], pending[i+1:]...)
		case kind == 24 || kind == 26 || kind == 27:
			// stall probe: the bytes of one presentation arrive in two or three parts cut at structural boundaries, the clock moves in
			// between, and meanwhile a byte-identical complete copy, unauthenticated traffic on the same salt and fresh requests
			// (which get accepted, so the pool is pruned) are presented
			var r int
			if s.E%5 == 0 {
				r = at(genuine, s.A)
			} else {
				skew := at([]time.Duration{30 * time.Second, 0, -29 * time.Second, 29 * time.Second, -time.Second, 31 * time.Second, -30 * time.Second, time.Second}, s.A) + at(phaseAlphabet, s.B)
				p.Reqs = append(p.Reqs, reqSpec{At: now + skew})
				r = len(p.Reqs) - 1
				genuine = append(genuine, r)
			}
			e := s.E / 5
			c := openIdle(r)
			p.Steps = append(p.Steps, step{Kind: stPart, Conn: c, Pos: at([]int{cutFixed, cutSalt, cutVar, cutLast, cutFixed, cutFixedShort, cutVar1, cutVarBody, cutFixed, cutInSalt}, s.C), K: s.D})
			if e&1 != 0 {
				if e&2 != 0 {
					p.Steps = append(p.Steps, step{Kind: stConc, Req: r, K: 2 + s.C%2})
				} else {
					p.Steps = append(p.Steps, step{Kind: stPresent, Req: r})
				}
			}
			if e&4 != 0 {
				p.Steps = append(p.Steps, step{Kind: stForge, Req: r, Forge: at([]int{fgSaltRandom, fgGarbage, fgFlipFixed, fgTruncated}, s.B), Pos: s.D})
			}
			adv(at(stallAdv, s.D))
			if e&8 != 0 {
				fresh()
			}
			if e&16 != 0 {
				p.Steps = append(p.Steps, step{Kind: stPresent, Req: r})
			}
			if e&32 != 0 { // a third part
				p.Steps = append(p.Steps, step{Kind: stPart, Conn: c, Pos: at([]int{cutVar, cutLast, cutVarBody, cutFixed, cutVar1}, s.A/8), K: s.D / 9})
				adv(at(stallAdv, s.D/9))
				if e&64 != 0 {
					fresh()
				}
				if e&128 != 0 {
					p.Steps = append(p.Steps, step{Kind: stPresent, Req: r})
				}
			}
			if kind == 26 || e>>8&7 == 7 { // never completed
				p.Steps = append(p.Steps, step{Kind: stAbort, Conn: c})
				fresh()
			} else {
				p.Steps = append(p.Steps, step{Kind: stDeliver, Conn: c})
			}
			dropPending(c)
			note(r)
			if e>>11&1 != 0 {
				fresh()
			}
			if e>>12&1 != 0 {
				p.Steps = append(p.Steps, step{Kind: stPresent, Req: r})
			}
		case kind == 25:
			// stalled copies: 2-4 connections carry the first part of the same request; after a drawn advance they are completed in a
			// drawn order (with drawn advances and fresh requests in between) or all at once
			var r int
			if s.E%5 == 0 {
				r = at(genuine, s.A)
			} else {
				skew := at([]time.Duration{30 * time.Second, 0, -29 * time.Second, 29 * time.Second, time.Second, 30 * time.Second}, s.A) + at(phaseAlphabet, s.B)
				p.Reqs = append(p.Reqs, reqSpec{At: now + skew})
				r = len(p.Reqs) - 1
				genuine = append(genuine, r)
			}
			e := s.E / 5
			k := 2 + s.C%3
			mode := s.C / 3 % 4
			conns := make([]int, k)
			for i := range conns {
				conns[i] = openIdle(r)
				pos := cutSalt
				switch mode {
				case 1:
					pos = cutFixed
				case 2:
					pos = at([]int{cutFixed, cutSalt, cutVar, cutLast, cutFixedShort}, i+s.A)
				case 3:
					pos = at([]int{cutVar, cutLast, cutVarBody}, i+s.A)
				}
				p.Steps = append(p.Steps, step{Kind: stPart, Conn: conns[i], Pos: pos, K: s.D + i})
				if e&1 != 0 && i < k-1 {
					adv(at([]time.Duration{0, time.Second, 29 * time.Second, time.Nanosecond}, s.B/8+i))
				}
			}
			adv(at(stallAdv, s.D))
			if e&2 != 0 {
				fresh()
			}
			// a drawn order
			order := append([]int(nil), conns...)
			for i, x := len(order)-1, s.D/9; i > 0; i-- {
				j := x % (i + 1)
				x /= i + 1
				order[i], order[j] = order[j], order[i]
			}
			if e&4 != 0 {
				p.Steps = append(p.Steps, step{Kind: stFinishAll, Conns: order})
				note(r)
			} else {
				x := e >> 4
				for i, c := range order {
					p.Steps = append(p.Steps, step{Kind: stDeliver, Conn: c})
					note(r)
					if i < k-1 {
						if d := at([]time.Duration{0, 0, 60 * time.Second, time.Second, 61 * time.Second, 30 * time.Second, 59 * time.Second, 0}, x); d > 0 {
							adv(d)
						}
						if x&8 != 0 {
							fresh()
						}
						x >>= 4
					}
				}
			}
			for _, c := range conns {
				dropPending(c)
			}
			if e>>14&1 != 0 {
				fresh()
				p.Steps = append(p.Steps, step{Kind: stPresent, Req: r})
			}
		case kind == 22:
			// extreme-timestamp probe: a request the server has not seen; its salt presented with absurd timestamps (made by
			// a key holder); the genuine request; the same absurd bytes again; the genuine request again
			r := newReq(false, s.A, s.B)
			n := 1 + s.C%3
			for i := 0; i < n; i++ {
				p.Steps = append(p.Steps, step{Kind: stForge, Req: r, Forge: fgRestamp, Pos: s.D + i*17})
			}
			p.Steps = append(p.Steps, step{Kind: stPresent, Req: r})
			note(r)
			p.Steps = append(p.Steps, step{Kind: stForge, Req: r, Forge: fgRestamp, Pos: s.D}, step{Kind: stForge, Req: r, Forge: fgRestamp, Pos: s.D + 1 + s.C/3},
				step{Kind: stPresent, Req: r})
			note(r)
		case kind == 20: // long uptime: a very large advance
			d := at(uptimeAlphabet, s.A) + at(uptimeFine, s.B)
			p.Steps = append(p.Steps, step{Kind: stAdv, D: d})
			now += d
		case kind == 21:
			// uptime probe: (an early acceptance fixes the pool's epoch;) the clock moves to epoch + W + fine - lead with W a
			// wrap point of a millisecond/second counter (or 0: only the sub-second phase of the epoch matters); a victim is
			// accepted (client clock 30 s ahead / on time); a short while later another request is accepted (prunes); the
			// victim's bytes again
			if firstAccept < 0 {
				f := newReq(false, 0, s.B) // skew 0 + phase
				p.Steps = append(p.Steps, step{Kind: stPresent, Req: f})
				note(f)
				if firstAccept < 0 {
					continue
				}
			}
			lead := at([]time.Duration{0, time.Second, 11 * time.Second, 30 * time.Second, 59 * time.Second, 60 * time.Second, 500 * time.Millisecond}, s.C)
			target := firstAccept + at(append([]time.Duration{0, 1300 * time.Millisecond}, uptimeAlphabet...), s.A) + at(uptimeFine, s.B) - lead
			if d := target - now; d > 0 {
				p.Steps = append(p.Steps, step{Kind: stAdv, D: d})
				now += d
			}
			p.Reqs = append(p.Reqs, reqSpec{At: now + at([]time.Duration{30 * time.Second, 0, 30*time.Second + 999*time.Millisecond, -29 * time.Second}, s.C/7)})
			v := len(p.Reqs) - 1
			genuine = append(genuine, v)
			p.Steps = append(p.Steps, step{Kind: stPresent, Req: v})
			note(v)
			gap := at([]time.Duration{11 * time.Second, time.Second, 59 * time.Second, 60*time.Second - time.Millisecond, 60*time.Second - time.Nanosecond, 60*time.Second - 500*time.Millisecond,
				29 * time.Second, time.Millisecond, 30 * time.Second}, s.D)
			p.Steps = append(p.Steps, step{Kind: stAdv, D: gap})
			now += gap
			p.Reqs = append(p.Reqs, reqSpec{At: now})
			f := len(p.Reqs) - 1
			genuine = append(genuine, f)
			p.Steps = append(p.Steps, step{Kind: stPresent, Req: f}, step{Kind: stPresent, Req: v})
			note(f)
			note(v)
		case kind == 18 && p.Managed: // a credential-store operation
			p.Steps = append(p.Steps, step{Kind: stCred, K: s.A % crOps})
		case kind == 19 && p.Managed:
			// credential probe: accept a request, change the credential store, (wait a little,) same bytes again
			var r int
			if s.C%3 == 0 {
				r = at(genuine, s.A)
			} else {
				r = newReq(false, s.A, s.B)
			}
			p.Steps = append(p.Steps, step{Kind: stPresent, Req: r})
			note(r)
			p.Steps = append(p.Steps, step{Kind: stCred, K: s.D % crOps})
			if s.D/8%2 == 1 {
				p.Steps = append(p.Steps, step{Kind: stCred, K: s.D / 16 % crOps})
			}
			if d := at([]time.Duration{0, 0, time.Second, 29 * time.Second, 59 * time.Second}, s.D/128); d > 0 {
				p.Steps = append(p.Steps, step{Kind: stAdv, D: d})
				now += d
			}
			p.Steps = append(p.Steps, step{Kind: stPresent, Req: r})
			note(r)
		default:
			// idle probe: open a connection, (let the same request be accepted on another connection,) let the clock
			// run for d, (let another request be accepted,) then the bytes arrive
			d := at([]time.Duration{time.Second, 100 * time.Second, 60 * time.Second, 31 * time.Second, 30 * time.Second, 29 * time.Second, 59 * time.Second,
				61 * time.Second, 0, 60*time.Second + time.Nanosecond, 61*time.Second - time.Nanosecond, time.Second - time.Nanosecond}, s.D)
			var r int
			if s.C%3 == 0 {
				r = at(genuine, s.A)
			} else {
				// stamped around the instant the connection is opened (stale on arrival) or around the arrival
				at0 := now
				if s.C/3%2 == 1 {
					at0 += d
				}
				p.Reqs = append(p.Reqs, reqSpec{At: at0 + at(skewAlphabet, s.A) + at(phaseAlphabet, s.B)})
				r = len(p.Reqs) - 1
				genuine = append(genuine, r)
			}
			c := openIdle(r)
			if s.D/16%2 == 1 {
				p.Steps = append(p.Steps, step{Kind: stPresent, Req: r})
				note(r)
			}
			p.Steps = append(p.Steps, step{Kind: stAdv, D: d})
			now += d
			if s.D/32%2 == 1 {
				p.Reqs = append(p.Reqs, reqSpec{At: now})
				f := len(p.Reqs) - 1
				genuine = append(genuine, f)
				p.Steps = append(p.Steps, step{Kind: stPresent, Req: f})
				note(f)
			}
			p.Steps = append(p.Steps, step{Kind: stDeliver, Conn: c})
			note(r)
			dropPending(c)
			if s.D/64%2 == 1 {
				// whatever was accepted on the idle connection must be remembered from the arrival on
				p.Reqs = append(p.Reqs, reqSpec{At: now})
				f := len(p.Reqs) - 1
				genuine = append(genuine, f)
				p.Steps = append(p.Steps, step{Kind: stPresent, Req: f}, step{Kind: stPresent, Req: r})
				note(f)
				note(r)
			}
		}
	}
	return p
}

// ---- the property ----------------------------------------------------------------------------

var recHist = ev.New("C03", "replay-history",
	"rapid: configuration class x history of up to 14 steps over {advance (boundary alphabet 0,1ns,1s-1ns,1s,29..31s,59..61s +-1ns/1ms, or aimed at "+
		"validity start/end and accept+60s/61s of an existing request), present a new request built by the real client at client instant "+
		"server-now+skew (skew in {-31,-30,-29,-1,0,1,29,30,31}s + sub-second phase), present an existing request again, present unauthenticated "+
		"traffic derived from a request (garbage, bit flips in fixed header/EIH/prefix, genuine salt + random, truncated, foreign key, and - made by a key holder - "+
		"the request's salt with a fixed header re-sealed for an absurd timestamp: server clock +-k*2^55 s +-{0,1,29,30,31} s, +-2^31..2^63 s, raw 0/1/2^63/2^64-1/..., "+
		"server clock + 2^64 - small), present k in 2..8 "+
		"copies concurrently, very large advances (2^31/2^32/2^33 ms, 2^22 s, 1 day, 400 days, +-{0,1ns,1ms,500ms,30s,60s}) and an uptime probe = early accept / clock to "+
		"first-accept + W + fine - lead / victim accepted / +gap in {1ms,1s,11s,29s,30s,59s,60s-500ms,60s-1ms,60s-1ns} / other accept / victim again, open a connection whose bytes arrive later (HandleStream already blocked in its first read while the clock moves; "+
		"idle probe = open / optional acceptance of the same request elsewhere / +d in {0,1s-1ns,1s,29..31s,59..61s,100s} / optional other accept / bytes arrive; "+
		"for identity-header classes optionally a server whose users are managed by cred.Manager from a store file, with steps edit file + ReloadAll / "+
		"LoadFromFile, AddCredential, DeleteCredential, UpdateCredential of other users and a credential probe = accept / credential operation(s) / same bytes again; "+
		"every verdict is judged at the instant the fixed-length header has arrived completely), presentations whose bytes arrive in parts (part / abort steps, stall probe and stalled-copies probe, see replay-stalled), retention probe = accept / move to accept+{59s,60s-1ns,60s,60s+1ns,60.5s,61s-1ns,61s} / optional other accept / same bytes again}; client clock and server clock are two synctest bubbles; every presentation is judged against the model "+
		"accept iff -30 < ts-floor(now) <= 30 (whole seconds) and never accepted before. Non-trivial: a request presented twice inside its validity window with another "+
		"request accepted in between; distinct key = class + sequence of presentation classes").
	Require("replay-in-window", "re-presented-60s-to-61s-after-accept", "re-presented-after-retention-with-accept-between", "fresh-after-forged-same-salt",
		"presented-outside-window", "skew-at-limit", "skew-just-outside", "concurrent", "valid-after-refused-as-outside-window",
		"idle>=1s-before-bytes-arrive", "idle>=31s-before-bytes-arrive", "idle-connection-opened-before-earlier-acceptance",
		"idle-connection-opened-before-acceptance-delivered-after-retention",
		clsMul55, clsBits, clsPow, "fresh-after-extreme-timestamp-same-salt", "extreme-timestamp-on-an-accepted-salt",
		"uptime>=1day", "uptime>=2^32ms", "replay-in-window-after-long-uptime", "replay-in-window-across-2^32ms-of-pool-uptime",
		"managed-server", "cred-reload", "cred-add", "cred-delete", "cred-update", "replay-in-window-after-credential-change")

func record(rec *ev.Recorder, p plan, out outcome) {
	labels := make([]string, 0, len(out.labels)+1)
	for l := range out.labels {
		labels = append(labels, l)
	}
	sort.Strings(labels)
	labels = append(labels, "class-"+p.Class.String())
	rec.Case(out.key, out.nontriv, labels...)
	for i := 0; i < out.known; i++ {
		rec.KnownHit(sigReplay)
	}
	if out.nontriv {
		rec.Sample(map[string]any{"history": p.String()})
	}
}

func TestReplayHistory(t *testing.T) {
	rapid.Check(t, func(rt *rapid.T) {
		p := drawPlan(rt)
		out := execute(t, p)
		if out.violation != "" {
			rt.Fatalf("%s", out.violation)
		}
		record(recHist, p, out)
	})
}

// ---- bounded-exhaustive histories over a boundary alphabet ---------------------------------------

var recExh = ev.New("C03", "replay-exhaustive",
	"bounded-exhaustive: every history of length <= depth over {+1ns, +1s-1ns, +30s, +60s, new(+30s), new(0), new(-29s), new(-30s), new(+31s), again(first), again(last), open-new(0) = open an idle connection for a new request, deliver = its bytes arrive on the oldest idle connection, "+
		"extreme-ts(last) = the last request's salt re-sealed with an absurd timestamp (pattern varies)} "+
		"from server instant 40s, for the classes k16/k32 x {no EIH, 1 iPSK}; same model as replay-history. Non-trivial as in replay-history")

func TestReplayExhaustive(t *testing.T) {
	depth := 4
	if v, err := strconv.Atoi(os.Getenv("VERIF_C03_DEPTH")); err == nil && v > 0 {
		depth = v
	}
	shard, shards := 0, 1
	if v, err := strconv.Atoi(os.Getenv("VERIF_SHARD")); err == nil {
		shard = v
	}
	if v, err := strconv.Atoi(os.Getenv("VERIF_SHARDS")); err == nil && v > 0 {
		shards = v
	}
	const nsym = 14
	classes := []sstcp.Class{{KeyLen: 16, Segmented: true}, {KeyLen: 32, NIPSK: 1, Fallback: true}, {KeyLen: 16, NIPSK: 1, Prefix: 1}, {KeyLen: 32, Segmented: true, Fallback: true}}
	var total, known int64
	seq := make([]int, depth)
	idx := 0
	for length := 1; length <= depth; length++ {
		for i := range seq {
			seq[i] = 0
		}
		for {
			if idx%shards == shard {
				p := plan{Class: classes[idx%len(classes)], Seed: uint64(idx) + 1, Start: baseServerAdv}
				now := p.Start
				nconn, ndelivered := 0, 0
				for _, sym := range seq[:length] {
					newAt := func(skew time.Duration) {
						p.Reqs = append(p.Reqs, reqSpec{At: now + skew})
						p.Steps = append(p.Steps, step{Kind: stPresent, Req: len(p.Reqs) - 1})
					}
					adv := func(d time.Duration) { p.Steps = append(p.Steps, step{Kind: stAdv, D: d}); now += d }
					switch sym {
					case 0:
						adv(time.Nanosecond)
					case 1:
						adv(time.Second - time.Nanosecond)
					case 2:
						adv(30 * time.Second)
					case 3:
						adv(60 * time.Second)
					case 4:
						newAt(30 * time.Second)
					case 5:
						newAt(0)
					case 6:
						newAt(-29 * time.Second)
					case 7:
						newAt(31 * time.Second)
					case 8:
						newAt(-30 * time.Second)
					case 9:
						if len(p.Reqs) > 0 {
							p.Steps = append(p.Steps, step{Kind: stPresent, Req: 0})
						}
					case 11:
						p.Reqs = append(p.Reqs, reqSpec{At: now})
						p.Steps = append(p.Steps, step{Kind: stOpen, Req: len(p.Reqs) - 1, Conn: nconn})
						nconn++
					case 13: // the last request's salt with an absurd timestamp (pattern varies with the history index)
						if len(p.Reqs) > 0 {
							p.Steps = append(p.Steps, step{Kind: stForge, Req: len(p.Reqs) - 1, Forge: fgRestamp, Pos: idx + len(p.Steps)})
						}
					case 12:
						if ndelivered < nconn {
							p.Steps = append(p.Steps, step{Kind: stDeliver, Conn: ndelivered})
							ndelivered++
						}
					case 10:
						if len(p.Reqs) > 0 {
							p.Steps = append(p.Steps, step{Kind: stPresent, Req: len(p.Reqs) - 1})
						}
					}
				}
				out := execute(t, p)
				if out.violation != "" {
					t.Fatalf("%s", out.violation)
				}
				total++
				known += int64(out.known)
				labels := make([]string, 0, len(out.labels))
				for l := range out.labels {
					labels = append(labels, l)
				}
				sort.Strings(labels)
				recExh.Case(fmt.Sprint(seq[:length]), out.nontriv, labels...)
				for i := 0; i < out.known; i++ {
					recExh.KnownHit(sigReplay)
				}
			}
			idx++
			k := length - 1
			for k >= 0 {
				seq[k]++
				if seq[k] < nsym {
					break
				}
				seq[k] = 0
				k--
			}
			if k < 0 {
				break
			}
		}
	}
	recExh.Exhaustive(true)
	recExh.Extra("depth", depth)
	recExh.Extra("histories", total)
	recExh.Extra("known_reproductions", known)
}

// ---- regression: the shrunk counterexample, without rapid ----------------------------------------

var recReg = ev.New("C03", "replay-regression",
	"fixed histories: (client 30s ahead; accept; +d; other request accepted; same bytes again; 4 concurrent copies) for d in {30s,59s,60s,60s+1ns,61s-1ns} "+
		"(the shrunk counterexample of the salt-retention defect fixed by adaf1bd), idle connections (opened, clock +d, bytes arrive; and opened before the same "+
		"request is accepted elsewhere, +d, other accept, bytes arrive) and the edges of the timestamp rule (ts-now = -31,-30,-29,+30,+31 whole seconds "+
		"at two sub-second phases); non-trivial as in replay-history")

func regressionPlans() []plan {
	var ps []plan
	for ci, c := range []sstcp.Class{{KeyLen: 16, Segmented: true}, {KeyLen: 32, NIPSK: 1}, {KeyLen: 32, NIPSK: 2, Prefix: 1, Fallback: true}} {
		for _, d := range []time.Duration{60 * time.Second, 60*time.Second + time.Nanosecond, 61*time.Second - time.Nanosecond, 59 * time.Second, 30 * time.Second} {
			ps = append(ps, plan{Class: c, Seed: uint64(100 + ci), Start: baseServerAdv,
				Reqs: []reqSpec{{At: baseServerAdv + 30*time.Second}, {At: baseServerAdv + d}},
				Steps: []step{{Kind: stPresent, Req: 0}, {Kind: stAdv, D: d}, {Kind: stPresent, Req: 1}, {Kind: stPresent, Req: 0},
					{Kind: stConc, Req: 0, K: 4}}})
		}
	}
	// the edges of the timestamp rule itself: 30 whole seconds old is expired, 29 is not; 30 ahead is fine, 31 is not
	for ci, c := range []sstcp.Class{{KeyLen: 16}, {KeyLen: 32, NIPSK: 1, Segmented: true, Fallback: true}} {
		for _, start := range []time.Duration{baseServerAdv, baseServerAdv + time.Second - time.Nanosecond} {
			ps = append(ps, plan{Class: c, Seed: uint64(200 + ci), Start: start,
				Reqs: []reqSpec{{At: start - 30*time.Second}, {At: start - 29*time.Second}, {At: start + 31*time.Second}, {At: start + 30*time.Second},
					{At: start - 30*time.Second - time.Nanosecond}, {At: start - 31*time.Second}},
				Steps: []step{{Kind: stPresent, Req: 0}, {Kind: stPresent, Req: 1}, {Kind: stPresent, Req: 2}, {Kind: stPresent, Req: 3}, {Kind: stPresent, Req: 4},
					{Kind: stPresent, Req: 5}, {Kind: stAdv, D: time.Second}, {Kind: stPresent, Req: 2}, {Kind: stPresent, Req: 1}, {Kind: stPresent, Req: 0}}})
		}
	}
	// connections opened early that stay idle while the clock moves: everything is judged when the bytes arrive
	for ci, c := range []sstcp.Class{{KeyLen: 16, Segmented: true}, {KeyLen: 32, NIPSK: 1, Fallback: true}} {
		for _, d := range []time.Duration{100 * time.Second, 31 * time.Second, 30 * time.Second, 29 * time.Second, time.Second} {
			// (i) request stamped when the connection is opened, bytes arrive d later
			ps = append(ps, plan{Class: c, Seed: uint64(300 + ci), Start: baseServerAdv,
				Reqs:  []reqSpec{{At: baseServerAdv}},
				Steps: []step{{Kind: stOpen, Req: 0, Conn: 0}, {Kind: stAdv, D: d}, {Kind: stDeliver, Conn: 0}}})
		}
		for _, d := range []time.Duration{60 * time.Second, 61*time.Second - time.Nanosecond, 59 * time.Second, time.Second} {
			// (ii) connection opened before the same request is accepted elsewhere; another request accepted after d; bytes arrive
			ps = append(ps, plan{Class: c, Seed: uint64(310 + ci), Start: baseServerAdv,
				Reqs: []reqSpec{{At: baseServerAdv + 30*time.Second}, {At: baseServerAdv + d}},
				Steps: []step{{Kind: stOpen, Req: 0, Conn: 0}, {Kind: stPresent, Req: 0}, {Kind: stAdv, D: d}, {Kind: stPresent, Req: 1},
					{Kind: stDeliver, Conn: 0}}})
		}
	}
	for ci, c := range []sstcp.Class{{KeyLen: 16, Segmented: true}, {KeyLen: 32, NIPSK: 1, Fallback: true}} {
		for _, d := range []time.Duration{100 * time.Second, 61 * time.Second, 60 * time.Second, 31 * time.Second} {
			// (iii) request stamped for the arrival instant arrives on a connection opened d earlier and is accepted; another
			// request is accepted; the same bytes again immediately and 59 s later
			ps = append(ps, plan{Class: c, Seed: uint64(320 + ci), Start: baseServerAdv,
				Reqs: []reqSpec{{At: baseServerAdv + d + 29*time.Second}, {At: baseServerAdv + d}},
				Steps: []step{{Kind: stOpen, Req: 0, Conn: 0}, {Kind: stAdv, D: d}, {Kind: stDeliver, Conn: 0}, {Kind: stPresent, Req: 1},
					{Kind: stPresent, Req: 0}, {Kind: stAdv, D: 59 * time.Second}, {Kind: stPresent, Req: 0}}})
		}
	}
	// a refused replay leaves the server functional: accept r; r again (refused); fresh r2 (accepted); r2 again (refused); fresh r3
	for ci, c := range []sstcp.Class{{KeyLen: 16, Segmented: true}, {KeyLen: 32, Fallback: true}, {KeyLen: 16, NIPSK: 1}, {KeyLen: 32, NIPSK: 1, Segmented: true, Fallback: true},
		{KeyLen: 32, NIPSK: 2, Prefix: 1}} {
		for _, managed := range []bool{false, true} {
			if managed && c.NIPSK == 0 {
				continue
			}
			t0 := baseServerAdv
			ps = append(ps, plan{Class: c, Seed: uint64(700 + ci), Start: t0, Managed: managed,
				Reqs: []reqSpec{{At: t0}, {At: t0 + time.Second}, {At: t0 - time.Second}, {At: t0 + 29*time.Second}},
				Steps: []step{{Kind: stPresent, Req: 0}, {Kind: stPresent, Req: 0}, {Kind: stPresent, Req: 1}, {Kind: stPresent, Req: 1}, {Kind: stPresent, Req: 2},
					{Kind: stConc, Req: 2, K: 3}, {Kind: stPresent, Req: 3}, {Kind: stForge, Req: 3, Forge: fgFlipFixed, Pos: 3}, {Kind: stPresent, Req: 0}}})
		}
	}
	// timestamps far outside any plausible range: every pattern before the genuine request (which must still be accepted), every
	// pattern again afterwards (same bytes), and the genuine request again (refused)
	for ci, c := range []sstcp.Class{{KeyLen: 16, Segmented: true}, {KeyLen: 32, NIPSK: 1, Fallback: true}, {KeyLen: 32, NIPSK: 2, Prefix: 1}} {
		pl := plan{Class: c, Seed: uint64(600 + ci), Start: baseServerAdv + 700*time.Millisecond, Reqs: []reqSpec{{At: baseServerAdv + 700*time.Millisecond}, {At: baseServerAdv + 29*time.Second}}}
		for i := range tsPatterns {
			pl.Steps = append(pl.Steps, step{Kind: stForge, Req: 0, Forge: fgRestamp, Pos: i}, step{Kind: stForge, Req: 1, Forge: fgRestamp, Pos: i})
		}
		pl.Steps = append(pl.Steps, step{Kind: stPresent, Req: 0}, step{Kind: stPresent, Req: 1}, step{Kind: stAdv, D: time.Second})
		for i := range tsPatterns {
			pl.Steps = append(pl.Steps, step{Kind: stForge, Req: 0, Forge: fgRestamp, Pos: i})
		}
		pl.Steps = append(pl.Steps, step{Kind: stPresent, Req: 0}, step{Kind: stPresent, Req: 1})
		ps = append(ps, pl)
	}
	// long uptime: the pool's first acceptance is 2^32 ms (and 2^31, 2^33 ms, 400 days) before the victim's salt is due
	for ci, c := range []sstcp.Class{{KeyLen: 16, Segmented: true}, {KeyLen: 32, NIPSK: 1, Fallback: true}} {
		for _, w := range []time.Duration{(1 << 32) * time.Millisecond, (1 << 31) * time.Millisecond, (1 << 33) * time.Millisecond, 400 * 24 * time.Hour} {
			for _, lead := range []time.Duration{time.Second, 30 * time.Second, 59 * time.Second} {
				t1 := w - lead // server instant (after Start) at which the victim is accepted
				ps = append(ps, plan{Class: c, Seed: uint64(500 + ci), Start: baseServerAdv + 300*time.Millisecond,
					Reqs: []reqSpec{{At: baseServerAdv + 300*time.Millisecond}, {At: baseServerAdv + 300*time.Millisecond + t1 + 30*time.Second},
						{At: baseServerAdv + 300*time.Millisecond + t1 + 11*time.Second}, {At: baseServerAdv + 300*time.Millisecond + t1 + 60*time.Second - time.Millisecond}},
					Steps: []step{{Kind: stPresent, Req: 0}, {Kind: stAdv, D: t1}, {Kind: stPresent, Req: 1}, {Kind: stAdv, D: 11 * time.Second}, {Kind: stPresent, Req: 2},
						{Kind: stPresent, Req: 1}, {Kind: stAdv, D: 49*time.Second - time.Millisecond}, {Kind: stPresent, Req: 3}, {Kind: stPresent, Req: 1}}})
			}
		}
	}
	// replay history must survive credential changes of a managed multi-user server
	for ci, c := range []sstcp.Class{{KeyLen: 16, NIPSK: 1, Segmented: true}, {KeyLen: 32, NIPSK: 2, Prefix: 1, Fallback: true}} {
		for op := 0; op < crOps; op++ {
			ps = append(ps, plan{Class: c, Seed: uint64(400 + ci), Start: baseServerAdv, Managed: true,
				Reqs: []reqSpec{{At: baseServerAdv}, {At: baseServerAdv + time.Second}},
				Steps: []step{{Kind: stPresent, Req: 0}, {Kind: stCred, K: op}, {Kind: stPresent, Req: 0}, {Kind: stAdv, D: time.Second},
					{Kind: stPresent, Req: 1}, {Kind: stCred, K: crEditReloadAll}, {Kind: stCred, K: crAdd}, {Kind: stConc, Req: 0, K: 3}, {Kind: stPresent, Req: 1}}})
		}
	}
	return append(ps, stallRegressionPlans()...)
}

func TestReplayRegression(t *testing.T) {
	for _, p := range regressionPlans() {
		out := execute(t, p)
		if out.violation != "" {
			t.Fatalf("%s", out.violation)
		}
		record(recReg, p, out)
	}
}

// TestReplayPlan re-runs a plan stored as JSON in $VERIF_REPLAY.
func TestReplayPlan(t *testing.T) {
	path := os.Getenv("VERIF_REPLAY")
	if path == "" {
		t.Skip("VERIF_REPLAY not set")
	}
	b, err := os.ReadFile(path)
	if err != nil {
		t.Skip(err)
	}
	var p plan
	if err := json.Unmarshal(b, &p); err != nil {
		t.Skipf("not a plan: %v", err)
	}
	if out := execute(t, p); out.violation != "" {
		t.Fatalf("%s", out.violation)
	}
}
