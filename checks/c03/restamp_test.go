package c03

import (
	"testing"
	"time"

	"verif/internal/xnet"

	"crypto/aes"
	"crypto/cipher"
	"encoding/binary"
	"fmt"

	"lukechampine.com/blake3"

	"verif/internal/sstcp"
)

// Requests whose timestamp field is far outside any plausible range cannot be produced by moving a clock (the
// fake clocks span a few hundred years at most). They are made by a key holder instead: the sealed fixed-length
// header of a genuine request is replaced by one that carries the wanted 64-bit timestamp and the same length
// field, sealed with the session subkey written down here from the SIP022 description in the code comments
// (BLAKE3 derive-key with context "shadowsocks 2022 session subkey" over PSK || salt, AES-GCM, all-zero first
// nonce). Salt, identity header and sealed variable-length header stay as the real client made them, so the
// result shares its salt with the genuine request.

const bubbleEpochUnix = 946684800 // 2000-01-01T00:00:00Z, where every synctest bubble starts

type tsPattern struct {
	name  string
	class string // evidence label
	ts    func(now uint64) uint64
}

const (
	clsMul55 = "timestamp-off-by-multiple-of-2^55s"
	clsBits  = "timestamp-extreme-bit-pattern"
	clsPow   = "timestamp-off-by-2^31..2^63s"
)

var tsPatterns = func() []tsPattern {
	var ps []tsPattern
	for _, k := range []int64{1, -1, 2, -2, 3, -3} {
		for _, e := range []int64{0, 1, -1, 29, -29, 30, -30, 31, -31} {
			d := uint64(k*(1<<55) + e) // two's complement: the field is 64 bits wide, sums wrap
			ps = append(ps, tsPattern{fmt.Sprintf("now%+d*2^55%+ds", k, e), clsMul55, func(now uint64) uint64 { return now + d }})
		}
	}
	for _, d := range []uint64{1 << 31, 1 << 32, 1 << 62, 1<<63 - 1, 1 << 63, 1 << 56, 1 << 54, 9 << 60} {
		ps = append(ps,
			tsPattern{fmt.Sprintf("now+%#x s", d), clsPow, func(now uint64) uint64 { return now + d }},
			tsPattern{fmt.Sprintf("now-%#x s", d), clsPow, func(now uint64) uint64 { return now - d }})
	}
	for _, v := range []uint64{0, 1, 1 << 63, 1<<64 - 1, 1<<63 - 1, 1<<64 - 30, 1 << 55, 1 << 32} {
		ps = append(ps, tsPattern{fmt.Sprintf("raw %#x", v), clsBits, func(uint64) uint64 { return v }})
	}
	for _, small := range []uint64{31, 100, 1 << 20} {
		// server clock + (2^64 - small): the same bits as "small seconds ago"
		ps = append(ps, tsPattern{fmt.Sprintf("now+(2^64-%d)", small), clsBits, func(now uint64) uint64 { return now + (0 - small) }})
	}
	return ps
}()

// restamp returns a copy of the genuine (relayed) request whose sealed fixed-length header carries ts.
func restamp(w *sstcp.World, genuine []byte, ts uint64) ([]byte, error) {
	p, s := len(w.ReqPrefix), w.Class.KeyLen
	fixedEnd := w.ServerFixedEnd()
	fixedStart := fixedEnd - sstcp.FixedReqLen - sstcp.TagSize
	if len(genuine) < fixedEnd+sstcp.TagSize {
		return nil, fmt.Errorf("request too short (%d bytes)", len(genuine))
	}
	salt := genuine[p : p+s]
	key := make([]byte, s)
	blake3.DeriveKey(key, "shadowsocks 2022 session subkey", append(append([]byte(nil), w.UPSK...), salt...))
	blk, err := aes.NewCipher(key)
	if err != nil {
		return nil, err
	}
	aead, err := cipher.NewGCM(blk)
	if err != nil {
		return nil, err
	}
	var hdr [sstcp.FixedReqLen]byte
	hdr[0] = 0 // client stream header
	binary.BigEndian.PutUint64(hdr[1:], ts)
	binary.BigEndian.PutUint16(hdr[9:], uint16(len(genuine)-fixedEnd-sstcp.TagSize))
	var nonce [12]byte
	out := append([]byte(nil), genuine...)
	copy(out[fixedStart:fixedEnd], aead.Seal(nil, nonce[:], hdr[:], nil))
	return out, nil
}

// TestRestampSelfCheck: the harness's own sealing of a fixed-length header is right - a request re-sealed with
// the *current* time is accepted by the real server (otherwise every absurd-timestamp refusal would be vacuous),
// and one re-sealed for 31 s ago is refused.
func TestRestampSelfCheck(t *testing.T) {
	if v := guarded(1000, func() string { return "restamp self check" }, func(failCase func(string, ...any)) { restampSelfCheck(failCase) }); v != "" {
		t.Fatal(v)
	}
}

func restampSelfCheck(failCase func(string, ...any)) {
	for _, c := range sstcp.AllClasses(2) {
		if c.Prefix == sstcp.PrefixBig {
			continue
		}
		w, err := sstcp.NewWorld(c, 77, 78)
		if err != nil {
			failCase("SIG=%s %v", sigHarness, err)
		}
		for _, delta := range []int64{0, -31} {
			_, link, err := w.Dial(sstcp.Target(1, 5), []byte("x"))
			if err != nil {
				failCase("SIG=%s %v", sigHarness, err)
			}
			g, ok := w.Relay(sstcp.Join(link.C.Written()))
			if !ok {
				failCase("SIG=%s relay refused a genuine request", sigHarness)
			}
			b, err := restamp(w, g, uint64(time.Now().Unix()+delta))
			if err != nil {
				failCase("SIG=%s %v", sigHarness, err)
			}
			_, sc := xnet.Pair()
			if !c.Segmented {
				sc.SetReadPlan(nil, w.ServerFixedEnd(), false)
			}
			sc.Inject(b)
			sc.EndInput()
			req, err := w.NewServer().HandleStream(sc, nop)
			accepted := err == nil && req.Addr.Equals(sstcp.Target(1, 5))
			if accepted != (delta == 0) {
				failCase("SIG=%s class %v: request re-sealed by the harness for now%+ds: accepted=%v err=%v", sigHarness, c, delta, accepted, err)
			}
		}
	}
}
