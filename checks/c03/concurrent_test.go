package c03

import (
	"fmt"
	"os"
	"sync"
	"testing"

	"pgregory.net/rapid"

	"verif/internal/ev"
	"verif/internal/sstcp"
	"verif/internal/xnet"
)

var recConc = ev.New("C03", "replay-concurrent",
	"rapid, real goroutines on the real clock: configuration class x m in 1..4 fresh requests built by the real client x k in 2..32 copies of each "+
		"x forged variants of the same salts, all presented to one server at once behind a start barrier (optionally after one sequential "+
		"presentation of some of them). Oracle: per request at most one presentation succeeds, at least one does, forged ones never. "+
		"Non-trivial: at least two copies of one request were in flight together; distinct key = class + m + k + pre-presented mask").
	Require("k>=8", "pre-presented", "with-forged")

// TestConcurrentPresentations decides the "whether the copies arrive one after another or
// concurrently" part with schedules the Go scheduler produces (also run under -race).
func TestConcurrentPresentations(t *testing.T) {
	rapid.Check(t, func(rt *rapid.T) {
		class := drawClass(rt)
		if class.Prefix == sstcp.PrefixBig { // 70 KB per copy buys nothing here
			class.Prefix = sstcp.PrefixShort
		}
		seed := rapid.Uint64().Draw(rt, "seed")
		m := rapid.IntRange(1, 4).Draw(rt, "m")
		k := at([]int{2, 3, 8, 16, 32, 5}, rapid.IntRange(0, 5).Draw(rt, "k"))
		if os.Getenv("VERIF_C03_LIGHT") != "" { // -race stage: the detector makes every goroutine very expensive
			m, k = min(m, 2), min(k, 8)
		}
		pre := rapid.IntRange(0, 1<<m-1).Draw(rt, "pre")
		forged := rapid.IntRange(0, 3).Draw(rt, "forged")
		if v := guarded(m*(k+forged)+10, func() string {
			return fmt.Sprintf("concurrent case class=%v m=%d k=%d pre=%b forged=%d", class, m, k, pre, forged)
		}, func(failCase func(string, ...any)) {
			w, err := sstcp.NewWorld(class, seed, seed^0xA5A5)
			if err != nil {
				failCase("SIG=%s world: %v", sigHarness, err)
			}
			p := plan{Class: class, Seed: seed}
			wire := make([][]byte, m)
			for i := range wire {
				_, link, err := w.Dial(p.target(i), sstcp.Bytes(i*7, seed+uint64(i)))
				if err != nil {
					failCase("SIG=%s dial: %v", sigHarness, err)
				}
				s, ok := w.Relay(sstcp.Join(link.C.Written()))
				if !ok {
					failCase("SIG=%s relay refused a genuine request", sigHarness)
				}
				wire[i] = s
			}
			fixedEnd := w.ServerFixedEnd()
			server := w.NewServer()
			present := func(b []byte, i int) bool {
				_, c := xnet.Pair()
				if !class.Segmented {
					c.SetReadPlan(nil, fixedEnd, false)
				}
				c.Inject(b)
				c.EndInput()
				req, err := server.HandleStream(c, nop)
				return err == nil && !req.Addr.Equals(sstcp.FallbackAddr) && req.Addr.Equals(p.target(i))
			}
			already := make([]bool, m)
			for i := range wire {
				if pre>>i&1 == 1 {
					if !present(wire[i], i) {
						failCase("SIG=%s request %d refused on its first, sequential presentation (class %v)", sigRefused, i, class)
					}
					already[i] = true
				}
			}
			succ := make([][]bool, m)
			forgedOK := make([][]bool, m)
			start := make(chan struct{})
			var wg sync.WaitGroup
			for i := range wire {
				succ[i] = make([]bool, k)
				forgedOK[i] = make([]bool, forged)
				for j := 0; j < k; j++ {
					wg.Go(func() {
						<-start
						succ[i][j] = present(wire[i], i)
					})
				}
				for j := 0; j < forged; j++ {
					b := append([]byte(nil), wire[i]...)
					b[fixedEnd-1-j] ^= 0x40 // tag of the fixed-length header
					wg.Go(func() {
						<-start
						forgedOK[i][j] = present(b, i)
					})
				}
			}
			close(start)
			wg.Wait()
			for i := range wire {
				n := 0
				for _, ok := range succ[i] {
					if ok {
						n++
					}
				}
				for _, ok := range forgedOK[i] {
					if ok {
						failCase("SIG=%s forged copy of request %d accepted (class %v)", sigForged, i, class)
					}
				}
				switch {
				case already[i] && n > 0:
					failCase("SIG=C03/replay-accepted-concurrently-after-accept request %d was accepted sequentially and %d of %d concurrent copies were accepted again (class %v, m=%d)", i, n, k, class, m)
				case !already[i] && n > 1:
					failCase("SIG=%s %d of %d concurrent copies of request %d accepted (class %v, m=%d)", sigConcDup, n, k, i, class, m)
				case !already[i] && n == 0:
					failCase("SIG=%s none of %d concurrent copies of fresh request %d accepted (class %v, m=%d, forged=%d)", sigConcNone, k, i, class, m, forged)
				}
			}
			var labels []string
			if k >= 8 {
				labels = append(labels, "k>=8")
			}
			if pre != 0 {
				labels = append(labels, "pre-presented")
			}
			if forged > 0 {
				labels = append(labels, "with-forged")
			}
			recConc.Case(fmt.Sprintf("%v|%d|%d|%d", class, m, k, pre), true, labels...)
			recConc.Sample(map[string]any{"class": class.String(), "requests": m, "copies": k, "pre_presented_mask": pre, "forged_per_request": forged})
		}); v != "" {
			rt.Fatalf("%s", v)
		}
	})
}
