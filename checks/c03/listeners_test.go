package c03

import (
	"bytes"
	"context"
	"encoding/json"
	"fmt"
	"io"
	"net"
	"net/netip"
	"sync"
	"testing"
	"time"

	"github.com/database64128/shadowsocks-go/conn"
	"github.com/database64128/shadowsocks-go/service"
	"go.uber.org/zap"
	"go.uber.org/zap/zapcore"
	"go.uber.org/zap/zaptest/observer"

	"verif/internal/ev"
	"verif/internal/sstcp"
)

// "Accepted at most once" is a promise of the *server*. This stage runs the real service (service.Config ->
// Manager -> Run) on loopback with one Shadowsocks 2022 server that has several TCP listeners, a second server
// with the same PSK (independent by definition: nothing is asserted about it), the direct client and a counting
// echo target. Real sockets, real time; every wait is bounded and generous, and a wait that runs out is reported
// with a signature instead of hanging the stage.

var recLsn = ev.New("C03", "replay-listeners",
	"real service on loopback: key 16/32 x 2..3 tcpListeners of one ss2022 server + a second server with the same PSK + counting echo target. The real client's "+
		"first flight (salt..initial payload) is sent to listener A and completes (echo comes back through the tunnel); the identical bytes are then sent to "+
		"listener B, to A again and to the remaining listener; then a fresh request goes to B. Oracle: the target sees exactly one connection carrying the "+
		"replayed payload, every replay is logged as a failed handshake and never answered with tunnel data, the fresh request is proxied promptly. "+
		"Non-trivial: a replay reached a listener other than the one that accepted the original; distinct key = key length + listeners + order").
	Require("replay-on-another-listener-of-the-same-server", "replay-on-the-same-listener", "fresh-request-after-refused-replays")

const lsnBound = 15 * time.Second // generous bound for anything that normally takes milliseconds

type echoTarget struct {
	ln    net.Listener
	mu    sync.Mutex
	seen  [][]byte // first bytes of every accepted connection
	wg    sync.WaitGroup
	nRead int
}

func newEchoTarget(nRead int) (*echoTarget, error) {
	ln, err := net.Listen("tcp4", "127.0.0.1:0")
	if err != nil {
		return nil, err
	}
	e := &echoTarget{ln: ln, nRead: nRead}
	e.wg.Go(func() {
		for {
			c, err := ln.Accept()
			if err != nil {
				return
			}
			e.wg.Go(func() {
				defer c.Close()
				_ = c.SetDeadline(time.Now().Add(lsnBound))
				buf := make([]byte, e.nRead)
				n, _ := io.ReadFull(c, buf)
				e.mu.Lock()
				e.seen = append(e.seen, append([]byte(nil), buf[:n]...))
				e.mu.Unlock()
				_, _ = c.Write(buf[:n])
			})
		}
	})
	return e, nil
}

func (e *echoTarget) count(payload []byte) (carrying, total int) {
	e.mu.Lock()
	defer e.mu.Unlock()
	for _, s := range e.seen {
		if bytes.Equal(s, payload) {
			carrying++
		}
	}
	return carrying, len(e.seen)
}

func (e *echoTarget) close() { e.ln.Close(); e.wg.Wait() }

func waitUntil(cond func() bool) bool {
	deadline := time.Now().Add(lsnBound)
	for !cond() {
		if time.Now().After(deadline) {
			return false
		}
		time.Sleep(time.Millisecond)
	}
	return true
}

// sendRaw writes b to addr and reads whatever comes back until EOF / reset / the bound.
func sendRaw(addr string, b []byte) (back []byte, err error) {
	c, err := net.DialTimeout("tcp4", addr, lsnBound)
	if err != nil {
		return nil, err
	}
	defer c.Close()
	_ = c.SetDeadline(time.Now().Add(lsnBound))
	if _, err = c.Write(b); err != nil {
		return nil, err
	}
	back, err = io.ReadAll(c)
	return back, err
}

func TestReplayAcrossListeners(t *testing.T) {
	type obj = map[string]any
	for ci, cfg := range []struct{ keyLen, listeners int }{{16, 3}, {32, 2}} {
		class := sstcp.Class{KeyLen: cfg.keyLen, Segmented: ci%2 == 0}
		w, err := sstcp.NewWorld(class, uint64(900+ci), uint64(901+ci))
		if err != nil {
			t.Fatal(err)
		}
		const plen = 48
		target, err := newEchoTarget(plen)
		if err != nil {
			t.Fatal(err)
		}
		proto := map[int]string{16: "2022-blake3-aes-128-gcm", 32: "2022-blake3-aes-256-gcm"}[cfg.keyLen]
		lsn := func() obj {
			return obj{"network": "tcp4", "address": "127.0.0.1:0", "initialPayloadWaitTimeout": "50ms"}
		}
		var lsns []obj
		for i := 0; i < cfg.listeners; i++ {
			lsns = append(lsns, lsn())
		}
		cfgJSON, _ := json.Marshal(obj{
			"servers": []obj{
				{"name": "ss", "protocol": proto, "psk": w.UPSK, "tcpListeners": lsns, "allowSegmentedFixedLengthHeader": class.Segmented},
				{"name": "ss-other", "protocol": proto, "psk": w.UPSK, "tcpListeners": []obj{lsn()}, "allowSegmentedFixedLengthHeader": class.Segmented},
			},
			"clients": []obj{{"name": "direct", "protocol": "direct", "network": "ip4", "enableTCP": true}},
		})
		var sc service.Config
		dec := json.NewDecoder(bytes.NewReader(cfgJSON))
		dec.DisallowUnknownFields()
		if err := dec.Decode(&sc); err != nil {
			t.Fatalf("SIG=%s config: %v", sigHarness, err)
		}
		core, logs := observer.New(zapcore.InfoLevel)
		mgr, err := sc.Manager(zap.New(core))
		if err != nil {
			t.Fatalf("SIG=%s manager: %v", sigHarness, err)
		}
		ctx, cancel := context.WithCancel(context.Background())
		done := make(chan bool, 1)
		go func() { done <- mgr.Run(ctx) }()
		stop := func() {
			cancel()
			select {
			case <-done:
			case <-time.After(lsnBound):
				t.Errorf("SIG=C03/service-did-not-stop Run did not return within %v", lsnBound)
			}
			mgr.Close()
			target.close()
		}
		addrs := func(server string) (out []string) {
			for _, e := range logs.FilterMessage("Started TCP relay service listener").All() {
				cm := e.ContextMap()
				if cm["server"] == server {
					out = append(out, cm["listenAddress"].(string))
				}
			}
			return
		}
		if !waitUntil(func() bool { return len(addrs("ss")) == cfg.listeners && len(addrs("ss-other")) == 1 }) {
			stop()
			t.Fatalf("SIG=%s listeners did not come up: %v", sigHarness, addrs("ss"))
		}
		la := addrs("ss")
		failed := func() int { return logs.FilterMessage("Failed to complete handshake with client").Len() }

		// the genuine first flight, built by the real client
		taddr := conn.AddrFromIPPort(netip.MustParseAddrPort(target.ln.Addr().String()))
		payload := sstcp.Bytes(plen, uint64(77+ci))
		cc, link, err := w.Dial(taddr, payload)
		if err != nil {
			stop()
			t.Fatal(err)
		}
		flight := sstcp.Join(link.C.Written())

		fail := ""
		violate := func(sig, f string, a ...any) {
			if fail == "" {
				fail = "SIG=C03/" + sig + " " + fmt.Sprintf(f, a...) + fmt.Sprintf(" | key %d, %d listeners %v", cfg.keyLen, cfg.listeners, la)
			}
		}
		// original on listener A: must complete, the echo must come back through the tunnel
		back, _ := sendRaw(la[0], flight)
		link.C.Inject(back)
		link.C.EndInput()
		got, _ := io.ReadAll(cc)
		if c, _ := target.count(payload); c != 1 || !bytes.Equal(got, payload) {
			violate("genuine-request-not-proxied", "original request on listener 0: target connections carrying the payload: %d, echo through the tunnel %d of %d bytes", c, len(got), plen)
		}
		labels := map[string]bool{}
		order := []int{1, 0}
		for i := 2; i < cfg.listeners; i++ {
			order = append(order, i)
		}
		for _, li := range order {
			if fail != "" {
				break
			}
			before := failed()
			back, _ := sendRaw(la[li], flight)
			ok := waitUntil(func() bool { c, _ := target.count(payload); return failed() > before || c > 1 })
			c, total := target.count(payload)
			switch {
			case c > 1:
				violate("replay-proxied-on-listener", "the identical first flight sent to listener %d after it had completed on listener 0 was proxied: the target saw %d connections carrying its payload (%d in total)", li, c, total)
			case !ok:
				violate("presentation-did-not-complete", "replay on listener %d was neither refused (no failed-handshake log) nor proxied within %v", li, lsnBound)
			case len(back) > 0:
				violate("replay-answered", "replay on listener %d was answered with %d bytes", li, len(back))
			}
			if li == 0 {
				labels["replay-on-the-same-listener"] = true
			} else {
				labels["replay-on-another-listener-of-the-same-server"] = true
			}
		}
		// a second server with the same PSK is a different server: whatever it does with these bytes is fine
		if fail == "" {
			_, _ = sendRaw(addrs("ss-other")[0], flight)
			labels["same-bytes-to-a-second-server-with-the-same-psk(no verdict)"] = true
		}
		// a refused replay leaves the server functional: a fresh request on listener B is proxied promptly
		if fail == "" {
			payload2 := sstcp.Bytes(plen, uint64(177+ci))
			cc2, link2, err := w.Dial(taddr, payload2)
			if err != nil {
				violate("harness", "dial: %v", err)
			} else {
				t0 := time.Now()
				back, _ := sendRaw(la[1], sstcp.Join(link2.C.Written()))
				link2.C.Inject(back)
				link2.C.EndInput()
				got, _ := io.ReadAll(cc2)
				if c, _ := target.count(payload2); c != 1 || !bytes.Equal(got, payload2) {
					violate("fresh-request-refused-after-replays", "fresh request on listener 1 after the refused replays: target connections %d, echo %d of %d bytes (took %v)", c, len(got), plen, time.Since(t0))
				}
				labels["fresh-request-after-refused-replays"] = true
			}
		}
		stop()
		if fail != "" {
			t.Fatal(fail)
		}
		ls := make([]string, 0, len(labels))
		for l := range labels {
			ls = append(ls, l)
		}
		recLsn.Case(fmt.Sprintf("k%d|%d|%v", cfg.keyLen, cfg.listeners, order), true, ls...)
		recLsn.Sample(map[string]any{"key": cfg.keyLen, "listeners": cfg.listeners, "replay_order": order})
	}
}
