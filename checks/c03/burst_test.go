package c03

import (
	"encoding/binary"
	"fmt"
	"os"
	"strconv"
	"testing"
	"time"

	"github.com/database64128/shadowsocks-go/ss2022"
	"pgregory.net/rapid"

	"verif/internal/ev"
	"verif/internal/sstcp"
)

// ---- bursts of full handshakes -----------------------------------------------------------------------

var recBurst = ev.New("C03", "replay-bursts",
	"rapid (few, large cases): configuration class x a burst of N in 1200..VERIF_C03_BURST_MAX requests built by the real client and accepted by one server in two "+
		"waves (same window), at once the first two, a random and the last burst member again (flood: N-1 later acceptances in the same window), then thinning traffic (M < N/4 requests accepted 15-45 s later, client clocks 0..30 s ahead), then the clock moves to the "+
		"instant the burst's salts run out (+0/1ns/1s/5s) and one more request is accepted (this Add prunes the pool to under a quarter of its peak); then the "+
		"same bytes again of: the request accepted last before that Add, the first and random ones of the thinning wave, the new one, members of the burst; "+
		"another accept; the victims again. Same executor and model as replay-history (two synctest bubbles). Non-trivial as there; distinct key = class + N/64 + parameters").
	Require("burst>=1200", "replay-in-window", "replay-of-newest-after-pool-shrank")

func envInt(name string, def int) int {
	if v, err := strconv.Atoi(os.Getenv(name)); err == nil && v > 0 {
		return v
	}
	return def
}

func TestBurstHandshakes(t *testing.T) {
	maxN := envInt("VERIF_C03_BURST_MAX", 1600)
	minN := min(envInt("VERIF_C03_BURST_MIN", 1200), maxN)
	rapid.Check(t, func(rt *rapid.T) {
		class := drawClass(rt)
		if class.Prefix == sstcp.PrefixBig {
			class.Prefix = sstcp.PrefixNone
		}
		p := plan{Class: class, Seed: rapid.Uint64().Draw(rt, "seed"), Start: baseServerAdv}
		p.Managed = class.NIPSK > 0 && rapid.Bool().Draw(rt, "managed")
		n := rapid.IntRange(minN, maxN).Draw(rt, "n")
		split := rapid.IntRange(1, n-1).Draw(rt, "split")
		db := at([]time.Duration{0, time.Nanosecond, time.Second, 10 * time.Second}, rapid.IntRange(0, 3).Draw(rt, "burstgap"))
		d1 := at([]time.Duration{45 * time.Second, 30 * time.Second, 15 * time.Second, 59 * time.Second}, rapid.IntRange(0, 3).Draw(rt, "thin-at"))
		m := rapid.IntRange(1, n/4-3).Draw(rt, "thin-n")
		skewT := at([]time.Duration{30 * time.Second, 29 * time.Second, 0, 30*time.Second + 500*time.Millisecond}, rapid.IntRange(0, 3).Draw(rt, "thin-skew"))
		eps := at([]time.Duration{0, time.Nanosecond, time.Second, 5 * time.Second}, rapid.IntRange(0, 3).Draw(rt, "eps"))
		pick := rapid.SliceOfN(rapid.IntRange(0, 1<<20), 5, 5).Draw(rt, "picks")

		now := p.Start
		add := func(at time.Duration) int {
			p.Reqs = append(p.Reqs, reqSpec{At: at})
			return len(p.Reqs) - 1
		}
		present := func(r int) { p.Steps = append(p.Steps, step{Kind: stPresent, Req: r}) }
		adv := func(d time.Duration) {
			if d > 0 {
				p.Steps = append(p.Steps, step{Kind: stAdv, D: d})
				now += d
			}
		}
		for i := 0; i < n; i++ {
			if i == split {
				adv(db)
			}
			skew := time.Duration(0)
			if i%2 == 0 {
				skew = 30 * time.Second
			}
			present(add(now + skew))
		}
		lastBurst := now
		// flood: the earliest requests of the burst again, right after n-1 / n-2 / ... others were accepted in the same window
		present(0)
		present(1)
		present(pick[3] % n)
		present(n - 1)
		adv(p.Start + d1 - now)
		firstThin := len(p.Reqs)
		for i := 0; i < m; i++ {
			present(add(now + skewT))
		}
		victim := len(p.Reqs) - 1
		adv(lastBurst + 60*time.Second + eps - now)
		f1 := add(now)
		present(f1)
		present(victim)
		present(firstThin)
		present(f1)
		for _, k := range pick[:3] {
			present(firstThin + k%m)
		}
		present(pick[3] % n)
		present(pick[4] % n)
		present(add(now))
		present(victim)
		p.Steps = append(p.Steps, step{Kind: stConc, Req: victim, K: 3})
		present(f1)

		out := execute(t, p)
		if out.violation != "" {
			rt.Fatalf("%s | burst N=%d split=%d gap=%v thinning M=%d at +%v skew %v eps=%v", out.violation, n, split, db, m, d1, skewT, eps)
		}
		out.labels["burst>=1200"] = true
		if n > 16500 {
			out.labels["burst>16500-then-replay-of-the-first"] = true
		}
		if validAt(p.Reqs[victim].At, now) {
			out.labels["replay-of-newest-after-pool-shrank"] = true
		}
		out.key = fmt.Sprintf("%v|%d|%v|%v|%v|%v", class, n/64, db, d1, skewT, eps)
		record(recBurst, plan{Class: p.Class, Seed: p.Seed, Managed: p.Managed, Start: p.Start, Steps: p.Steps[len(p.Steps)-12:], Reqs: nil}, out)
	})
}

// ---- the salt pool on its own: same model, thousands of salts per case --------------------------------

var recPool = ev.New("C03", "saltpool-model",
	"rapid: ss2022.SaltPool driven directly with caller-supplied instants: steps over {burst of n in {1,2,10,255,256,300,1023,1024,1025,1200,2000,3000} new "+
		"salts 0/1us/10ms apart (also 16383/16384/16385/20000/70000), a flood probe (one salt, a burst of 16383..70000 more, the first one again), an uptime probe "+
		"(first add fixes the epoch; clock to epoch+{2^31,2^32,2^33 ms,2^22 s,1 day,400 days}+-{0,1ns,1ms,500ms,30s,60s}-lead; victim; +gap; another add; victim again), advance (0,1ns,1ms,1s,11s,29..31s,59s,59.5s,60s-1ms,60s-1ns,60s,60s+1ns,61s,2^31 ms,2^32 ms,400 days, or aimed at the expiry of the oldest live / newest / largest-burst "+
		"salt +-1ns), add one new salt, re-add or query (Contains/TryContains) the newest, second newest, newest-before-the-last-add, oldest live, a random live, "+
		"a random expired salt}. Model: a salt is live for 60 s after it was added; Add of a live salt must return false, Add of a never-added salt true, "+
		"Contains of a live salt true, of a never-added one false; expired salts may go either way. Non-trivial: a live salt was re-added after the pool "+
		"held at least 1024 salts and an Add had pruned; distinct key = step classes").
	Require("peak>=1024", "readd-live-after-prune", "readd-newest-live-after-pool-shrank-to-quarter", "readd-expired",
		"readd-live-after->16384-later-salts", "readd-live-after->65536-later-salts", "readd-live-after-2^32ms-uptime",
		"contains-live", "add-after-lookup-of-a-present-salt")

func TestSaltPoolModel(t *testing.T) {
	const retention = 60 * time.Second // documented salt retention (docs/FIXES.md adaf1bd, ss2022/header.go)
	type rawOp struct {
		Kind, A, B, C int
		T             time.Duration // kind 20: absolute target relative to the first add
	}
	gen := rapid.Custom(func(t *rapid.T) rawOp {
		return rawOp{Kind: rapid.IntRange(0, 13).Draw(t, "kind"), A: rapid.IntRange(0, 63).Draw(t, "a"), B: rapid.IntRange(0, 63).Draw(t, "b"), C: rapid.IntRange(0, 1<<20).Draw(t, "c")}
	})
	rapid.Check(t, func(rt *rapid.T) {
		ops := rapid.SliceOfN(gen, 1, 30).Draw(rt, "ops")
		var hist []string
		if v := guarded(1000, func() string { return fmt.Sprintf("pool history: %v", hist) }, func(failCase func(string, ...any)) {
			var pool ss2022.SaltPool
			base := time.Date(2026, 1, 1, 0, 0, 0, 0, time.UTC)
			now := time.Duration(0)
			type entry struct {
				id    int
				added time.Duration
			}
			var order []entry // successful adds in order (an id may occur again after it expired)
			addedAt := map[int]time.Duration{}
			next := 0
			salt := func(id int) (s [32]byte) {
				binary.BigEndian.PutUint64(s[:], uint64(id)*0x9e3779b97f4a7c15+1)
				binary.BigEndian.PutUint64(s[24:], uint64(id))
				return
			}
			live := func(id int) bool { a, ok := addedAt[id]; return ok && now < a+retention }
			firstLive := 0 // the clock only moves forward, so the live entries are a suffix of order
			liveCount := func() int {
				for firstLive < len(order) && now >= order[firstLive].added+retention {
					firstLive++
				}
				return len(order) - firstLive
			}
			labels := map[string]bool{}
			var key []byte
			peak, pruned, shrunk := 0, false, false
			queriedLive := false // a lookup-only call found a salt that is present
			var lastAddIdx int   // index in order of the most recent successful add
			note := func(f string, a ...any) {
				if len(hist) < 60 {
					hist = append(hist, fmt.Sprintf(f, a...))
				}
				progressStep.Add(1)
				progressWhat.Store(fmt.Sprintf(f, a...))
			}
			fail := func(sig, f string, a ...any) {
				failCase("SIG=C03/%s %s | at +%v; history: %v", sig, fmt.Sprintf(f, a...), now, hist)
			}
			addNew := func() {
				before := liveCount()
				total := len(addedAt)
				id := next
				next++
				if queriedLive {
					labels["add-after-lookup-of-a-present-salt"] = true
				}
				if !pool.Add(base.Add(now), salt(id)) {
					fail("saltpool-fresh-salt-refused", "Add of never-added salt #%d returned false", id)
				}
				addedAt[id] = now
				order = append(order, entry{id, now})
				lastAddIdx = len(order) - 1
				if before+1 > peak {
					peak = before + 1
				}
				_ = total
			}
			target := func(sel, c int) (int, bool) {
				if len(order) == 0 {
					return 0, false
				}
				switch sel % 6 {
				case 0:
					return order[len(order)-1].id, true
				case 1:
					return order[max(len(order)-2, 0)].id, true
				case 2:
					return order[max(lastAddIdx-1, 0)].id, true
				case 3: // oldest live
					liveCount()
					if firstLive < len(order) {
						return order[firstLive].id, true
					}
					return order[0].id, true
				case 4:
					return order[c%len(order)].id, true
				default: // an expired one if there is any
					for i := range order {
						e := order[(i+c)%len(order)]
						if !live(e.id) {
							return e.id, true
						}
					}
					return order[c%len(order)].id, true
				}
			}
			// composite steps are expanded into primitive ones
			var xs []rawOp
			for _, op := range ops {
				switch {
				case op.Kind == 12 && op.C%4 != 0: // (floods are expensive: a quarter of the draws)
					xs = append(xs, rawOp{Kind: 4}, rawOp{Kind: 5, A: 0})
					continue
				case op.Kind == 12:
					// flood probe: one salt, then more salts than any plausible cap within the same window, then the first one again
					xs = append(xs, rawOp{Kind: 4}, rawOp{Kind: 0, A: 12 + op.A%8, B: op.B % 2}, rawOp{Kind: 5, A: 3}, rawOp{Kind: 5, A: 4, C: op.C}, rawOp{Kind: 5, A: 0})
					continue
				case op.Kind == 13:
					// uptime probe: the first add fixes the pool's epoch; epoch + W + fine - lead: victim; +gap: another add; victim again
					lead := at([]time.Duration{time.Second, 30 * time.Second, 59 * time.Second, 0, 60 * time.Second, 11 * time.Second}, op.A)
					xs = append(xs, rawOp{Kind: 4}, rawOp{Kind: 20, T: at(uptimeAlphabet, op.B) + at(uptimeFine, op.C) - lead}, rawOp{Kind: 4},
						rawOp{Kind: 2, A: 11 + op.C/16%4}, rawOp{Kind: 4}, rawOp{Kind: 5, A: 2}, rawOp{Kind: 5, A: 3})
					continue
				}
				if op.Kind >= 10 {
					// shrink probe: burst; a little later a small wave; wait until the burst has just run out; one Add (prunes the pool
					// to a fraction of its peak); re-add the newest-before-that-Add, the newest, the oldest live
					xs = append(xs, rawOp{Kind: 0, A: op.A % 7, B: op.B}, rawOp{Kind: 2, A: op.A / 7 % 4}, rawOp{Kind: 0, A: 7 + op.B%5}, rawOp{Kind: 3, A: 2, B: op.C % 5}, rawOp{Kind: 4},
						rawOp{Kind: 5, A: 2}, rawOp{Kind: 5, A: op.C / 5 % 6, C: op.C}, rawOp{Kind: 5, A: 3})
				} else {
					xs = append(xs, op)
				}
			}
			burstEnd := time.Duration(0) // instant of the last salt of the largest burst so far
			burstMax := 0
			for _, op := range xs {
				switch {
				case op.Kind <= 1: // burst
					n := at([]int{1200, 1024, 300, 3000, 1025, 1023, 2000, 10, 256, 255, 2, 1, 16385, 20000, 16384, 17000, 16383, 70000, 18000, 16500}, op.A%(12+8*((op.C+op.B)%2)))
					gap := at([]time.Duration{0, time.Microsecond, 10 * time.Millisecond}, op.B)
					note("burst(%d, gap %v)", n, gap)
					lc := liveCount()
					for i := 0; i < n; i++ {
						id := next
						next++
						if !pool.Add(base.Add(now), salt(id)) {
							fail("saltpool-fresh-salt-refused", "Add of never-added salt #%d returned false (burst)", id)
						}
						addedAt[id] = now
						order = append(order, entry{id, now})
						now += gap
					}
					lastAddIdx = len(order) - 1
					_ = lc
					if n >= burstMax {
						burstMax, burstEnd = n, order[len(order)-1].added
					}
					key = append(key, 'B')
				case op.Kind <= 3: // advance
					var d time.Duration
					if op.Kind == 2 || len(order) == 0 {
						d = at([]time.Duration{time.Second, 30 * time.Second, 60 * time.Second, 29 * time.Second, 31 * time.Second, 59 * time.Second, 60*time.Second - 1, 60*time.Second + 1,
							61 * time.Second, 0, 1, 11 * time.Second, time.Millisecond, 60*time.Second - time.Millisecond, 59*time.Second + 500*time.Millisecond,
							(1 << 32) * time.Millisecond, (1 << 31) * time.Millisecond, 400 * 24 * time.Hour}, op.A)
					} else {
						var anchor time.Duration
						switch op.A % 3 {
						case 0: // oldest live
							anchor = order[0].added
							for _, e := range order {
								if live(e.id) {
									anchor = e.added
									break
								}
							}
						case 1:
							anchor = order[len(order)-1].added
						default: // the last salt of the largest burst
							anchor = burstEnd
						}
						d = anchor + retention + at([]time.Duration{0, -1, 1, -time.Second, time.Second}, op.B) - now
						if d < 0 {
							d = time.Second
						}
					}
					note("+%v", d)
					now += d
					key = append(key, 'A')
				case op.Kind == 20: // advance to an absolute instant relative to the first add
					if len(order) == 0 {
						continue
					}
					if d := order[0].added + op.T - now; d > 0 {
						note("+%v", d)
						now += d
					}
					key = append(key, 'U')
				case op.Kind == 4: // one new salt
					before := liveCount()
					beforeModel := len(order)
					addNew()
					_ = beforeModel
					// this Add pruned if something expired since the previous Add
					if before < peak {
						pruned = true
					}
					if peak >= 1024 && before+1 <= peak/4 {
						shrunk = true
					}
					note("add(#%d)", next-1)
					key = append(key, 'n')
				case op.Kind <= 7: // re-add
					id, ok := target(op.A, op.C)
					if !ok {
						continue
					}
					wasLive := live(id)
					got := pool.Add(base.Add(now), salt(id))
					note("readd(#%d live=%v)=%v", id, wasLive, got)
					switch {
					case wasLive && got:
						fail("saltpool-live-salt-added-twice", "salt #%d added at +%v was accepted again at +%v (%v later, retention 60s; live salts in the model: %d, peak %d)",
							id, addedAt[id], now, now-addedAt[id], liveCount(), peak)
					case wasLive:
						labels["readd-live"] = true
						if later := len(order) - 1 - func() int {
							for i := len(order) - 1; i >= 0; i-- {
								if order[i].id == id {
									return i
								}
							}
							return 0
						}(); later > 16384 {
							labels["readd-live-after->16384-later-salts"] = true
							if later > 65536 {
								labels["readd-live-after->65536-later-salts"] = true
							}
						}
						if len(order) > 0 && now-order[0].added >= (1<<32)*time.Millisecond-61*time.Second {
							labels["readd-live-after-2^32ms-uptime"] = true
						}
						if pruned {
							labels["readd-live-after-prune"] = true
						}
						if shrunk && len(order) >= 2 && (id == order[len(order)-1].id || id == order[max(lastAddIdx-1, 0)].id || id == order[max(len(order)-2, 0)].id) {
							labels["readd-newest-live-after-pool-shrank-to-quarter"] = true
						}
						key = append(key, 'r')
					default:
						labels["readd-expired"] = true
						if got {
							addedAt[id] = now
							order = append(order, entry{id, now})
							lastAddIdx = len(order) - 1
						}
						key = append(key, 'e')
					}
				default: // query
					id, ok := target(op.A, op.C)
					note("contains(#%d)", id)
					if ok && live(id) {
						queriedLive = true
						if !pool.Contains(salt(id)) || !pool.TryContains(salt(id)) {
							fail("saltpool-live-salt-not-contained", "Contains/TryContains(#%d) = false although it was added %v ago", id, now-addedAt[id])
						}
						labels["contains-live"] = true
					}
					if pool.Contains(salt(next+1000)) || pool.TryContains(salt(next+1000)) {
						fail("saltpool-contains-unknown", "Contains of a never-added salt returned true")
					}
					key = append(key, 'q')
				}
				if lc := liveCount(); lc > peak {
					peak = lc
				}
			}
			if peak >= 1024 {
				labels["peak>=1024"] = true
			}
			ls := make([]string, 0, len(labels))
			for l := range labels {
				ls = append(ls, l)
			}
			nt := labels["readd-live-after-prune"] && peak >= 1024
			recPool.Case(string(key), nt, ls...)
			if nt {
				recPool.Sample(map[string]any{"history": hist, "peak": peak})
			}
		}); v != "" {
			rt.Fatalf("%s", v)
		}
	})
}
