package c03

import (
	"fmt"
	"os"
	"strconv"
	"strings"
	"testing"
	"time"

	"pgregory.net/rapid"

	"verif/internal/ev"
	"verif/internal/sstcp"
)

// Stalled presentations (round 6). The bytes of one presentation reach the server in two or three parts cut at
// structural boundaries of the request, with the server clock moving in between, while other presentations (a
// byte-identical complete copy, fresh requests that are accepted - so the salt pool is pruned -, unauthenticated
// traffic on the same salt) happen during the stall. Reference rule (from the property text): the timestamp of a
// presentation is judged at the instant its fixed-length header has arrived completely; among all presentations of
// the same bytes at most one is ever accepted, however much later the rest of a stalled one arrives; a presentation
// that is valid at that instant and the first of its bytes to get that far is accepted when its last byte arrives
// (unless a copy was accepted meanwhile); a stalled presentation that is never completed leaves nothing behind that
// refuses a FRESH request. What is deliberately not demanded: once a presentation's fixed-length header was judged
// valid, later presentations of the same bytes may be refused even if the first one is never completed (the protocol
// stores the salt at that point, see NOTES "Limits").

// cut classes: where a part of a request ends
const (
	cutSalt       = iota // after the salt
	cutFixed             // after salt (+ identity header) + fixed-length header including its tag
	cutVar               // inside the variable-length header (position from the variation)
	cutLast              // last byte withheld
	cutFixedShort        // last byte of the fixed-length header's tag withheld
	cutInSalt            // inside the salt
	cutVar1              // one byte of the variable-length header
	cutVarBody           // the variable-length header without its tag
	cutClasses
)

var cutNames = [...]string{"the salt", "the fixed-length header", "inside the variable-length header", "all but the last byte", "one byte short of the fixed-length header",
	"inside the salt", "one byte of the variable-length header", "the variable-length header without its tag"}

func cutName(class, variation int) string {
	c := ((class % cutClasses) + cutClasses) % cutClasses
	s := cutNames[c]
	if c == cutVar || c == cutInSalt {
		s = fmt.Sprintf("%s (#%d)", s, variation)
	}
	if c == cutSalt || c == cutInSalt || c == cutFixedShort {
		s += " [segmented headers not allowed: the fixed-length header]"
	}
	return s
}

// cutOffset: the number of bytes of a request of length n that have arrived after the part ending at the cut. Without
// AllowSegmentedFixedLengthHeader the first part always covers the fixed-length header (the server documents that it
// wants it in one read), so cuts before its end move to its end.
func cutOffset(class, variation, pfx, saltLen, fixedEnd, n int, segmented bool) int {
	if variation < 0 {
		variation = -variation
	}
	var c int
	switch ((class % cutClasses) + cutClasses) % cutClasses {
	case cutSalt:
		c = pfx + saltLen
	case cutFixed:
		c = fixedEnd
	case cutVar:
		c = fixedEnd + 1 + variation%max(1, n-fixedEnd-2)
	case cutLast:
		c = n - 1
	case cutFixedShort:
		c = fixedEnd - 1
	case cutInSalt:
		c = pfx + 1 + variation%(saltLen-1)
	case cutVar1:
		c = fixedEnd + 1
	case cutVarBody:
		c = n - sstcp.TagSize
	}
	if !segmented && c < fixedEnd {
		c = fixedEnd
	}
	return min(c, n-1)
}

func cutLabel(cut, pfx, saltLen, fixedEnd, n int) string {
	switch {
	case cut < pfx+saltLen:
		return "stall-inside-salt"
	case cut == pfx+saltLen:
		return "stall-after-salt"
	case cut < fixedEnd:
		return "stall-inside-fixed-header"
	case cut == fixedEnd:
		return "stall-after-fixed-header"
	case cut == n-1:
		return "stall-last-byte-withheld"
	}
	return "stall-inside-variable-header"
}

func cutKey(cut, pfx, saltLen, fixedEnd, n int) string {
	switch {
	case cut < pfx+saltLen:
		return "i"
	case cut == pfx+saltLen:
		return "s"
	case cut < fixedEnd:
		return "h"
	case cut == fixedEnd:
		return "f"
	case cut == n-1:
		return "l"
	}
	return "v"
}

// clock advances while a presentation is stalled
var stallAdv = []time.Duration{60 * time.Second, 0, time.Second, 29 * time.Second, 30 * time.Second, 31 * time.Second, 59 * time.Second, 61 * time.Second, 120 * time.Second}

var stallAdvLabel = func() map[time.Duration]string {
	m := map[time.Duration]string{}
	for _, d := range stallAdv {
		m[d] = fmt.Sprintf("clock+%v-during-a-stall", d)
	}
	return m
}()

var stallLabels = []string{
	// where the parts end
	"stall-after-salt", "stall-after-fixed-header", "stall-inside-variable-header", "stall-last-byte-withheld", "stall-inside-fixed-header", "request-in-three-parts",
	// what happens during the stall
	"identical-copy-while-stalled-after-fixed-header", "identical-copy-while-stalled-before-fixed-header", "fresh-accepted-while-another-request-is-stalled",
	"unauthenticated-traffic-on-the-salt-of-a-stalled-presentation",
	// how it ends
	"stalled-presentation-completed", "stalled-after-fixed-header-completed-after-validity-ended", "stalled-completed-after-retention-with-accept-between",
	"stalled-completed-after-retention-with-copy-and-accept-between", "stalled-before-fixed-header-completed-after-copy-accepted",
	"fixed-header-arrived-outside-window-rest-arrived-inside", "stalled-presentation-abandoned", "fresh-accepted-after-a-stalled-presentation-was-abandoned",
	// several stalled copies of one request on one server
	"stalled-copies>=2", "stalled-copies>=3", "stalled-copies>=4", "stalled-copies-completed-out-of-order", "stalled-copies-completed->=60s-after-first-fixed-header",
	"stalled-copies-completed-at-once",
}

func init() {
	for _, d := range stallAdv {
		stallLabels = append(stallLabels, stallAdvLabel[d])
	}
	recStall.Require(stallLabels...)
	// the general history generator draws the same steps, less often
	recHist.Require("stall-after-salt", "stall-after-fixed-header", "stall-inside-variable-header", "stall-last-byte-withheld", "request-in-three-parts",
		"identical-copy-while-stalled-after-fixed-header", "fresh-accepted-while-another-request-is-stalled", "stalled-completed-after-retention-with-accept-between",
		"stalled-copies>=3", "stalled-copies-completed-out-of-order", "stalled-presentation-abandoned")
}

var recStall = ev.New("C03", "replay-stalled",
	"rapid, same two-bubble executor and reference model as replay-history, generator weighted towards presentations whose bytes arrive in parts: "+
		"stall probe = open a connection; the first part of a new (client skew in {+30,0,-29,+29,-1,+31,-30,+1}s + phase) or existing request arrives, cut after the salt / "+
		"inside the salt / one byte short of the fixed-length header / after the fixed-length header / 1 byte, a drawn position or everything but the tag of the variable-length header / "+
		"last byte withheld; optionally a byte-identical complete copy (single or 2-3 concurrent) and unauthenticated traffic on the same salt; clock +d in "+
		"{0,1s,29s,30s,31s,59s,60s,61s,120s}; optionally a fresh request (accepted: prunes the pool) and the copy again; optionally a third part and another advance "+
		"with the same interludes; then the rest arrives (or the client goes away and a fresh request follows); optionally a fresh request and the same bytes once more. "+
		"Copies probe = 2-4 connections carry the first part of ONE request (all cut after the salt / all after the fixed-length header / mixed), optional small advances in between, "+
		"clock +d, optional fresh request, then completed in a drawn order with drawn advances {0,1s,30s,59s,60s,61s} and fresh requests in between, or all at once. "+
		"Plus plain parts / aborts on pending connections and the steps of replay-history. The timestamp of a presentation is judged at the instant its fixed-length header is complete. "+
		"Non-trivial: as replay-history (a request presented twice inside its validity window with another request accepted in between); distinct key = class + sequence of presentation classes")

// stallKinds: raw step kinds (see drawPlanKinds) with weights for TestStalledPresentations
var stallKinds = []int{24, 27, 25, 24, 25, 26, 23, 24, 25, 23, 0, 2, 4, 6, 8, 10, 12, 14, 15, 16}
var rawGenStall = rawGenOf(len(stallKinds))

func TestStalledPresentations(t *testing.T) {
	kinds, gen := stallKinds, rawGenStall
	if v := os.Getenv("VERIF_C03_STALL_KINDS"); v != "" { // development aid (sensitivity runs): only these raw step kinds
		kinds = nil
		for _, f := range strings.Split(v, ",") {
			if k, err := strconv.Atoi(f); err == nil && k >= 0 && k < rawKinds {
				kinds = append(kinds, k)
			}
		}
		gen = rawGenOf(len(kinds))
	}
	rapid.Check(t, func(rt *rapid.T) {
		p := drawPlanKinds(rt, kinds, gen, 6)
		out := execute(t, p)
		if out.violation != "" {
			rt.Fatalf("%s", out.violation)
		}
		record(recStall, p, out)
	})
}

// stallRegressionPlans: fixed histories with stalled presentations (part of TestReplayRegression).
func stallRegressionPlans() []plan {
	var ps []plan
	t0 := baseServerAdv
	classes := []sstcp.Class{{KeyLen: 16, Segmented: true}, {KeyLen: 32, NIPSK: 1, Fallback: true}, {KeyLen: 32, NIPSK: 2, Prefix: 1, Segmented: true}}
	for ci, c := range classes {
		seed := uint64(800 + ci)
		for _, cut := range []int{cutFixed, cutVar1, cutLast} {
			for _, d := range []time.Duration{60 * time.Second, 61 * time.Second, 120 * time.Second, 59 * time.Second, 30 * time.Second} {
				// (a) the fixed-length header arrives; a complete copy; +d; a fresh request is accepted; the rest arrives; the copy again
				ps = append(ps, plan{Class: c, Seed: seed, Start: t0,
					Reqs: []reqSpec{{At: t0 + 30*time.Second}, {At: t0 + d}},
					Steps: []step{{Kind: stOpen, Req: 0, Conn: 0}, {Kind: stPart, Conn: 0, Pos: cut, K: 3}, {Kind: stPresent, Req: 0}, {Kind: stAdv, D: d},
						{Kind: stPresent, Req: 1}, {Kind: stDeliver, Conn: 0}, {Kind: stPresent, Req: 0}}})
			}
			// (b) valid when the fixed-length header arrives (29 whole seconds old), the rest 1 s / 61 s later: judged at the header
			for _, d := range []time.Duration{time.Second, 61 * time.Second} {
				ps = append(ps, plan{Class: c, Seed: seed + 10, Start: t0,
					Reqs:  []reqSpec{{At: t0 - 29*time.Second}},
					Steps: []step{{Kind: stOpen, Req: 0, Conn: 0}, {Kind: stPart, Conn: 0, Pos: cut, K: 5}, {Kind: stAdv, D: d}, {Kind: stDeliver, Conn: 0}, {Kind: stPresent, Req: 0}}})
			}
			// (c) too early when the fixed-length header arrives (client 31 s ahead), the rest when the timestamp would pass; then a genuine new presentation of the same bytes
			ps = append(ps, plan{Class: c, Seed: seed + 20, Start: t0,
				Reqs:  []reqSpec{{At: t0 + 31*time.Second}},
				Steps: []step{{Kind: stOpen, Req: 0, Conn: 0}, {Kind: stPart, Conn: 0, Pos: cut, K: 7}, {Kind: stAdv, D: time.Second}, {Kind: stDeliver, Conn: 0}, {Kind: stPresent, Req: 0}}})
		}
		// (d) stalled before the fixed-length header is complete: judged when it completes
		if c.Segmented {
			for _, cut := range []int{cutSalt, cutFixedShort, cutInSalt} {
				for _, d := range []time.Duration{0, 30 * time.Second, 61 * time.Second} {
					ps = append(ps, plan{Class: c, Seed: seed + 30, Start: t0,
						Reqs: []reqSpec{{At: t0 + 30*time.Second}, {At: t0 + d}, {At: t0}},
						Steps: []step{{Kind: stOpen, Req: 0, Conn: 0}, {Kind: stPart, Conn: 0, Pos: cut, K: 9}, {Kind: stPresent, Req: 0}, {Kind: stAdv, D: d},
							{Kind: stPresent, Req: 1}, {Kind: stDeliver, Conn: 0},
							// and one that is still valid when its header completes d later (d < 30 s), with nothing of its bytes before
							{Kind: stOpen, Req: 2, Conn: 1}, {Kind: stPart, Conn: 1, Pos: cut, K: 9}, {Kind: stDeliver, Conn: 1}, {Kind: stPresent, Req: 2}}})
				}
			}
		}
		// (e) three parts, copies and garbage in between, never completed; fresh requests go on being accepted
		ps = append(ps, plan{Class: c, Seed: seed + 40, Start: t0,
			Reqs: []reqSpec{{At: t0}, {At: t0 + time.Second}, {At: t0 + 31*time.Second}, {At: t0 + 91*time.Second}, {At: t0 + 91*time.Second}},
			Steps: []step{{Kind: stOpen, Req: 0, Conn: 0}, {Kind: stPart, Conn: 0, Pos: cutFixed}, {Kind: stForge, Req: 0, Forge: fgSaltRandom, Pos: 1}, {Kind: stAdv, D: time.Second},
				{Kind: stPresent, Req: 1}, {Kind: stPart, Conn: 0, Pos: cutVar, K: 4}, {Kind: stConc, Req: 0, K: 3}, {Kind: stAdv, D: 30 * time.Second}, {Kind: stPresent, Req: 2},
				{Kind: stPart, Conn: 0, Pos: cutLast}, {Kind: stAdv, D: 60 * time.Second}, {Kind: stPresent, Req: 3}, {Kind: stAbort, Conn: 0}, {Kind: stPresent, Req: 4},
				{Kind: stOpen, Req: 4, Conn: 1}, {Kind: stPart, Conn: 1, Pos: cutLast}}})
		// (g) several presentations given up after their fixed-length header, several more still stalled: fresh requests are accepted all the same
		pl := plan{Class: c, Seed: seed + 60, Start: t0}
		for i := 0; i < 4; i++ {
			pl.Reqs = append(pl.Reqs, reqSpec{At: t0 + time.Duration(i)*time.Second}, reqSpec{At: t0 + time.Duration(i)*time.Second})
			pl.Steps = append(pl.Steps, step{Kind: stOpen, Req: 2 * i, Conn: i}, step{Kind: stPart, Conn: i, Pos: []int{cutFixed, cutVar1, cutLast, cutVarBody}[i]}, step{Kind: stAdv, D: time.Second},
				step{Kind: stAbort, Conn: i}, step{Kind: stPresent, Req: 2*i + 1})
		}
		for i := 4; i < 8; i++ {
			pl.Reqs = append(pl.Reqs, reqSpec{At: t0 + 4*time.Second}, reqSpec{At: t0 + 4*time.Second})
			pl.Steps = append(pl.Steps, step{Kind: stOpen, Req: 2 * i, Conn: i}, step{Kind: stPart, Conn: i, Pos: []int{cutFixed, cutVar1, cutLast, cutSalt}[i-4]}, step{Kind: stPresent, Req: 2*i + 1})
		}
		ps = append(ps, pl)
		// (f) 2-4 stalled copies of one request on the one server, completed in another order after an advance, fresh requests in between
		for _, k := range []int{2, 3, 4} {
			for mode, cuts := range [][]int{{cutFixed, cutFixed, cutFixed, cutFixed}, {cutSalt, cutSalt, cutSalt, cutSalt}, {cutVar1, cutSalt, cutLast, cutFixedShort}} {
				for _, d := range []time.Duration{0, 59 * time.Second, 60 * time.Second, 120 * time.Second} {
					pl := plan{Class: c, Seed: seed + 50 + uint64(mode), Start: t0,
						Reqs: []reqSpec{{At: t0 + 30*time.Second}, {At: t0 + d}, {At: t0 + d + 60*time.Second}}}
					for i := 0; i < k; i++ {
						pl.Steps = append(pl.Steps, step{Kind: stOpen, Req: 0, Conn: i}, step{Kind: stPart, Conn: i, Pos: cuts[i], K: i})
					}
					pl.Steps = append(pl.Steps, step{Kind: stAdv, D: d}, step{Kind: stPresent, Req: 1})
					if mode == 1 && d == 0 {
						all := make([]int, k)
						for i := range all {
							all[i] = k - 1 - i
						}
						pl.Steps = append(pl.Steps, step{Kind: stFinishAll, Conns: all})
					} else {
						pl.Steps = append(pl.Steps, step{Kind: stDeliver, Conn: k - 1}, step{Kind: stAdv, D: 60 * time.Second}, step{Kind: stPresent, Req: 2})
						for i := 0; i < k-1; i++ {
							pl.Steps = append(pl.Steps, step{Kind: stDeliver, Conn: i})
						}
					}
					pl.Steps = append(pl.Steps, step{Kind: stPresent, Req: 0})
					ps = append(ps, pl)
				}
			}
		}
	}
	return ps
}
