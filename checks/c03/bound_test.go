package c03

import (
	"fmt"
	"sync/atomic"
	"testing"
	"time"
)

// Completion bound. A call into the code under test that never returns (for instance a lock that is never
// released) must end as a failure of the *case*, with a signature and the plan, not as a stage timeout. Fake time
// cannot help: a goroutine waiting for a mutex is not durably blocked, so the bubble's clock simply stops. The
// case therefore runs in its own goroutine and the test goroutine (which is outside any bubble) waits for it on
// the real clock. The budget is generous and grows with the amount of work (20 s + 10 ms per step/request), so
// that load alone never trips it; it is not a correctness signal for anything but "did not return". After a
// miss the stuck goroutines are abandoned (the test fails anyway).

const sigHang = "C03/presentation-did-not-return"

var (
	progressStep atomic.Int64 // step index the executor is working on
	progressWhat atomic.Value // short description of it
)

// hangSeen: once a case has missed the generous bound the run is going to fail; the cases that follow (rapid's
// shrinking attempts) get a short bound so that minimising does not cost 20 s per attempt. A short-bound miss
// under load can then only make the reported counterexample less minimal, never change the verdict.
var hangSeen atomic.Bool

func hangBudget(work int) time.Duration {
	if hangSeen.Load() {
		return 2*time.Second + time.Duration(work)*2*time.Millisecond
	}
	return 20*time.Second + time.Duration(work)*10*time.Millisecond
}

// bounded runs f and returns "" when it returned within the budget, otherwise a violation string.
func bounded(work int, describe func() string, f func()) string {
	done := make(chan struct{})
	go func() {
		defer close(done)
		f()
	}()
	budget := hangBudget(work)
	timer := time.NewTimer(budget)
	defer timer.Stop()
	select {
	case <-done:
		return ""
	case <-timer.C:
		hangSeen.Store(true)
		what, _ := progressWhat.Load().(string)
		return fmt.Sprintf("SIG=%s the code under test did not return within %v (real time; last started: step %d %s) | %s", sigHang, budget, progressStep.Load(), what, describe())
	}
}

// execute runs a history under the completion bound.
func execute(t *testing.T, p plan) (out outcome) {
	progressStep.Store(-1)
	progressWhat.Store("building the requests")
	var res outcome
	if hung := bounded(len(p.Steps)+len(p.Reqs), func() string { return "history: " + p.String() }, func() { res = executeUnbounded(t, p) }); hung != "" {
		return outcome{violation: hung, labels: map[string]bool{}}
	}
	return res
}

type stopCase struct{}

// guarded runs body in its own goroutine under the completion bound. body reports a violation by calling fail
// (which does not return); guarded returns that violation, or the did-not-return violation, or "".
func guarded(work int, describe func() string, body func(fail func(format string, a ...any))) (violation string) {
	var viol string
	progressStep.Store(-1)
	progressWhat.Store("")
	hung := bounded(work, describe, func() {
		defer func() {
			if r := recover(); r != nil {
				if _, ok := r.(stopCase); !ok {
					panic(r)
				}
			}
		}()
		body(func(format string, a ...any) {
			viol = fmt.Sprintf(format, a...)
			panic(stopCase{})
		})
	})
	if hung != "" {
		return hung
	}
	return viol
}
