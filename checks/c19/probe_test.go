package c19

import (
	"context"
	"encoding/json"
	"fmt"
	"os"
	"path/filepath"
	"runtime"
	"sort"
	"strings"
	"testing"
	"testing/synctest"
	"time"

	"github.com/database64128/shadowsocks-go"
	"github.com/database64128/shadowsocks-go/clientgroups"
	"github.com/database64128/shadowsocks-go/jsoncfg"
	"github.com/database64128/shadowsocks-go/netio"
	"github.com/database64128/shadowsocks-go/zerocopy"
	"go.uber.org/zap"
	"pgregory.net/rapid"

	"verif/internal/ev"
)

const (
	docDefaultTimeout  = 5 * time.Second  // ConnectivityProbeConfig.Timeout: "Default is 5 seconds."
	docDefaultInterval = 30 * time.Second // ConnectivityProbeConfig.Interval: "Default is 30 seconds."
	docDefaultConc     = 32               // ConnectivityProbeConfig.Concurrency: "Default is 32."
)

// probePlan is one whole case: a group, its probe configuration, the scripted outcome of every
// probe of every client in every round, and the instants at which the group's selection is sampled.
type probePlan struct {
	Proto       string      `json:"proto"`  // "tcp" | "udp"
	Policy      string      `json:"policy"` // availability | latency | min-max-latency
	Order       []int       `json:"order"`  // configuration position -> fake id (fake ids are creation/name order)
	Decoys      int         `json:"decoys"` // clients registered in the maps but not members of the group
	TimeoutNS   int64       `json:"timeout"`
	IntervalNS  int64       `json:"interval"`
	Concurrency int         `json:"concurrency"`
	Hist        [][]outcome `json:"hist"`    // [round][configuration position]
	Samples     [][]int64   `json:"samples"` // per round: offsets (ns after the round's tick), ascending; the last one is >= the round bound
	ViaDial     []uint32    `json:"viaDial"` // per round: bit i set => sample i also goes through DialStream/NewSession

	// Round 6 extensions (all optional, so older journals replay unchanged)
	Class    string     `json:"class,omitempty"`    // generator class: general | edge | flip
	CfgJSON  bool       `json:"cfgJSON,omitempty"`  // the group configuration is decoded from JSON text (as service.Config is) instead of being built as a struct
	Omit     int        `json:"omit,omitempty"`     // CfgJSON only: 1 = "timeout" absent, 2 = "interval" absent, 4 = "concurrency" absent, 8 = whole "probe" object absent
	HasBound bool       `json:"hasBound,omitempty"` // BoundNS replaces roundBound(): every round of THIS history is over BoundNS after its tick
	BoundNS  int64      `json:"bound,omitempty"`
	Edge     [3]string  `json:"edge,omitzero"`     // edge class: value class of timeout, interval, concurrency (omitted | zero | negative | one | huge)
	FlipAt   int        `json:"flipAt,omitempty"`  // flip class: 1-based round of the flipper's first changed outcome
	FlipPos  int        `json:"flipPos,omitempty"` // flip class: configuration position of the flipper
	FlipPre  outcome    `json:"flipPre,omitzero"`  // flip class: what the flipper did before the flip
	Other    *otherSide `json:"other,omitempty"`   // the group's other protocol side (nil = that side is left out of the configuration)
}

// otherSide is the second side of a mixed group (UDP when the plan's side is TCP and vice versa).
// It has its own policy, members (fakes of the other protocol, in their own order) and, for the
// probing policies, its own probe configuration and scripted history. It is judged at the same
// instants as the plan's side, against its own configuration only.
type otherSide struct {
	Policy      string      `json:"policy"` // round-robin | random | availability | latency | min-max-latency
	Order       []int       `json:"order"`
	TimeoutNS   int64       `json:"timeout,omitempty"`
	IntervalNS  int64       `json:"interval,omitempty"`
	Concurrency int         `json:"concurrency,omitempty"`
	Hist        [][]outcome `json:"hist,omitempty"` // probing policies: [round][configuration position], long enough for the whole run
}

func (o *otherSide) n() int        { return len(o.Order) }
func (o *otherSide) probing() bool { return o.Policy != polRoundRobin && o.Policy != polRandom }
func (o *otherSide) timeout() time.Duration {
	if o.TimeoutNS <= 0 {
		return docDefaultTimeout
	}
	return time.Duration(o.TimeoutNS)
}
func (o *otherSide) interval() time.Duration {
	if o.IntervalNS <= 0 {
		return docDefaultInterval
	}
	return time.Duration(o.IntervalNS)
}
func (o *otherSide) conc() int {
	c := o.Concurrency
	if c <= 0 {
		c = docDefaultConc
	}
	return min(c, o.n())
}

func otherProto(proto string) string {
	if proto == "tcp" {
		return "udp"
	}
	return "tcp"
}

func (p *probePlan) n() int { return len(p.Order) }
func (p *probePlan) timeout() time.Duration {
	if p.TimeoutNS <= 0 {
		return docDefaultTimeout
	}
	return time.Duration(p.TimeoutNS)
}
func (p *probePlan) interval() time.Duration {
	if p.IntervalNS <= 0 {
		return docDefaultInterval
	}
	return time.Duration(p.IntervalNS)
}
func (p *probePlan) conc() int {
	c := p.Concurrency
	if c <= 0 {
		c = docDefaultConc
	}
	return min(c, p.n())
}

// bound is the time after a tick by which the round it started is certainly over.
func (p *probePlan) bound() time.Duration {
	if p.HasBound {
		return time.Duration(p.BoundNS)
	}
	return roundBound(p.n(), p.conc(), p.timeout())
}

// roundBound is an upper bound of how long one probe round can take: every probe ends within the
// timeout, and at least one probe runs at any time (all of them when concurrency >= clients).
func roundBound(n, conc int, timeout time.Duration) time.Duration {
	if conc >= n {
		return timeout
	}
	return time.Duration(n) * timeout
}

var timeoutChoices = []int64{0, int64(250 * time.Millisecond), int64(time.Second), int64(5 * time.Second), int64(7 * time.Second)}

func drawLat(rt *rapid.T, T time.Duration) int64 {
	us := int64(T / time.Microsecond)
	switch rapid.IntRange(0, 7).Draw(rt, "latKind") {
	case 0:
		return 0
	case 1:
		return int64(time.Microsecond)
	case 2:
		return int64(T / 4)
	case 3:
		return int64(T / 2)
	case 4:
		return int64(T/2) + int64(time.Microsecond)
	case 5:
		return int64(T) - int64(time.Microsecond)
	default:
		return rapid.Int64Range(0, us-1).Draw(rt, "latUs") * int64(time.Microsecond)
	}
}

func drawGeneralPlan(rt *rapid.T) *probePlan {
	p := &probePlan{}
	p.Proto = "tcp"
	if rapid.IntRange(0, 9).Draw(rt, "proto") == 0 {
		p.Proto = "udp"
	}
	p.Policy = rapid.SampledFrom([]string{polAvailability, polLatency, polMinMax}).Draw(rt, "policy")
	// group size: the quantifier names 1..5 clients; the statement itself is not limited, so one case
	// in eight is a large group (13..24: beyond what small-slice special cases of sorts etc. cover)
	large := rapid.IntRange(0, 7).Draw(rt, "sizeClass") == 0
	n := rapid.IntRange(1, 5).Draw(rt, "n")
	if large {
		n = rapid.IntRange(13, 24).Draw(rt, "nLarge")
	}
	ids := make([]int, n)
	for i := range ids {
		ids[i] = i
	}
	p.Order = rapid.Permutation(ids).Draw(rt, "order")
	p.Decoys = rapid.IntRange(0, 2).Draw(rt, "decoys")
	p.TimeoutNS = rapid.SampledFrom(timeoutChoices).Draw(rt, "timeout")
	p.Concurrency = rapid.SampledFrom([]int{0, 0, 1, 2, n - 1, n, n + 1, 100}).Draw(rt, "conc")
	T := p.timeout()
	D := roundBound(n, p.conc(), T)
	switch rapid.IntRange(0, 3).Draw(rt, "intervalKind") {
	case 0:
		if D < docDefaultInterval {
			p.IntervalNS = 0 // documented default
		} else {
			p.IntervalNS = int64(D + time.Second)
		}
	case 1:
		p.IntervalNS = int64(D + time.Microsecond)
	case 2:
		p.IntervalNS = int64(D + T/2)
	default:
		p.IntervalNS = int64(D + 25*time.Second)
	}
	var R int
	switch rapid.IntRange(0, 9).Draw(rt, "roundsKind") {
	case 0, 1, 2:
		R = rapid.IntRange(1, 8).Draw(rt, "rounds")
	case 3, 4:
		R = rapid.IntRange(9, 32).Draw(rt, "rounds")
	case 5, 6:
		R = rapid.IntRange(33, 64).Draw(rt, "rounds")
	default:
		R = rapid.IntRange(65, 120).Draw(rt, "rounds")
	}
	if large && R > 70 {
		R = 65 + R%6 // large groups: keep the cost bounded, still beyond both retentions
	}

	// a small palette of outcomes per case makes equal figures (ties) likely
	K := rapid.IntRange(2, 6).Draw(rt, "palette")
	pal := make([]outcome, K)
	for i := range pal {
		kind := rapid.SampledFrom([]int{kOK, kOK, kOK, kOK, kOK, kOK, kFail, kFail, kFail, kHang}).Draw(rt, "kind")
		o := outcome{Kind: kind, How: rapid.IntRange(0, 14).Draw(rt, "how")}
		if kind != kHang {
			o.Lat = drawLat(rt, T)
		}
		if p.Proto == "udp" && kind == kOK {
			o.Kind = kFail // a UDP fake cannot complete a probe inside a bubble
		}
		pal[i] = o
	}
	// every client has a preferred outcome before and after a change point
	pref1, pref2, change := make([]int, n), make([]int, n), make([]int, n)
	for i := 0; i < n; i++ {
		pref1[i] = rapid.IntRange(0, K-1).Draw(rt, "pref1")
		pref2[i] = rapid.IntRange(0, K-1).Draw(rt, "pref2")
		change[i] = rapid.IntRange(0, R).Draw(rt, "change")
	}
	// large groups: a "team" of 2..4 pairwise non-adjacent members with identical histories (mostly a
	// good outcome, so they usually share the best figure) and one member that always does badly
	teamOf := make([]int, n) // position -> leader position, -1 if not a follower
	for i := range teamOf {
		teamOf[i] = -1
	}
	loser := -1
	var good outcome
	leader := -1
	if large {
		size := rapid.IntRange(2, 4).Draw(rt, "team")
		pos := rapid.IntRange(0, 3).Draw(rt, "teamFirst")
		leader = pos
		for k := 1; k < size; k++ {
			pos += rapid.IntRange(2, 4).Draw(rt, "teamGap")
			if pos >= n {
				break
			}
			teamOf[pos] = leader
		}
		loser = rapid.IntRange(0, n-1).Draw(rt, "loser")
		if loser == leader || teamOf[loser] >= 0 {
			loser = -1
		}
		good = outcome{Kind: kOK, Lat: rapid.SampledFrom([]int64{0, int64(time.Microsecond), int64(T / 4)}).Draw(rt, "goodLat"), How: rapid.IntRange(0, 2).Draw(rt, "goodHow")}
		if p.Proto == "udp" {
			good = outcome{Kind: kFail, Lat: good.Lat}
		}
	}
	p.Hist = make([][]outcome, R)
	for r := 0; r < R; r++ {
		row := make([]outcome, n)
		for i := 0; i < n; i++ {
			if teamOf[i] >= 0 {
				row[i] = row[teamOf[i]]
				continue
			}
			if i == loser {
				row[i] = outcome{Kind: kFail, Lat: 0, How: r % 5}
				continue
			}
			v := rapid.IntRange(0, 7+K).Draw(rt, "o")
			if i == leader && v < 6 {
				row[i] = good
				continue
			}
			switch {
			case v < 6:
				if r < change[i] {
					row[i] = pal[pref1[i]]
				} else {
					row[i] = pal[pref2[i]]
				}
			case v < 8:
				if i > 0 {
					row[i] = row[i-1] // mirror the previous client in this round
				} else {
					row[i] = pal[pref1[i]]
				}
			default:
				row[i] = pal[v-8]
			}
		}
		p.Hist[r] = row
	}

	drawSamples(rt, p)
	return p
}

// drawSamples draws, for every round, the instants (offsets after the round's tick) at which the
// selection is sampled: up to three inside the round (tick, 1ns, completion instants and the instants
// just before them, timeout-1ns, timeout) and a closing one at or after the round bound and before the
// next tick.
func drawSamples(rt *rapid.T, p *probePlan) {
	R := len(p.Hist)
	T, I, D := p.timeout(), p.interval(), p.bound()
	p.Samples = make([][]int64, R)
	p.ViaDial = make([]uint32, R)
	for r := 0; r < R; r++ {
		all := []int64{0, 1, int64(T / 2), int64(T) - 1, int64(T), int64(D) - 1}
		for _, o := range p.Hist[r] {
			if o.Kind != kHang {
				all = append(all, o.Lat)
				if o.Lat > 0 {
					all = append(all, o.Lat-1)
				}
			}
		}
		cand := all[:0]
		for _, c := range all {
			if c >= 0 && c <= int64(D) { // (only the edge class has instants outside: timeout > interval, bound 0)
				cand = append(cand, c)
			}
		}
		k := rapid.IntRange(0, 3).Draw(rt, "nsamples")
		var offs []int64
		for j := 0; j < k; j++ {
			offs = append(offs, cand[rapid.IntRange(0, len(cand)-1).Draw(rt, "cand")])
		}
		sort.Slice(offs, func(a, b int) bool { return offs[a] < offs[b] })
		// the closing sample of the round: at or after the round bound, before the next tick
		var last int64
		switch rapid.IntRange(0, 2).Draw(rt, "lastKind") {
		case 0:
			last = int64(D)
		case 1:
			last = int64(I) - 1
		default:
			last = int64(D) + rapid.Int64Range(0, int64(I-D)-1).Draw(rt, "lastOff")
		}
		p.Samples[r] = append(offs, last)
		p.ViaDial[r] = rapid.Uint32Range(0, 15).Draw(rt, "viaDial")
	}
}

type probeStats struct {
	samples, during, after  int64
	ties, tieWinnerNotFirst int
	bigTie                  int // rounds (groups > 12) whose best figure is shared by non-adjacent members while some member is worse
	bigTieWinnerNotFirst    int
	switches                int
	retSensitive            bool
	winners                 string
	firstSeen               int
	hang, fail              bool
	maxRunning              int // most probes seen in flight at one sampled instant

	// the other side of a mixed group
	otherSelections   int64 // selections made on the other side
	otherDuring       int64 // ... while one of ITS probes was in flight (probing policies)
	otherAfterRounds  int64 // ... after at least one of its rounds had completed
	otherSwitches     int   // changes of the other side's reference choice
	otherAccounted    int64 // closing samples at which the other side's probe accounting could be judged
	sidesDiffer       bool  // at some instant the two sides served clients of different names
	otherFullCycle    bool  // round-robin: at least one full cycle was handed out
	otherWinnerNot0   bool  // probing: the other side's reference choice was not its first member at some point
	omittedRegistered bool  // a side left out of the configuration nevertheless got a group under the group's name
}

// sideRT is one protocol side of the group at run time: its fakes (all of them members; decoys are
// kept apart) and the group client registered for it.
type sideRT struct {
	proto    string
	n        int
	order    []int // configuration position -> fake id
	posOf    []int // fake id -> configuration position
	names    []string
	tcp      []*fakeTCP
	udp      []*fakeUDP
	counters []*probeCounters
	tcpGroup netio.StreamClient
	udpGroup zerocopy.UDPClient
}

func newSideRT(proto string, order []int, hist [][]outcome, tcpMap map[string]netio.StreamClient, udpMap map[string]zerocopy.UDPClient) *sideRT {
	n := len(order)
	s := &sideRT{proto: proto, n: n, order: order, posOf: make([]int, n), names: make([]string, n),
		tcp: make([]*fakeTCP, n), udp: make([]*fakeUDP, n), counters: make([]*probeCounters, n)}
	for pos, id := range order {
		s.posOf[id] = pos
		s.names[pos] = fmt.Sprintf("c%d", id)
	}
	for id := 0; id < n; id++ {
		script := make([]outcome, len(hist))
		for r := range script {
			script[r] = hist[r][s.posOf[id]]
		}
		if proto == "tcp" {
			f := &fakeTCP{id: id, name: fmt.Sprintf("c%d", id), script: script}
			s.tcp[id], s.counters[id] = f, &f.probeCounters
			tcpMap[f.name] = f
		} else {
			f := &fakeUDP{id: id, name: fmt.Sprintf("c%d", id), script: script, headroom: zerocopy.Headroom{Front: id, Rear: n - id}}
			s.udp[id], s.counters[id] = f, &f.probeCounters
			udpMap[f.name] = f
		}
	}
	return s
}

// one asks the group once (a single selection) and returns the fake id reached, or -1 and why the
// answer is not a member of this side.
func (s *sideRT) one(viaDial bool) (id int, why string) {
	if s.proto == "tcp" {
		if viaDial {
			_, err := s.tcpGroup.DialStream(userCtx(), probeUserAddr, nil)
			ue, ok := err.(*userDialErr)
			if !ok || ue.id < 0 || ue.id >= s.n {
				return -1, fmt.Sprintf("DialStream went to %v, not a member", err)
			}
			return ue.id, ""
		}
		d, info := s.tcpGroup.NewStreamDialer()
		f, ok := d.(*fakeTCP)
		if !ok || f.id < 0 || f.id >= s.n || s.tcp[f.id] != f {
			return -1, fmt.Sprintf("NewStreamDialer returned %T %v (info %q), not a member", d, d, info.Name)
		}
		if info.Name != f.name {
			return -1, fmt.Sprintf("NewStreamDialer returned dialer %q with info name %q", f.name, info.Name)
		}
		return f.id, ""
	}
	info, sess, err := s.udpGroup.NewSession(userCtx())
	if err != nil {
		return -1, fmt.Sprintf("NewSession failed: %v", err)
	}
	id = sess.MaxPacketSize - 1000
	if id < 0 || id >= s.n || info.Name != s.udp[id].name {
		return -1, fmt.Sprintf("NewSession returned session of %q (mps %d), not a member", info.Name, sess.MaxPacketSize)
	}
	return id, ""
}

// stable asks a group whose selection only changes after probe rounds: NewStreamDialer, and with
// viaDial also DialStream at the same instant, which must reach the same client.
func (s *sideRT) stable(viaDial bool) (pos int, sig, why string) {
	id, why := s.one(false)
	if id < 0 {
		return 0, "outside-group", why
	}
	if viaDial && s.proto == "tcp" {
		id2, why := s.one(true)
		if id2 < 0 {
			return 0, "outside-group", why
		}
		if id2 != id {
			return 0, "inconsistent-selection", fmt.Sprintf("NewStreamDialer gave c%d but DialStream at the same instant went to c%d", id, id2)
		}
	}
	return s.posOf[id], "", ""
}

// state reads the probe counters of the side's fakes.
func (s *sideRT) state() (minFinished int64, inflight bool, started []int64, running int) {
	minFinished = 1 << 62
	started = make([]int64, s.n)
	for id, c := range s.counters {
		st, f := c.started.Load(), c.finished.Load()
		started[id] = st
		if f < minFinished {
			minFinished = f
		}
		if st > f {
			inflight = true
			running++
		}
	}
	return
}

// caseBound is the real-time bound on one whole case (fake-time run included). A case takes
// milliseconds; nothing in a probe group may spin or grow without bound whatever its configuration says.
func caseBound() time.Duration {
	return time.Duration(envInt("VERIF_C19_CASE_BOUND_S", 90)) * time.Second
}

// startWatchdog guards one case in real time from outside the bubble. A case that does not complete
// (or piles up goroutines without end, which would take the machine down long before the bound) is a
// violation that cannot be reported through the normal path: the watchdog panics, the driver keeps the
// journaled plan as the replay.
func startWatchdog(p *probePlan) (stop func()) {
	done := make(chan struct{})
	start := time.Now()
	bound := caseBound()
	go func() {
		tk := time.NewTicker(20 * time.Millisecond)
		defer tk.Stop()
		for {
			select {
			case <-done:
				return
			case <-tk.C:
				if g := runtime.NumGoroutine(); g > 20000 || time.Since(start) > bound {
					panic(fmt.Sprintf("VERIF-VIOLATION SIG=C19/%s/no-completion case still running after %v of real time with %d goroutines alive (bound %v; a case normally takes milliseconds) %s",
						p.Policy, time.Since(start).Round(time.Millisecond), g, bound, p.brief()))
				}
			}
		}
	}()
	return func() { close(done) }
}

// runProbePlan executes a plan against the real client group inside a fake-time bubble and
// returns the first violation (empty if none).
func runProbePlan(t *testing.T, p *probePlan) (viol string, st probeStats) {
	defer startWatchdog(p)()
	n, R := p.n(), len(p.Hist)
	T, I := p.timeout(), p.interval()
	D := p.bound()
	if I <= D {
		return fmt.Sprintf("HARNESS: interval %v <= round bound %v", I, D), st
	}
	retain := retention(p.Policy)

	// reference choice after every number of completed rounds
	choice := make([]int, R+1)
	for r := 1; r <= R; r++ {
		var tie bool
		choice[r], tie = refChoice(p.Policy, p.Hist, r, retain, int64(T))
		if tie {
			st.ties++
			if choice[r] != 0 {
				st.tieWinnerNotFirst++
			}
		}
		if n > 12 && tie {
			sc := scores(p.Policy, p.Hist, r, retain, int64(T))
			first, lastBest, worse := choice[r], choice[r], false
			for pos, v := range sc {
				if v == sc[first] {
					lastBest = pos
				} else {
					worse = true
				}
			}
			// the best positions are first..lastBest (not necessarily all of them); non-adjacent if some
			// pair is >= 2 apart, which holds iff the extremes are
			if worse && lastBest-first >= 2 {
				st.bigTie++
				if first != 0 {
					st.bigTieWinnerNotFirst++
				}
			}
		}
		if r > 1 && choice[r] != choice[r-1] {
			st.switches++
		}
		for _, alt := range []int{retain - 1, retain + 1, 1 << 30} {
			if c, _ := refChoice(p.Policy, p.Hist, r, alt, int64(T)); c != choice[r] {
				st.retSensitive = true
			}
		}
	}
	var wb strings.Builder
	for r := 1; r <= R; r++ {
		wb.WriteByte(byte('0' + choice[r]))
	}
	st.winners = wb.String()
	for _, row := range p.Hist {
		for _, o := range row {
			st.hang = st.hang || o.Kind == kHang
			st.fail = st.fail || o.Kind == kFail
		}
	}
	st.firstSeen = -1

	// the other side's own reference
	o := p.Other
	var (
		choice2 []int
		T2, I2  time.Duration
		D2      time.Duration
		R2      int
	)
	if o != nil && o.probing() {
		R2 = len(o.Hist)
		T2, I2 = o.timeout(), o.interval()
		D2 = roundBound(o.n(), o.conc(), T2)
		if I2 <= D2 {
			return fmt.Sprintf("HARNESS: other side: interval %v <= round bound %v", I2, D2), st
		}
		choice2 = make([]int, R2+1)
		for r := 1; r <= R2; r++ {
			choice2[r], _ = refChoice(o.Policy, o.Hist, r, retention(o.Policy), int64(T2))
			if r > 1 && choice2[r] != choice2[r-1] {
				st.otherSwitches++
			}
		}
	}

	fail := func(sig, format string, a ...any) {
		if viol == "" {
			viol = fmt.Sprintf("SIG=C19/%s/%s ", p.Policy, sig) + fmt.Sprintf(format, a...) + " " + p.brief()
		}
	}
	failOther := func(sig, format string, a ...any) {
		if viol == "" {
			viol = fmt.Sprintf("SIG=C19/%s/mixed-%s ", o.Policy, sig) + fmt.Sprintf("%s side of the mixed group: ", otherProto(p.Proto)) + fmt.Sprintf(format, a...) + " " + p.brief()
		}
	}

	synctest.Test(t, func(t *testing.T) {
		tcpMap := map[string]netio.StreamClient{}
		udpMap := map[string]zerocopy.UDPClient{}
		mainS := newSideRT(p.Proto, p.Order, p.Hist, tcpMap, udpMap)
		var otherS *sideRT
		if o != nil {
			otherS = newSideRT(otherProto(p.Proto), o.Order, o.Hist, tcpMap, udpMap)
		}
		var decoyCounters []*probeCounters
		for d := 0; d < p.Decoys; d++ {
			ft := &fakeTCP{id: 100 + d, name: fmt.Sprintf("d%d", d)}
			fu := &fakeUDP{id: 100 + d, name: fmt.Sprintf("d%d", d)}
			tcpMap[ft.name], udpMap[fu.name] = ft, fu
			decoyCounters = append(decoyCounters, &ft.probeCounters, &fu.probeCounters)
		}

		var cfg clientgroups.ClientGroupConfig
		if p.CfgJSON {
			var otherNames []string
			if otherS != nil {
				otherNames = otherS.names
			}
			text := p.groupConfigJSON(mainS.names, otherNames)
			dec := json.NewDecoder(strings.NewReader(text))
			dec.DisallowUnknownFields()
			if err := dec.Decode(&cfg); err != nil {
				viol = fmt.Sprintf("HARNESS: configuration %s does not decode: %v", text, err)
				return
			}
		} else {
			cfg.Name = "grp"
			pc := clientgroups.ConnectivityProbeConfig{
				Timeout:     jsoncfg.Duration(p.TimeoutNS),
				Interval:    jsoncfg.Duration(p.IntervalNS),
				Concurrency: p.Concurrency,
			}
			var pc2 clientgroups.ConnectivityProbeConfig
			var pol2 clientgroups.ClientSelectionPolicy
			var names2 []string
			if o != nil {
				pol2, names2 = clientgroups.ClientSelectionPolicy(o.Policy), otherS.names
				if o.probing() {
					pc2 = clientgroups.ConnectivityProbeConfig{Timeout: jsoncfg.Duration(o.TimeoutNS), Interval: jsoncfg.Duration(o.IntervalNS), Concurrency: o.Concurrency}
				}
			}
			if p.Proto == "tcp" {
				cfg.TCP.Policy, cfg.TCP.Clients, cfg.TCP.Probe.ConnectivityProbeConfig = clientgroups.ClientSelectionPolicy(p.Policy), mainS.names, pc
				cfg.UDP.Policy, cfg.UDP.Clients, cfg.UDP.Probe.ConnectivityProbeConfig = pol2, names2, pc2
			} else {
				cfg.UDP.Policy, cfg.UDP.Clients, cfg.UDP.Probe.ConnectivityProbeConfig = clientgroups.ClientSelectionPolicy(p.Policy), mainS.names, pc
				cfg.TCP.Policy, cfg.TCP.Clients, cfg.TCP.Probe.ConnectivityProbeConfig = pol2, names2, pc2
			}
		}
		var services []shadowsocks.Service
		if err := cfg.AddClientGroup(zap.NewNop(), tcpMap, udpMap, func(s shadowsocks.Service) { services = append(services, s) }); err != nil {
			viol = "HARNESS: AddClientGroup: " + err.Error()
			return
		}
		wantServices := 1
		if o != nil && o.probing() {
			wantServices = 2
		}
		if len(services) != wantServices {
			fail("probe-services", "%d probe services registered, but the configuration has %d side(s) with a probing policy", len(services), wantServices)
			return
		}
		for _, s := range []*sideRT{mainS, otherS} {
			if s == nil {
				continue
			}
			if s.proto == "tcp" {
				s.tcpGroup = tcpMap["grp"]
			} else {
				s.udpGroup = udpMap["grp"]
			}
			if s.tcpGroup == nil && s.udpGroup == nil {
				viol = "HARNESS: group not added to the " + s.proto + " client map"
				return
			}
		}
		if o == nil {
			// a side without clients is left out: no group of that protocol exists under the group's name
			// (measured, not judged: the statement speaks about the groups that exist)
			if p.Proto == "tcp" {
				_, st.omittedRegistered = udpMap["grp"]
			} else {
				_, st.omittedRegistered = tcpMap["grp"]
			}
		}

		ctx, cancel := context.WithCancel(context.Background())
		defer func() {
			cancel()
			synctest.Wait()
			// nothing may outlive the case: a probe that ignored its deadline is cut loose here
			left := 0
			for _, s := range []*sideRT{mainS, otherS} {
				if s == nil {
					continue
				}
				for _, f := range s.tcp {
					if f != nil {
						left += f.closeAll()
					}
				}
			}
			synctest.Wait()
			if left > 0 {
				fail("probe-outlives-timeout", "%d probe connections were still open after the probe loop was cancelled", left)
			}
		}()
		t0 := time.Now()
		for _, s := range services {
			if err := s.Start(ctx); err != nil {
				viol = "HARNESS: Start: " + err.Error()
				return
			}
		}
		synctest.Wait()

		// the other side. Round-robin: the set of cycle offsets still consistent with everything seen
		// (ticket j goes to Order[(s+j) mod n2]); the statement fixes the cyclic order, not the first member.
		var (
			cands2     []bool
			ticket2    int
			firstSeen2 = -1
		)
		if o != nil {
			cands2 = make([]bool, o.n())
			for i := range cands2 {
				cands2[i] = true
			}
		}
		judgeOther := func(r int, off int64, closing, viaDial bool) (name string, ok bool) {
			n2 := o.n()
			if !o.probing() {
				id, why := otherS.one(viaDial)
				if id < 0 {
					failOther("outside-group", "round %d offset %v: %s", r, time.Duration(off), why)
					return "", false
				}
				st.otherSelections++
				if o.Policy == polRoundRobin {
					any := false
					for s := range cands2 {
						if cands2[s] && o.Order[(s+ticket2)%n2] != id {
							cands2[s] = false
						}
						any = any || cands2[s]
					}
					if !any {
						failOther("cyclic-order", "round %d offset %v: selection %d went to c%d, which does not continue the cycle of its configured order %v", r, time.Duration(off), ticket2, id, o.Order)
						return "", false
					}
					ticket2++
					st.otherFullCycle = st.otherFullCycle || ticket2 >= n2
				}
				if closing {
					for id, c := range otherS.counters {
						if c.started.Load() != 0 {
							failOther("probed-without-probing-policy", "round %d: member c%d of a %s side was probed %d times", r, id, o.Policy, c.started.Load())
							return "", false
						}
					}
				}
				return otherS.names[otherS.posOf[id]], true
			}
			m, inflight, started, running := otherS.state()
			pos, sig, why := otherS.stable(viaDial)
			if sig != "" {
				failOther(sig, "round %d offset %v: %s", r, time.Duration(off), why)
				return "", false
			}
			if running > o.conc() {
				failOther("concurrency-exceeded", "round %d offset %v: %d probes in flight at once, the configured concurrency (%d; not positive = default %d) allows %d", r, time.Duration(off), running, o.Concurrency, docDefaultConc, o.conc())
				return "", false
			}
			st.otherSelections++
			if inflight {
				st.otherDuring++
			}
			want := 0
			switch {
			case m == 0:
				if firstSeen2 < 0 {
					firstSeen2 = pos
				}
				want = firstSeen2
			case int(m) <= R2:
				want = choice2[m]
				st.otherAfterRounds++
				st.otherWinnerNot0 = st.otherWinnerNot0 || want != 0
			default:
				failOther("round-accounting", "round %d offset %v: %d probes completed per client, more than its history holds", r, time.Duration(off), m)
				return "", false
			}
			if pos != want {
				sig := "choice-after-round"
				if inflight {
					sig = "switch-during-round"
				}
				var sc []int64
				if m > 0 {
					sc = scores(o.Policy, o.Hist, int(m), retention(o.Policy), int64(T2))
				}
				failOther(sig, "main-side round %d offset %v (its own completed rounds %d, probes in flight %v): serves position %d, want %d; figures %v",
					r, time.Duration(off), m, inflight, pos, want, sc)
				return "", false
			}
			if closing {
				// its own ticks: k2 have elapsed; if the last one is at least its round bound ago, every member has
				// been probed exactly k2 times and nothing is in flight
				el := time.Since(t0)
				k2, rem := int64(el/I2), el%I2
				if rem >= D2 {
					st.otherAccounted++
					for id, s := range started {
						if s != k2 || m != k2 || inflight {
							failOther("round-accounting", "main-side round %d offset %v (%v after start, its interval %v): client c%d started %d probes, min completed %d, in flight %v; want %d each and none in flight",
								r, time.Duration(off), el, I2, id, s, m, inflight, k2)
							return "", false
						}
					}
				}
			}
			return otherS.names[pos], true
		}

		state := mainS.state

		sample := func(r int, off int64, closing, viaDial bool) bool {
			m, inflight, started, running := state()
			pos, sig, why := mainS.stable(viaDial)
			if sig != "" {
				fail(sig, "%s", why)
				return false
			}
			if running > p.conc() {
				// ConnectivityProbeConfig.Concurrency: "the maximum number of concurrent connectivity tests"
				fail("concurrency-exceeded", "round %d offset %v: %d probes in flight at once, the configured concurrency (%d; not positive = default %d) allows %d", r, time.Duration(off), running, p.Concurrency, docDefaultConc, p.conc())
				return false
			}
			st.maxRunning = max(st.maxRunning, running)
			st.samples++
			if inflight {
				st.during++
			} else {
				st.after++
			}
			want := 0
			if m == 0 {
				// before the first round has completed the group serves its initial choice; the
				// property only demands that it is a member and does not change
				if st.firstSeen < 0 {
					st.firstSeen = pos
				}
				want = st.firstSeen
			} else if int(m) <= R {
				want = choice[m]
			} else {
				fail("round-accounting", "round %d offset %v: %d probes completed per client, more than ticks elapsed", r, time.Duration(off), m)
				return false
			}
			if pos != want {
				sig := "choice-after-round"
				if inflight {
					sig = "switch-during-round"
				}
				sc := []int64(nil)
				if m > 0 {
					sc = scores(p.Policy, p.Hist, int(m), retain, int64(T))
				}
				fail(sig, "round %d offset %v (completed rounds %d, probes in flight %v): group serves position %d, want %d; figures %v",
					r, time.Duration(off), m, inflight, pos, want, sc)
				return false
			}
			if closing {
				// interval > round bound: by now round r is over and every client was probed once per tick
				for id, s := range started {
					if s != int64(r) || int64(r) != m || inflight {
						fail("round-accounting", "round %d offset %v: client c%d started %d probes, min completed %d, in flight %v; want %d each and none in flight",
							r, time.Duration(off), id, s, m, inflight, r)
						return false
					}
				}
			}
			if o != nil {
				name2, ok := judgeOther(r, off, closing, viaDial)
				if !ok {
					return false
				}
				st.sidesDiffer = st.sidesDiffer || name2 != mainS.names[pos]
			}
			return true
		}

		if !sample(0, 0, false, true) {
			return
		}
		for r := 1; r <= R; r++ {
			tick := t0.Add(time.Duration(r) * I)
			offs := p.Samples[r-1]
			for j, off := range offs {
				if d := tick.Add(time.Duration(off)).Sub(time.Now()); d > 0 {
					time.Sleep(d)
				}
				synctest.Wait()
				if !sample(r, off, j == len(offs)-1, p.ViaDial[r-1]&(1<<uint(j)) != 0) {
					return
				}
			}
		}
		for id, c := range mainS.counters {
			if c.overlap.Load() != 0 || c.overrun.Load() != 0 {
				fail("round-accounting", "client c%d: %d overlapping probes, %d probes beyond the %d ticks", id, c.overlap.Load(), c.overrun.Load(), R)
			}
		}
		if o != nil && o.probing() {
			for id, c := range otherS.counters {
				if c.overlap.Load() != 0 || c.overrun.Load() != 0 {
					failOther("round-accounting", "client c%d: %d overlapping probes, %d probes beyond the %d ticks its interval %v allows in this run", id, c.overlap.Load(), c.overrun.Load(), R2, I2)
				}
			}
		}
		for i, c := range decoyCounters {
			if c.started.Load() != 0 {
				fail("outside-group", "decoy %d (not a member) was probed %d times", i, c.started.Load())
			}
		}
	})
	return viol, st
}

var probeUserAddr = mustAddr("user.example", 443)

func (p *probePlan) brief() string {
	var b strings.Builder
	fmt.Fprintf(&b, "[proto=%s policy=%s order=%v decoys=%d timeout=%v interval=%v conc=%d rounds=%d", p.Proto, p.Policy, p.Order, p.Decoys,
		p.timeout(), p.interval(), p.Concurrency, len(p.Hist))
	if p.CfgJSON {
		names := make([]string, p.n())
		for pos, id := range p.Order {
			names[pos] = fmt.Sprintf("c%d", id)
		}
		var names2 []string
		if p.Other != nil {
			for _, id := range p.Other.Order {
				names2 = append(names2, fmt.Sprintf("c%d", id))
			}
		}
		fmt.Fprintf(&b, " config=%s", p.groupConfigJSON(names, names2))
	}
	if p.FlipAt > 0 {
		fmt.Fprintf(&b, " position %d flips at round %d", p.FlipPos, p.FlipAt)
	}
	if o := p.Other; o != nil {
		fmt.Fprintf(&b, " other-side(%s)={policy=%s order=%v", otherProto(p.Proto), o.Policy, o.Order)
		if o.probing() {
			fmt.Fprintf(&b, " timeout=%v interval=%v conc=%d rounds=%d", o.timeout(), o.interval(), o.Concurrency, len(o.Hist))
		}
		b.WriteString("}")
	}
	b.WriteString(" hist(last<=8)=")
	lo := len(p.Hist) - 8
	if lo < 0 {
		lo = 0
	}
	for r := lo; r < len(p.Hist); r++ {
		fmt.Fprintf(&b, "%d:%v ", r+1, p.Hist[r])
	}
	b.WriteString("]")
	return b.String()
}

// requiredFlipPoints are the flip rounds next to the ring sizes that every quick run must have explored
// (the other drawn points - 34, 66, 96, 97, 127..129 - are measured only).
var requiredFlipPoints = []int{32, 33, 63, 64, 65}

func probeRequired() []string {
	req := []string{"policy/availability", "policy/latency", "policy/min-max-latency", "proto/udp", "tie", "tie-winner-not-first", "history>retention", "retention-sensitive", "switch", "sample-during", "sample-after", "hang", "fail",
		"group>12", "group>12-with-tie", "group>12-with-tie/availability", "group>12-with-tie/latency", "group>12-with-tie/min-max-latency", "group>12-tie-winner-not-first"}
	// round 6, gap 1: every value class of every numeric probe field under every probing policy
	for _, f := range []string{"timeout", "interval", "concurrency"} {
		for _, c := range edgeClasses {
			for _, pol := range []string{polAvailability, polLatency, polMinMax} {
				req = append(req, "edge/"+f+"="+c+"/"+pol)
			}
		}
	}
	req = append(req, "edge/first-fails-second-succeeds", "edge/leaves-failing-first", "edge/leaves-failing-first/availability", "edge/leaves-failing-first/latency",
		"edge/leaves-failing-first/min-max-latency", "edge/config-decoded-from-json", "edge/probe-object-absent", "edge/timeout>interval")
	// gap 2: mixed groups
	req = append(req, "other-side-omitted", "mixed/tcp=probing+udp=round-robin", "mixed/tcp=probing+udp=random", "mixed/tcp=round-robin+udp=probing", "mixed/tcp=random+udp=probing",
		"mixed/tcp=probing+udp=probing", "mixed/probing+probing/other-judged-after-its-rounds", "mixed/probing+probing/other-accounting-judged", "mixed/probing+probing/intervals-differ", "mixed/probing+probing/udp-side-all-defaults-other-not", "mixed/probing+probing/tcp-side-all-defaults-other-not", "mixed/probing+probing/other-winner-not-first",
		"mixed/other-order-differs", "mixed/sides-serve-different-clients", "mixed/round-robin-full-cycle",
		"mixed/main-policy/availability", "mixed/main-policy/latency", "mixed/main-policy/min-max-latency")
	// gap 3: flips next to the ring sizes, deciding the choice afterwards
	for _, f := range requiredFlipPoints {
		req = append(req, fmt.Sprintf("flip@%d", f), fmt.Sprintf("flip-decisive@%d", f))
	}
	req = append(req, "flip-decisive/availability", "flip-decisive/latency", "flip-decisive/min-max-latency", "flip-decisive/in-rounds-33..64", "flip-decisive/in-rounds-65..128", "flip@>=96", "rounds>=128")
	return req
}

var recProbe = ev.New("C19", "probe-policies",
	"rapid plan executed in a testing/synctest bubble against a group built by ClientGroupConfig.AddClientGroup: policy in {availability, latency, min-max-latency}; "+
		"class general (1 in 2): 1..5 (7 in 8 cases) or 13..24 (1 in 8; with a team of 2..4 pairwise non-adjacent members sharing one mostly-good history and one always-failing member) scripted fake clients (TCP netio.StreamClient answering the HTTP probe over an in-memory conn; 10% UDP fakes whose probes can only fail/hang) in a drawn configuration order plus 0..2 non-member decoys; "+
		"timeout in {default 5s,250ms,1s,5s,7s}, concurrency in {default,1,2,n-1,n,n+1,100}, interval > round bound (incl. default 30s); 1..120 rounds (buckets 1-8/9-32/33-64/65-120); "+
		"per round and client an outcome {ok after lat, fail after lat (dial error/200/502/garbage/EOF), hang (dial/silence/partial)} drawn from a 2..6 entry palette with per-client preferred outcome, change point and mirroring (us granularity latencies in [0,timeout)); "+
		"class edge (3 in 10): configuration decoded from JSON text with timeout, interval, concurrency each in {omitted, 0, negative (-1, -default, -2^62 / MinInt), smallest positive (1ns; 1us timeout for latency), huge (10000h, 40000h, MaxInt/MaxInt32/33)}, 2..5 clients, 1..6 rounds, probe durations drawn to fit the effective interval, two in three with the first member always failing and the second always succeeding; a value that is not positive means the documented default (5s/30s/32); "+
		"class flip (1 in 5): 2..4 TCP clients, one of which changes from best to worst or back at round 32,33,34,63..66,96,97,127..129, the others steady, 0..70 further rounds (at most 140); "+
		"any class, 1 in 2: a second protocol side in the same group with its own members/order: round-robin or random (3 in 10; must follow its own cycle / membership and never be probed) or a different probing policy with its own timeout/interval (equal, 2x, 1.5x, 1/2 of the first side's)/concurrency/history (judged by its own reference at the same instants, probe accounting by its own interval); "+
		"selection sampled via NewStreamDialer/DialStream/NewSession at drawn instants inside every round (0, 1ns, completion instants +-1ns, timeout-1ns, timeout) and after it, compared with a reference policy over the retained window; every case is bounded in real time (no-completion watchdog). "+
		"Non-trivial: >=3 clients, >=1 round whose best figure is tied, history longer than the retention (64/32); distinct key = proto|policy|n|winner sequence|other side's policy").
	Require(probeRequired()...)

func probeLabels(p *probePlan, st probeStats) (key string, nt bool, labels []string) {
	n, R := p.n(), len(p.Hist)
	labels = append(labels, "policy/"+p.Policy, "proto/"+p.Proto, fmt.Sprintf("n=%d", n))
	if p.Class != "" {
		labels = append(labels, "class/"+p.Class)
	}
	if st.ties > 0 {
		labels = append(labels, "tie")
	}
	if st.tieWinnerNotFirst > 0 {
		labels = append(labels, "tie-winner-not-first")
	}
	if st.switches > 0 {
		labels = append(labels, "switch")
	}
	if n > 12 {
		labels = append(labels, "group>12")
		if st.bigTie > 0 {
			labels = append(labels, "group>12-with-tie", "group>12-with-tie/"+p.Policy)
		}
		if st.bigTieWinnerNotFirst > 0 {
			labels = append(labels, "group>12-tie-winner-not-first")
		}
	}
	long := R > retention(p.Policy)
	if long {
		labels = append(labels, "history>retention")
	}
	if R >= 128 {
		labels = append(labels, "rounds>=128")
	}
	if st.retSensitive {
		labels = append(labels, "retention-sensitive")
	}
	if st.hang {
		labels = append(labels, "hang")
	}
	if st.fail {
		labels = append(labels, "fail")
	}
	if p.conc() < n {
		labels = append(labels, "concurrency<clients")
	}
	if p.conc() < n && st.maxRunning == p.conc() {
		labels = append(labels, "concurrency-limit-reached")
	}
	if p.TimeoutNS == 0 {
		labels = append(labels, "default-timeout")
	}
	if p.IntervalNS == 0 {
		labels = append(labels, "default-interval")
	}
	if p.Decoys > 0 {
		labels = append(labels, "decoys")
	}
	if st.firstSeen > 0 {
		labels = append(labels, "initial-not-first")
	}

	// gap 1: edge configuration values
	if p.Class == "edge" {
		for i, f := range []string{"timeout", "interval", "concurrency"} {
			labels = append(labels, "edge/"+f+"="+p.Edge[i], "edge/"+f+"="+p.Edge[i]+"/"+p.Policy)
		}
		if p.CfgJSON {
			labels = append(labels, "edge/config-decoded-from-json")
		}
		if p.Omit&8 != 0 {
			labels = append(labels, "edge/probe-object-absent")
		}
		if p.timeout() > p.interval() {
			labels = append(labels, "edge/timeout>interval")
		}
		ffss := n >= 2 && p.Proto == "tcp"
		for _, row := range p.Hist {
			ffss = ffss && row[0].Kind != kOK && row[1].Kind == kOK
		}
		if ffss {
			labels = append(labels, "edge/first-fails-second-succeeds")
			if !strings.Contains(st.winners, "0") {
				// the reference says the group is away from its first member after every round, the first included
				labels = append(labels, "edge/leaves-failing-first", "edge/leaves-failing-first/"+p.Policy)
			}
		}
	}

	// gap 2: the other side
	if o := p.Other; o == nil {
		labels = append(labels, "other-side-omitted")
		if st.omittedRegistered {
			labels = append(labels, "omitted-side-registered")
		}
	} else {
		cls := func(pol string) string {
			if pol == polRoundRobin || pol == polRandom {
				return pol
			}
			return "probing"
		}
		tcpC, udpC := cls(p.Policy), cls(o.Policy)
		if p.Proto == "udp" {
			tcpC, udpC = udpC, tcpC
		}
		labels = append(labels, "mixed", "mixed/tcp="+tcpC+"+udp="+udpC, "mixed/main-policy/"+p.Policy, "mixed/other-policy/"+o.Policy)
		differs := len(o.Order) != len(p.Order)
		for i := 0; !differs && i < len(o.Order); i++ {
			differs = o.Order[i] != p.Order[i]
		}
		if differs {
			labels = append(labels, "mixed/other-order-differs")
		}
		if st.sidesDiffer {
			labels = append(labels, "mixed/sides-serve-different-clients")
		}
		if o.Policy == polRoundRobin && st.otherFullCycle && o.n() >= 2 {
			labels = append(labels, "mixed/round-robin-full-cycle")
		}
		if o.probing() {
			if st.otherAfterRounds > 0 {
				labels = append(labels, "mixed/probing+probing/other-judged-after-its-rounds")
			}
			if st.otherAccounted > 0 {
				labels = append(labels, "mixed/probing+probing/other-accounting-judged")
			}
			if o.interval() != p.interval() {
				labels = append(labels, "mixed/probing+probing/intervals-differ")
				// one side leaves all its probe settings out, the other has its own interval
				if o.TimeoutNS == 0 && o.IntervalNS == 0 && o.Concurrency == 0 {
					labels = append(labels, "mixed/probing+probing/"+otherProto(p.Proto)+"-side-all-defaults-other-not")
				}
				if p.TimeoutNS == 0 && p.IntervalNS == 0 && p.Concurrency == 0 {
					labels = append(labels, "mixed/probing+probing/"+p.Proto+"-side-all-defaults-other-not")
				}
			}
			if st.otherDuring > 0 {
				labels = append(labels, "mixed/probing+probing/other-sampled-during-its-round")
			}
			if st.otherSwitches > 0 {
				labels = append(labels, "mixed/probing+probing/other-switches")
			}
			if st.otherWinnerNot0 {
				labels = append(labels, "mixed/probing+probing/other-winner-not-first")
			}
		}
	}

	// gap 3: flips next to the ring sizes
	if p.FlipAt > 0 {
		labels = append(labels, fmt.Sprintf("flip@%d", p.FlipAt))
		if p.FlipAt >= 96 {
			labels = append(labels, "flip@>=96")
		}
		// decisive: without the flip (the flipper carrying on as before) the reference choice would differ
		// in some round from the flip on
		cf := make([][]outcome, R)
		for r := range cf {
			cf[r] = append([]outcome(nil), p.Hist[r]...)
			if r+1 >= p.FlipAt {
				cf[r][p.FlipPos] = p.FlipPre
			}
		}
		decisive, in33, in65 := false, false, false
		for r := p.FlipAt; r <= R; r++ {
			a, _ := refChoice(p.Policy, p.Hist, r, retention(p.Policy), int64(p.timeout()))
			b, _ := refChoice(p.Policy, cf, r, retention(p.Policy), int64(p.timeout()))
			if a != b {
				decisive = true
				in33 = in33 || (r >= 33 && r <= 64)
				in65 = in65 || (r >= 65 && r <= 128)
			}
		}
		if decisive {
			labels = append(labels, "flip-decisive", fmt.Sprintf("flip-decisive@%d", p.FlipAt), "flip-decisive/"+p.Policy)
		}
		if in33 {
			labels = append(labels, "flip-decisive/in-rounds-33..64")
		}
		if in65 {
			labels = append(labels, "flip-decisive/in-rounds-65..128")
		}
	}

	nt = n >= 3 && st.ties > 0 && long
	key = fmt.Sprintf("%s|%s|%d|%s", p.Proto, p.Policy, n, st.winners)
	if p.Other != nil {
		key += "|" + p.Other.Policy
	}
	return
}

func journalPath(kind string) string {
	w := os.Getenv("VERIF_WORK")
	if w == "" {
		return ""
	}
	return filepath.Join(w, fmt.Sprintf("journal-c19-%s-%d.json", kind, os.Getpid()))
}

// TestProbePolicies decides the availability / latency / min-max-latency part of C19 and the
// "keeps serving its previous choice while probes are running" / "never outside itself" clauses.
func TestProbePolicies(t *testing.T) {
	jp := journalPath("probe")
	rapid.Check(t, func(rt *rapid.T) {
		p := drawProbePlan(rt)
		if jp != "" {
			// a panic in a probe worker goroutine kills the process: leave the plan behind
			if b, err := json.Marshal(p); err == nil {
				os.WriteFile(jp, b, 0o644)
			}
		}
		viol, st := runProbePlan(t, p)
		if jp != "" {
			os.Remove(jp)
		}
		if viol != "" {
			if sig := sigOf(viol); sig != "" && ev.IsKnown("C19", sig) {
				recProbe.KnownHit(sig)
				return
			}
			rt.Fatalf("%s", viol)
		}
		key, nt, labels := probeLabels(p, st)
		recProbe.Case(key, nt, labels...)
		recProbe.Label("sample-during", st.during)
		recProbe.Label("sample-after", st.after)
		recProbe.Label("mixed/other-side-selections", st.otherSelections)
		if nt {
			recProbe.Sample(map[string]any{"proto": p.Proto, "policy": p.Policy, "order": p.Order, "timeout": p.timeout().String(),
				"interval": p.interval().String(), "concurrency": p.Concurrency, "rounds": len(p.Hist), "winners": st.winners,
				"ties": st.ties, "switches": st.switches, "samples": st.samples, "class": p.Class, "other": p.Other != nil})
		}
	})
}

func sigOf(viol string) string {
	if !strings.HasPrefix(viol, "SIG=C19/") {
		return ""
	}
	s := strings.TrimPrefix(viol, "SIG=C19/")
	if i := strings.IndexByte(s, ' '); i >= 0 {
		s = s[:i]
	}
	return s
}

// TestReplayProbe re-runs a journaled probe plan ($VERIF_REPLAY), e.g. one that crashed the process.
func TestReplayProbe(t *testing.T) {
	rp := os.Getenv("VERIF_REPLAY")
	if rp == "" {
		t.Skip("no VERIF_REPLAY")
	}
	b, err := os.ReadFile(rp)
	if err != nil {
		t.Fatalf("read replay: %v", err)
	}
	var p probePlan
	if err := json.Unmarshal(b, &p); err != nil || len(p.Order) == 0 || len(p.Hist) == 0 {
		t.Fatalf("replay file %s is not a C19 probe plan (%v)", rp, err)
	}
	if viol, _ := runProbePlan(t, &p); viol != "" {
		t.Fatalf("%s", viol)
	}
}
