package c19

import (
	"context"
	"encoding/json"
	"fmt"
	"os"
	"path/filepath"
	"sort"
	"strings"
	"testing"
	"testing/synctest"
	"time"

	"github.com/database64128/shadowsocks-go"
	"github.com/database64128/shadowsocks-go/clientgroups"
	"github.com/database64128/shadowsocks-go/jsoncfg"
	"github.com/database64128/shadowsocks-go/netio"
	"github.com/database64128/shadowsocks-go/zerocopy"
	"go.uber.org/zap"
	"pgregory.net/rapid"

	"verif/internal/ev"
)

const (
	docDefaultTimeout  = 5 * time.Second  // ConnectivityProbeConfig.Timeout: "Default is 5 seconds."
	docDefaultInterval = 30 * time.Second // ConnectivityProbeConfig.Interval: "Default is 30 seconds."
	docDefaultConc     = 32               // ConnectivityProbeConfig.Concurrency: "Default is 32."
)

// probePlan is one whole case: a group, its probe configuration, the scripted outcome of every
// probe of every client in every round, and the instants at which the group's selection is sampled.
type probePlan struct {
	Proto       string      `json:"proto"`  // "tcp" | "udp"
	Policy      string      `json:"policy"` // availability | latency | min-max-latency
	Order       []int       `json:"order"`  // configuration position -> fake id (fake ids are creation/name order)
	Decoys      int         `json:"decoys"` // clients registered in the maps but not members of the group
	TimeoutNS   int64       `json:"timeout"`
	IntervalNS  int64       `json:"interval"`
	Concurrency int         `json:"concurrency"`
	Hist        [][]outcome `json:"hist"`    // [round][configuration position]
	Samples     [][]int64   `json:"samples"` // per round: offsets (ns after the round's tick), ascending; the last one is >= the round bound
	ViaDial     []uint32    `json:"viaDial"` // per round: bit i set => sample i also goes through DialStream/NewSession
}

func (p *probePlan) n() int { return len(p.Order) }
func (p *probePlan) timeout() time.Duration {
	if p.TimeoutNS <= 0 {
		return docDefaultTimeout
	}
	return time.Duration(p.TimeoutNS)
}
func (p *probePlan) interval() time.Duration {
	if p.IntervalNS <= 0 {
		return docDefaultInterval
	}
	return time.Duration(p.IntervalNS)
}
func (p *probePlan) conc() int {
	c := p.Concurrency
	if c <= 0 {
		c = docDefaultConc
	}
	return min(c, p.n())
}

// roundBound is an upper bound of how long one probe round can take: every probe ends within the
// timeout, and at least one probe runs at any time (all of them when concurrency >= clients).
func roundBound(n, conc int, timeout time.Duration) time.Duration {
	if conc >= n {
		return timeout
	}
	return time.Duration(n) * timeout
}

var timeoutChoices = []int64{0, int64(250 * time.Millisecond), int64(time.Second), int64(5 * time.Second), int64(7 * time.Second)}

func drawLat(rt *rapid.T, T time.Duration) int64 {
	us := int64(T / time.Microsecond)
	switch rapid.IntRange(0, 7).Draw(rt, "latKind") {
	case 0:
		return 0
	case 1:
		return int64(time.Microsecond)
	case 2:
		return int64(T / 4)
	case 3:
		return int64(T / 2)
	case 4:
		return int64(T/2) + int64(time.Microsecond)
	case 5:
		return int64(T) - int64(time.Microsecond)
	default:
		return rapid.Int64Range(0, us-1).Draw(rt, "latUs") * int64(time.Microsecond)
	}
}

func drawProbePlan(rt *rapid.T) *probePlan {
	p := &probePlan{}
	p.Proto = "tcp"
	if rapid.IntRange(0, 9).Draw(rt, "proto") == 0 {
		p.Proto = "udp"
	}
	p.Policy = rapid.SampledFrom([]string{polAvailability, polLatency, polMinMax}).Draw(rt, "policy")
	// group size: the quantifier names 1..5 clients; the statement itself is not limited, so one case
	// in eight is a large group (13..24: beyond what small-slice special cases of sorts etc. cover)
	large := rapid.IntRange(0, 7).Draw(rt, "sizeClass") == 0
	n := rapid.IntRange(1, 5).Draw(rt, "n")
	if large {
		n = rapid.IntRange(13, 24).Draw(rt, "nLarge")
	}
	ids := make([]int, n)
	for i := range ids {
		ids[i] = i
	}
	p.Order = rapid.Permutation(ids).Draw(rt, "order")
	p.Decoys = rapid.IntRange(0, 2).Draw(rt, "decoys")
	p.TimeoutNS = rapid.SampledFrom(timeoutChoices).Draw(rt, "timeout")
	p.Concurrency = rapid.SampledFrom([]int{0, 0, 1, 2, n - 1, n, n + 1, 100}).Draw(rt, "conc")
	T := p.timeout()
	D := roundBound(n, p.conc(), T)
	switch rapid.IntRange(0, 3).Draw(rt, "intervalKind") {
	case 0:
		if D < docDefaultInterval {
			p.IntervalNS = 0 // documented default
		} else {
			p.IntervalNS = int64(D + time.Second)
		}
	case 1:
		p.IntervalNS = int64(D + time.Microsecond)
	case 2:
		p.IntervalNS = int64(D + T/2)
	default:
		p.IntervalNS = int64(D + 25*time.Second)
	}
	I := p.interval()

	var R int
	switch rapid.IntRange(0, 9).Draw(rt, "roundsKind") {
	case 0, 1, 2:
		R = rapid.IntRange(1, 8).Draw(rt, "rounds")
	case 3, 4:
		R = rapid.IntRange(9, 32).Draw(rt, "rounds")
	case 5, 6:
		R = rapid.IntRange(33, 64).Draw(rt, "rounds")
	default:
		R = rapid.IntRange(65, 120).Draw(rt, "rounds")
	}
	if large && R > 70 {
		R = 65 + R%6 // large groups: keep the cost bounded, still beyond both retentions
	}

	// a small palette of outcomes per case makes equal figures (ties) likely
	K := rapid.IntRange(2, 6).Draw(rt, "palette")
	pal := make([]outcome, K)
	for i := range pal {
		kind := rapid.SampledFrom([]int{kOK, kOK, kOK, kOK, kOK, kOK, kFail, kFail, kFail, kHang}).Draw(rt, "kind")
		o := outcome{Kind: kind, How: rapid.IntRange(0, 14).Draw(rt, "how")}
		if kind != kHang {
			o.Lat = drawLat(rt, T)
		}
		if p.Proto == "udp" && kind == kOK {
			o.Kind = kFail // a UDP fake cannot complete a probe inside a bubble
		}
		pal[i] = o
	}
	// every client has a preferred outcome before and after a change point
	pref1, pref2, change := make([]int, n), make([]int, n), make([]int, n)
	for i := 0; i < n; i++ {
		pref1[i] = rapid.IntRange(0, K-1).Draw(rt, "pref1")
		pref2[i] = rapid.IntRange(0, K-1).Draw(rt, "pref2")
		change[i] = rapid.IntRange(0, R).Draw(rt, "change")
	}
	// large groups: a "team" of 2..4 pairwise non-adjacent members with identical histories (mostly a
	// good outcome, so they usually share the best figure) and one member that always does badly
	teamOf := make([]int, n) // position -> leader position, -1 if not a follower
	for i := range teamOf {
		teamOf[i] = -1
	}
	loser := -1
	var good outcome
	leader := -1
	if large {
		size := rapid.IntRange(2, 4).Draw(rt, "team")
		pos := rapid.IntRange(0, 3).Draw(rt, "teamFirst")
		leader = pos
		for k := 1; k < size; k++ {
			pos += rapid.IntRange(2, 4).Draw(rt, "teamGap")
			if pos >= n {
				break
			}
			teamOf[pos] = leader
		}
		loser = rapid.IntRange(0, n-1).Draw(rt, "loser")
		if loser == leader || teamOf[loser] >= 0 {
			loser = -1
		}
		good = outcome{Kind: kOK, Lat: rapid.SampledFrom([]int64{0, int64(time.Microsecond), int64(T / 4)}).Draw(rt, "goodLat"), How: rapid.IntRange(0, 2).Draw(rt, "goodHow")}
		if p.Proto == "udp" {
			good = outcome{Kind: kFail, Lat: good.Lat}
		}
	}
	p.Hist = make([][]outcome, R)
	for r := 0; r < R; r++ {
		row := make([]outcome, n)
		for i := 0; i < n; i++ {
			if teamOf[i] >= 0 {
				row[i] = row[teamOf[i]]
				continue
			}
			if i == loser {
				row[i] = outcome{Kind: kFail, Lat: 0, How: r % 5}
				continue
			}
			v := rapid.IntRange(0, 7+K).Draw(rt, "o")
			if i == leader && v < 6 {
				row[i] = good
				continue
			}
			switch {
			case v < 6:
				if r < change[i] {
					row[i] = pal[pref1[i]]
				} else {
					row[i] = pal[pref2[i]]
				}
			case v < 8:
				if i > 0 {
					row[i] = row[i-1] // mirror the previous client in this round
				} else {
					row[i] = pal[pref1[i]]
				}
			default:
				row[i] = pal[v-8]
			}
		}
		p.Hist[r] = row
	}

	p.Samples = make([][]int64, R)
	p.ViaDial = make([]uint32, R)
	for r := 0; r < R; r++ {
		cand := []int64{0, 1, int64(T / 2), int64(T) - 1, int64(T), int64(D) - 1}
		for _, o := range p.Hist[r] {
			if o.Kind != kHang {
				cand = append(cand, o.Lat)
				if o.Lat > 0 {
					cand = append(cand, o.Lat-1)
				}
			}
		}
		k := rapid.IntRange(0, 3).Draw(rt, "nsamples")
		var offs []int64
		for j := 0; j < k; j++ {
			offs = append(offs, cand[rapid.IntRange(0, len(cand)-1).Draw(rt, "cand")])
		}
		sort.Slice(offs, func(a, b int) bool { return offs[a] < offs[b] })
		// the closing sample of the round: at or after the round bound, before the next tick
		var last int64
		switch rapid.IntRange(0, 2).Draw(rt, "lastKind") {
		case 0:
			last = int64(D)
		case 1:
			last = int64(I) - 1
		default:
			last = int64(D) + rapid.Int64Range(0, int64(I-D)-1).Draw(rt, "lastOff")
		}
		p.Samples[r] = append(offs, last)
		p.ViaDial[r] = rapid.Uint32Range(0, 15).Draw(rt, "viaDial")
	}
	return p
}

type probeStats struct {
	samples, during, after int64
	ties, tieWinnerNotFirst int
	bigTie                  int // rounds (groups > 12) whose best figure is shared by non-adjacent members while some member is worse
	bigTieWinnerNotFirst    int
	switches               int
	retSensitive           bool
	winners                string
	firstSeen              int
	hang, fail             bool
}

// runProbePlan executes a plan against the real client group inside a fake-time bubble and
// returns the first violation (empty if none).
func runProbePlan(t *testing.T, p *probePlan) (viol string, st probeStats) {
	n, R := p.n(), len(p.Hist)
	T, I := p.timeout(), p.interval()
	D := roundBound(n, p.conc(), T)
	if I <= D {
		return fmt.Sprintf("HARNESS: interval %v <= round bound %v", I, D), st
	}
	retain := retention(p.Policy)

	// reference choice after every number of completed rounds
	choice := make([]int, R+1)
	for r := 1; r <= R; r++ {
		var tie bool
		choice[r], tie = refChoice(p.Policy, p.Hist, r, retain, int64(T))
		if tie {
			st.ties++
			if choice[r] != 0 {
				st.tieWinnerNotFirst++
			}
		}
		if n > 12 && tie {
			sc := scores(p.Policy, p.Hist, r, retain, int64(T))
			first, lastBest, worse := choice[r], choice[r], false
			for pos, v := range sc {
				if v == sc[first] {
					lastBest = pos
				} else {
					worse = true
				}
			}
			// the best positions are first..lastBest (not necessarily all of them); non-adjacent if some
			// pair is >= 2 apart, which holds iff the extremes are
			if worse && lastBest-first >= 2 {
				st.bigTie++
				if first != 0 {
					st.bigTieWinnerNotFirst++
				}
			}
		}
		if r > 1 && choice[r] != choice[r-1] {
			st.switches++
		}
		for _, alt := range []int{retain - 1, retain + 1, 1 << 30} {
			if c, _ := refChoice(p.Policy, p.Hist, r, alt, int64(T)); c != choice[r] {
				st.retSensitive = true
			}
		}
	}
	var wb strings.Builder
	for r := 1; r <= R; r++ {
		wb.WriteByte(byte('0' + choice[r]))
	}
	st.winners = wb.String()
	for _, row := range p.Hist {
		for _, o := range row {
			st.hang = st.hang || o.Kind == kHang
			st.fail = st.fail || o.Kind == kFail
		}
	}
	st.firstSeen = -1

	fail := func(sig, format string, a ...any) {
		if viol == "" {
			viol = fmt.Sprintf("SIG=C19/%s/%s ", p.Policy, sig) + fmt.Sprintf(format, a...) + " " + p.brief()
		}
	}

	synctest.Test(t, func(t *testing.T) {
		posOf := make([]int, n) // fake id -> configuration position
		for pos, id := range p.Order {
			posOf[id] = pos
		}
		names := make([]string, n)
		for pos, id := range p.Order {
			names[pos] = fmt.Sprintf("c%d", id)
		}
		tcpMap := map[string]netio.StreamClient{}
		udpMap := map[string]zerocopy.UDPClient{}
		tcpFakes := make([]*fakeTCP, n)
		udpFakes := make([]*fakeUDP, n)
		counters := make([]*probeCounters, n)
		for id := 0; id < n; id++ {
			script := make([]outcome, R)
			for r := range script {
				script[r] = p.Hist[r][posOf[id]]
			}
			if p.Proto == "tcp" {
				f := &fakeTCP{id: id, name: fmt.Sprintf("c%d", id), script: script}
				tcpFakes[id], counters[id] = f, &f.probeCounters
				tcpMap[f.name] = f
			} else {
				f := &fakeUDP{id: id, name: fmt.Sprintf("c%d", id), script: script, headroom: zerocopy.Headroom{Front: id, Rear: n - id}}
				udpFakes[id], counters[id] = f, &f.probeCounters
				udpMap[f.name] = f
			}
		}
		var decoyCounters []*probeCounters
		for d := 0; d < p.Decoys; d++ {
			ft := &fakeTCP{id: 100 + d, name: fmt.Sprintf("d%d", d)}
			fu := &fakeUDP{id: 100 + d, name: fmt.Sprintf("d%d", d)}
			tcpMap[ft.name], udpMap[fu.name] = ft, fu
			decoyCounters = append(decoyCounters, &ft.probeCounters, &fu.probeCounters)
		}

		pc := clientgroups.ConnectivityProbeConfig{
			Timeout:     jsoncfg.Duration(p.TimeoutNS),
			Interval:    jsoncfg.Duration(p.IntervalNS),
			Concurrency: p.Concurrency,
		}
		cfg := clientgroups.ClientGroupConfig{Name: "grp"}
		if p.Proto == "tcp" {
			cfg.TCP.Policy = clientgroups.ClientSelectionPolicy(p.Policy)
			cfg.TCP.Clients = names
			cfg.TCP.Probe.ConnectivityProbeConfig = pc
		} else {
			cfg.UDP.Policy = clientgroups.ClientSelectionPolicy(p.Policy)
			cfg.UDP.Clients = names
			cfg.UDP.Probe.ConnectivityProbeConfig = pc
		}
		var services []shadowsocks.Service
		if err := cfg.AddClientGroup(zap.NewNop(), tcpMap, udpMap, func(s shadowsocks.Service) { services = append(services, s) }); err != nil {
			viol = "HARNESS: AddClientGroup: " + err.Error()
			return
		}
		if len(services) != 1 {
			viol = fmt.Sprintf("HARNESS: %d probe services registered, want 1", len(services))
			return
		}
		var tcpGroup netio.StreamClient
		var udpGroup zerocopy.UDPClient
		if p.Proto == "tcp" {
			tcpGroup = tcpMap["grp"]
		} else {
			udpGroup = udpMap["grp"]
		}
		if tcpGroup == nil && udpGroup == nil {
			viol = "HARNESS: group not added to the client map"
			return
		}

		ctx, cancel := context.WithCancel(context.Background())
		defer func() {
			cancel()
			synctest.Wait()
			// nothing may outlive the case: a probe that ignored its deadline is cut loose here
			left := 0
			for _, f := range tcpFakes {
				if f != nil {
					left += f.closeAll()
				}
			}
			synctest.Wait()
			if left > 0 {
				fail("probe-outlives-timeout", "%d probe connections were still open after the probe loop was cancelled", left)
			}
		}()
		t0 := time.Now()
		for _, s := range services {
			if err := s.Start(ctx); err != nil {
				viol = "HARNESS: Start: " + err.Error()
				return
			}
		}
		synctest.Wait()

		// selectOnce asks the group for its current client and returns the configuration position.
		selectOnce := func(viaDial bool) (int, bool) {
			if p.Proto == "tcp" {
				d, info := tcpGroup.NewStreamDialer()
				f, ok := d.(*fakeTCP)
				if !ok || f.id >= n || tcpFakes[f.id] != f {
					fail("outside-group", "NewStreamDialer returned %T %v (info %q), not a member", d, d, info.Name)
					return 0, false
				}
				if info.Name != f.name {
					fail("outside-group", "NewStreamDialer returned dialer %q with info name %q", f.name, info.Name)
					return 0, false
				}
				if viaDial {
					_, err := tcpGroup.DialStream(userCtx(), probeUserAddr, nil)
					ue, ok := err.(*userDialErr)
					if !ok || ue.id >= n {
						fail("outside-group", "DialStream went to %v, not a member", err)
						return 0, false
					}
					if ue.id != f.id {
						fail("inconsistent-selection", "NewStreamDialer gave c%d but DialStream at the same instant went to c%d", f.id, ue.id)
						return 0, false
					}
				}
				return posOf[f.id], true
			}
			info, sess, err := udpGroup.NewSession(userCtx())
			if err != nil {
				fail("outside-group", "NewSession failed: %v", err)
				return 0, false
			}
			id := sess.MaxPacketSize - 1000
			if id < 0 || id >= n || info.Name != udpFakes[id].name {
				fail("outside-group", "NewSession returned session of %q (mps %d), not a member", info.Name, sess.MaxPacketSize)
				return 0, false
			}
			return posOf[id], true
		}

		state := func() (minFinished int64, inflight bool, started []int64) {
			minFinished = 1 << 62
			started = make([]int64, n)
			for id, c := range counters {
				s, f := c.started.Load(), c.finished.Load()
				started[id] = s
				if f < minFinished {
					minFinished = f
				}
				if s > f {
					inflight = true
				}
			}
			return
		}

		sample := func(r int, off int64, closing, viaDial bool) bool {
			m, inflight, started := state()
			pos, ok := selectOnce(viaDial)
			if !ok {
				return false
			}
			st.samples++
			if inflight {
				st.during++
			} else {
				st.after++
			}
			want := 0
			if m == 0 {
				// before the first round has completed the group serves its initial choice; the
				// property only demands that it is a member and does not change
				if st.firstSeen < 0 {
					st.firstSeen = pos
				}
				want = st.firstSeen
			} else if int(m) <= R {
				want = choice[m]
			} else {
				fail("round-accounting", "round %d offset %v: %d probes completed per client, more than ticks elapsed", r, time.Duration(off), m)
				return false
			}
			if pos != want {
				sig := "choice-after-round"
				if inflight {
					sig = "switch-during-round"
				}
				sc := []int64(nil)
				if m > 0 {
					sc = scores(p.Policy, p.Hist, int(m), retain, int64(T))
				}
				fail(sig, "round %d offset %v (completed rounds %d, probes in flight %v): group serves position %d, want %d; figures %v",
					r, time.Duration(off), m, inflight, pos, want, sc)
				return false
			}
			if closing {
				// interval > round bound: by now round r is over and every client was probed once per tick
				for id, s := range started {
					if s != int64(r) || int64(r) != m || inflight {
						fail("round-accounting", "round %d offset %v: client c%d started %d probes, min completed %d, in flight %v; want %d each and none in flight",
							r, time.Duration(off), id, s, m, inflight, r)
						return false
					}
				}
			}
			return true
		}

		if !sample(0, 0, false, true) {
			return
		}
		for r := 1; r <= R; r++ {
			tick := t0.Add(time.Duration(r) * I)
			offs := p.Samples[r-1]
			for j, off := range offs {
				if d := tick.Add(time.Duration(off)).Sub(time.Now()); d > 0 {
					time.Sleep(d)
				}
				synctest.Wait()
				if !sample(r, off, j == len(offs)-1, p.ViaDial[r-1]&(1<<uint(j)) != 0) {
					return
				}
			}
		}
		for id, c := range counters {
			if c.overlap.Load() != 0 || c.overrun.Load() != 0 {
				fail("round-accounting", "client c%d: %d overlapping probes, %d probes beyond the %d ticks", id, c.overlap.Load(), c.overrun.Load(), R)
			}
		}
		for i, c := range decoyCounters {
			if c.started.Load() != 0 {
				fail("outside-group", "decoy %d (not a member) was probed %d times", i, c.started.Load())
			}
		}
	})
	return viol, st
}

var probeUserAddr = mustAddr("user.example", 443)

func (p *probePlan) brief() string {
	var b strings.Builder
	fmt.Fprintf(&b, "[proto=%s policy=%s order=%v decoys=%d timeout=%v interval=%v conc=%d rounds=%d hist(last<=8)=", p.Proto, p.Policy, p.Order, p.Decoys,
		p.timeout(), p.interval(), p.Concurrency, len(p.Hist))
	lo := len(p.Hist) - 8
	if lo < 0 {
		lo = 0
	}
	for r := lo; r < len(p.Hist); r++ {
		fmt.Fprintf(&b, "%d:%v ", r+1, p.Hist[r])
	}
	b.WriteString("]")
	return b.String()
}

var recProbe = ev.New("C19", "probe-policies",
	"rapid plan executed in a testing/synctest bubble against a group built by ClientGroupConfig.AddClientGroup: policy in {availability, latency, min-max-latency}; "+
		"1..5 (7 in 8 cases) or 13..24 (1 in 8; with a team of 2..4 pairwise non-adjacent members sharing one mostly-good history and one always-failing member) scripted fake clients (TCP netio.StreamClient answering the HTTP probe over an in-memory conn; 10% UDP fakes whose probes can only fail/hang) in a drawn configuration order plus 0..2 non-member decoys; "+
		"timeout in {default 5s,250ms,1s,5s,7s}, concurrency in {default,1,2,n-1,n,n+1,100}, interval > round bound (incl. default 30s); 1..120 rounds (buckets 1-8/9-32/33-64/65-120); "+
		"per round and client an outcome {ok after lat, fail after lat (dial error/200/502/garbage/EOF), hang (dial/silence/partial)} drawn from a 2..6 entry palette with per-client preferred outcome, change point and mirroring (us granularity latencies in [0,timeout)); "+
		"selection sampled via NewStreamDialer/DialStream/NewSession at drawn instants inside every round (0, 1ns, completion instants +-1ns, timeout-1ns, timeout) and after it, compared with a reference policy over the retained window. "+
		"Non-trivial: >=3 clients, >=1 round whose best figure is tied, history longer than the retention (64/32); distinct key = proto|policy|n|winner sequence").
	Require("policy/availability", "policy/latency", "policy/min-max-latency", "proto/udp", "tie", "tie-winner-not-first", "history>retention", "retention-sensitive", "switch", "sample-during", "sample-after", "hang", "fail",
		"group>12", "group>12-with-tie", "group>12-with-tie/availability", "group>12-with-tie/latency", "group>12-with-tie/min-max-latency", "group>12-tie-winner-not-first")

func probeLabels(p *probePlan, st probeStats) (key string, nt bool, labels []string) {
	n, R := p.n(), len(p.Hist)
	labels = append(labels, "policy/"+p.Policy, "proto/"+p.Proto, fmt.Sprintf("n=%d", n))
	if st.ties > 0 {
		labels = append(labels, "tie")
	}
	if st.tieWinnerNotFirst > 0 {
		labels = append(labels, "tie-winner-not-first")
	}
	if st.switches > 0 {
		labels = append(labels, "switch")
	}
	if n > 12 {
		labels = append(labels, "group>12")
		if st.bigTie > 0 {
			labels = append(labels, "group>12-with-tie", "group>12-with-tie/"+p.Policy)
		}
		if st.bigTieWinnerNotFirst > 0 {
			labels = append(labels, "group>12-tie-winner-not-first")
		}
	}
	long := R > retention(p.Policy)
	if long {
		labels = append(labels, "history>retention")
	}
	if st.retSensitive {
		labels = append(labels, "retention-sensitive")
	}
	if st.hang {
		labels = append(labels, "hang")
	}
	if st.fail {
		labels = append(labels, "fail")
	}
	if p.conc() < n {
		labels = append(labels, "concurrency<clients")
	}
	if p.TimeoutNS == 0 {
		labels = append(labels, "default-timeout")
	}
	if p.IntervalNS == 0 {
		labels = append(labels, "default-interval")
	}
	if p.Decoys > 0 {
		labels = append(labels, "decoys")
	}
	if st.firstSeen > 0 {
		labels = append(labels, "initial-not-first")
	}
	nt = n >= 3 && st.ties > 0 && long
	key = fmt.Sprintf("%s|%s|%d|%s", p.Proto, p.Policy, n, st.winners)
	return
}

func journalPath(kind string) string {
	w := os.Getenv("VERIF_WORK")
	if w == "" {
		return ""
	}
	return filepath.Join(w, fmt.Sprintf("journal-c19-%s-%d.json", kind, os.Getpid()))
}

// TestProbePolicies decides the availability / latency / min-max-latency part of C19 and the
// "keeps serving its previous choice while probes are running" / "never outside itself" clauses.
func TestProbePolicies(t *testing.T) {
	jp := journalPath("probe")
	rapid.Check(t, func(rt *rapid.T) {
		p := drawProbePlan(rt)
		if jp != "" {
			// a panic in a probe worker goroutine kills the process: leave the plan behind
			if b, err := json.Marshal(p); err == nil {
				os.WriteFile(jp, b, 0o644)
			}
		}
		viol, st := runProbePlan(t, p)
		if jp != "" {
			os.Remove(jp)
		}
		if viol != "" {
			if sig := sigOf(viol); sig != "" && ev.IsKnown("C19", sig) {
				recProbe.KnownHit(sig)
				return
			}
			rt.Fatalf("%s", viol)
		}
		key, nt, labels := probeLabels(p, st)
		recProbe.Case(key, nt, labels...)
		recProbe.Label("sample-during", st.during)
		recProbe.Label("sample-after", st.after)
		if nt {
			recProbe.Sample(map[string]any{"proto": p.Proto, "policy": p.Policy, "order": p.Order, "timeout": p.timeout().String(),
				"interval": p.interval().String(), "concurrency": p.Concurrency, "rounds": len(p.Hist), "winners": st.winners,
				"ties": st.ties, "switches": st.switches, "samples": st.samples})
		}
	})
}

func sigOf(viol string) string {
	if !strings.HasPrefix(viol, "SIG=C19/") {
		return ""
	}
	s := strings.TrimPrefix(viol, "SIG=C19/")
	if i := strings.IndexByte(s, ' '); i >= 0 {
		s = s[:i]
	}
	return s
}

// TestReplayProbe re-runs a journaled probe plan ($VERIF_REPLAY), e.g. one that crashed the process.
func TestReplayProbe(t *testing.T) {
	rp := os.Getenv("VERIF_REPLAY")
	if rp == "" {
		t.Skip("no VERIF_REPLAY")
	}
	b, err := os.ReadFile(rp)
	if err != nil {
		t.Fatalf("read replay: %v", err)
	}
	var p probePlan
	if err := json.Unmarshal(b, &p); err != nil || len(p.Order) == 0 || len(p.Hist) == 0 {
		t.Fatalf("replay file %s is not a C19 probe plan (%v)", rp, err)
	}
	if viol, _ := runProbePlan(t, &p); viol != "" {
		t.Fatalf("%s", viol)
	}
}
