package c19

import (
	"fmt"
	"testing"
	"time"

	"verif/internal/ev"
)

// Hand-written histories, one per clause of the policies, executed by the same runner and judged
// by the same reference model as the generated ones. They pin the boundary rounds (32/33, 64/65)
// deterministically, whatever the seed of the random search.

func fixedPlan(policy string, T time.Duration, hist [][]outcome) *probePlan {
	n := len(hist[0])
	p := &probePlan{Proto: "tcp", Policy: policy, TimeoutNS: int64(T), IntervalNS: int64(2 * T)}
	for i := 0; i < n; i++ {
		p.Order = append(p.Order, i)
	}
	p.Hist = hist
	for range hist {
		p.Samples = append(p.Samples, []int64{0, int64(T / 2), int64(T), int64(2*T) - 1})
		p.ViaDial = append(p.ViaDial, 0b1010)
	}
	return p
}

func okAt(d time.Duration) outcome   { return outcome{Kind: kOK, Lat: int64(d)} }
func failAt(d time.Duration) outcome { return outcome{Kind: kFail, Lat: int64(d), How: 1} }

var recFixed = ev.New("C19", "probe-regressions",
	"fixed histories: three-way tie (all policies), quick failure vs slow success, hang vs success, eviction of round 1 at round 33 (latency, min-max) and at round 65 (availability), "+
		"a success overwritten by a failure one lap later, groups of 13/16/20/24 clients whose best figure is shared by 2..12 non-adjacent members with everybody else (incl. position 0) worse, 20 identical clients; same runner and reference model as probe-policies. Non-trivial: all; distinct = case name")

func TestProbeRegressions(t *testing.T) {
	const T = time.Second
	type tc struct {
		name string
		plan *probePlan
		want map[int]int // completed rounds -> expected configuration position (cross-check of the model itself)
	}
	var cases []tc
	for _, pol := range []string{polAvailability, polLatency, polMinMax} {
		// three identical clients: the first in configuration order must be served throughout
		var h [][]outcome
		for r := 0; r < 3; r++ {
			h = append(h, []outcome{okAt(time.Millisecond), okAt(time.Millisecond), okAt(time.Millisecond)})
		}
		cases = append(cases, tc{"tie-first/" + pol, fixedPlan(pol, T, h), map[int]int{1: 0, 2: 0, 3: 0}})

		// an instant failure is worth the timeout, not its own (short) duration; a hang likewise
		h = nil
		for r := 0; r < 3; r++ {
			h = append(h, []outcome{failAt(0), {Kind: kHang, How: 1}, okAt(T / 2), okAt(T/2 + time.Microsecond)})
		}
		cases = append(cases, tc{"failed-is-timeout/" + pol, fixedPlan(pol, T, h), map[int]int{1: 2, 3: 2}})
	}
	for _, pol := range []string{polLatency, polMinMax} {
		// client 0 is slow in round 1 only; client 1 is steady. Round 1 leaves the 32-round window
		// exactly when round 33 completes.
		var h [][]outcome
		for r := 0; r < 40; r++ {
			c0 := okAt(time.Microsecond)
			if r == 0 {
				c0 = okAt(T - time.Microsecond)
			}
			h = append(h, []outcome{c0, okAt(T / 64)})
		}
		cases = append(cases, tc{"evict-at-33/" + pol, fixedPlan(pol, T, h), map[int]int{1: 1, 31: 1, 32: 1, 33: 0, 34: 0, 40: 0}})
	}
	{
		// availability keeps 64 rounds: client 0 missed round 1 only
		var h [][]outcome
		for r := 0; r < 70; r++ {
			c0 := okAt(time.Millisecond)
			if r == 0 {
				c0 = failAt(time.Millisecond)
			}
			h = append(h, []outcome{c0, okAt(time.Millisecond)})
		}
		cases = append(cases, tc{"evict-at-65/availability", fixedPlan(polAvailability, T, h), map[int]int{1: 1, 63: 1, 64: 1, 65: 0, 70: 0}})
		// a success is replaced by the failure that reuses its slot one lap later
		h = nil
		for r := 0; r < 70; r++ {
			c0, c1 := okAt(time.Millisecond), okAt(time.Millisecond)
			if r >= 64 {
				c0 = failAt(time.Millisecond)
			}
			if r == 0 {
				c1 = failAt(time.Millisecond)
			}
			h = append(h, []outcome{c0, c1})
		}
		cases = append(cases, tc{"overwrite-after-lap/availability", fixedPlan(polAvailability, T, h), map[int]int{1: 0, 64: 0, 65: 1, 70: 1}})
	}
	// groups of more than 12 clients: the best figure is shared by members that are not neighbours in the
	// configuration, everybody else (including position 0) is worse: the first of the tied members wins
	for _, pol := range []string{polAvailability, polLatency, polMinMax} {
		for _, g := range []struct {
			n    int
			team []int
		}{{13, []int{1, 12}}, {13, []int{5, 7, 9}}, {16, []int{3, 8, 15}}, {20, []int{2, 10, 11, 19}}, {24, []int{6, 13, 23}}, {24, []int{1, 3, 5, 7, 9, 11, 13, 15, 17, 19, 21, 23}}} {
			inTeam := map[int]bool{}
			for _, pos := range g.team {
				inTeam[pos] = true
			}
			var h [][]outcome
			for r := 0; r < 3; r++ {
				row := make([]outcome, g.n)
				for i := range row {
					switch {
					case inTeam[i]:
						row[i] = okAt(time.Millisecond)
					case i%3 == 0:
						row[i] = failAt(0)
					default:
						// a worse figure under every policy: one failure, then slower successes
						if r == 0 {
							row[i] = failAt(time.Millisecond)
						} else {
							row[i] = okAt(T / 2)
						}
					}
				}
				h = append(h, row)
			}
			want := g.team[0]
			cases = append(cases, tc{fmt.Sprintf("large-tie/%s/n=%d/first=%d/%d-way", pol, g.n, want, len(g.team)), fixedPlan(pol, T, h), map[int]int{1: want, 2: want, 3: want}})
		}
		// 20 identical clients: position 0
		var h [][]outcome
		for r := 0; r < 2; r++ {
			row := make([]outcome, 20)
			for i := range row {
				row[i] = okAt(time.Millisecond)
			}
			h = append(h, row)
		}
		cases = append(cases, tc{"large-all-equal/" + pol, fixedPlan(pol, T, h), map[int]int{1: 0, 2: 0}})
	}
	for _, c := range cases {
		for r, want := range c.want {
			if got, _ := refChoice(c.plan.Policy, c.plan.Hist, r, retention(c.plan.Policy), c.plan.TimeoutNS); got != want {
				t.Fatalf("HARNESS: %s: reference model says %d after round %d, hand computation says %d", c.name, got, r, want)
			}
		}
		viol, st := runProbePlan(t, c.plan)
		if viol != "" {
			if sig := sigOf(viol); sig != "" && ev.IsKnown("C19", sig) {
				recFixed.KnownHit(sig)
				continue
			}
			t.Fatalf("%s: %s", c.name, viol)
		}
		recFixed.Case(c.name, true, "case/"+c.name)
		recFixed.Label("samples", st.samples)
	}
}
