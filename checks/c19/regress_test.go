package c19

import (
	"fmt"
	"math"
	"testing"
	"time"

	"verif/internal/ev"
)

// Hand-written histories, one per clause of the policies, executed by the same runner and judged
// by the same reference model as the generated ones. They pin the boundary rounds (32/33, 64/65)
// deterministically, whatever the seed of the random search.

func fixedPlan(policy string, T time.Duration, hist [][]outcome) *probePlan {
	n := len(hist[0])
	p := &probePlan{Proto: "tcp", Policy: policy, TimeoutNS: int64(T), IntervalNS: int64(2 * T)}
	for i := 0; i < n; i++ {
		p.Order = append(p.Order, i)
	}
	p.Hist = hist
	for range hist {
		p.Samples = append(p.Samples, []int64{0, int64(T / 2), int64(T), int64(2*T) - 1})
		p.ViaDial = append(p.ViaDial, 0b1010)
	}
	return p
}

func okAt(d time.Duration) outcome   { return outcome{Kind: kOK, Lat: int64(d)} }
func failAt(d time.Duration) outcome { return outcome{Kind: kFail, Lat: int64(d), How: 1} }

var recFixed = ev.New("C19", "probe-regressions",
	"fixed histories: three-way tie (all policies), quick failure vs slow success, hang vs success, eviction of round 1 at round 33 (latency, min-max) and at round 65 (availability), "+
		"a success overwritten by a failure one lap later, round 6: edge configuration values decoded from JSON (all negative / most negative / zero / omitted / no probe object / smallest positive / huge; first member failing, second succeeding), a member flipping at round 32,33,63,64,65,128,129, mixed groups (TCP probing + UDP round-robin/random, TCP round-robin + UDP probing, two probing sides with their own settings), groups of 13/16/20/24 clients whose best figure is shared by 2..12 non-adjacent members with everybody else (incl. position 0) worse, 20 identical clients; same runner and reference model as probe-policies. Non-trivial: all; distinct = case name")

func TestProbeRegressions(t *testing.T) {
	const T = time.Second
	type tc struct {
		name string
		plan *probePlan
		want map[int]int // completed rounds -> expected configuration position (cross-check of the model itself)
	}
	var cases []tc
	for _, pol := range []string{polAvailability, polLatency, polMinMax} {
		// three identical clients: the first in configuration order must be served throughout
		var h [][]outcome
		for r := 0; r < 3; r++ {
			h = append(h, []outcome{okAt(time.Millisecond), okAt(time.Millisecond), okAt(time.Millisecond)})
		}
		cases = append(cases, tc{"tie-first/" + pol, fixedPlan(pol, T, h), map[int]int{1: 0, 2: 0, 3: 0}})

		// an instant failure is worth the timeout, not its own (short) duration; a hang likewise
		h = nil
		for r := 0; r < 3; r++ {
			h = append(h, []outcome{failAt(0), {Kind: kHang, How: 1}, okAt(T / 2), okAt(T/2 + time.Microsecond)})
		}
		cases = append(cases, tc{"failed-is-timeout/" + pol, fixedPlan(pol, T, h), map[int]int{1: 2, 3: 2}})
	}
	for _, pol := range []string{polLatency, polMinMax} {
		// client 0 is slow in round 1 only; client 1 is steady. Round 1 leaves the 32-round window
		// exactly when round 33 completes.
		var h [][]outcome
		for r := 0; r < 40; r++ {
			c0 := okAt(time.Microsecond)
			if r == 0 {
				c0 = okAt(T - time.Microsecond)
			}
			h = append(h, []outcome{c0, okAt(T / 64)})
		}
		cases = append(cases, tc{"evict-at-33/" + pol, fixedPlan(pol, T, h), map[int]int{1: 1, 31: 1, 32: 1, 33: 0, 34: 0, 40: 0}})
	}
	{
		// availability keeps 64 rounds: client 0 missed round 1 only
		var h [][]outcome
		for r := 0; r < 70; r++ {
			c0 := okAt(time.Millisecond)
			if r == 0 {
				c0 = failAt(time.Millisecond)
			}
			h = append(h, []outcome{c0, okAt(time.Millisecond)})
		}
		cases = append(cases, tc{"evict-at-65/availability", fixedPlan(polAvailability, T, h), map[int]int{1: 1, 63: 1, 64: 1, 65: 0, 70: 0}})
		// a success is replaced by the failure that reuses its slot one lap later
		h = nil
		for r := 0; r < 70; r++ {
			c0, c1 := okAt(time.Millisecond), okAt(time.Millisecond)
			if r >= 64 {
				c0 = failAt(time.Millisecond)
			}
			if r == 0 {
				c1 = failAt(time.Millisecond)
			}
			h = append(h, []outcome{c0, c1})
		}
		cases = append(cases, tc{"overwrite-after-lap/availability", fixedPlan(polAvailability, T, h), map[int]int{1: 0, 64: 0, 65: 1, 70: 1}})
	}
	// groups of more than 12 clients: the best figure is shared by members that are not neighbours in the
	// configuration, everybody else (including position 0) is worse: the first of the tied members wins
	for _, pol := range []string{polAvailability, polLatency, polMinMax} {
		for _, g := range []struct {
			n    int
			team []int
		}{{13, []int{1, 12}}, {13, []int{5, 7, 9}}, {16, []int{3, 8, 15}}, {20, []int{2, 10, 11, 19}}, {24, []int{6, 13, 23}}, {24, []int{1, 3, 5, 7, 9, 11, 13, 15, 17, 19, 21, 23}}} {
			inTeam := map[int]bool{}
			for _, pos := range g.team {
				inTeam[pos] = true
			}
			var h [][]outcome
			for r := 0; r < 3; r++ {
				row := make([]outcome, g.n)
				for i := range row {
					switch {
					case inTeam[i]:
						row[i] = okAt(time.Millisecond)
					case i%3 == 0:
						row[i] = failAt(0)
					default:
						// a worse figure under every policy: one failure, then slower successes
						if r == 0 {
							row[i] = failAt(time.Millisecond)
						} else {
							row[i] = okAt(T / 2)
						}
					}
				}
				h = append(h, row)
			}
			want := g.team[0]
			cases = append(cases, tc{fmt.Sprintf("large-tie/%s/n=%d/first=%d/%d-way", pol, g.n, want, len(g.team)), fixedPlan(pol, T, h), map[int]int{1: want, 2: want, 3: want}})
		}
		// 20 identical clients: position 0
		var h [][]outcome
		for r := 0; r < 2; r++ {
			row := make([]outcome, 20)
			for i := range row {
				row[i] = okAt(time.Millisecond)
			}
			h = append(h, row)
		}
		cases = append(cases, tc{"large-all-equal/" + pol, fixedPlan(pol, T, h), map[int]int{1: 0, 2: 0}})
	}
	// ---- round 6 ------------------------------------------------------------------------------
	// gap 1: configuration values at and beyond the edge of their range, decoded from JSON; first member
	// always fails, second always succeeds: away from the first member after the very first round
	for _, pol := range []string{polAvailability, polLatency, polMinMax} {
		one := int64(1)
		if pol == polLatency {
			one = int64(time.Microsecond)
		}
		for _, e := range []struct {
			name              string
			timeout, interval int64
			conc, omit        int
			c0, c1            outcome
		}{
			{"all-negative", -int64(time.Second), -int64(time.Second), -1, 0, failAt(0), okAt(0)},
			{"all-most-negative", -(1 << 62), -(1 << 62), math.MinInt, 0, failAt(time.Millisecond), okAt(time.Second)},
			{"all-zero", 0, 0, 0, 0, outcome{Kind: kHang, How: 1}, okAt(time.Second)},
			{"all-omitted", 0, 0, 0, 7, outcome{Kind: kHang, How: 0}, okAt(time.Second)},
			{"no-probe-object", 0, 0, 0, 15, failAt(0), okAt(0)},
			{"all-smallest-positive", one, 1, 1, 0, failAt(0), okAt(0)},
			{"all-huge", int64(hugeTimeout), int64(hugeInterval), math.MaxInt, 0, outcome{Kind: kHang, How: 2}, okAt(time.Hour)},
			{"huge-timeout-default-interval", int64(hugeTimeout), 0, 0, 2, failAt(time.Second), okAt(29 * time.Second)},
		} {
			p := &probePlan{Proto: "tcp", Policy: pol, Order: []int{0, 1}, TimeoutNS: e.timeout, IntervalNS: e.interval, Concurrency: e.conc,
				CfgJSON: true, Omit: e.omit, HasBound: true, Class: "edge"}
			var maxDur int64
			for _, o := range []outcome{e.c0, e.c1} {
				d := o.Lat
				if o.Kind == kHang {
					d = int64(p.timeout())
				}
				maxDur = max(maxDur, d)
			}
			p.BoundNS = maxDur * int64(p.n()/p.conc())
			for r := 0; r < 3; r++ {
				p.Hist = append(p.Hist, []outcome{e.c0, e.c1})
				offs := []int64{0}
				if p.BoundNS > 0 {
					offs = append(offs, 1, p.BoundNS-1, p.BoundNS)
				}
				p.Samples = append(p.Samples, append(offs, int64(p.interval())-1))
				p.ViaDial = append(p.ViaDial, 0b10101)
			}
			cases = append(cases, tc{"edge-config/" + e.name + "/" + pol, p, map[int]int{1: 1, 2: 1, 3: 1}})
		}
	}
	// gap 3: the first member is the better one until round F-1 and fails from round F on; the second is
	// steady. F next to the ring sizes; the switch must come exactly where the retained window says.
	for _, pol := range []string{polAvailability, polLatency, polMinMax} {
		for _, F := range []int{32, 33, 63, 64, 65, 128, 129} {
			var h [][]outcome
			for r := 1; r <= F+10; r++ {
				c0 := okAt(0)
				if r >= F {
					c0 = failAt(0)
				}
				h = append(h, []outcome{c0, okAt(T / 4)})
			}
			want := map[int]int{F - 1: 0, F: 1, F + 10: 1}
			if pol == polLatency {
				// k failures cost k*T; the steady member's 32 retained rounds cost 8T: equal at k = 8 (first wins), worse at 9
				want = map[int]int{F - 1: 0, F + 7: 0, F + 8: 1, F + 10: 1}
			}
			p := fixedPlan(pol, T, h)
			p.Class, p.FlipAt, p.FlipPos, p.FlipPre = "flip", F, 0, okAt(0)
			cases = append(cases, tc{fmt.Sprintf("flip-at-%d/%s", F, pol), p, want})
		}
	}
	// gap 2: both sides in one group, different policies, different member orders
	{
		var h [][]outcome
		for r := 0; r < 4; r++ {
			h = append(h, []outcome{failAt(0), okAt(time.Millisecond), okAt(2 * time.Millisecond)})
		}
		for _, pol := range []string{polAvailability, polLatency, polMinMax} {
			// TCP <probing> + UDP round-robin / random over its own order
			for _, other := range []string{polRoundRobin, polRandom} {
				p := fixedPlan(pol, T, h)
				p.Other = &otherSide{Policy: other, Order: []int{2, 0, 3, 1}}
				cases = append(cases, tc{"mixed/tcp=" + pol + "+udp=" + other, p, map[int]int{1: 1, 4: 1}})
			}
			// TCP round-robin + UDP <probing> (the UDP fakes can only fail: the UDP side stays on its first member
			// and must be probed by its own schedule, the TCP side cycles)
			var hu [][]outcome
			for r := 0; r < 4; r++ {
				hu = append(hu, []outcome{failAt(0), {Kind: kHang}, failAt(T / 2)})
			}
			p := fixedPlan(pol, T, hu)
			p.Proto = "udp"
			p.Other = &otherSide{Policy: polRoundRobin, Order: []int{1, 2, 0}}
			cases = append(cases, tc{"mixed/tcp=round-robin+udp=" + pol, p, map[int]int{1: 0, 4: 0}})
		}
		// two probing sides: TCP availability (interval 2T) + UDP min-max-latency (defaults 5s/30s/32) and
		// UDP latency (first side) + TCP availability with its own history, timeout T/2, interval 3T
		p := fixedPlan(polAvailability, T, h)
		p.Other = &otherSide{Policy: polMinMax, Order: []int{1, 0}, Hist: [][]outcome{{failAt(0), {Kind: kHang}}}}
		cases = append(cases, tc{"mixed/tcp=availability+udp=min-max-latency(defaults)", p, map[int]int{1: 1, 4: 1}})
		var hu [][]outcome
		for r := 0; r < 6; r++ {
			hu = append(hu, []outcome{failAt(0), failAt(0)})
		}
		p = fixedPlan(polLatency, T, hu)
		p.Proto = "udp"
		p.Other = &otherSide{Policy: polAvailability, Order: []int{2, 1, 0}, TimeoutNS: int64(T / 2), IntervalNS: int64(3 * T), Concurrency: 1}
		for r := 0; r < 6; r++ {
			// the other (TCP) side's own history: its third member is the only one that answers, from its round 2 on
			row := []outcome{failAt(0), {Kind: kHang, How: 1}, failAt(time.Millisecond)}
			if r >= 1 {
				row[2] = okAt(time.Millisecond)
			}
			p.Other.Hist = append(p.Other.Hist, row)
		}
		cases = append(cases, tc{"mixed/udp=latency+tcp=availability(own-history)", p, map[int]int{1: 0, 6: 0}})
	}
	for _, c := range cases {
		for r, want := range c.want {
			if got, _ := refChoice(c.plan.Policy, c.plan.Hist, r, retention(c.plan.Policy), int64(c.plan.timeout())); got != want {
				t.Fatalf("HARNESS: %s: reference model says %d after round %d, hand computation says %d", c.name, got, r, want)
			}
		}
		viol, st := runProbePlan(t, c.plan)
		if viol != "" {
			if sig := sigOf(viol); sig != "" && ev.IsKnown("C19", sig) {
				recFixed.KnownHit(sig)
				continue
			}
			t.Fatalf("%s: %s", c.name, viol)
		}
		recFixed.Case(c.name, true, "case/"+c.name)
		recFixed.Label("samples", st.samples)
		recFixed.Label("other-side-selections", st.otherSelections)
	}
}
