package c19

import (
	"context"
	"encoding/binary"
	"io"
	"net"
	"net/netip"
	"strconv"
	"strings"
	"sync"
	"sync/atomic"
	"time"

	"golang.org/x/net/dns/dnsmessage"

	"verif/internal/ssudp"
)

// ---------------------------------------------------------------------------------------------
// Owned name resolution: net.DefaultResolver becomes a pure-Go resolver whose transport is an
// in-memory DNS-over-TCP conversation with this responder. Every name under c19.test resolves to
// 127.0.0.1 (A only); everything else does not exist. conn.Addr.ResolveIP and the direct UDP
// packer follow it.

var (
	resolverOnce  sync.Once
	resolverNames sync.Map     // name -> *atomic.Int64: A questions answered per name under c19.test
	ownedNameSeq  atomic.Int64 // every plan gets its own name, so its lookups can be counted
)

// newOwnedName returns a fresh resolvable name.
func newOwnedName() string {
	name := "dns-" + strconv.FormatInt(ownedNameSeq.Add(1), 10) + ".c19.test"
	resolverNames.Store(name, new(atomic.Int64))
	return name
}

func ownedNameQueries(name string) int64 {
	if v, ok := resolverNames.Load(name); ok {
		return v.(*atomic.Int64).Load()
	}
	return 0
}

func installResolver() {
	resolverOnce.Do(func() {
		net.DefaultResolver = &net.Resolver{
			PreferGo: true,
			Dial: func(ctx context.Context, network, address string) (net.Conn, error) {
				c1, c2 := net.Pipe()
				go serveOwnedDNS(c2)
				return c1, nil
			},
		}
	})
}

func serveOwnedDNS(c net.Conn) {
	defer c.Close()
	var lb [2]byte
	for {
		if _, err := io.ReadFull(c, lb[:]); err != nil {
			return
		}
		q := make([]byte, binary.BigEndian.Uint16(lb[:]))
		if _, err := io.ReadFull(c, q); err != nil {
			return
		}
		var p dnsmessage.Parser
		h, err := p.Start(q)
		if err != nil {
			return
		}
		qu, err := p.Question()
		if err != nil {
			return
		}
		msg := dnsmessage.Message{
			Header:    dnsmessage.Header{ID: h.ID, Response: true, RecursionDesired: h.RecursionDesired, RecursionAvailable: true},
			Questions: []dnsmessage.Question{qu},
		}
		name := strings.ToLower(strings.TrimSuffix(qu.Name.String(), "."))
		switch {
		case !strings.HasSuffix(name, "c19.test"):
			msg.Header.RCode = dnsmessage.RCodeNameError
		case qu.Type == dnsmessage.TypeA:
			if v, ok := resolverNames.Load(name); ok {
				v.(*atomic.Int64).Add(1)
			}
			msg.Answers = []dnsmessage.Resource{{
				Header: dnsmessage.ResourceHeader{Name: qu.Name, Type: dnsmessage.TypeA, Class: dnsmessage.ClassINET, TTL: 1},
				Body:   &dnsmessage.AResource{A: [4]byte{127, 0, 0, 1}},
			}}
		}
		out, err := msg.Pack()
		if err != nil {
			return
		}
		buf := make([]byte, 2+len(out))
		binary.BigEndian.PutUint16(buf, uint16(len(out)))
		copy(buf[2:], out)
		c.SetWriteDeadline(time.Now().Add(5 * time.Second))
		if _, err := c.Write(buf); err != nil {
			return
		}
	}
}

// ---------------------------------------------------------------------------------------------
// loopRelay is a harness-side UDP relay on loopback speaking the server side of Shadowsocks
// "none" (SOCKS address | payload) or Shadowsocks 2022 (decoded with the harness's own codec
// internal/ssudp): it strips the tunnel header of a member's packet, forwards the payload to the
// member's scripted DNS responder from its own upstream socket, and sends the responder's answer
// back wrapped as coming from the address the prober asked for (always in IP form, as a real
// relay reports it). The relay's address is what the member's packer returns as destination; it
// is never the DNS server's address.
type loopRelay struct {
	kind      string // "ssnone" | "ss2022"
	front, up *net.UDPConn
	responder netip.AddrPort
	srcWire   []byte // SOCKS form of the DNS server address reported as payload source
	keys      ssudp.Keys
	ssid      uint64
	spid      atomic.Uint64

	mu     sync.Mutex // guards client, csid
	client netip.AddrPort
	csid   uint64

	forwarded   atomic.Int64
	returned    atomic.Int64
	undecodable atomic.Int64
	domainSeen  atomic.Int64 // packets whose tunnelled target was a domain name
	ipSeen      atomic.Int64
}

func newLoopRelay(kind string, responder, reportAs netip.AddrPort, psk []byte, ssid uint64) (*loopRelay, error) {
	front, err := net.ListenUDP("udp4", &net.UDPAddr{IP: net.IPv4(127, 0, 0, 1)})
	if err != nil {
		return nil, err
	}
	up, err := net.ListenUDP("udp4", &net.UDPAddr{IP: net.IPv4(127, 0, 0, 1)})
	if err != nil {
		front.Close()
		return nil, err
	}
	r := &loopRelay{kind: kind, front: front, up: up, responder: responder, keys: ssudp.Keys{PSK: psk}, ssid: ssid,
		srcWire: socksWire(reportAs)}
	go r.serveFront()
	go r.serveUp()
	return r, nil
}

// socksWire is the SOCKS5 encoding of an IP endpoint *as given*: an IPv4-mapped IPv6 address stays
// a 16-byte ATYP 4 address (some relays report sources that way), it is not folded to IPv4.
func socksWire(ap netip.AddrPort) []byte {
	var out []byte
	if ap.Addr().Is4() {
		a := ap.Addr().As4()
		out = append(append(out, 1), a[:]...)
	} else {
		a := ap.Addr().As16()
		out = append(append(out, 4), a[:]...)
	}
	return binary.BigEndian.AppendUint16(out, ap.Port())
}

func (r *loopRelay) addrPort() netip.AddrPort { return r.front.LocalAddr().(*net.UDPAddr).AddrPort() }
func (r *loopRelay) close()                   { r.front.Close(); r.up.Close() }

func (r *loopRelay) serveFront() {
	b := make([]byte, 4096)
	for {
		n, from, err := r.front.ReadFromUDPAddrPort(b)
		if err != nil {
			return
		}
		var target, payload []byte
		var csid uint64
		switch r.kind {
		case "ssnone":
			al, err := ssudp.SocksAddrLen(b[:n])
			if err != nil {
				r.undecodable.Add(1)
				continue
			}
			target, payload = b[:al], b[al:n]
		default:
			cp, err := r.keys.DecodeClient(b[:n])
			if err != nil || cp.Type != ssudp.TypeClient {
				r.undecodable.Add(1)
				continue
			}
			target, payload, csid = cp.Addr, cp.Payload, cp.SID
		}
		if target[0] == 3 {
			r.domainSeen.Add(1)
		} else {
			r.ipSeen.Add(1)
		}
		r.mu.Lock()
		r.client, r.csid = from, csid
		r.mu.Unlock()
		r.forwarded.Add(1)
		r.up.WriteToUDPAddrPort(payload, r.responder)
	}
}

func (r *loopRelay) serveUp() {
	b := make([]byte, 4096)
	for {
		n, _, err := r.up.ReadFromUDPAddrPort(b)
		if err != nil {
			return
		}
		r.mu.Lock()
		client, csid := r.client, r.csid
		r.mu.Unlock()
		if !client.IsValid() {
			continue
		}
		var out []byte
		switch r.kind {
		case "ssnone":
			out = append(append(out, r.srcWire...), b[:n]...)
		default:
			out = r.keys.EncodeServer(ssudp.ServerPacket{SID: r.ssid, PID: r.spid.Add(1) - 1, Type: ssudp.TypeServer,
				TS: uint64(time.Now().Unix()), CSID: csid, Addr: r.srcWire, Payload: append([]byte(nil), b[:n]...)}, nil)
		}
		r.returned.Add(1)
		r.front.WriteToUDPAddrPort(out, client)
	}
}
