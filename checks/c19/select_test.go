package c19

import (
	"fmt"
	"os"
	"strconv"
	"sync"
	"testing"

	"github.com/database64128/shadowsocks-go"
	"github.com/database64128/shadowsocks-go/clientgroups"
	"github.com/database64128/shadowsocks-go/conn"
	"github.com/database64128/shadowsocks-go/netio"
	"github.com/database64128/shadowsocks-go/zerocopy"
	"go.uber.org/zap"
	"pgregory.net/rapid"

	"verif/internal/ev"
)

func mustAddr(domain string, port uint16) conn.Addr { return conn.MustAddrFromDomainPort(domain, port) }

// selPlan is one case for the probe-less policies: a group (TCP and/or UDP side), a sequential
// prefix of selections, a concurrent burst by real goroutines, and a sequential suffix.
type selPlan struct {
	Proto   string // "tcp" | "udp"
	Policy  string // round-robin | random
	Members []int  // configuration position -> fake id; ids may repeat (a client listed twice)
	Fakes   int    // number of distinct fakes registered under c0..c<Fakes-1>; those not in Members are decoys
	Seq1    []bool // sequential prefix: per selection, true = via DialStream (TCP only), false = via NewStreamDialer
	G       int    // concurrent selectors
	PerG    []int  // selections per selector
	DialG   []bool // selector g uses DialStream (TCP only)
	Seq2    []bool

	// the group's other protocol side (round 6): "" = left out of the configuration, otherwise its own
	// policy (round-robin | random | availability | latency | min-max-latency; a probing side's probe
	// service is registered but never started here, so it keeps serving its initial member) over its own
	// member list in its own order. Interleave: the other side is used between this side's selections
	// (and by one more goroutine during the burst) - the two sides must not disturb each other.
	Other        string
	OtherMembers []int
	Interleave   bool
}

func envInt(name string, def int) int {
	if v, err := strconv.Atoi(os.Getenv(name)); err == nil && v > 0 {
		return v
	}
	return def
}

func drawSelPlan(rt *rapid.T) *selPlan {
	p := &selPlan{}
	p.Proto = rapid.SampledFrom([]string{"tcp", "tcp", "udp"}).Draw(rt, "proto")
	p.Policy = rapid.SampledFrom([]string{polRoundRobin, polRoundRobin, polRandom}).Draw(rt, "policy")
	n := rapid.IntRange(1, 5).Draw(rt, "n")
	if rapid.IntRange(0, 7).Draw(rt, "sizeClass") == 0 {
		n = rapid.IntRange(13, 24).Draw(rt, "nLarge") // the statement is not limited to the quantifier's 1..5
	}
	p.Fakes = n + rapid.IntRange(0, 2).Draw(rt, "decoys")
	ids := make([]int, p.Fakes)
	for i := range ids {
		ids[i] = i
	}
	perm := rapid.Permutation(ids).Draw(rt, "perm")
	p.Members = append([]int(nil), perm[:n]...)
	if n >= 2 && rapid.IntRange(0, 7).Draw(rt, "dup") == 0 {
		// a client listed twice (allowed by the configuration; it then takes two places of the cycle)
		i := rapid.IntRange(1, n-1).Draw(rt, "dupAt")
		p.Members[i] = p.Members[rapid.IntRange(0, i-1).Draw(rt, "dupOf")]
	}
	p.Seq1 = rapid.SliceOfN(rapid.Bool(), 0, 3*n+2).Draw(rt, "seq1")
	p.G = rapid.IntRange(2, 16).Draw(rt, "G")
	maxPer := envInt("VERIF_C19_PERG", 300)
	p.PerG = make([]int, p.G)
	p.DialG = make([]bool, p.G)
	for g := range p.PerG {
		if rapid.IntRange(0, 3).Draw(rt, "small") == 0 {
			p.PerG[g] = rapid.IntRange(1, 2*n).Draw(rt, "per")
		} else {
			p.PerG[g] = rapid.IntRange(1, maxPer).Draw(rt, "per")
		}
		p.DialG[g] = rapid.Bool().Draw(rt, "dialG")
	}
	p.Seq2 = rapid.SliceOfN(rapid.Bool(), 0, 2*n+1).Draw(rt, "seq2")
	opposite := polRandom
	if p.Policy == polRandom {
		opposite = polRoundRobin
	}
	p.Other = rapid.SampledFrom([]string{"", opposite, opposite, polRoundRobin, polRandom, polAvailability, polLatency, polMinMax}).Draw(rt, "other")
	if p.Other != "" {
		n2 := rapid.IntRange(1, min(5, p.Fakes)).Draw(rt, "otherN")
		p.OtherMembers = rapid.Permutation(ids).Draw(rt, "otherPerm")[:n2]
		p.Interleave = rapid.Bool().Draw(rt, "interleave")
	}
	return p
}

type selStats struct {
	total      int
	startPos   int // configuration position of the very first selection (-1 unknown)
	allSeen    bool
	dupMembers bool

	otherSelections   int
	otherFullCycle    bool // the other side is round-robin and handed out at least one full cycle of >= 2 members
	omittedRegistered bool
}

// selector abstracts "ask the group once, tell me which fake it was"; returns -1 with a reason
// when the answer is not one of the registered fakes at all.
type selector func(viaDial bool) (id int, why string)

func runSelPlan(p *selPlan) (viol string, st selStats) {
	n := len(p.Members)
	fail := func(sig, format string, a ...any) {
		if viol == "" {
			viol = fmt.Sprintf("SIG=C19/%s/%s ", p.Policy, sig) + fmt.Sprintf(format, a...) +
				fmt.Sprintf(" [proto=%s members=%v fakes=%d seq1=%d G=%d perG=%v seq2=%d other-side=%q over %v interleaved=%v]", p.Proto, p.Members, p.Fakes, len(p.Seq1), p.G, p.PerG, len(p.Seq2), p.Other, p.OtherMembers, p.Interleave)
		}
	}
	tcpMap := map[string]netio.StreamClient{}
	udpMap := map[string]zerocopy.UDPClient{}
	tcpFakes := make([]*fakeTCP, p.Fakes)
	udpFakes := make([]*fakeUDP, p.Fakes)
	for id := 0; id < p.Fakes; id++ {
		name := fmt.Sprintf("c%d", id)
		tcpFakes[id] = &fakeTCP{id: id, name: name}
		udpFakes[id] = &fakeUDP{id: id, name: name, headroom: zerocopy.Headroom{Front: id, Rear: 2 * id}}
		tcpMap[name], udpMap[name] = tcpFakes[id], udpFakes[id]
	}
	names := make([]string, n)
	isMember := make([]bool, p.Fakes)
	for pos, id := range p.Members {
		names[pos] = fmt.Sprintf("c%d", id)
		if isMember[id] {
			st.dupMembers = true
		}
		isMember[id] = true
	}
	cfg := clientgroups.ClientGroupConfig{Name: "grp"}
	// the other protocol's side: left out, or a group of its own policy over its own members
	var otherNames []string
	isOtherMember := make([]bool, p.Fakes)
	for _, id := range p.OtherMembers {
		otherNames = append(otherNames, fmt.Sprintf("c%d", id))
		isOtherMember[id] = true
	}
	if p.Proto == "tcp" {
		cfg.TCP.Policy, cfg.TCP.Clients = clientgroups.ClientSelectionPolicy(p.Policy), names
		cfg.UDP.Policy, cfg.UDP.Clients = clientgroups.ClientSelectionPolicy(p.Other), otherNames
	} else {
		cfg.UDP.Policy, cfg.UDP.Clients = clientgroups.ClientSelectionPolicy(p.Policy), names
		cfg.TCP.Policy, cfg.TCP.Clients = clientgroups.ClientSelectionPolicy(p.Other), otherNames
	}
	otherProbing := p.Other != "" && p.Other != polRoundRobin && p.Other != polRandom
	svcs := 0
	if err := cfg.AddClientGroup(zap.NewNop(), tcpMap, udpMap, func(shadowsocks.Service) { svcs++ }); err != nil {
		return "HARNESS: AddClientGroup: " + err.Error(), st
	}
	if want := map[bool]int{false: 0, true: 1}[otherProbing]; svcs != want {
		fail("probe-services", "%d probe services registered, but the configuration has %d side(s) with a probing policy (other side %q)", svcs, want, p.Other)
		return viol, st
	}
	tcpGroup, udpGroup := tcpMap["grp"], udpMap["grp"]
	if p.Other == "" {
		// the side without clients is left out (measured only)
		if p.Proto == "tcp" {
			st.omittedRegistered = udpGroup != nil
		} else {
			st.omittedRegistered = tcpGroup != nil
		}
	} else if tcpGroup == nil || udpGroup == nil {
		return "HARNESS: group not added to the client maps", st
	}
	if (p.Proto == "tcp" && tcpGroup == nil) || (p.Proto == "udp" && udpGroup == nil) {
		return "HARNESS: group not added to the client map", st
	}

	uctx := userCtx()
	mkSel := func(proto string) selector {
		var sel selector
		if proto == "tcp" {
			sel = func(viaDial bool) (int, string) {
				if viaDial {
					_, err := tcpGroup.DialStream(uctx, probeUserAddr, nil)
					ue, ok := err.(*userDialErr)
					if !ok || ue.id < 0 || ue.id >= p.Fakes {
						return -1, fmt.Sprintf("DialStream: %v", err)
					}
					return ue.id, ""
				}
				d, info := tcpGroup.NewStreamDialer()
				f, ok := d.(*fakeTCP)
				if !ok || f.id < 0 || f.id >= p.Fakes || tcpFakes[f.id] != f || info.Name != f.name {
					return -1, fmt.Sprintf("NewStreamDialer: %T %v info %q", d, d, info.Name)
				}
				return f.id, ""
			}
		} else {
			sel = func(bool) (int, string) {
				info, sess, err := udpGroup.NewSession(uctx)
				id := sess.MaxPacketSize - 1000
				if err != nil || id < 0 || id >= p.Fakes || info.Name != udpFakes[id].name {
					return -1, fmt.Sprintf("NewSession: info %q mps %d err %v", info.Name, sess.MaxPacketSize, err)
				}
				return id, ""
			}
		}
		return sel
	}
	sel := mkSel(p.Proto)

	// the other side, used in between: every answer must be one of ITS members; round-robin (sequential
	// use only) must follow ITS configured cycle; a probing side whose probes never ran keeps one member
	var (
		otherSel    selector
		otherCands  []bool
		otherTicket int
		otherFirst  = -1
	)
	if p.Other != "" {
		otherSel = mkSel(map[string]string{"tcp": "udp", "udp": "tcp"}[p.Proto])
		otherCands = make([]bool, len(p.OtherMembers))
		for i := range otherCands {
			otherCands[i] = true
		}
	}
	useOther := func(phase string, sequential bool) bool {
		id, why := otherSel(otherTicket%2 == 1)
		if id < 0 || !isOtherMember[id] {
			if id >= 0 {
				why = fmt.Sprintf("fake c%d is not a member of that side (members %v)", id, p.OtherMembers)
			}
			fail("mixed-outside-group", "%s: other side (%s) selection: %s", phase, p.Other, why)
			return false
		}
		if !sequential {
			return true
		}
		st.otherSelections++
		n2 := len(p.OtherMembers)
		switch {
		case p.Other == polRoundRobin:
			any := false
			for s := range otherCands {
				if otherCands[s] && p.OtherMembers[(s+otherTicket)%n2] != id {
					otherCands[s] = false
				}
				any = any || otherCands[s]
			}
			if !any {
				fail("mixed-cyclic-order", "%s: other side (round-robin over %v) selection %d went to c%d: not the next one of its own cycle", phase, p.OtherMembers, otherTicket, id)
				return false
			}
			st.otherFullCycle = st.otherFullCycle || (n2 >= 2 && otherTicket+1 >= n2)
		case otherProbing:
			if otherFirst < 0 {
				otherFirst = id
			} else if id != otherFirst {
				fail("mixed-switch-without-probe", "%s: other side (%s, probes never started) moved from c%d to c%d", phase, p.Other, otherFirst, id)
				return false
			}
		}
		otherTicket++
		return true
	}

	// Oracle state for round-robin: the set of cycle offsets s still consistent with everything
	// seen, where ticket j (0-based over the whole run) must go to Members[(s+j) mod n]. The
	// property fixes the cyclic configuration order, not which member is served first.
	cands := make([]bool, n)
	for s := range cands {
		cands[s] = true
	}
	anyCand := func() bool {
		for _, c := range cands {
			if c {
				return true
			}
		}
		return false
	}
	ticket := 0
	seen := make([]bool, p.Fakes)
	check := func(phase string, id int, why string) bool {
		if id < 0 || !isMember[id] {
			if id >= 0 {
				why = fmt.Sprintf("fake c%d is registered but not a member", id)
			}
			fail("outside-group", "%s selection %d: %s", phase, ticket, why)
			return false
		}
		seen[id] = true
		return true
	}
	sequential := func(phase string, via []bool) bool {
		var got []int
		for _, v := range via {
			if p.Interleave && !useOther(phase, true) {
				return false
			}
			id, why := sel(v)
			if !check(phase, id, why) {
				return false
			}
			got = append(got, id)
			if p.Policy == polRoundRobin {
				for s := range cands {
					if cands[s] && p.Members[(s+ticket)%n] != id {
						cands[s] = false
					}
				}
				if !anyCand() {
					fail("cyclic-order", "%s: sequential selections %v (tickets %d..%d) are not consecutive in the cyclic configuration order", phase, got, ticket-len(got)+1, ticket)
					return false
				}
			}
			ticket++
		}
		return true
	}

	if !sequential("prefix", p.Seq1) {
		return viol, st
	}

	// concurrent burst
	results := make([][]int, p.G)
	whys := make([]string, p.G)
	startCh := make(chan struct{})
	var wg sync.WaitGroup
	for g := 0; g < p.G; g++ {
		wg.Add(1)
		go func() {
			defer wg.Done()
			out := make([]int, 0, p.PerG[g])
			<-startCh
			for k := 0; k < p.PerG[g]; k++ {
				id, why := sel(p.DialG[g])
				if id < 0 {
					whys[g] = why
				}
				out = append(out, id)
			}
			results[g] = out
		}()
	}
	otherBad := false
	if p.Interleave {
		// one more goroutine keeps the other side busy during the burst
		wg.Add(1)
		go func() {
			defer wg.Done()
			<-startCh
			for k := 0; k < 64 && !otherBad; k++ {
				id, _ := otherSel(k%2 == 1)
				if id < 0 || !isOtherMember[id] {
					otherBad = true
				}
			}
		}()
	}
	close(startCh)
	wg.Wait()
	if otherBad {
		fail("mixed-outside-group", "other side (%s over %v) returned a non-member while this side was under concurrent selection", p.Other, p.OtherMembers)
		return viol, st
	}
	if p.Interleave && p.Other == polRoundRobin {
		// 64 unobserved tickets went by on the other side: restart its cycle bookkeeping
		for i := range otherCands {
			otherCands[i] = true
		}
		otherTicket = 0
	}
	counts := make([]int, p.Fakes)
	N := 0
	for g, out := range results {
		for _, id := range out {
			if !check(fmt.Sprintf("concurrent(selector %d)", g), id, whys[g]) {
				return viol, st
			}
			counts[id]++
			N++
		}
	}
	if p.Policy == polRoundRobin {
		// tickets ticket..ticket+N-1 were handed out, each exactly once, in some interleaving
		for s := range cands {
			if !cands[s] {
				continue
			}
			want := make([]int, p.Fakes)
			full, rem := N/n, N%n
			for pos := 0; pos < n; pos++ {
				want[p.Members[pos]] += full
			}
			for j := 0; j < rem; j++ {
				want[p.Members[(s+ticket+j)%n]]++
			}
			for id := range want {
				if want[id] != counts[id] {
					cands[s] = false
				}
			}
		}
		if !anyCand() {
			fail("concurrent-multiset", "after %d sequential selections, %d concurrent selections by %d goroutines gave per-client counts %v: not what %d consecutive tickets of the cycle contain",
				ticket, N, p.G, counts, N)
			return viol, st
		}
	}
	ticket += N

	if !sequential("suffix", p.Seq2) {
		return viol, st
	}
	st.total = ticket
	st.allSeen = true
	for id, m := range isMember {
		if m && !seen[id] {
			st.allSeen = false
		}
	}
	st.startPos = -1
	for s, c := range cands {
		if c {
			st.startPos = s
			break
		}
	}
	// decoys must never have been reached (cross-check of the per-call identification)
	for id := 0; id < p.Fakes; id++ {
		mainUsed, otherUsed := tcpFakes[id].userDials.Load() != 0, udpFakes[id].userSessions.Load() != 0
		if p.Proto == "udp" {
			mainUsed, otherUsed = otherUsed, mainUsed
		}
		if (!isMember[id] && mainUsed) || (!isOtherMember[id] && otherUsed) {
			fail("outside-group", "c%d was used through a side it is not a member of (this side %v, other side %v)", id, p.Members, p.OtherMembers)
		}
	}
	return viol, st
}

var recSel = ev.New("C19", "round-robin-random",
	"rapid plan with real goroutines: group built by ClientGroupConfig.AddClientGroup (TCP side via NewStreamDialer/DialStream, UDP side via NewSession; 1..5 (7 in 8 cases) or 13..24 (1 in 8) members in a drawn order, "+
		"1 in 8 with a client listed twice, 0..2 registered non-member decoys); the other protocol side left out (1 in 8) or configured with its own policy (round-robin, random, or a probing policy whose probes are never started) over its own 1..5 members in its own order, "+
		"in half of those cases used between this side's sequential selections and by one more goroutine during the burst (its answers must be its own members, its round-robin its own cycle; this side's cycle must not notice); sequential prefix (0..3n+2 selections), burst of 2..16 goroutines released together with 1..VERIF_C19_PERG selections each, sequential suffix. "+
		"Oracle round-robin: exists a cycle offset s such that sequential ticket j goes to Members[(s+j) mod n] throughout, and the burst's per-client counts equal those of its consecutive ticket range; "+
		"random and all policies: every selection is a member. Non-trivial: >=3 members, >=2 goroutines with >= 2n selections in total, round-robin additionally with non-empty prefix and suffix; distinct key = proto|policy|members|G|prefix/burst/suffix sizes").
	Require("policy/round-robin", "policy/random", "proto/tcp", "proto/udp", "dup-member", "decoys", "burst-not-multiple-of-n", "n>=3", "group>12", "group>12/round-robin", "group>12/random",
		"other-side-omitted", "mixed/other=round-robin", "mixed/other=random", "mixed/other=probing", "mixed/tcp=round-robin+other=probing", "mixed/udp=round-robin+other=probing", "mixed/other=min-max-latency",
		"mixed/other-members-differ", "mixed/interleaved", "mixed/both-round-robin-interleaved", "mixed/other-round-robin-full-cycle")

// TestRoundRobinRandom decides the round-robin (cyclic, none skipped, also under concurrent
// selection) and random (members only) clauses of C19.
func TestRoundRobinRandom(t *testing.T) {
	rapid.Check(t, func(rt *rapid.T) {
		p := drawSelPlan(rt)
		viol, st := runSelPlan(p)
		if viol != "" {
			if sig := sigOf(viol); sig != "" && ev.IsKnown("C19", sig) {
				recSel.KnownHit(sig)
				return
			}
			rt.Fatalf("%s", viol)
		}
		n := len(p.Members)
		burst := 0
		for _, k := range p.PerG {
			burst += k
		}
		labels := []string{"policy/" + p.Policy, "proto/" + p.Proto, fmt.Sprintf("n=%d", n)}
		if n >= 3 {
			labels = append(labels, "n>=3")
		}
		if n > 12 {
			labels = append(labels, "group>12", "group>12/"+p.Policy)
		}
		if st.dupMembers {
			labels = append(labels, "dup-member")
		}
		if p.Fakes > n || st.dupMembers {
			labels = append(labels, "decoys")
		}
		if burst%n != 0 {
			labels = append(labels, "burst-not-multiple-of-n")
		}
		if st.allSeen {
			labels = append(labels, "all-members-served")
		}
		switch {
		case p.Other == "":
			labels = append(labels, "other-side-omitted")
			if st.omittedRegistered {
				labels = append(labels, "omitted-side-registered")
			}
		case p.Other == polRoundRobin || p.Other == polRandom:
			labels = append(labels, "mixed", "mixed/other="+p.Other)
		default:
			labels = append(labels, "mixed", "mixed/other=probing", "mixed/other="+p.Other, "mixed/"+p.Proto+"="+p.Policy+"+other=probing")
		}
		if p.Other != "" {
			if fmt.Sprint(p.OtherMembers) != fmt.Sprint(p.Members) {
				labels = append(labels, "mixed/other-members-differ")
			}
			if p.Interleave && st.otherSelections > 0 {
				labels = append(labels, "mixed/interleaved")
				if p.Policy == polRoundRobin && p.Other == polRoundRobin && n >= 2 && len(p.OtherMembers) >= 2 {
					labels = append(labels, "mixed/both-round-robin-interleaved")
				}
			}
			if st.otherFullCycle {
				labels = append(labels, "mixed/other-round-robin-full-cycle")
			}
			recSel.Label("mixed/other-side-selections", int64(st.otherSelections))
		}
		if p.Policy == polRoundRobin && st.startPos > 0 && len(p.Seq1) > 0 {
			labels = append(labels, "first-served-not-first-configured")
		}
		nt := n >= 3 && p.G >= 2 && burst >= 2*n
		if p.Policy == polRoundRobin {
			nt = nt && len(p.Seq1) > 0 && len(p.Seq2) > 0
		}
		recSel.Label("selections", int64(st.total))
		key := fmt.Sprintf("%s|%s|%v|%d|%d/%d/%d", p.Proto, p.Policy, p.Members, p.G, len(p.Seq1), burst, len(p.Seq2))
		recSel.Case(key, nt, labels...)
		if nt {
			recSel.Sample(map[string]any{"proto": p.Proto, "policy": p.Policy, "members": p.Members, "fakes": p.Fakes,
				"prefix": len(p.Seq1), "goroutines": p.G, "burst": burst, "suffix": len(p.Seq2)})
		}
	})
}
