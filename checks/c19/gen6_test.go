package c19

import (
	"fmt"
	"math"
	"strings"
	"time"

	"pgregory.net/rapid"
)

// Round 6 generator classes on top of the general one (probe_test.go):
//
//	edge   probe configuration values at and beyond the edge of their documented range, decoded from
//	       JSON text the way service.Config is: timeout / interval / concurrency each omitted, zero,
//	       negative, the smallest positive value, or huge. ConnectivityProbeConfig documents
//	       "Default is 5 seconds / 30 seconds / 32"; a value that is not a positive number selects that
//	       default, so the reference model uses the default and everything else is judged as usual.
//	flip   histories longer than both retentions in which one member changes its behaviour at a
//	       round next to a multiple of the ring sizes (32, 33, 34, 63..66, 96, 97, 127..129), arranged
//	       so that the change decides the choice in the rounds after it.
//
// Every class may additionally get a second protocol side with its own policy (drawOther).

const (
	hugeTimeout  = 10000 * time.Hour // a whole number of microseconds; 32 of them still fit an int64 sum
	hugeInterval = 40000 * time.Hour
)

var edgeClasses = []string{"omitted", "zero", "negative", "one", "huge"}

func drawProbePlan(rt *rapid.T) *probePlan {
	class := rapid.SampledFrom([]string{"general", "general", "general", "general", "general", "edge", "edge", "edge", "flip", "flip"}).Draw(rt, "class")
	var p *probePlan
	switch class {
	case "edge":
		p = drawEdgePlan(rt)
	case "flip":
		p = drawFlipPlan(rt)
	default:
		p = drawGeneralPlan(rt)
	}
	p.Class = class
	drawOther(rt, p)
	return p
}

// drawEdgePlan: 2..5 clients, 1..6 rounds, configuration values from the edge classes. Probe durations
// are drawn so that every round of the drawn history is over before the next tick whatever the
// (effective) interval is; the plan carries that bound itself (HasBound).
func drawEdgePlan(rt *rapid.T) *probePlan {
	p := &probePlan{CfgJSON: true, HasBound: true}
	p.Proto = "tcp"
	if rapid.IntRange(0, 5).Draw(rt, "proto") == 0 {
		p.Proto = "udp"
	}
	p.Policy = rapid.SampledFrom([]string{polAvailability, polLatency, polMinMax}).Draw(rt, "policy")
	n := rapid.IntRange(2, 5).Draw(rt, "n")
	ids := make([]int, n)
	for i := range ids {
		ids[i] = i
	}
	p.Order = rapid.Permutation(ids).Draw(rt, "order")
	p.Decoys = rapid.IntRange(0, 1).Draw(rt, "decoys")

	tc := rapid.SampledFrom(edgeClasses).Draw(rt, "timeoutClass")
	ic := rapid.SampledFrom(edgeClasses).Draw(rt, "intervalClass")
	cc := rapid.SampledFrom(edgeClasses).Draw(rt, "concClass")
	if rapid.IntRange(0, 7).Draw(rt, "allOmitted") == 0 {
		tc, ic, cc = "omitted", "omitted", "omitted" // an empty "probe" object, or none at all
	}
	p.Edge = [3]string{tc, ic, cc}
	switch tc {
	case "omitted":
		p.Omit |= 1
	case "negative":
		p.TimeoutNS = rapid.SampledFrom([]int64{-1, -int64(5 * time.Second), -(1 << 62)}).Draw(rt, "negTimeout")
	case "one":
		p.TimeoutNS = 1
		if p.Policy == polLatency {
			// the latency policy's figures are judged at microsecond granularity (see NOTES, "Observation")
			p.TimeoutNS = int64(time.Microsecond)
		}
	case "huge":
		p.TimeoutNS = int64(hugeTimeout)
	}
	switch ic {
	case "omitted":
		p.Omit |= 2
	case "negative":
		p.IntervalNS = rapid.SampledFrom([]int64{-1, -int64(30 * time.Second), -(1 << 62)}).Draw(rt, "negInterval")
	case "one":
		p.IntervalNS = 1
	case "huge":
		p.IntervalNS = int64(hugeInterval)
	}
	switch cc {
	case "omitted":
		p.Omit |= 4
	case "negative":
		p.Concurrency = rapid.SampledFrom([]int{-1, -32, math.MinInt}).Draw(rt, "negConc")
	case "one":
		p.Concurrency = 1
	case "huge":
		p.Concurrency = rapid.SampledFrom([]int{math.MaxInt, math.MaxInt32, 33}).Draw(rt, "hugeConc")
	}
	if p.Omit == 7 && rapid.Bool().Draw(rt, "noProbeObject") {
		p.Omit |= 8
	}

	T, I, c := p.timeout(), p.interval(), p.conc()
	// L: the longest a single probe may take so that the whole round ends before the next tick
	L := int64(I) - 1
	if c < n {
		L /= int64(n)
	}
	maxLat := min(int64(T)-1, L)
	hangOK := int64(T) <= L
	lat := func(label string) int64 {
		us := maxLat / int64(time.Microsecond)
		if us <= 0 {
			return 0
		}
		switch rapid.IntRange(0, 3).Draw(rt, label) {
		case 0:
			return 0
		case 1:
			return int64(time.Microsecond)
		case 2:
			return us * int64(time.Microsecond)
		default:
			return rapid.Int64Range(0, us).Draw(rt, label+"Us") * int64(time.Microsecond)
		}
	}
	bad := func() outcome {
		if hangOK && rapid.IntRange(0, 2).Draw(rt, "hang") == 0 {
			return outcome{Kind: kHang, How: rapid.IntRange(0, 2).Draw(rt, "how")}
		}
		return outcome{Kind: kFail, Lat: lat("failLat"), How: rapid.IntRange(0, 4).Draw(rt, "how")}
	}
	good := func() outcome {
		if p.Proto == "udp" {
			return bad() // a UDP fake cannot complete a probe inside a bubble
		}
		return outcome{Kind: kOK, Lat: lat("okLat"), How: rapid.IntRange(0, 2).Draw(rt, "how")}
	}
	R := rapid.IntRange(1, 6).Draw(rt, "rounds")
	// two in three cases: the first member always fails and the second always succeeds, so the group has
	// to leave its initial member after the very first round - provided rounds happen at all
	ffss := rapid.IntRange(0, 2).Draw(rt, "shape") != 0
	p.Hist = make([][]outcome, R)
	var maxDur int64
	for r := range p.Hist {
		row := make([]outcome, n)
		for i := range row {
			switch {
			case ffss && i == 0:
				row[i] = bad()
			case ffss && i == 1:
				row[i] = good()
			case rapid.Bool().Draw(rt, "ok"):
				row[i] = good()
			default:
				row[i] = bad()
			}
			d := row[i].Lat
			if row[i].Kind == kHang {
				d = int64(T)
			}
			maxDur = max(maxDur, d)
		}
		p.Hist[r] = row
	}
	p.BoundNS = maxDur
	if c < n {
		p.BoundNS = maxDur * int64(n)
	}
	drawSamples(rt, p)
	return p
}

var flipPoints = []int{32, 33, 34, 63, 64, 65, 66, 96, 97, 127, 128, 129}

// drawFlipPlan: 2..4 TCP clients; one of them (the flipper) is the best member before round FlipAt and
// the worst from then on, or the other way round; the others are steady, so the flipper's change is
// what decides the choice in the rounds after it.
func drawFlipPlan(rt *rapid.T) *probePlan {
	p := &probePlan{Proto: "tcp"}
	p.Policy = rapid.SampledFrom([]string{polAvailability, polLatency, polMinMax}).Draw(rt, "policy")
	n := rapid.IntRange(2, 4).Draw(rt, "n")
	ids := make([]int, n)
	for i := range ids {
		ids[i] = i
	}
	p.Order = rapid.Permutation(ids).Draw(rt, "order")
	p.Decoys = rapid.IntRange(0, 1).Draw(rt, "decoys")
	p.TimeoutNS = rapid.SampledFrom([]int64{0, int64(250 * time.Millisecond), int64(time.Second)}).Draw(rt, "timeout")
	p.Concurrency = rapid.SampledFrom([]int{0, 1, n}).Draw(rt, "conc")
	T := p.timeout()
	D := roundBound(n, p.conc(), T)
	switch rapid.IntRange(0, 2).Draw(rt, "intervalKind") {
	case 0:
		if D < docDefaultInterval {
			p.IntervalNS = 0
		} else {
			p.IntervalNS = int64(D + time.Second)
		}
	case 1:
		p.IntervalNS = int64(D + time.Microsecond)
	default:
		p.IntervalNS = int64(D + T/2)
	}
	p.FlipAt = rapid.SampledFrom(flipPoints).Draw(rt, "flipAt")
	p.FlipPos = rapid.IntRange(0, n-1).Draw(rt, "flipPos")
	R := min(140, p.FlipAt+rapid.IntRange(0, 70).Draw(rt, "after"))
	goodFirst := rapid.Bool().Draw(rt, "goodFirst")
	good := outcome{Kind: kOK, Lat: rapid.SampledFrom([]int64{0, int64(time.Microsecond), int64(T / 8)}).Draw(rt, "goodLat"), How: rapid.IntRange(0, 2).Draw(rt, "goodHow")}
	var bad outcome
	switch k := rapid.IntRange(0, 2).Draw(rt, "badKind"); {
	case k == 0:
		bad = outcome{Kind: kFail, Lat: rapid.SampledFrom([]int64{0, int64(T / 2)}).Draw(rt, "badLat"), How: rapid.IntRange(0, 4).Draw(rt, "badHow")}
	case k == 1:
		bad = outcome{Kind: kHang, How: rapid.IntRange(0, 2).Draw(rt, "badHow")}
	case p.Policy == polAvailability:
		bad = outcome{Kind: kFail, How: 1} // a slow success is still a success
	default:
		bad = outcome{Kind: kOK, Lat: int64(T) - int64(time.Microsecond), How: rapid.IntRange(0, 2).Draw(rt, "badHow")}
	}
	pre, post := good, bad
	if !goodFirst {
		pre, post = bad, good
	}
	p.FlipPre = pre
	// the steady members: a middling success, for availability / latency with a failure every 8th round
	// (so that an always-succeeding flipper is strictly better and an always-failing one strictly worse)
	period := rapid.SampledFrom([]int{4, 8, 16}).Draw(rt, "steadyFailEvery")
	p.Hist = make([][]outcome, R)
	for r := range p.Hist {
		row := make([]outcome, n)
		for i := range row {
			switch {
			case i == p.FlipPos && r+1 < p.FlipAt:
				row[i] = pre
			case i == p.FlipPos:
				row[i] = post
			case p.Policy != polMinMax && (r+i)%period == 0:
				row[i] = outcome{Kind: kFail, Lat: 0, How: (r + i) % 5}
			default:
				row[i] = outcome{Kind: kOK, Lat: int64(T/4) + int64(i)*int64(time.Microsecond), How: i % 3}
			}
		}
		p.Hist[r] = row
	}
	drawSamples(rt, p)
	return p
}

// drawOther gives the group a second protocol side in half of the cases: round-robin or random over its
// own members in its own order, or another probing policy with its own probe configuration and history.
func drawOther(rt *rapid.T, p *probePlan) {
	kind := rapid.SampledFrom([]string{"", "", "", "", "", polRoundRobin, polRoundRobin, polRandom, "probing", "probing"}).Draw(rt, "other")
	if kind == "" {
		return
	}
	R := len(p.Hist)
	if kind == "probing" && (p.n() > 12 || R > 100 || (p.HasBound && p.Omit&7 != 7)) {
		kind = polRoundRobin // keep the cost bounded; the edge class keeps its own timing regime
	}
	o := &otherSide{}
	n2 := rapid.IntRange(1, 5).Draw(rt, "otherN")
	ids := make([]int, n2)
	for i := range ids {
		ids[i] = i
	}
	o.Order = rapid.Permutation(ids).Draw(rt, "otherOrder")
	p.Other = o
	if kind != "probing" {
		o.Policy = kind
		return
	}
	var pols []string
	for _, pol := range []string{polAvailability, polLatency, polMinMax} {
		if pol != p.Policy {
			pols = append(pols, pol)
		}
	}
	o.Policy = rapid.SampledFrom(pols).Draw(rt, "otherPolicy")
	I := p.interval()
	I2 := I
	switch rapid.IntRange(0, 4).Draw(rt, "otherIntervalKind") {
	case 0, 1: // both sides tick at the same instants
	case 2:
		I2 = 2 * I
	case 3:
		I2 = I + I/2
	default:
		if R <= 60 {
			I2 = I / 2
		}
	}
	o.IntervalNS = int64(I2)
	if I2 == docDefaultInterval && rapid.Bool().Draw(rt, "otherIntervalDefault") {
		o.IntervalNS = 0
	}
	o.Concurrency = rapid.SampledFrom([]int{0, 1, n2, 100}).Draw(rt, "otherConc")
	allDefault := rapid.IntRange(0, 2).Draw(rt, "otherAllDefault") == 0
	if allDefault {
		// this side's probe settings are left out altogether: the documented defaults, whatever the first side says
		I2 = docDefaultInterval
		o.IntervalNS, o.Concurrency = 0, 0
	}
	var fits []int64
	for _, t := range timeoutChoices {
		tt := time.Duration(t)
		if t == 0 {
			tt = docDefaultTimeout
		}
		if roundBound(n2, o.conc(), tt) < I2 {
			fits = append(fits, t)
		}
	}
	if allDefault {
		o.TimeoutNS = 0
	} else if len(fits) > 0 {
		o.TimeoutNS = rapid.SampledFrom(fits).Draw(rt, "otherTimeout")
	} else {
		o.TimeoutNS = (int64(I2) - 1) / int64(n2+1) / int64(time.Microsecond) * int64(time.Microsecond)
	}
	T2 := o.timeout()
	// the run ends before the tick after the last round of the plan's side
	R2 := int((int64(R)+1)*int64(I)/int64(I2)) + 1
	K := rapid.IntRange(2, 4).Draw(rt, "otherPalette")
	pal := make([]outcome, K)
	for i := range pal {
		kind := rapid.SampledFrom([]int{kOK, kOK, kOK, kOK, kFail, kFail, kHang}).Draw(rt, "otherKind")
		oc := outcome{Kind: kind, How: rapid.IntRange(0, 14).Draw(rt, "otherHow")}
		if kind != kHang {
			oc.Lat = drawLat(rt, T2)
		}
		if p.Proto == "tcp" && kind == kOK {
			oc.Kind = kFail // the other side is UDP: its fakes cannot complete a probe inside a bubble
		}
		pal[i] = oc
	}
	pref := make([]int, n2)
	for i := range pref {
		pref[i] = rapid.IntRange(0, K-1).Draw(rt, "otherPref")
	}
	o.Hist = make([][]outcome, R2)
	for r := range o.Hist {
		row := make([]outcome, n2)
		for i := range row {
			if v := rapid.IntRange(0, 3+K).Draw(rt, "oo"); v < 4 {
				row[i] = pal[pref[i]]
			} else {
				row[i] = pal[v-4]
			}
		}
		o.Hist[r] = row
	}
}

// groupConfigJSON writes the group's configuration as the JSON text a configuration file would hold.
// A Duration is written in time.Duration notation (what jsoncfg.Duration parses).
func (p *probePlan) groupConfigJSON(names, otherNames []string) string {
	quote := func(ss []string) string {
		q := make([]string, len(ss))
		for i, s := range ss {
			q[i] = fmt.Sprintf("%q", s)
		}
		return "[" + strings.Join(q, ",") + "]"
	}
	side := func(policy string, clients []string, omit int, timeout, interval int64, conc int) string {
		var b strings.Builder
		fmt.Fprintf(&b, `{"policy":%q,"clients":%s`, policy, quote(clients))
		if omit&8 == 0 {
			var f []string
			if omit&1 == 0 {
				f = append(f, fmt.Sprintf(`"timeout":%q`, time.Duration(timeout).String()))
			}
			if omit&2 == 0 {
				f = append(f, fmt.Sprintf(`"interval":%q`, time.Duration(interval).String()))
			}
			if omit&4 == 0 {
				f = append(f, fmt.Sprintf(`"concurrency":%d`, conc))
			}
			b.WriteString(`,"probe":{` + strings.Join(f, ",") + `}`)
		}
		b.WriteString("}")
		return b.String()
	}
	sides := []string{fmt.Sprintf("%q:%s", p.Proto, side(p.Policy, names, p.Omit, p.TimeoutNS, p.IntervalNS, p.Concurrency))}
	if o := p.Other; o != nil {
		omit := 8
		if o.probing() {
			omit = 0
		}
		sides = append(sides, fmt.Sprintf("%q:%s", otherProto(p.Proto), side(o.Policy, otherNames, omit, o.TimeoutNS, o.IntervalNS, o.Concurrency)))
	}
	return `{"name":"grp",` + strings.Join(sides, ",") + `}`
}
