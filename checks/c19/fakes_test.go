package c19

import (
	"context"
	"errors"
	"fmt"
	"io"
	"net"
	"os"
	"sync"
	"sync/atomic"
	"time"

	"github.com/database64128/shadowsocks-go/conn"
	"github.com/database64128/shadowsocks-go/netio"
	"github.com/database64128/shadowsocks-go/zerocopy"
)

// Outcome kinds of one scripted probe.
const (
	kOK   = 0 // the probe succeeds after Lat
	kFail = 1 // the probe fails after Lat (dial error, wrong status, garbage, EOF)
	kHang = 2 // the probe gets no answer until its timeout fires
)

// outcome is what one fake client does with one probe. Lat is the time from the start of the
// probe to the moment its result is determined (always < timeout for kOK/kFail; ignored for kHang).
type outcome struct {
	Kind int   `json:"k"`
	Lat  int64 `json:"l"` // nanoseconds
	How  int   `json:"h"` // variant of how the outcome is produced (see fakeTCP.probe)
}

func (o outcome) String() string {
	switch o.Kind {
	case kOK:
		return fmt.Sprintf("ok(%v/%d)", time.Duration(o.Lat), o.How)
	case kFail:
		return fmt.Sprintf("fail(%v/%d)", time.Duration(o.Lat), o.How)
	}
	return fmt.Sprintf("hang(%d)", o.How)
}

// userKey marks a context of a selection made by the harness itself (a "user" of the group),
// as opposed to a probe issued by the group's probe loop.
type userKey struct{}

func userCtx() context.Context { return context.WithValue(context.Background(), userKey{}, true) }

// userDialErr is returned by a fake for a harness-made DialStream; it names the fake that was reached.
type userDialErr struct{ id int }

func (e *userDialErr) Error() string { return fmt.Sprintf("user dial reached fake %d", e.id) }

var errScripted = errors.New("scripted failure")

// counters shared by both fake kinds. They are only atomics (no mutex: nothing may contend on a
// mutex across synctest.Wait).
type probeCounters struct {
	started  atomic.Int64 // probes begun
	finished atomic.Int64 // probes whose result has been determined and handed back
	overrun  atomic.Int64 // probes beyond the scripted history
	overlap  atomic.Int64 // probes begun while another probe of the same client was in flight
}

func (c *probeCounters) begin(script []outcome) (outcome, bool) {
	k := c.started.Add(1) - 1
	if k-c.finished.Load() != 0 {
		c.overlap.Add(1)
	}
	if int(k) >= len(script) {
		c.overrun.Add(1)
		return outcome{}, false
	}
	return script[k], true
}

// sleepCtx sleeps d (fake time inside a bubble) unless ctx ends first.
func sleepCtx(ctx context.Context, d time.Duration) {
	if d <= 0 {
		return
	}
	tm := time.NewTimer(d)
	defer tm.Stop()
	select {
	case <-tm.C:
	case <-ctx.Done():
	}
}

// ---------------------------------------------------------------------------------------------
// TCP

// fakeTCP is a scripted netio.StreamClient. Its k-th probe follows script[k].
type fakeTCP struct {
	id     int
	name   string
	script []outcome
	probeCounters
	userDials atomic.Int64
	times     []atomic.Int64 // optional (real-time tests): unix nanos at which the k-th probe began

	mu    sync.Mutex // guards conns only; never held while blocking
	conns []*fakeConn
}

// conn makes a tracked connection so the harness can unblock anything the code under test
// left hanging when a case ends.
func (f *fakeTCP) conn(onClose func()) *fakeConn {
	c := newFakeConn(onClose)
	f.mu.Lock()
	f.conns = append(f.conns, c)
	f.mu.Unlock()
	return c
}

// closeAll closes every connection this fake ever handed out and reports how many were still open.
func (f *fakeTCP) closeAll() (open int) {
	f.mu.Lock()
	conns := f.conns
	f.conns = nil
	f.mu.Unlock()
	for _, c := range conns {
		select {
		case <-c.closed:
		default:
			open++
			c.Close()
		}
	}
	return open
}

var _ netio.StreamClient = (*fakeTCP)(nil)

func (f *fakeTCP) NewStreamDialer() (netio.StreamDialer, netio.StreamDialerInfo) {
	return f, netio.StreamDialerInfo{Name: f.name, NativeInitialPayload: true}
}

const resp204 = "HTTP/1.1 204 No Content\r\nContent-Length: 0\r\nDate: Sat, 01 Jan 2000 00:00:00 GMT\r\n\r\n"

func (f *fakeTCP) DialStream(ctx context.Context, addr conn.Addr, payload []byte) (netio.Conn, error) {
	if ctx.Value(userKey{}) != nil {
		f.userDials.Add(1)
		return nil, &userDialErr{f.id}
	}
	o, ok := f.begin(f.script)
	if k := f.started.Load() - 1; f.times != nil && k >= 0 && int(k) < len(f.times) {
		f.times[k].Store(time.Now().UnixNano())
	}
	if !ok {
		// beyond the plan: fail at once
		f.finished.Add(1)
		return nil, errScripted
	}
	lat := time.Duration(o.Lat)
	done := func() { f.finished.Add(1) }
	switch o.Kind {
	case kOK:
		switch o.How % 3 {
		case 0: // connect at once, answer after lat
			c := f.conn(done)
			c.respondAfter(lat, []string{resp204}, false)
			return c, nil
		case 1: // slow connect, the answer is already there
			sleepCtx(ctx, lat)
			c := f.conn(done)
			c.respondAfter(0, []string{"HTTP/1.1 204 No Content\r\n\r\n"}, false)
			return c, nil
		default: // connect after lat/2, answer in two fragments completed at lat
			sleepCtx(ctx, lat/2)
			c := f.conn(done)
			c.respondAfter(lat-lat/2, []string{"HTTP/1.1 204 No Co", "ntent\r\nServer: x\r\n\r\n"}, false)
			return c, nil
		}
	case kFail:
		switch o.How % 5 {
		case 0: // dial error
			sleepCtx(ctx, lat)
			done()
			return nil, errScripted
		case 1: // wrong status
			c := f.conn(done)
			c.respondAfter(lat, []string{"HTTP/1.1 200 OK\r\nContent-Length: 0\r\n\r\n"}, false)
			return c, nil
		case 2:
			c := f.conn(done)
			c.respondAfter(lat, []string{"HTTP/1.1 502 Bad Gateway\r\nContent-Length: 0\r\n\r\n"}, false)
			return c, nil
		case 3: // not HTTP
			c := f.conn(done)
			c.respondAfter(lat, []string{"SSH-2.0-OpenSSH_9.9\r\n\r\n"}, false)
			return c, nil
		default: // closed by the peer
			c := f.conn(done)
			c.respondAfter(lat, nil, true)
			return c, nil
		}
	default: // kHang
		switch o.How % 3 {
		case 0: // the connect never completes
			<-ctx.Done()
			done()
			return nil, ctx.Err()
		case 1: // connected, silence
			return f.conn(done), nil
		default: // connected, half an answer, silence
			c := f.conn(done)
			c.respondAfter(0, []string{"HTTP/1.1 204 No Content\r\n"}, false)
			return c, nil
		}
	}
}

// fakeConn is the connection a fakeTCP hands to the probe. Only the read side carries data.
// All blocking is on channels (durably blocking inside a synctest bubble).
type fakeConn struct {
	in        chan []byte
	eof       chan struct{}
	dl        chan struct{}
	closed    chan struct{}
	dlOnce    sync.Once
	closeOnce sync.Once
	eofOnce   sync.Once
	rest      []byte
	onClose   func()
}

type fakeAddr struct{}

func (fakeAddr) Network() string { return "c19" }
func (fakeAddr) String() string  { return "c19" }

func newFakeConn(onClose func()) *fakeConn {
	return &fakeConn{
		in:      make(chan []byte, 4),
		eof:     make(chan struct{}),
		dl:      make(chan struct{}),
		closed:  make(chan struct{}),
		onClose: onClose,
	}
}

// respondAfter delivers the fragments (and then EOF if thenEOF) after d, unless the conn is closed first.
func (c *fakeConn) respondAfter(d time.Duration, frags []string, thenEOF bool) {
	deliver := func() {
		for _, f := range frags {
			c.in <- []byte(f)
		}
		if thenEOF {
			c.eofOnce.Do(func() { close(c.eof) })
		}
	}
	if d <= 0 {
		deliver()
		return
	}
	go func() {
		tm := time.NewTimer(d)
		defer tm.Stop()
		select {
		case <-tm.C:
			deliver()
		case <-c.closed:
		}
	}()
}

func (c *fakeConn) Read(p []byte) (int, error) {
	if len(p) == 0 {
		return 0, nil
	}
	for len(c.rest) == 0 {
		select {
		case <-c.closed:
			return 0, net.ErrClosed
		default:
		}
		// data wins over EOF; a deadline in the past wins over waiting
		select {
		case b := <-c.in:
			c.rest = b
			continue
		default:
		}
		select {
		case b := <-c.in:
			c.rest = b
		case <-c.eof:
			select {
			case b := <-c.in:
				c.rest = b
			default:
				return 0, io.EOF
			}
		case <-c.dl:
			return 0, os.ErrDeadlineExceeded
		case <-c.closed:
			return 0, net.ErrClosed
		}
	}
	n := copy(p, c.rest)
	c.rest = c.rest[n:]
	return n, nil
}

func (c *fakeConn) Write(p []byte) (int, error) { return len(p), nil }
func (c *fakeConn) CloseWrite() error           { return nil }
func (c *fakeConn) Close() error {
	c.closeOnce.Do(func() {
		close(c.closed)
		if c.onClose != nil {
			c.onClose()
		}
	})
	return nil
}
func (c *fakeConn) LocalAddr() net.Addr  { return fakeAddr{} }
func (c *fakeConn) RemoteAddr() net.Addr { return fakeAddr{} }
func (c *fakeConn) SetDeadline(t time.Time) error {
	return c.SetReadDeadline(t)
}
func (c *fakeConn) SetReadDeadline(t time.Time) error {
	if !t.IsZero() && !t.After(time.Now()) {
		c.dlOnce.Do(func() { close(c.dl) })
	}
	return nil
}
func (c *fakeConn) SetWriteDeadline(time.Time) error { return nil }

// ---------------------------------------------------------------------------------------------
// UDP

// fakeUDP is a scripted zerocopy.UDPClient. A probe's NewSession can only fail (after Lat) or
// hang until the probe's deadline: a successful UDP probe needs a kernel socket, which cannot
// live in a fake-time bubble (the socket path is exercised by TestUDPProbeLoopback instead).
type fakeUDP struct {
	id       int
	name     string
	headroom zerocopy.Headroom
	script   []outcome
	probeCounters
	userSessions atomic.Int64
}

var _ zerocopy.UDPClient = (*fakeUDP)(nil)

func (f *fakeUDP) Info() zerocopy.UDPClientInfo {
	return zerocopy.UDPClientInfo{Name: f.name, PackerHeadroom: f.headroom}
}

func (f *fakeUDP) sessionInfo() zerocopy.UDPClientSessionInfo {
	return zerocopy.UDPClientSessionInfo{Name: f.name, PackerHeadroom: f.headroom, MTU: 1500}
}

func (f *fakeUDP) NewSession(ctx context.Context) (zerocopy.UDPClientSessionInfo, zerocopy.UDPClientSession, error) {
	if ctx.Value(userKey{}) != nil {
		f.userSessions.Add(1)
		return f.sessionInfo(), zerocopy.UDPClientSession{MaxPacketSize: 1000 + f.id, Close: zerocopy.NoopClose}, nil
	}
	o, ok := f.begin(f.script)
	if !ok {
		f.finished.Add(1)
		return f.sessionInfo(), zerocopy.UDPClientSession{}, errScripted
	}
	switch o.Kind {
	case kHang:
		<-ctx.Done()
		f.finished.Add(1)
		return f.sessionInfo(), zerocopy.UDPClientSession{}, ctx.Err()
	default: // kFail (kOK is never scripted for UDP fakes)
		sleepCtx(ctx, time.Duration(o.Lat))
		f.finished.Add(1)
		return f.sessionInfo(), zerocopy.UDPClientSession{}, errScripted
	}
}
