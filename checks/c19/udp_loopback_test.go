package c19

import (
	"context"
	"fmt"
	"net"
	"net/netip"
	"os"
	"strings"
	"sync"
	"sync/atomic"
	"testing"
	"time"

	"github.com/database64128/shadowsocks-go"
	"github.com/database64128/shadowsocks-go/clientgroups"
	"github.com/database64128/shadowsocks-go/conn"
	"github.com/database64128/shadowsocks-go/jsoncfg"
	"github.com/database64128/shadowsocks-go/netio"
	"github.com/database64128/shadowsocks-go/zerocopy"
	"go.uber.org/zap"
	"golang.org/x/net/dns/dnsmessage"
	"pgregory.net/rapid"

	"verif/internal/ev"
)

// Real-time smoke test of the UDP probe path (kernel sockets cannot run on the fake clock).
// Every fake UDP client "tunnels" the probe's DNS query to its own scripted responder on
// loopback; the responder answers, stays silent, or answers uselessly (wrong ID / SERVFAIL).
// Outcomes are only {answer at once, no usable answer}: a silent round costs the whole timeout,
// an answered one a few hundred microseconds, so the oracle needs no fine wall-clock reading.

const (
	loopTimeout  = 1500 * time.Millisecond
	loopInterval = 3500 * time.Millisecond
	loopMargin   = 500 * time.Millisecond
)

var loopProbeAddrPort = netip.AddrPortFrom(netip.AddrFrom4([4]byte{127, 0, 0, 1}), 5353)

type loopResponder struct {
	uc      *net.UDPConn
	script  string // per query: 'A' answer, 'D' drop, 'W' answer with wrong ID, 'F' answer SERVFAIL
	queries atomic.Int64
	arrived []atomic.Int64 // unix nanos of the k-th query
}

func newLoopResponder(script string) (*loopResponder, error) {
	uc, err := net.ListenUDP("udp4", &net.UDPAddr{IP: net.IPv4(127, 0, 0, 1)})
	if err != nil {
		return nil, err
	}
	r := &loopResponder{uc: uc, script: script, arrived: make([]atomic.Int64, len(script)+4)}
	return r, nil
}

func (r *loopResponder) addrPort() netip.AddrPort {
	return r.uc.LocalAddr().(*net.UDPAddr).AddrPort()
}

func (r *loopResponder) serve() {
	b := make([]byte, 2048)
	for {
		n, from, err := r.uc.ReadFromUDPAddrPort(b)
		if err != nil {
			return
		}
		k := int(r.queries.Add(1) - 1)
		if k < len(r.arrived) {
			r.arrived[k].Store(time.Now().UnixNano())
		}
		act := byte('D')
		if k < len(r.script) {
			act = r.script[k]
		}
		if act == 'D' {
			continue
		}
		var p dnsmessage.Parser
		h, err := p.Start(b[:n])
		if err != nil {
			continue
		}
		q, err := p.Question()
		if err != nil {
			continue
		}
		rh := dnsmessage.Header{ID: h.ID, Response: true, RecursionDesired: true, RecursionAvailable: true, RCode: dnsmessage.RCodeSuccess}
		switch act {
		case 'W':
			rh.ID = h.ID + 1
		case 'F':
			rh.RCode = dnsmessage.RCodeServerFailure
		}
		msg := dnsmessage.Message{Header: rh, Questions: []dnsmessage.Question{q}}
		out, err := msg.Pack()
		if err != nil {
			continue
		}
		r.uc.WriteToUDPAddrPort(out, from)
	}
}

// loopUDP is a zerocopy.UDPClient whose sessions send packets unchanged to its responder and
// present the replies as coming from the address the prober asked for.
type loopUDP struct {
	id       int
	name     string
	dest     netip.AddrPort
	sessions atomic.Int64
}

func (c *loopUDP) Info() zerocopy.UDPClientInfo { return zerocopy.UDPClientInfo{Name: c.name} }

func (c *loopUDP) NewSession(ctx context.Context) (zerocopy.UDPClientSessionInfo, zerocopy.UDPClientSession, error) {
	info := zerocopy.UDPClientSessionInfo{Name: c.name, MTU: 1500, ListenConfig: conn.DefaultUDPClientListenConfig}
	if ctx.Value(userKey{}) == nil {
		c.sessions.Add(1)
	}
	return info, zerocopy.UDPClientSession{
		MaxPacketSize: 1400 + c.id,
		Packer:        loopPacker{c.dest},
		Unpacker:      loopUnpacker{},
		Close:         zerocopy.NoopClose,
	}, nil
}

type loopPacker struct{ dest netip.AddrPort }

func (loopPacker) ClientPackerInfo() zerocopy.ClientPackerInfo { return zerocopy.ClientPackerInfo{} }
func (p loopPacker) PackInPlace(_ context.Context, _ []byte, _ conn.Addr, payloadStart, payloadLen int) (netip.AddrPort, int, int, error) {
	return p.dest, payloadStart, payloadLen, nil
}

type loopUnpacker struct{}

func (loopUnpacker) ClientUnpackerInfo() zerocopy.ClientUnpackerInfo {
	return zerocopy.ClientUnpackerInfo{}
}
func (loopUnpacker) UnpackInPlace(_ []byte, _ netip.AddrPort, packetStart, packetLen int) (netip.AddrPort, int, int, error) {
	return loopProbeAddrPort, packetStart, packetLen, nil
}

type loopPlan struct {
	Policy  string
	Scripts []string // per configuration position, one action per round
}

type loopSample struct {
	at  time.Duration // since Start
	pos int
}

// runLoopPlan returns (violation, inconclusive reason).
func runLoopPlan(p *loopPlan) (viol, inconclusive string) {
	n, R := len(p.Scripts), len(p.Scripts[0])
	udpMap := map[string]zerocopy.UDPClient{}
	resp := make([]*loopResponder, n)
	clients := make([]*loopUDP, n)
	names := make([]string, n)
	for i := 0; i < n; i++ {
		r, err := newLoopResponder(p.Scripts[i])
		if err != nil {
			return "", "listen: " + err.Error()
		}
		defer r.uc.Close()
		go r.serve()
		resp[i] = r
		clients[i] = &loopUDP{id: i, name: fmt.Sprintf("u%d", i), dest: r.addrPort()}
		names[i] = clients[i].name
		udpMap[names[i]] = clients[i]
	}
	cfg := clientgroups.ClientGroupConfig{Name: "grp"}
	cfg.UDP.Policy = clientgroups.ClientSelectionPolicy(p.Policy)
	cfg.UDP.Clients = names
	cfg.UDP.Probe.Timeout = jsoncfg.Duration(loopTimeout)
	cfg.UDP.Probe.Interval = jsoncfg.Duration(loopInterval)
	cfg.UDP.Probe.Address = conn.AddrFromIPPort(loopProbeAddrPort)
	var services []shadowsocks.Service
	if err := cfg.AddClientGroup(zap.NewNop(), map[string]netio.StreamClient{}, udpMap, func(s shadowsocks.Service) { services = append(services, s) }); err != nil {
		return "HARNESS: AddClientGroup: " + err.Error(), ""
	}
	group := udpMap["grp"]
	ctx, cancel := context.WithCancel(context.Background())
	var wg sync.WaitGroup
	defer func() {
		cancel()
		wg.Wait()
		time.Sleep(50 * time.Millisecond) // probes in flight notice the cancellation through their read deadline
	}()
	start := time.Now()
	for _, s := range services {
		if err := s.Start(ctx); err != nil {
			return "HARNESS: Start: " + err.Error(), ""
		}
	}
	// sample the selection every 25 ms until the last round's slack is over
	var samples []loopSample
	end := time.Duration(R)*loopInterval + loopTimeout + (loopInterval-loopTimeout)/2
	uctx := userCtx()
	bad := ""
	wg.Add(1)
	go func() {
		defer wg.Done()
		for {
			at := time.Since(start)
			if at > end {
				return
			}
			info, sess, err := group.NewSession(uctx)
			id := sess.MaxPacketSize - 1400
			if err != nil || id < 0 || id >= n || info.Name != names[id] {
				bad = fmt.Sprintf("NewSession returned %q mps %d err %v", info.Name, sess.MaxPacketSize, err)
				return
			}
			samples = append(samples, loopSample{at, id})
			time.Sleep(25 * time.Millisecond)
		}
	}()
	wg.Wait()
	if bad != "" {
		return fmt.Sprintf("SIG=C19/%s/udp-outside-group %s", p.Policy, bad), ""
	}

	// the harness's own timing assumptions: every responder saw exactly one query per round, near the tick
	for i, r := range resp {
		if q := r.queries.Load(); q != int64(R) {
			return "", fmt.Sprintf("responder %d saw %d queries in %d rounds (machine too slow or probe lost)", i, q, R)
		}
		for k := 0; k < R; k++ {
			at := time.Duration(r.arrived[k].Load() - start.UnixNano())
			tick := time.Duration(k+1) * loopInterval
			if at < tick-loopMargin/2 || at > tick+loopMargin {
				return "", fmt.Sprintf("responder %d round %d query arrived at %v, tick %v", i, k+1, at, tick)
			}
		}
	}

	// reference: availability exact; min-max/latency: any client with the fewest silent rounds
	// in the window (R <= 32, so the window is the whole history); all silent => first
	allowed := func(r int) []bool {
		silent := make([]int, n)
		for i := range silent {
			for k := 0; k < r; k++ {
				if p.Scripts[i][k] != 'A' {
					silent[i]++
				}
			}
		}
		best := silent[0]
		for _, s := range silent {
			if s < best {
				best = s
			}
		}
		out := make([]bool, n)
		switch p.Policy {
		case polAvailability:
			// success counts are exact: the first client with the most answers
			for i, s := range silent {
				if s == best {
					out[i] = true
					break
				}
			}
		case polMinMax:
			// a silent round makes the worst latency exactly the timeout; answered-only clients have
			// small measured worst latencies whose order the harness does not predict
			if best > 0 {
				out[0] = true // everybody's worst is the timeout: tie, first in configuration order
			} else {
				for i, s := range silent {
					out[i] = s == 0
				}
			}
		default:
			// every silent round adds the whole timeout to the sum; answered rounds add well under a
			// millisecond each, so fewer silent rounds always means a lower average
			if best == r {
				out[0] = true // all equal to the timeout
			} else {
				for i, s := range silent {
					out[i] = s == best
				}
			}
		}
		return out
	}
	roundLastsTimeout := func(k int) bool { // some client is silent in round k (1-based): the round runs until the timeout
		for i := range p.Scripts {
			if p.Scripts[i][k-1] != 'A' {
				return true
			}
		}
		return false
	}
	initial := -1
	prev := make([]bool, n)
	for _, s := range samples {
		k := int(s.at / loopInterval) // ticks elapsed
		off := s.at - time.Duration(k)*loopInterval
		if k == 0 {
			if off < loopInterval-loopMargin {
				if initial < 0 {
					initial = s.pos
				} else if s.pos != initial {
					return fmt.Sprintf("SIG=C19/%s/udp-switch-before-first-round selection changed from u%d to u%d at %v", p.Policy, initial, s.pos, s.at), ""
				}
			}
			continue
		}
		for i := range prev {
			prev[i] = i == initial
		}
		if k > 1 {
			prev = allowed(k - 1)
		}
		switch {
		case off > loopMargin && off < loopTimeout-loopMargin && roundLastsTimeout(k):
			if !prev[s.pos] {
				return fmt.Sprintf("SIG=C19/%s/udp-switch-during-round at %v (round %d running) group serves u%d, allowed %v; scripts %v", p.Policy, s.at, k, s.pos, prev, p.Scripts), ""
			}
		case off > loopTimeout+loopMargin && off < loopInterval-loopMargin:
			if a := allowed(k); !a[s.pos] {
				return fmt.Sprintf("SIG=C19/%s/udp-choice-after-round at %v (after round %d) group serves u%d, allowed %v; scripts %v", p.Policy, s.at, k, s.pos, a, p.Scripts), ""
			}
		}
	}
	return "", ""
}

var recLoop = ev.New("C19", "udp-probe-loopback",
	"real time on loopback: UDP group (availability / latency / min-max-latency) of 2..4 pass-through UDP clients, each tunnelling the DNS probe to its own scripted responder "+
		"(answer / silent / wrong-ID / SERVFAIL per round), timeout 1.5 s, interval 3.5 s, 2..4 rounds; selection sampled every 25 ms and judged only inside windows 500 ms away from every tick/timeout edge; "+
		"cases whose probe arrival times miss the harness's timing assumptions are counted as inconclusive-timing, retried once, never failed. Non-trivial: >=3 clients and a switch expected; distinct key = policy|scripts").
	Require("policy/availability")

// TestUDPProbeLoopback smoke-tests the UDP probe socket path with the same policies (thorough tier).
func TestUDPProbeLoopback(t *testing.T) {
	if os.Getenv("VERIF_TIER") != "thorough" && os.Getenv("VERIF_C19_LOOPBACK") == "" {
		t.Skip("real-time loopback test runs in the thorough tier only")
	}
	rapid.Check(t, func(rt *rapid.T) {
		// several groups per case run side by side to use the wall-clock time
		k := rapid.IntRange(3, 6).Draw(rt, "groups")
		plans := make([]*loopPlan, k)
		for g := range plans {
			n := rapid.IntRange(2, 4).Draw(rt, "n")
			R := rapid.IntRange(2, 4).Draw(rt, "rounds")
			p := &loopPlan{Policy: rapid.SampledFrom([]string{polAvailability, polAvailability, polLatency, polMinMax}).Draw(rt, "policy")}
			for i := 0; i < n; i++ {
				var b strings.Builder
				for r := 0; r < R; r++ {
					b.WriteByte(rapid.SampledFrom([]byte("AAAADDWF")).Draw(rt, "act"))
				}
				p.Scripts = append(p.Scripts, b.String())
			}
			plans[g] = p
		}
		viols := make([]string, k)
		incs := make([]string, k)
		var wg sync.WaitGroup
		for g, p := range plans {
			wg.Add(1)
			go func() {
				defer wg.Done()
				viols[g], incs[g] = runLoopPlan(p)
				if viols[g] != "" || incs[g] != "" {
					// a missed real-time bound is retried once before it counts
					viols[g], incs[g] = runLoopPlan(p)
				}
			}()
		}
		wg.Wait()
		for g, p := range plans {
			if viols[g] != "" {
				rt.Fatalf("%s", viols[g])
			}
			if incs[g] != "" {
				recLoop.Label("inconclusive-timing", 1)
				rt.Logf("inconclusive: %s", incs[g])
				continue
			}
			n := len(p.Scripts)
			recLoop.Case(p.Policy+"|"+strings.Join(p.Scripts, ","), n >= 3 && strings.ContainsAny(strings.Join(p.Scripts[1:], ""), "A") && strings.ContainsAny(p.Scripts[0], "DWF"),
				"policy/"+p.Policy, fmt.Sprintf("n=%d", n))
		}
	})
}
