package c19

import (
	"context"
	"fmt"
	"net"
	"net/netip"
	"os"
	"strings"
	"sync"
	"sync/atomic"
	"testing"
	"time"

	"github.com/database64128/shadowsocks-go"
	"github.com/database64128/shadowsocks-go/clientgroups"
	"github.com/database64128/shadowsocks-go/conn"
	"github.com/database64128/shadowsocks-go/direct"
	"github.com/database64128/shadowsocks-go/jsoncfg"
	"github.com/database64128/shadowsocks-go/netio"
	"github.com/database64128/shadowsocks-go/ss2022"
	"github.com/database64128/shadowsocks-go/zerocopy"
	"go.uber.org/zap"
	"golang.org/x/net/dns/dnsmessage"
	"pgregory.net/rapid"

	"verif/internal/ev"
)

// Real-time smoke test of the UDP probe path (kernel sockets cannot run on the fake clock).
// Every member carries the probe's DNS query to its own scripted responder on loopback; the
// responder answers, stays silent, or answers uselessly (wrong ID / SERVFAIL). Member kinds:
//
//	fake    harness pass-through client (packets unchanged, sent straight to the responder)
//	direct  the repo's direct.NewDirectUDPClient: sends to the probe address itself, which is
//	        where this member's responder listens (at most one per group); a domain-name probe
//	        address is resolved through the owned resolver (relay_test.go)
//	ssnone  the repo's direct.NewShadowsocksNoneUDPClient talking to a harness relay (loopRelay)
//	ss2022  the repo's ss2022.NewUDPClient talking to a harness relay that uses the harness's
//	        own SS2022 codec
//
// For the relayed kinds the packer's destination is the relay, and the answer's payload source is
// the DNS server address (IP form) - two different addresses, as with any real proxy.
// The probe address is configured either as IP or as a domain name.
// Outcomes are only {answer at once, no usable answer}: a silent round costs the whole timeout,
// an answered one a few hundred microseconds, so the oracle needs no fine wall-clock reading.

const (
	loopTimeout  = 1500 * time.Millisecond
	loopInterval = 3500 * time.Millisecond
	loopMargin   = 500 * time.Millisecond
)

var (
	loopback4       = netip.AddrFrom4([4]byte{127, 0, 0, 1})
	loopback4Mapped = netip.AddrFrom16(loopback4.As16()) // ::ffff:127.0.0.1
	loopback6       = netip.IPv6Loopback()
)

var (
	ipv6Once sync.Once
	ipv6OK   bool

	dualOnce   sync.Once
	dualMapped bool // the repo's default UDP client socket reports IPv4 peers as ::ffff:a.b.c.d
)

// haveIPv6Loopback reports whether [::1] can be bound on this host.
func haveIPv6Loopback() bool {
	ipv6Once.Do(func() {
		uc, err := net.ListenUDP("udp6", &net.UDPAddr{IP: net.IPv6loopback})
		if err == nil {
			uc.Close()
			ipv6OK = true
		}
	})
	return ipv6OK
}

// clientSocketReportsMapped finds out (once, by trying) in which form a socket opened the way the
// probe opens it (conn.DefaultUDPClientListenConfig, "udp", "") reports an IPv4 loopback peer.
func clientSocketReportsMapped() bool {
	dualOnce.Do(func() {
		echo, err := net.ListenUDP("udp4", &net.UDPAddr{IP: net.IPv4(127, 0, 0, 1)})
		if err != nil {
			return
		}
		defer echo.Close()
		lc := conn.DefaultUDPClientListenConfig
		uc, _, err := lc.ListenUDP(context.Background(), "udp", "")
		if err != nil {
			return
		}
		defer uc.Close()
		if _, err := uc.WriteToUDPAddrPort([]byte("x"), echo.LocalAddr().(*net.UDPAddr).AddrPort()); err != nil {
			return
		}
		b := make([]byte, 16)
		echo.SetReadDeadline(time.Now().Add(2 * time.Second))
		n, from, err := echo.ReadFromUDPAddrPort(b)
		if err != nil {
			return
		}
		echo.WriteToUDPAddrPort(b[:n], from)
		uc.SetReadDeadline(time.Now().Add(2 * time.Second))
		_, _, _, src, err := uc.ReadMsgUDPAddrPort(b, nil)
		if err == nil {
			dualMapped = src.Addr().Is4In6()
		}
	})
	return dualMapped
}

type loopResponder struct {
	uc      *net.UDPConn
	script  string // per query: 'A' answer, 'D' drop, 'W' answer with wrong ID, 'F' answer SERVFAIL
	queries atomic.Int64
	arrived []atomic.Int64 // unix nanos of the k-th query
}

func newLoopResponder(script string, v6 bool) (*loopResponder, error) {
	network, ip := "udp4", net.IPv4(127, 0, 0, 1)
	if v6 {
		network, ip = "udp6", net.IPv6loopback
	}
	uc, err := net.ListenUDP(network, &net.UDPAddr{IP: ip})
	if err != nil {
		return nil, err
	}
	r := &loopResponder{uc: uc, script: script, arrived: make([]atomic.Int64, len(script)+4)}
	return r, nil
}

func (r *loopResponder) addrPort() netip.AddrPort {
	return r.uc.LocalAddr().(*net.UDPAddr).AddrPort()
}

func (r *loopResponder) serve() {
	b := make([]byte, 2048)
	for {
		n, from, err := r.uc.ReadFromUDPAddrPort(b)
		if err != nil {
			return
		}
		k := int(r.queries.Add(1) - 1)
		if k < len(r.arrived) {
			r.arrived[k].Store(time.Now().UnixNano())
		}
		act := byte('D')
		if k < len(r.script) {
			act = r.script[k]
		}
		if act == 'D' {
			continue
		}
		var p dnsmessage.Parser
		h, err := p.Start(b[:n])
		if err != nil {
			continue
		}
		q, err := p.Question()
		if err != nil {
			continue
		}
		rh := dnsmessage.Header{ID: h.ID, Response: true, RecursionDesired: true, RecursionAvailable: true, RCode: dnsmessage.RCodeSuccess}
		switch act {
		case 'W':
			rh.ID = h.ID + 1
		case 'F':
			rh.RCode = dnsmessage.RCodeServerFailure
		}
		msg := dnsmessage.Message{Header: rh, Questions: []dnsmessage.Question{q}}
		out, err := msg.Pack()
		if err != nil {
			continue
		}
		r.uc.WriteToUDPAddrPort(out, from)
	}
}

// loopUDP is a zerocopy.UDPClient whose sessions send packets unchanged to its responder and
// present the replies as coming from the address the prober asked for.
type loopUDP struct {
	id       int
	name     string
	dest     netip.AddrPort
	src      netip.AddrPort // reported payload source: the DNS server address the prober asked for
	sessions atomic.Int64
}

func (c *loopUDP) Info() zerocopy.UDPClientInfo { return zerocopy.UDPClientInfo{Name: c.name} }

func (c *loopUDP) NewSession(ctx context.Context) (zerocopy.UDPClientSessionInfo, zerocopy.UDPClientSession, error) {
	info := zerocopy.UDPClientSessionInfo{Name: c.name, MTU: 1500, ListenConfig: conn.DefaultUDPClientListenConfig}
	if ctx.Value(userKey{}) == nil {
		c.sessions.Add(1)
	}
	return info, zerocopy.UDPClientSession{
		MaxPacketSize: 1400 + c.id,
		Packer:        loopPacker{c.dest},
		Unpacker:      loopUnpacker{c.src},
		Close:         zerocopy.NoopClose,
	}, nil
}

type loopPacker struct{ dest netip.AddrPort }

func (loopPacker) ClientPackerInfo() zerocopy.ClientPackerInfo { return zerocopy.ClientPackerInfo{} }
func (p loopPacker) PackInPlace(_ context.Context, _ []byte, _ conn.Addr, payloadStart, payloadLen int) (netip.AddrPort, int, int, error) {
	return p.dest, payloadStart, payloadLen, nil
}

type loopUnpacker struct{ src netip.AddrPort }

func (loopUnpacker) ClientUnpackerInfo() zerocopy.ClientUnpackerInfo {
	return zerocopy.ClientUnpackerInfo{}
}
func (u loopUnpacker) UnpackInPlace(_ []byte, _ netip.AddrPort, packetStart, packetLen int) (netip.AddrPort, int, int, error) {
	return u.src, packetStart, packetLen, nil
}

type loopPlan struct {
	Policy  string
	Scripts []string // per configuration position, one action per round
	Kinds   []string // per configuration position: fake | direct | ssnone | ss2022 (empty = all fake)
	Addr    string   // form of the probe address: ip4 (127.0.0.1, default) | ip4mapped ([::ffff:127.0.0.1]) | ip6 ([::1]) | domain
	Report  []string // per position: form in which a fake/relayed member reports an IPv4 payload source: plain (default) | mapped
	TCP     *loopTCP // the same group's TCP side (nil = left out of the configuration)
}

// loopTCP is the TCP side of a mixed group in the real-time stage: in-memory scripted TCP clients
// (fakeTCP) under their own policy and order. A probing side is probed with the same timeout and
// interval as the UDP side; its probes are decided at once ('A' = 204 at once, 'D' = dial error at
// once), so its rounds are over right after each tick.
type loopTCP struct {
	Policy  string
	Order   []int    // configuration position -> TCP fake id
	Scripts []string // probing policies: per configuration position, one action per round
}

func (t *loopTCP) probing() bool { return t.Policy != polRoundRobin && t.Policy != polRandom }

func (p *loopPlan) addr() string {
	if p.Addr == "" {
		return "ip4"
	}
	return p.Addr
}

func (p *loopPlan) domain() bool { return p.addr() == "domain" }

// reportsMapped tells whether member i presents the IPv4 DNS server as ::ffff:127.0.0.1. The
// direct member has no say: its answers carry whatever the kernel socket reports.
func (p *loopPlan) reportsMapped(i int) bool {
	if p.kind(i) == "direct" {
		return clientSocketReportsMapped()
	}
	return i < len(p.Report) && p.Report[i] == "mapped"
}

// mismatch: member i's reported source equals the probe address only modulo 4-in-6 mapping.
func (p *loopPlan) mismatch(i int) bool {
	switch p.addr() {
	case "ip4":
		return p.reportsMapped(i)
	case "ip4mapped":
		return !p.reportsMapped(i)
	}
	return false
}

func (p *loopPlan) kind(i int) string {
	if i < len(p.Kinds) && p.Kinds[i] != "" {
		return p.Kinds[i]
	}
	return "fake"
}

func relayed(kind string) bool { return kind == "ssnone" || kind == "ss2022" }

func (p *loopPlan) String() string {
	s := fmt.Sprintf("policy=%s address=%s kinds=%v report=%v scripts=%v", p.Policy, p.addr(), p.Kinds, p.Report, p.Scripts)
	if t := p.TCP; t != nil {
		s += fmt.Sprintf(" tcp-side={policy=%s order=%v scripts=%v}", t.Policy, t.Order, t.Scripts)
	}
	return s
}

// loopAllowed is the reference for the coarse real-time outcomes: the configuration positions the
// group may serve after r completed rounds. availability exact; min-max / latency: any client with the
// fewest unanswered rounds in the window (r <= 32, so the window is the whole history); all unanswered => first.
func loopAllowed(policy string, scripts []string, r int) []bool {
	n := len(scripts)
	silent := make([]int, n)
	for i := range silent {
		for k := 0; k < r; k++ {
			if scripts[i][k] != 'A' {
				silent[i]++
			}
		}
	}
	best := silent[0]
	for _, s := range silent {
		if s < best {
			best = s
		}
	}
	out := make([]bool, n)
	switch policy {
	case polAvailability:
		// success counts are exact: the first client with the most answers
		for i, s := range silent {
			if s == best {
				out[i] = true
				break
			}
		}
	case polMinMax:
		// a silent round makes the worst latency exactly the timeout; answered-only clients have
		// small measured worst latencies whose order the harness does not predict
		if best > 0 {
			out[0] = true // everybody's worst is the timeout: tie, first in configuration order
		} else {
			for i, s := range silent {
				out[i] = s == 0
			}
		}
	default:
		// every silent round adds the whole timeout to the sum; answered rounds add well under a
		// millisecond each, so fewer silent rounds always means a lower average
		if best == r {
			out[0] = true // all equal to the timeout
		} else {
			for i, s := range silent {
				out[i] = s == best
			}
		}
	}
	return out
}

type loopStats struct {
	relayedForwarded, relayedReturned  int64
	relayDomainTargets, relayIPTargets int64
	resolverQueries                    int64
	relayedWins                        bool // some judged round's allowed set starts with a relayed member
	mismatchWins                       bool // ... with a member whose reported source equals the probe address only modulo 4-in-6 mapping
	noIPv6                             bool

	tcpSelections int64
	tcpJudged     int64 // TCP-side selections judged against its own reference / cycle
	tcpFullCycle  bool  // round-robin TCP side: a full cycle of >= 2 members was handed out
	sidesDisagree bool  // in some judged window the two sides' references name different configuration positions
}

type loopSample struct {
	at     time.Duration // since Start
	pos    int
	tcpPos int // TCP side: configuration position served at the same instant (-1 if there is no TCP side)
}

// runLoopPlan returns (violation, inconclusive reason).
func runLoopPlan(p *loopPlan) (viol, inconclusive string, st loopStats) {
	n, R := len(p.Scripts), len(p.Scripts[0])
	udpMap := map[string]zerocopy.UDPClient{}
	resp := make([]*loopResponder, n)
	names := make([]string, n)
	posOfName := map[string]int{}
	port := uint16(5353) // nothing listens here; only a direct member sends to the probe address itself
	directs := 0
	if p.addr() == "ip6" && !haveIPv6Loopback() {
		for i := 0; i < n; i++ {
			if p.kind(i) == "direct" {
				st.noIPv6 = true
				return "", "IPv6 loopback unavailable on this host", st
			}
		}
	}
	for i := 0; i < n; i++ {
		r, err := newLoopResponder(p.Scripts[i], p.addr() == "ip6" && p.kind(i) == "direct")
		if err != nil {
			return "", "listen: " + err.Error(), st
		}
		defer r.uc.Close()
		go r.serve()
		resp[i] = r
		if p.kind(i) == "direct" {
			port = r.addrPort().Port()
			directs++
		}
	}
	if directs > 1 {
		return "HARNESS: more than one direct member", "", st
	}
	probeIP := loopback4
	switch p.addr() {
	case "ip4mapped":
		probeIP = loopback4Mapped
	case "ip6":
		probeIP = loopback6
	}
	address := conn.AddrFromIPPort(netip.AddrPortFrom(probeIP, port))
	// reported(i): the payload source member i presents for answers of the DNS server
	reported := func(i int) netip.AddrPort {
		switch {
		case p.addr() == "ip6":
			return netip.AddrPortFrom(loopback6, port)
		case p.reportsMapped(i):
			return netip.AddrPortFrom(loopback4Mapped, port)
		}
		return netip.AddrPortFrom(loopback4, port)
	}
	ownedName := ""
	if p.domain() {
		installResolver()
		ownedName = newOwnedName()
		address = conn.MustAddrFromDomainPort(ownedName, port)
	}
	var relays []*loopRelay
	for i := 0; i < n; i++ {
		name := fmt.Sprintf("u%d", i)
		names[i], posOfName[name] = name, i
		lc := conn.DefaultUDPClientListenConfig
		switch kind := p.kind(i); kind {
		case "fake":
			udpMap[name] = &loopUDP{id: i, name: name, dest: resp[i].addrPort(), src: reported(i)}
		case "direct":
			udpMap[name] = direct.NewDirectUDPClient(name, "ip4", 1500, lc)
		case "ssnone", "ss2022":
			psk := make([]byte, 16)
			for j := range psk {
				psk[j] = byte(37*i + 11*j + 5)
			}
			rl, err := newLoopRelay(kind, resp[i].addrPort(), reported(i), psk, 0x5e55_0000+uint64(i))
			if err != nil {
				return "", "listen: " + err.Error(), st
			}
			defer rl.close()
			relays = append(relays, rl)
			relayAddr := conn.AddrFromIPPort(rl.addrPort())
			if kind == "ssnone" {
				udpMap[name] = direct.NewShadowsocksNoneUDPClient(name, "ip4", relayAddr, 1500, lc)
			} else {
				cc, err := ss2022.NewClientCipherConfig(psk, nil, true)
				if err != nil {
					return "HARNESS: ss2022 cipher config: " + err.Error(), "", st
				}
				udpMap[name] = ss2022.NewUDPClient(name, "ip4", relayAddr, 1500, lc, 0, cc, ss2022.NoPadding)
			}
		default:
			return "HARNESS: unknown member kind " + kind, "", st
		}
	}
	defer func() {
		for _, rl := range relays {
			st.relayedForwarded += rl.forwarded.Load()
			st.relayedReturned += rl.returned.Load()
			st.relayDomainTargets += rl.domainSeen.Load()
			st.relayIPTargets += rl.ipSeen.Load()
			if u := rl.undecodable.Load(); u != 0 && viol == "" && inconclusive == "" {
				viol = fmt.Sprintf("HARNESS: relay could not decode %d packets of its member", u)
			}
		}
		st.resolverQueries = ownedNameQueries(ownedName)
	}()
	cfg := clientgroups.ClientGroupConfig{Name: "grp"}
	cfg.UDP.Policy = clientgroups.ClientSelectionPolicy(p.Policy)
	cfg.UDP.Clients = names
	cfg.UDP.Probe.Timeout = jsoncfg.Duration(loopTimeout)
	cfg.UDP.Probe.Interval = jsoncfg.Duration(loopInterval)
	cfg.UDP.Probe.Address = address
	tcpMap := map[string]netio.StreamClient{}
	var tcpFakes []*fakeTCP // by fake id
	var tcpPosOf []int      // fake id -> configuration position
	if t := p.TCP; t != nil {
		tcpFakes, tcpPosOf = make([]*fakeTCP, len(t.Order)), make([]int, len(t.Order))
		var tnames []string
		for pos, id := range t.Order {
			f := &fakeTCP{id: id, name: fmt.Sprintf("t%d", id), times: make([]atomic.Int64, R+4)}
			if t.probing() {
				for _, a := range []byte(t.Scripts[pos]) {
					o := outcome{Kind: kFail}
					if a == 'A' {
						o = outcome{Kind: kOK}
					}
					f.script = append(f.script, o)
				}
			}
			tcpFakes[id], tcpPosOf[id] = f, pos
			tcpMap[f.name] = f
			tnames = append(tnames, f.name)
		}
		defer func() {
			for _, f := range tcpFakes {
				f.closeAll()
			}
		}()
		cfg.TCP.Policy = clientgroups.ClientSelectionPolicy(t.Policy)
		cfg.TCP.Clients = tnames
		cfg.TCP.Probe.Timeout = jsoncfg.Duration(loopTimeout)
		cfg.TCP.Probe.Interval = jsoncfg.Duration(loopInterval)
	}
	var services []shadowsocks.Service
	if err := cfg.AddClientGroup(zap.NewNop(), tcpMap, udpMap, func(s shadowsocks.Service) { services = append(services, s) }); err != nil {
		return "HARNESS: AddClientGroup: " + err.Error(), "", st
	}
	group := udpMap["grp"]
	tcpGroup := tcpMap["grp"]
	if p.TCP != nil && tcpGroup == nil {
		return "HARNESS: TCP side not added to the client map", "", st
	}
	ctx, cancel := context.WithCancel(context.Background())
	var wg sync.WaitGroup
	defer func() {
		cancel()
		wg.Wait()
		time.Sleep(50 * time.Millisecond) // probes in flight notice the cancellation through their read deadline
	}()
	start := time.Now()
	for _, s := range services {
		if err := s.Start(ctx); err != nil {
			return "HARNESS: Start: " + err.Error(), "", st
		}
	}
	// sample the selection every 25 ms until the last round's slack is over
	var samples []loopSample
	end := time.Duration(R)*loopInterval + loopTimeout + (loopInterval-loopTimeout)/2
	uctx := userCtx()
	bad := ""
	wg.Add(1)
	go func() {
		defer wg.Done()
		for {
			at := time.Since(start)
			if at > end {
				return
			}
			info, _, err := group.NewSession(uctx)
			id, ok := posOfName[info.Name]
			if err != nil || !ok {
				bad = fmt.Sprintf("NewSession returned %q err %v", info.Name, err)
				return
			}
			tcpPos := -1
			if tcpGroup != nil {
				d, dinfo := tcpGroup.NewStreamDialer()
				f, ok := d.(*fakeTCP)
				if !ok || f.id < 0 || f.id >= len(tcpFakes) || tcpFakes[f.id] != f || dinfo.Name != f.name {
					bad = fmt.Sprintf("TCP side: NewStreamDialer returned %T %v (info %q), not a member", d, d, dinfo.Name)
					return
				}
				tcpPos = tcpPosOf[f.id]
			}
			samples = append(samples, loopSample{at, id, tcpPos})
			time.Sleep(25 * time.Millisecond)
		}
	}()
	wg.Wait()
	if bad != "" {
		return fmt.Sprintf("SIG=C19/%s/udp-outside-group %s", p.Policy, bad), "", st
	}

	// the harness's own timing assumptions: every responder saw exactly one query per round, near the tick
	for i, r := range resp {
		q := r.queries.Load()
		if q == 0 {
			// not a timing matter: this member's probes never reach its responder. The scripted outcome of
			// every round is then "no answer", whatever the script says; the oracle below decides.
			cp := *p
			cp.Scripts = append([]string(nil), p.Scripts...)
			p = &cp
			p.Scripts[i] = strings.Repeat("D", R)
			continue
		}
		if q != int64(R) {
			return "", fmt.Sprintf("responder %d saw %d queries in %d rounds (machine too slow or probe lost)", i, q, R), st
		}
		for k := 0; k < R; k++ {
			at := time.Duration(r.arrived[k].Load() - start.UnixNano())
			tick := time.Duration(k+1) * loopInterval
			if at < tick-loopMargin/2 || at > tick+loopMargin {
				return "", fmt.Sprintf("responder %d round %d query arrived at %v, tick %v", i, k+1, at, tick), st
			}
		}
	}

	// ... and every member of a probing TCP side was probed once per round, near the tick
	if t := p.TCP; t != nil && t.probing() {
		for _, f := range tcpFakes {
			if q := f.started.Load(); q != int64(R) {
				return "", fmt.Sprintf("TCP member %s was probed %d times in %d rounds (machine too slow)", f.name, q, R), st
			}
			for k := 0; k < R; k++ {
				at := time.Duration(f.times[k].Load() - start.UnixNano())
				tick := time.Duration(k+1) * loopInterval
				if at < tick-loopMargin/2 || at > tick+loopMargin {
					return "", fmt.Sprintf("TCP member %s round %d probe began at %v, tick %v", f.name, k+1, at, tick), st
				}
			}
		}
	} else if t != nil {
		for _, f := range tcpFakes {
			if q := f.started.Load(); q != 0 {
				return fmt.Sprintf("SIG=C19/%s/mixed-probed-without-probing-policy TCP member %s of a %s side was probed %d times [%v]", t.Policy, f.name, t.Policy, q, p), "", st
			}
		}
	}

	allowed := func(r int) []bool { return loopAllowed(p.Policy, p.Scripts, r) }
	roundLastsTimeout := func(k int) bool { // some client is silent in round k (1-based): the round runs until the timeout
		for i := range p.Scripts {
			if p.Scripts[i][k-1] != 'A' {
				return true
			}
		}
		return false
	}
	// the TCP side, judged on its own: round-robin / random at every sample; a probing policy inside the windows
	// at least the margin away from every tick (its probes are decided at once)
	if t := p.TCP; t != nil {
		n2 := len(t.Order)
		cands := make([]bool, n2)
		for i := range cands {
			cands[i] = true
		}
		tcpInitial := -1
		for j, s := range samples {
			st.tcpSelections++
			switch {
			case t.Policy == polRandom:
				st.tcpJudged++ // membership was checked when the sample was taken
			case t.Policy == polRoundRobin:
				any := false
				for c := range cands {
					if cands[c] && (c+j)%n2 != s.tcpPos {
						cands[c] = false
					}
					any = any || cands[c]
				}
				if !any {
					return fmt.Sprintf("SIG=C19/round-robin/mixed-cyclic-order at %v TCP side selection %d went to position %d: not the next one of its own cycle [%v]", s.at, j, s.tcpPos, p), "", st
				}
				st.tcpJudged++
				st.tcpFullCycle = st.tcpFullCycle || (n2 >= 2 && j+1 >= n2)
			default:
				k := int(s.at / loopInterval)
				off := s.at - time.Duration(k)*loopInterval
				if off <= loopMargin || off >= loopInterval-loopMargin {
					continue
				}
				if k == 0 {
					if tcpInitial < 0 {
						tcpInitial = s.tcpPos
					} else if s.tcpPos != tcpInitial {
						return fmt.Sprintf("SIG=C19/%s/mixed-switch-before-first-round TCP side changed from position %d to %d at %v [%v]", t.Policy, tcpInitial, s.tcpPos, s.at, p), "", st
					}
					continue
				}
				a := loopAllowed(t.Policy, t.Scripts, k)
				st.tcpJudged++
				if !a[s.tcpPos] {
					return fmt.Sprintf("SIG=C19/%s/mixed-choice-after-round at %v (after its round %d) TCP side serves position %d, allowed %v [%v]", t.Policy, s.at, k, s.tcpPos, a, p), "", st
				}
				// do the two sides' references name different positions here?
				if off > loopTimeout+loopMargin {
					u := allowed(k)
					for i := range u {
						if u[i] && (i >= len(a) || !a[i]) {
							st.sidesDisagree = true
						}
					}
				}
			}
		}
	}

	initial := -1
	prev := make([]bool, n)
	for _, s := range samples {
		k := int(s.at / loopInterval) // ticks elapsed
		off := s.at - time.Duration(k)*loopInterval
		if k == 0 {
			if off < loopInterval-loopMargin {
				if initial < 0 {
					initial = s.pos
				} else if s.pos != initial {
					return fmt.Sprintf("SIG=C19/%s/udp-switch-before-first-round selection changed from u%d to u%d at %v [%v]", p.Policy, initial, s.pos, s.at, p), "", st
				}
			}
			continue
		}
		for i := range prev {
			prev[i] = i == initial
		}
		if k > 1 {
			prev = allowed(k - 1)
		}
		switch {
		case off > loopMargin && off < loopTimeout-loopMargin && roundLastsTimeout(k):
			if !prev[s.pos] {
				return fmt.Sprintf("SIG=C19/%s/udp-switch-during-round at %v (round %d running) group serves u%d, allowed %v [%v]", p.Policy, s.at, k, s.pos, prev, p), "", st
			}
		case off > loopTimeout+loopMargin && off < loopInterval-loopMargin:
			a := allowed(k)
			for i, ok := range a {
				if ok {
					st.relayedWins = st.relayedWins || relayed(p.kind(i))
					st.mismatchWins = st.mismatchWins || p.mismatch(i)
					break
				}
			}
			if !a[s.pos] {
				return fmt.Sprintf("SIG=C19/%s/udp-choice-after-round at %v (after round %d) group serves u%d, allowed %v [%v]", p.Policy, s.at, k, s.pos, a, p), "", st
			}
		}
	}
	return "", "", st
}

const loopRule = "real time on loopback: UDP group (availability / latency / min-max-latency) of 2..4 members, each carrying the DNS probe to its own scripted responder " +
	"(answer / silent / wrong-ID / SERVFAIL per round); member kinds: harness pass-through client, the repo's direct UDP client (responder listens at the probe address; at most one), " +
	"the repo's Shadowsocks-none and Shadowsocks-2022 UDP clients talking to a harness relay that forwards to the responder and reports the DNS server (IP form, IPv4 either plain or as ::ffff:a.b.c.d) as payload source; " +
	"probe address configured as 127.0.0.1, [::ffff:127.0.0.1], [::1] or as a domain name resolved by an owned resolver; timeout 1.5 s, interval 3.5 s, 2..4 rounds; selection sampled every 25 ms and judged only inside windows " +
	"500 ms away from every tick/timeout edge; cases whose probe arrival times miss the harness's timing assumptions are retried once and then counted inconclusive-timing, never failed. "

var recLoop = ev.New("C19", "udp-probe-loopback", loopRule+"Random plans (thorough). Non-trivial: >=3 members, a relayed member, first member not always answering; distinct key = plan").
	Require("policy/availability", "udp-probe-via-relayed-member", "udp-probe-domain-address", "udp-probe-ip-address", "relayed-member-expected-to-win",
		"udp-probe-ipv4-literal", "payload-source-reported-mapped", "mixed", "tcp-side-omitted")

var recLoopFixed = ev.New("C19", "udp-probe-loopback-fixed", loopRule+"Fourteen fixed plans of 2 rounds run side by side (six of them mixed groups: a TCP side of in-memory scripted clients under round-robin, random or a different probing policy, judged on its own at the same instants) (quick and thorough). Non-trivial: all; distinct key = plan").
	Require("udp-probe-via-relayed-member", "udp-probe-domain-address", "udp-probe-ip-address", "relayed-member-expected-to-win", "relayed-member-expected-to-win/domain",
		"kind/ssnone", "kind/ss2022", "kind/direct", "domain-resolved-by-owned-resolver",
		"tcp-side-omitted", "mixed/tcp=round-robin+udp=probing", "mixed/tcp=random+udp=probing", "mixed/tcp=probing+udp=probing", "mixed/tcp=round-robin+udp=min-max-latency",
		"mixed/tcp=availability+udp=min-max-latency", "mixed/tcp=min-max-latency+udp=availability", "mixed/probing+probing-different-policies", "mixed/sides-references-disagree", "mixed/tcp-round-robin-full-cycle")

// runLoopPlans runs the plans side by side (each one retried once if it fails or misses a
// real-time assumption) and records them.
func runLoopPlans(rec *ev.Recorder, plans []*loopPlan, failf func(format string, a ...any), logf func(format string, a ...any)) {
	k := len(plans)
	viols := make([]string, k)
	incs := make([]string, k)
	stats := make([]loopStats, k)
	firsts := make([]string, k) // what the first attempt said, when a retry was needed
	var wg sync.WaitGroup
	for g, p := range plans {
		wg.Add(1)
		go func() {
			defer wg.Done()
			// staggered starts: the groups' ticks (and the burst of sockets and sessions each tick causes)
			// do not all fall on the same instant
			time.Sleep(time.Duration(g) * 120 * time.Millisecond)
			viols[g], incs[g], stats[g] = runLoopPlan(p)
			if (viols[g] != "" || incs[g] != "") && !stats[g].noIPv6 {
				// a missed real-time bound is retried once before it counts
				firsts[g] = viols[g] + incs[g]
				viols[g], incs[g], stats[g] = runLoopPlan(p)
			}
		}()
	}
	wg.Wait()
	for g, p := range plans {
		if firsts[g] != "" {
			rec.Label("retried", 1)
			logf("retried once: %s [%v]", firsts[g], p)
		}
		if viols[g] != "" {
			if sig := sigOf(viols[g]); sig != "" && ev.IsKnown("C19", sig) {
				rec.KnownHit(sig)
				continue
			}
			failf("%s", viols[g])
			return
		}
		if stats[g].noIPv6 {
			rec.Label("ipv6-unavailable", 1)
			rec.Label("ipv6-literal-or-unavailable", 1)
			logf("skipped: %s [%v]", incs[g], p)
			continue
		}
		if incs[g] != "" {
			rec.Label("inconclusive-timing", 1)
			logf("inconclusive: %s [%v]", incs[g], p)
			continue
		}
		n, st := len(p.Scripts), stats[g]
		labels := []string{"policy/" + p.Policy, fmt.Sprintf("n=%d", n)}
		hasRelayed := false
		seenKind := map[string]bool{}
		for i := 0; i < n; i++ {
			kd := p.kind(i)
			if !seenKind[kd] {
				seenKind[kd] = true
				labels = append(labels, "kind/"+kd)
			}
			hasRelayed = hasRelayed || relayed(kd)
		}
		// "via relayed member" is claimed only when the relays really carried queries and answers
		if hasRelayed && st.relayedForwarded > 0 && st.relayedReturned > 0 {
			labels = append(labels, "udp-probe-via-relayed-member")
		}
		addr := "ip"
		switch p.addr() {
		case "ip4":
			labels = append(labels, "udp-probe-ipv4-literal")
		case "ip4mapped":
			labels = append(labels, "udp-probe-ipv4-mapped-literal")
		case "ip6":
			labels = append(labels, "udp-probe-ipv6-literal", "ipv6-literal-or-unavailable")
		}
		for i := 0; i < n; i++ {
			// a member that reports the other form and answers at least once (and, if relayed, whose relay returned answers)
			if p.mismatch(i) && strings.Contains(p.Scripts[i], "A") && (!relayed(p.kind(i)) || st.relayedReturned > 0) {
				if p.addr() == "ip4" {
					labels = append(labels, "payload-source-reported-mapped", "payload-source-reported-mapped/"+p.kind(i))
				} else {
					labels = append(labels, "payload-source-reported-plain-for-mapped-address")
				}
			}
		}
		if st.mismatchWins {
			if p.addr() == "ip4" {
				labels = append(labels, "healthy-mapped-member-expected-to-win", "healthy-mapped-member-expected-to-win/"+p.Policy)
			} else {
				labels = append(labels, "healthy-plain-member-expected-to-win-for-mapped-address")
			}
		}
		if p.domain() {
			addr = "domain"
			labels = append(labels, "udp-probe-domain-address")
			if st.relayDomainTargets > 0 {
				labels = append(labels, "domain-carried-through-relay")
			}
			if st.resolverQueries > 0 && seenKind["direct"] {
				labels = append(labels, "domain-resolved-by-owned-resolver")
			}
		} else {
			labels = append(labels, "udp-probe-ip-address")
		}
		if st.relayedWins {
			labels = append(labels, "relayed-member-expected-to-win", "relayed-member-expected-to-win/"+addr)
		}
		if t := p.TCP; t == nil {
			labels = append(labels, "tcp-side-omitted")
		} else {
			cls := "probing"
			if !t.probing() {
				cls = t.Policy
			}
			labels = append(labels, "mixed", "mixed/tcp="+cls+"+udp=probing", "mixed/tcp="+t.Policy+"+udp="+p.Policy)
			if t.probing() && t.Policy != p.Policy && st.tcpJudged > 0 {
				labels = append(labels, "mixed/probing+probing-different-policies")
			}
			if st.sidesDisagree {
				labels = append(labels, "mixed/sides-references-disagree")
			}
			if st.tcpFullCycle {
				labels = append(labels, "mixed/tcp-round-robin-full-cycle")
			}
			rec.Label("mixed/tcp-side-selections-judged", st.tcpJudged)
		}
		nt := n >= 3 && hasRelayed && strings.ContainsAny(p.Scripts[0], "DWF")
		if rec == recLoopFixed {
			nt = true
		}
		rec.Case(p.String(), nt, labels...)
		if nt {
			rec.Sample(map[string]any{"policy": p.Policy, "address": p.addr(), "kinds": p.Kinds, "report": p.Report, "scripts": p.Scripts,
				"relayForwarded": st.relayedForwarded, "relayReturned": st.relayedReturned, "resolverQueries": st.resolverQueries})
		}
	}
}

// TestUDPProbeLoopback smoke-tests the UDP probe socket path with the same policies (thorough tier).
func TestUDPProbeLoopback(t *testing.T) {
	if os.Getenv("VERIF_TIER") != "thorough" && os.Getenv("VERIF_C19_LOOPBACK") == "" {
		t.Skip("real-time random loopback plans run in the thorough tier only")
	}
	rapid.Check(t, func(rt *rapid.T) {
		// several groups per case run side by side to use the wall-clock time
		k := rapid.IntRange(4, 7).Draw(rt, "groups")
		plans := make([]*loopPlan, k)
		for g := range plans {
			n := rapid.IntRange(2, 4).Draw(rt, "n")
			R := rapid.IntRange(2, 4).Draw(rt, "rounds")
			p := &loopPlan{Policy: rapid.SampledFrom([]string{polAvailability, polAvailability, polLatency, polMinMax}).Draw(rt, "policy")}
			p.Addr = rapid.SampledFrom([]string{"ip4", "ip4", "ip4mapped", "ip6", "domain", "domain"}).Draw(rt, "addr")
			direct := false
			for i := 0; i < n; i++ {
				var b strings.Builder
				for r := 0; r < R; r++ {
					b.WriteByte(rapid.SampledFrom([]byte("AAAADDWF")).Draw(rt, "act"))
				}
				p.Scripts = append(p.Scripts, b.String())
				kind := rapid.SampledFrom([]string{"fake", "ssnone", "ssnone", "ss2022", "ss2022", "direct"}).Draw(rt, "kind")
				if kind == "direct" {
					if direct {
						kind = "ssnone"
					}
					direct = true
				}
				p.Kinds = append(p.Kinds, kind)
				p.Report = append(p.Report, rapid.SampledFrom([]string{"plain", "mapped"}).Draw(rt, "report"))
			}
			if rapid.Bool().Draw(rt, "tcpSide") {
				t := &loopTCP{Policy: rapid.SampledFrom([]string{polRoundRobin, polRandom, polAvailability, polLatency, polMinMax}).Draw(rt, "tcpPolicy")}
				n2 := rapid.IntRange(1, 4).Draw(rt, "tcpN")
				ids := make([]int, n2)
				for i := range ids {
					ids[i] = i
				}
				t.Order = rapid.Permutation(ids).Draw(rt, "tcpOrder")
				if t.probing() {
					for i := 0; i < n2; i++ {
						var b strings.Builder
						for r := 0; r < R; r++ {
							b.WriteByte(rapid.SampledFrom([]byte("AAD")).Draw(rt, "tcpAct"))
						}
						t.Scripts = append(t.Scripts, b.String())
					}
				}
				p.TCP = t
			}
			plans[g] = p
		}
		runLoopPlans(recLoop, plans, rt.Fatalf, rt.Logf)
	})
}

// TestUDPProbeLoopbackFixed runs fourteen fixed two-round plans side by side (about 10 s of wall clock):
// relayed members (Shadowsocks none, Shadowsocks 2022) must be recognised as healthy and chosen
// over a dead first member, with the probe address given as IP and as a domain name.
func TestUDPProbeLoopbackFixed(t *testing.T) {
	plans := []*loopPlan{
		// (round 6: four of the original plans also carry a TCP side with a different policy in the same group)
		{Policy: polAvailability, Addr: "domain", Kinds: []string{"fake", "ssnone", "ss2022"}, Scripts: []string{"DD", "AA", "AA"},
			TCP: &loopTCP{Policy: polRoundRobin, Order: []int{2, 0, 1}}},
		{Policy: polAvailability, Addr: "ip4", Kinds: []string{"ssnone", "ss2022", "fake"}, Scripts: []string{"DD", "AA", "AA"}},
		{Policy: polLatency, Addr: "domain", Kinds: []string{"direct", "ss2022", "ssnone"}, Scripts: []string{"DD", "AA", "DA"},
			TCP: &loopTCP{Policy: polRandom, Order: []int{1, 0}}},
		{Policy: polMinMax, Addr: "domain", Kinds: []string{"ss2022", "ssnone", "direct"}, Scripts: []string{"FF", "AA", "AA"},
			TCP: &loopTCP{Policy: polRoundRobin, Order: []int{0, 3, 1, 2}}},
		{Policy: polAvailability, Addr: "domain", Kinds: []string{"direct", "ssnone"}, Scripts: []string{"AA", "AA"}},
		{Policy: polAvailability, Addr: "ip4", Kinds: []string{"direct", "ssnone", "ss2022"}, Scripts: []string{"WD", "DA", "AA"}},
		// IPv4 literal, answers reported from ::ffff:127.0.0.1 by the healthy members (relays, pass-through, and the
		// direct member's dual-stack socket): they must count as answering under every policy
		{Policy: polAvailability, Addr: "ip4", Kinds: []string{"fake", "ssnone", "ss2022"}, Report: []string{"plain", "mapped", "mapped"}, Scripts: []string{"DD", "AA", "AA"},
			TCP: &loopTCP{Policy: polLatency, Order: []int{1, 0}, Scripts: []string{"AA", "DD"}}},
		{Policy: polLatency, Addr: "ip4", Kinds: []string{"ss2022", "direct", "ssnone"}, Report: []string{"plain", "", "mapped"}, Scripts: []string{"DD", "AA", "DA"}},
		{Policy: polMinMax, Addr: "ip4", Kinds: []string{"ssnone", "fake", "ss2022"}, Report: []string{"plain", "mapped", "mapped"}, Scripts: []string{"FF", "AA", "AA"}},
		// the mirror: probe address given as [::ffff:127.0.0.1], answers reported from plain 127.0.0.1
		{Policy: polAvailability, Addr: "ip4mapped", Kinds: []string{"fake", "ssnone", "ss2022"}, Report: []string{"mapped", "plain", "plain"}, Scripts: []string{"DD", "AA", "AA"}},
		{Policy: polLatency, Addr: "ip4mapped", Kinds: []string{"ss2022", "direct", "fake"}, Report: []string{"mapped", "", "plain"}, Scripts: []string{"WD", "DA", "AA"}},
		// IPv6 literal: the direct member talks to [::1] (skipped with a label where [::1] cannot be bound)
		{Policy: polAvailability, Addr: "ip6", Kinds: []string{"ssnone", "direct", "ss2022"}, Scripts: []string{"DD", "AA", "AA"}},
		// round 6: two probing sides with different policies whose references disagree on the same outcomes
		// (first member never answers, second answers in round 2 only): after round 2 availability serves the
		// second member, min-max-latency the first (everybody's worst is the timeout)
		{Policy: polMinMax, Addr: "ip4", Kinds: []string{"fake", "ssnone"}, Scripts: []string{"DD", "DA"},
			TCP: &loopTCP{Policy: polAvailability, Order: []int{0, 1}, Scripts: []string{"DD", "DA"}}},
		{Policy: polAvailability, Addr: "ip4", Kinds: []string{"ssnone", "fake"}, Scripts: []string{"DD", "DA"},
			TCP: &loopTCP{Policy: polMinMax, Order: []int{1, 0}, Scripts: []string{"DD", "DA"}}},
	}
	runLoopPlans(recLoopFixed, plans, t.Fatalf, t.Logf)
}
