package c19

// Reference policies, written from the documentation of clientgroups (ClientSelectionPolicy
// constants, ConnectivityProbeConfig) and the text of property C19:
//
//   availability     the client with the highest number of successful probes,
//   latency          the client with the lowest average latency,
//   min-max-latency  the client with the lowest worst latency,
//
// each over the retained history (the last 64 probe rounds for availability, the last 32 for the
// two latency policies), a failed probe (error or no answer within the timeout) counting as the
// timeout, and ties going to the first client in configuration order.
//
// The model works on the scripted history only; it never looks at the implementation.

const (
	polAvailability = "availability"
	polLatency      = "latency"
	polMinMax       = "min-max-latency"
	polRoundRobin   = "round-robin"
	polRandom       = "random"

	retainAvailability = 64
	retainLatency      = 32
)

func retention(policy string) int {
	if policy == polAvailability {
		return retainAvailability
	}
	return retainLatency
}

// score returns, for every configuration position, the policy's figure of merit over rounds
// [r-retain, r) of hist (hist[round][position]); lower is better for all three (availability is
// returned as the number of *failed-or-missing* successes negated: -successes).
func scores(policy string, hist [][]outcome, r, retain int, timeout int64) []int64 {
	n := len(hist[0])
	lo := r - retain
	if lo < 0 {
		lo = 0
	}
	out := make([]int64, n)
	for p := 0; p < n; p++ {
		var succ, sum, worst int64
		for k := lo; k < r; k++ {
			o := hist[k][p]
			l := timeout
			if o.Kind == kOK {
				succ++
				l = o.Lat
			}
			sum += l
			if l > worst {
				worst = l
			}
		}
		switch policy {
		case polAvailability:
			out[p] = -succ
		case polLatency:
			out[p] = sum // every client has the same number of retained rounds: lowest sum == lowest average
		default:
			out[p] = worst
		}
	}
	return out
}

// refChoice returns the configuration position the group must serve after r completed rounds,
// and whether the best figure was shared by at least two clients (a tie).
func refChoice(policy string, hist [][]outcome, r, retain int, timeout int64) (best int, tie bool) {
	sc := scores(policy, hist, r, retain, timeout)
	for p := 1; p < len(sc); p++ {
		if sc[p] < sc[best] {
			best = p
		}
	}
	for p := range sc {
		if p != best && sc[p] == sc[best] {
			tie = true
		}
	}
	return best, tie
}
