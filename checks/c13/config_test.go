package c13

import (
	"encoding/json"
	"fmt"
	"time"
)

// ---- JSON configuration of the two service instances ------------------------------------------

type obj = map[string]any

func keyFor(tag string, aes256 bool) []byte {
	n := 16
	if aes256 {
		n = 32
	}
	b := make([]byte, n)
	copy(b, []byte(tag+"-0123456789abcdef0123456789abcdef"))
	return b
}

func ssProto(aes256 bool) string {
	if aes256 {
		return "2022-blake3-aes-256-gcm"
	}
	return "2022-blake3-aes-128-gcm"
}

func userName(i int) string { return fmt.Sprintf("c%d", i) }
func userPass(i int) string { return fmt.Sprintf("pw-c%d", i) }

const (
	chainUser = "chainuser"
	chainPass = "chainpw"
)

func apiCfg() obj {
	return obj{"enabled": true, "listeners": []obj{{"network": "tcp", "address": "127.0.0.1:0"}}}
}

func listener(t time.Duration, bufSize int, disable bool) obj {
	l := obj{"network": "tcp4", "address": "127.0.0.1:0", "initialPayloadWaitTimeout": t.String()}
	if bufSize != 0 {
		l["initialPayloadWaitBufferSize"] = bufSize
	}
	if disable {
		l["disableInitialPayloadWait"] = true
	}
	return l
}

func directClient(tfo bool) obj {
	return obj{"name": "direct", "protocol": "direct", "network": "ip4", "enableTCP": true, "dialerTFO": tfo, "tcpFastOpenFallback": true}
}

// backConfig: the second instance: one server speaking c.Client's protocol, dialling targets directly.
func backConfig(c casePlan) []byte {
	srv := obj{"name": "back", "tcpListeners": []obj{listener(time.Duration(c.BackTMs)*time.Millisecond, 0, c.BackDisableWait)}}
	switch c.Client {
	case "socks5":
		srv["protocol"] = "socks5"
		if c.ChainAuth {
			srv["socks5"] = obj{"enableUserPassAuth": true, "users": []obj{{"username": chainUser, "password": chainPass}}}
		}
	case "http":
		srv["protocol"] = "http"
		if c.ChainAuth {
			srv["http"] = obj{"enableBasicAuth": true, "users": []obj{{"username": chainUser, "password": chainPass}}}
		}
	case "none":
		srv["protocol"] = "none"
	case "ss2022":
		srv["protocol"] = ssProto(c.AES256)
		srv["psk"] = keyFor("backpsk", c.AES256)
	}
	cfg := obj{
		"servers": []obj{srv},
		"clients": []obj{directClient(c.DialerTFO)},
		"api":     apiCfg(),
	}
	b, _ := json.Marshal(cfg)
	return b
}

// frontNames returns the server names of the front instance: one server, except for the
// tunnel ("direct") protocol whose destination is fixed per server.
func frontNames(c casePlan) []string {
	if c.Server != "direct" {
		return []string{"front"}
	}
	out := make([]string, len(c.Conns))
	for i := range out {
		out[i] = fmt.Sprintf("front-%d", i)
	}
	return out
}

// frontConfig: the instance under test. targets[i] is the textual destination of connection i.
// frontServers builds the server objects of the instance under test.
func frontServers(c casePlan, targets []string, upskPath string) []obj {
	var servers []obj
	for si, name := range frontNames(c) {
		srv := obj{"name": name, "tcpListeners": []obj{listener(c.T(), c.BufSize, c.DisableWait)}}
		switch c.Server {
		case "socks5":
			srv["protocol"] = "socks5"
			if c.Auth {
				var us []obj
				for i := range c.Conns {
					us = append(us, obj{"username": userName(i), "password": userPass(i)})
				}
				srv["socks5"] = obj{"enableUserPassAuth": true, "users": us}
			}
		case "http":
			srv["protocol"] = "http"
			if c.Auth {
				var us []obj
				for i := range c.Conns {
					us = append(us, obj{"username": userName(i), "password": userPass(i)})
				}
				srv["http"] = obj{"enableBasicAuth": true, "users": us}
			}
		case "none":
			srv["protocol"] = "none"
		case "direct":
			srv["protocol"] = "direct"
			srv["tunnelRemoteAddress"] = targets[si]
		case "ss2022":
			srv["protocol"] = ssProto(c.AES256)
			srv["psk"] = keyFor("frontpsk", c.AES256)
			if c.Auth {
				srv["uPSKStorePath"] = upskPath
			}
		}
		servers = append(servers, srv)
	}
	return servers
}

func frontConfig(c casePlan, targets []string, ports []uint16, backAddr, upskPath string) []byte {
	servers := frontServers(c, targets, upskPath)

	var clients []obj
	defName := "direct"
	if !c.chained() {
		clients = append(clients, directClient(c.DialerTFO))
	} else {
		defName = "chain"
		cl := obj{"name": "chain", "endpoint": backAddr, "network": "ip4", "enableTCP": true}
		switch c.Client {
		case "socks5":
			cl["protocol"] = "socks5"
			if c.ChainAuth {
				cl["socks5"] = obj{"username": chainUser, "password": chainPass, "enableUserPassAuth": true}
			}
		case "http":
			cl["protocol"] = "http"
			if c.ChainAuth {
				cl["http"] = obj{"username": chainUser, "password": chainPass, "useBasicAuth": true}
			}
		case "none":
			cl["protocol"] = "none"
		case "ss2022":
			cl["protocol"] = ssProto(c.AES256)
			cl["psk"] = keyFor("backpsk", c.AES256)
		}
		clients = append(clients, cl, directClient(c.DialerTFO))
	}

	routes := []obj{
		{"name": "rej-domain", "toDomains": []string{rejectDomain}, "client": "reject"},
		{"name": "rej-ip", "toPrefixes": []string{rejectIP + "/32"}, "disableNameResolutionForIPRules": true, "client": "reject"},
	}
	if c.chained() {
		var direct []uint16
		for i, p := range c.Conns {
			if p.ViaDirect {
				direct = append(direct, ports[i])
			}
		}
		if len(direct) > 0 {
			routes = append(routes, obj{"name": "to-direct", "network": "tcp", "toPorts": direct, "client": "direct"})
		}
	}

	cfg := obj{
		"servers": servers,
		"clients": clients,
		"router": obj{
			"defaultTCPClientName": defName,
			"routes":               routes,
		},
		"api": apiCfg(),
	}
	b, _ := json.Marshal(cfg)
	return b
}

func upskStore(c casePlan) []byte {
	m := map[string][]byte{}
	for i := range c.Conns {
		m[userName(i)] = keyFor("upsk-"+userName(i), c.AES256)
	}
	b, _ := json.Marshal(m)
	return b
}

const (
	rejectDomain = "rejected.test"
	rejectIP     = "127.13.99.99"
)
