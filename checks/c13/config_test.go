package c13

import (
	"encoding/json"
	"fmt"
	"os"
	"time"

	"verif/internal/tlsx"
)

// ---- JSON configuration of the two service instances ------------------------------------------

type obj = map[string]any

func keyFor(tag string, aes256 bool) []byte {
	n := 16
	if aes256 {
		n = 32
	}
	b := make([]byte, n)
	copy(b, []byte(tag+"-0123456789abcdef0123456789abcdef"))
	return b
}

func ssProto(aes256 bool) string {
	if aes256 {
		return "2022-blake3-aes-256-gcm"
	}
	return "2022-blake3-aes-128-gcm"
}

func userName(i int) string { return fmt.Sprintf("c%d", i) }
func userPass(i int) string { return fmt.Sprintf("pw-c%d", i) }

const (
	chainUser = "chainuser"
	chainPass = "chainpw"
)

func apiCfg() obj {
	return obj{"enabled": true, "listeners": []obj{{"network": "tcp", "address": "127.0.0.1:0"}}}
}

func listener(t time.Duration, bufSize int, disable bool) obj {
	l := obj{"network": "tcp4", "address": "127.0.0.1:0", "initialPayloadWaitTimeout": t.String()}
	if bufSize != 0 {
		l["initialPayloadWaitBufferSize"] = bufSize
	}
	if disable {
		l["disableInitialPayloadWait"] = true
	}
	return l
}

func directClient(tfo bool) obj {
	return obj{"name": "direct", "protocol": "direct", "network": "ip4", "enableTCP": true, "dialerTFO": tfo, "tcpFastOpenFallback": true}
}

// ---- throw-away certificates (internal/tlsx), written to files like an operator would ----------

type certFiles struct {
	ca          *tlsx.CA
	front, back *tlsx.Leaf
}

const (
	frontTLSName = "front.c13.test"
	backTLSName  = "back.c13.test"
)

// tlsFiles is set by every test function before it runs cases (setupCerts).
var tlsFiles *certFiles

func setupCerts(dir string) error {
	ca, err := tlsx.NewCA("c13 harness CA")
	if err != nil {
		return err
	}
	cf := &certFiles{ca: ca}
	if cf.front, err = ca.Issue("front", frontTLSName, "127.0.0.1"); err != nil {
		return err
	}
	if cf.back, err = ca.Issue("back", backTLSName, "127.0.0.1"); err != nil {
		return err
	}
	tag := fmt.Sprintf("c13-%d", os.Getpid())
	if err = ca.WriteFiles(dir, tag+"-ca"); err != nil {
		return err
	}
	if err = cf.front.WriteFiles(dir, tag+"-front"); err != nil {
		return err
	}
	if err = cf.back.WriteFiles(dir, tag+"-back"); err != nil {
		return err
	}
	tlsFiles = cf
	return nil
}

// certsCfg is the top-level "certs" object of service.Config (tlscerts.Config).
func certsCfg() obj {
	return obj{
		"certLists": []obj{
			{"name": "front-cert", "certs": []obj{{"certPath": tlsFiles.front.CertPath, "keyPath": tlsFiles.front.KeyPath}}},
			{"name": "back-cert", "certs": []obj{{"certPath": tlsFiles.back.CertPath, "keyPath": tlsFiles.back.KeyPath}}},
		},
		"x509CertPools": []obj{{"name": "harness-ca", "certPaths": []string{tlsFiles.ca.CertPath}}},
	}
}

// backConfig: the second instance: one server speaking c.Client's protocol, dialling targets directly.
func backConfig(c casePlan) []byte {
	srv := obj{"name": "back", "tcpListeners": []obj{listener(time.Duration(c.BackTMs)*time.Millisecond, 0, c.BackDisableWait)}}
	switch c.Client {
	case "socks5":
		srv["protocol"] = "socks5"
		if c.ChainAuth {
			srv["socks5"] = obj{"enableUserPassAuth": true, "users": []obj{{"username": chainUser, "password": chainPass}}}
		}
	case "http":
		srv["protocol"] = "http"
		h := obj{}
		if c.ChainAuth {
			h["enableBasicAuth"], h["users"] = true, []obj{{"username": chainUser, "password": chainPass}}
		}
		if c.ChainTLS {
			h["enableTLS"], h["certList"] = true, "back-cert"
		}
		if len(h) > 0 {
			srv["http"] = h
		}
	case "none":
		srv["protocol"] = "none"
	case "ss2022":
		srv["protocol"] = ssProto(c.AES256)
		srv["psk"] = keyFor("backpsk", c.AES256)
	}
	cfg := obj{
		"servers": []obj{srv},
		"clients": []obj{directClient(c.DialerTFO)},
		"api":     apiCfg(),
	}
	if c.Client == "http" && c.ChainTLS {
		cfg["certs"] = certsCfg()
	}
	b, _ := json.Marshal(cfg)
	return b
}

// frontNames returns the server names of the front instance: one server, except for the
// tunnel ("direct") protocol whose destination is fixed per server.
//
// An ss2022 server's fallback destination is fixed per server too: the first visitor shares the
// server "front" with the case's genuine Shadowsocks clients, every further visitor gets a
// server of its own ("front-v<i>") with the same keys.
func frontNames(c casePlan) []string {
	if c.Server == "direct" {
		out := make([]string, len(c.Conns))
		for i := range out {
			out[i] = fmt.Sprintf("front-%d", i)
		}
		return out
	}
	out := []string{"front"}
	first := true
	for i := range c.Conns {
		if c.isVisitor(i) {
			if !first {
				out = append(out, fmt.Sprintf("front-v%d", i))
			}
			first = false
		}
	}
	return out
}

// frontServerOf names the front server connection i connects to.
func frontServerOf(c casePlan, i int) string {
	if c.Server == "direct" {
		return fmt.Sprintf("front-%d", i)
	}
	if c.isVisitor(i) {
		for j := 0; j < i; j++ {
			if c.isVisitor(j) {
				return fmt.Sprintf("front-v%d", i)
			}
		}
	}
	return "front"
}

// fallbackTargetOf returns the fallback destination of the named ss2022 front server: the target
// of the visitor that uses it, or - when no visitor of this case does - a destination nobody is
// ever sent to (the option is still configured and genuine clients pass through the server).
func fallbackTargetOf(c casePlan, name string, targets []string) string {
	for i := range c.Conns {
		if c.isVisitor(i) && frontServerOf(c, i) == name {
			return targets[i]
		}
	}
	return "127.13.99.1:9"
}

// frontConfig: the instance under test. targets[i] is the textual destination of connection i.
// frontServers builds the server objects of the instance under test.
func frontServers(c casePlan, targets []string, upskPath string) []obj {
	var servers []obj
	for si, name := range frontNames(c) {
		srv := obj{"name": name, "tcpListeners": []obj{listener(c.T(), c.BufSize, c.DisableWait)}}
		switch c.Server {
		case "socks5":
			srv["protocol"] = "socks5"
			if c.Auth {
				var us []obj
				for i := range c.Conns {
					us = append(us, obj{"username": userName(i), "password": userPass(i)})
				}
				srv["socks5"] = obj{"enableUserPassAuth": true, "users": us}
			}
		case "http":
			srv["protocol"] = "http"
			h := obj{}
			if c.Auth {
				var us []obj
				for i := range c.Conns {
					us = append(us, obj{"username": userName(i), "password": userPass(i)})
				}
				h["enableBasicAuth"], h["users"] = true, us
			}
			if c.TLS {
				h["enableTLS"], h["certList"] = true, "front-cert"
			}
			if len(h) > 0 {
				srv["http"] = h
			}
		case "none":
			srv["protocol"] = "none"
		case "direct":
			srv["protocol"] = "direct"
			srv["tunnelRemoteAddress"] = targets[si]
		case "ss2022":
			srv["protocol"] = ssProto(c.AES256)
			srv["psk"] = keyFor("frontpsk", c.AES256)
			if c.Auth {
				srv["uPSKStorePath"] = upskPath
			}
			if c.Fallback {
				srv["unsafeFallbackAddress"] = fallbackTargetOf(c, name, targets)
			}
			if c.AllowSegmented {
				srv["allowSegmentedFixedLengthHeader"] = true
			}
		}
		servers = append(servers, srv)
	}
	return servers
}

func frontConfig(c casePlan, targets []string, ports []uint16, backAddr, upskPath string) []byte {
	servers := frontServers(c, targets, upskPath)

	var clients []obj
	defName := "direct"
	if !c.chained() {
		clients = append(clients, directClient(c.DialerTFO))
	} else {
		defName = "chain"
		cl := obj{"name": "chain", "endpoint": backAddr, "network": "ip4", "enableTCP": true}
		switch c.Client {
		case "socks5":
			cl["protocol"] = "socks5"
			if c.ChainAuth {
				cl["socks5"] = obj{"username": chainUser, "password": chainPass, "enableUserPassAuth": true}
			}
		case "http":
			cl["protocol"] = "http"
			h := obj{}
			if c.ChainAuth {
				h["username"], h["password"], h["useBasicAuth"] = chainUser, chainPass, true
			}
			if c.ChainTLS {
				h["useTLS"], h["rootCAs"] = true, "harness-ca"
				if c.ChainServerName {
					h["serverName"] = backTLSName
				} // else inferred from the endpoint address: 127.0.0.1, an IP SAN of the certificate
			}
			if len(h) > 0 {
				cl["http"] = h
			}
		case "none":
			cl["protocol"] = "none"
		case "ss2022":
			cl["protocol"] = ssProto(c.AES256)
			cl["psk"] = keyFor("backpsk", c.AES256)
		}
		clients = append(clients, cl, directClient(c.DialerTFO))
	}

	routes := []obj{
		{"name": "rej-domain", "toDomains": []string{rejectDomain}, "client": "reject"},
		{"name": "rej-ip", "toPrefixes": []string{rejectIP + "/32"}, "disableNameResolutionForIPRules": true, "client": "reject"},
	}
	if c.chained() {
		var direct []uint16
		for i, p := range c.Conns {
			if p.ViaDirect {
				direct = append(direct, ports[i])
			}
		}
		if len(direct) > 0 {
			routes = append(routes, obj{"name": "to-direct", "network": "tcp", "toPorts": direct, "client": "direct"})
		}
	}

	cfg := obj{
		"servers": servers,
		"clients": clients,
		"router": obj{
			"defaultTCPClientName": defName,
			"routes":               routes,
		},
		"api": apiCfg(),
	}
	if (c.Server == "http" && c.TLS) || (c.Client == "http" && c.ChainTLS) {
		cfg["certs"] = certsCfg()
	}
	b, _ := json.Marshal(cfg)
	return b
}

func upskStore(c casePlan) []byte {
	m := map[string][]byte{}
	for i := range c.Conns {
		m[userName(i)] = keyFor("upsk-"+userName(i), c.AES256)
	}
	b, _ := json.Marshal(m)
	return b
}

const (
	rejectDomain = "rejected.test"
	rejectIP     = "127.13.99.99"
)
