package c13

import (
	"encoding/json"
	"fmt"
	"os"
	"path/filepath"
	"strings"
	"testing"
	"time"

	"pgregory.net/rapid"

	"verif/internal/ev"
	"verif/internal/tcpsvc"
)

// ---- client groups as the routed client ----------------------------------------------------------
//
// The front instance routes (by default client or by a route) to a top-level client group whose
// members are chain clients, each pointing at its own server of the second instance
// (back-0, back-1, ...), so the member that served a connection shows in that server's
// statistics. Connections run one after the other; after each one the harness reads all member
// statistics and attributes the connection.
//
// Oracle (clientgroups package documentation: "uses one of the client selection policies to
// choose a client from the group for each connection"):
//   - each connection is served by exactly one member and its bytes are charged exactly once
//     there and exactly once on the front server;
//   - round-robin: consecutive connections are served by consecutive members in configuration
//     order, cyclically (the starting member is not pinned);
//   - random: some member (nothing else can be observed from outside);
//   - the byte ledger / EOF / reset oracle of runConn for every connection.

type groupPlan struct {
	Server    string   `json:"server"`  // front server protocol (not the tunnel: its destination is per server)
	Policy    string   `json:"policy"`  // round-robin | random
	Members   []string `json:"members"` // protocol of each member / of back-i
	ViaRoute  bool     `json:"via_route,omitempty"`
	TMs       int      `json:"t_ms"`
	DialerTFO bool     `json:"dialer_tfo,omitempty"`
	Auth      bool     `json:"auth,omitempty"`
	AES256    bool     `json:"aes256,omitempty"`
	// the instance runs with a debug-level logger (encoded to io.Discard)
	DebugFront bool       `json:"debug_front,omitempty"`
	DebugBack  bool       `json:"debug_back,omitempty"`
	Conns      []connPlan `json:"conns"`
}

func (g groupPlan) casePlan() casePlan {
	return casePlan{Server: g.Server, Client: "group", TMs: g.TMs, DialerTFO: g.DialerTFO, Auth: g.Auth, AES256: g.AES256,
		BackTMs: 40, Conns: g.Conns}
}

func drawGroup(rt *rapid.T) groupPlan {
	var g groupPlan
	g.Server = rapid.SampledFrom([]string{"socks5", "http", "none", "ss2022"}).Draw(rt, "server")
	g.Policy = rapid.SampledFrom([]string{"round-robin", "random"}).Draw(rt, "policy")
	n := rapid.IntRange(2, 3).Draw(rt, "members")
	for i := 0; i < n; i++ {
		g.Members = append(g.Members, rapid.SampledFrom([]string{"socks5", "none", "http", "ss2022"}).Draw(rt, "member-proto"))
	}
	g.ViaRoute = rapid.Bool().Draw(rt, "via-route")
	g.TMs = rapid.SampledFrom([]int{40, 60}).Draw(rt, "t-ms")
	g.DialerTFO = rapid.Bool().Draw(rt, "dialer-tfo")
	g.Auth = rapid.Bool().Draw(rt, "auth")
	g.AES256 = rapid.Bool().Draw(rt, "aes256")
	g.DebugFront = rapid.Bool().Draw(rt, "debug-front")
	g.DebugBack = rapid.Bool().Draw(rt, "debug-back")
	k := rapid.IntRange(2*n+1, 9).Draw(rt, "conns") // at least two full cycles and one more
	for i := 0; i < k; i++ {
		p := drawConn(rt, 1440, false)
		if p.Target != tkOKIP && p.Target != tkOKDomain {
			p.Target = tkOKIP
		}
		p.ViaDirect = false
		if p.RestAt == raQuad {
			p.RestAt = raDouble
		}
		g.Conns = append(g.Conns, p)
	}
	return g
}

func groupBackConfig(g groupPlan) []byte {
	var servers []obj
	for i, proto := range g.Members {
		srv := obj{"name": fmt.Sprintf("back-%d", i), "tcpListeners": []obj{listener(40*time.Millisecond, 0, false)}}
		switch proto {
		case "ss2022":
			srv["protocol"] = ssProto(g.AES256)
			srv["psk"] = keyFor(fmt.Sprintf("backpsk%d", i), g.AES256)
		default:
			srv["protocol"] = proto
		}
		servers = append(servers, srv)
	}
	b, _ := json.Marshal(obj{"servers": servers, "clients": []obj{directClient(g.DialerTFO)}, "api": apiCfg()})
	return b
}

func groupFrontConfig(g groupPlan, taddrs []string, ports []uint16, backAddrs []string, upskPath string) []byte {
	var clients []obj
	var names []string
	for i, proto := range g.Members {
		name := fmt.Sprintf("m%d", i)
		names = append(names, name)
		cl := obj{"name": name, "endpoint": backAddrs[i], "network": "ip4", "enableTCP": true}
		switch proto {
		case "ss2022":
			cl["protocol"] = ssProto(g.AES256)
			cl["psk"] = keyFor(fmt.Sprintf("backpsk%d", i), g.AES256)
		default:
			cl["protocol"] = proto
		}
		clients = append(clients, cl)
	}
	router := obj{"defaultTCPClientName": "g"}
	if g.ViaRoute {
		router = obj{
			"defaultTCPClientName": "reject",
			"routes":               []obj{{"name": "to-group", "network": "tcp", "toPorts": ports, "client": "g"}},
		}
	}
	cfg := obj{
		"servers":      frontServers(g.casePlan(), taddrs, upskPath),
		"clients":      clients,
		"clientGroups": []obj{{"name": "g", "tcp": obj{"policy": g.Policy, "clients": names}}},
		"router":       router,
		"api":          apiCfg(),
	}
	b, _ := json.Marshal(cfg)
	return b
}

type groupResult struct {
	violation  string
	liveness   bool
	harnessErr string
	served     []int // member index per connection
	conns      []connResult
}

func readBackStats(back *tcpsvc.Instance, n int) ([]apiTraffic, error) {
	out := make([]apiTraffic, n)
	for i := range out {
		code, b, err := back.APIGet(fmt.Sprintf("/servers/back-%d/stats", i))
		if err != nil || code != 200 {
			return nil, fmt.Errorf("GET back-%d stats: status %d err %v", i, code, err)
		}
		var st apiStats
		if err := json.Unmarshal(b, &st); err != nil {
			return nil, fmt.Errorf("GET back-%d stats: %v body %q", i, err, b)
		}
		out[i] = st.apiTraffic
	}
	return out, nil
}

func runGroupCase(g groupPlan, workDir string) (res groupResult) {
	c := g.casePlan()
	n := len(g.Members)
	res.conns = make([]connResult, len(g.Conns))

	targets, ports, herr := makeTargets(g.Conns)
	defer closeTargets(targets)
	if herr != "" {
		res.harnessErr = herr
		return
	}
	taddrs := make([]string, len(targets))
	for i := range targets {
		taddrs[i] = targets[i].addr
	}
	back, err := tcpsvc.StartWith(groupBackConfig(g), n, true, tcpsvc.Options{DebugLog: g.DebugBack})
	if err != nil {
		res.harnessErr = "start back instance: " + err.Error()
		return
	}
	defer back.Stop()
	backAddrs := make([]string, n)
	for i := range backAddrs {
		backAddrs[i] = back.TCPAddr[fmt.Sprintf("back-%d", i)]
	}
	upskPath := ""
	if g.Server == "ss2022" && g.Auth {
		upskPath = filepath.Join(workDir, fmt.Sprintf("upsks-group-%d.json", os.Getpid()))
		if err := os.WriteFile(upskPath, upskStore(c), 0o644); err != nil {
			res.harnessErr = "write uPSK store: " + err.Error()
			return
		}
		defer os.Remove(upskPath)
	}
	front, err := tcpsvc.StartWith(groupFrontConfig(g, taddrs, ports, backAddrs, upskPath), 1, true, tcpsvc.Options{DebugLog: g.DebugFront})
	if err != nil {
		res.harnessErr = "start front instance: " + err.Error()
		return
	}
	defer front.Stop()

	prev := make([]apiTraffic, n)
	for j := range g.Conns {
		runConn(c, j, front.TCPAddr["front"], targets[j], &res.conns[j])
		r := res.conns[j]
		if r.violation != "" {
			res.violation = fmt.Sprintf("%s\n  connection %d (served so far by members %v): %s\n  front log tail:\n%s", r.violation, j, res.served, js(g.Conns[j]), indent(front.LogTail(6)))
			res.liveness = r.liveness
			return
		}
		// which member served it? wait until the second instance has recorded j+1 sessions in total
		ended := copiesEnded(back, j+1)
		deadline := time.Now().Add(liveBound)
		final := false
		var cur []apiTraffic
		for {
			cur, err = readBackStats(back, n)
			if err != nil {
				res.harnessErr = err.Error()
				return
			}
			var total uint64
			for _, t := range cur {
				total += t.TCPSessions
			}
			if total >= uint64(j+1) {
				break
			}
			if final {
				res.violation = fmt.Sprintf("SIG=C13/group-session-missing connection %d was relayed end to end but no member's upstream recorded it (members' sessions %v) although the second instance has logged the end of %d copy phases", j, sessionsOf(cur), j+1)
				return
			}
			if ended() {
				final = true
				continue
			}
			if time.Now().After(deadline) {
				res.violation, res.liveness = fmt.Sprintf("SIG=C13/group-session-missing connection %d: members' sessions %v after %s", j, sessionsOf(cur), liveBound), true
				return
			}
			time.Sleep(2 * time.Millisecond)
		}
		served := -1
		for i := range cur {
			d := sub(cur[i], prev[i])
			if d == (apiTraffic{}) {
				continue
			}
			w := want{}
			w.add(r)
			if served != -1 || !w.matches(d) {
				res.violation = fmt.Sprintf("SIG=C13/group-not-charged-exactly-once connection %d: member statistics changed by %+v (before %v, after %v); ledger for this connection %v", j, deltas(cur, prev), prev, cur, w)
				return
			}
			served = i
		}
		if served == -1 {
			res.violation = fmt.Sprintf("SIG=C13/group-not-charged-exactly-once connection %d: no member's statistics changed (%v)", j, cur)
			return
		}
		res.served = append(res.served, served)
		prev = cur
	}

	// selection policy
	if g.Policy == "round-robin" {
		for j := 1; j < len(res.served); j++ {
			if res.served[j] != (res.served[j-1]+1)%n {
				res.violation = fmt.Sprintf("SIG=C13/group-round-robin-order consecutive connections were served by members %v of %d; round-robin must walk the members cyclically in configuration order", res.served, n)
				return
			}
		}
	}

	// front statistics: every connection exactly once, for the right user
	users := map[string]want{}
	var anon want
	for i, r := range res.conns {
		if g.Auth && hasUsers(g.Server) {
			w := users[userName(i)]
			w.add(r)
			users[userName(i)] = w
		} else {
			anon.add(r)
		}
	}
	if v, live := checkServerStats(front, "front", users, anon, copiesEnded(front, len(res.conns))); v != "" {
		res.violation, res.liveness = v+"\n  (front instance, client group case)", live
		return
	}
	if !front.Stop() || !back.Stop() {
		res.violation, res.liveness = "SIG=C13/stop-failed an instance did not stop cleanly within 20s", true
	}
	return
}

func sessionsOf(ts []apiTraffic) []uint64 {
	out := make([]uint64, len(ts))
	for i, t := range ts {
		out[i] = t.TCPSessions
	}
	return out
}

func deltas(cur, prev []apiTraffic) []apiTraffic {
	out := make([]apiTraffic, len(cur))
	for i := range cur {
		out[i] = sub(cur[i], prev[i])
	}
	return out
}

var recGroup = ev.New("C13", "client-group",
	"rapid: the front instance (server in {socks5, http, none, ss2022}, optional per-connection users) routes - by default client or by a port route with default reject - to a top-level client group "+
		"(policy round-robin or random) of 2-3 chain clients with independently drawn protocols {socks5, none, http, ss2022}, each pointing at its own server of the second instance; "+
		"2n+1..9 consecutive connections with the connection plans of the relay check (all targets working; orderly closes and resets; late upload). "+
		"Oracle: after every connection exactly one member's upstream statistics change, by that connection's ledger; round-robin: served members are consecutive in configuration order, cyclically; "+
		"front statistics charge every connection once to the right user; plus the per-connection ledger/EOF oracle. "+
		"Evaluation = one case. Non-trivial: round-robin (wrap-around observed by construction) or random with >=2 distinct members observed; distinct key = configuration + served sequence").
	Require("policy:round-robin", "policy:random", "members:2", "members:3", "group-as-default", "group-via-route", "heterogeneous-members",
		"front-logger-debug:true", "front-logger-debug:false", "back-logger-debug:true", "back-logger-debug:false")

func TestRelayClientGroup(t *testing.T) {
	dir := workDir(t)
	journal := filepath.Join(dir, fmt.Sprintf("journal-c13-group-%d.json", os.Getpid()))
	rapid.Check(t, func(rt *rapid.T) {
		g := drawGroup(rt)
		_ = os.WriteFile(journal, []byte(js(g)), 0o644)
		res := runGroupCase(g, dir)
		retried := false
		if res.harnessErr != "" || (res.violation != "" && res.liveness) {
			sig := "harness"
			if res.harnessErr == "" {
				sig = strings.TrimPrefix(strings.Fields(res.violation)[0], "SIG=C13/")
			}
			recGroup.Label("first-try-retried:"+sig, 1)
			res, retried = runGroupCase(g, dir), true
		}
		_ = os.Remove(journal)
		if res.harnessErr != "" {
			rt.Fatalf("SIG=C13/harness-error (not a finding about the relay) %s\n  case: %s", res.harnessErr, js(g))
		}
		if res.violation != "" {
			rt.Fatalf("%s\n  case: %s", res.violation, js(g))
		}
		distinct := map[int]bool{}
		for _, m := range res.served {
			distinct[m] = true
		}
		labels := []string{"policy:" + g.Policy, fmt.Sprintf("members:%d", len(g.Members)), "server:" + g.Server}
		labels = append(labels, fmt.Sprintf("front-logger-debug:%v", g.DebugFront), fmt.Sprintf("back-logger-debug:%v", g.DebugBack))
		if g.ViaRoute {
			labels = append(labels, "group-via-route")
		} else {
			labels = append(labels, "group-as-default")
		}
		for _, m := range g.Members[1:] {
			if m != g.Members[0] {
				labels = append(labels, "heterogeneous-members")
				break
			}
		}
		if retried {
			labels = append(labels, "case-retried")
		}
		for _, r := range res.conns {
			for _, l := range r.labels {
				if l == "session-ended-by-reset-with-bytes-relayed" || l == "half-close-then-opposite-flows" {
					labels = append(labels, "conn:"+l)
				}
			}
		}
		nt := g.Policy == "round-robin" || len(distinct) >= 2
		key := fmt.Sprintf("%s %s %v route=%v auth=%v served=%v", g.Server, g.Policy, g.Members, g.ViaRoute, g.Auth, res.served)
		recGroup.Case(key, nt, labels...)
		if nt {
			recGroup.Sample(map[string]any{"server": g.Server, "policy": g.Policy, "members": g.Members, "via_route": g.ViaRoute, "served": res.served, "connections": len(g.Conns)})
		}
	})
}
